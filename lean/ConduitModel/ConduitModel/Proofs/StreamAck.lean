import ConduitModel.Model.StreamAck
import ConduitModel.Spec.StreamMonitor

/-
Invariants of the Ack component (every reachable state, i.e. every interleaving of every
topology and plugin script) and the monitor theorems they give.
-/
set_option linter.unusedSimpArgs false
set_option linter.unusedVariables false

namespace Conduit.Stream

/-! ### field lemmas of the small effect functions -/

section fields
variable (a : Ack) (d s i : Nat) (b : Bool) (x : DAck)

@[simp] theorem release_tickets : (a.release s b).tickets = a.tickets := by unfold Ack.release; rfl
@[simp] theorem release_reads : (a.release s b).reads = a.reads := by unfold Ack.release; rfl
@[simp] theorem release_log : (a.release s b).log = a.log := by unfold Ack.release; rfl
@[simp] theorem release_win : (a.release s b).win = a.win := by unfold Ack.release; rfl
@[simp] theorem release_broken : (a.release s b).broken = a.broken := by unfold Ack.release; rfl
@[simp] theorem release_ost : (a.release s b).ost = a.ost := by unfold Ack.release; rfl
@[simp] theorem release_cl : (a.release s b).cl = a.cl := by unfold Ack.release; rfl
@[simp] theorem release_rem : (a.release s b).rem = a.rem := by unfold Ack.release; rfl
@[simp] theorem release_fanned : (a.release s b).fanned = a.fanned := by unfold Ack.release; rfl
@[simp] theorem release_filt : (a.release s b).filt = a.filt := by unfold Ack.release; rfl
@[simp] theorem release_clFilt : (a.release s b).clFilt = a.clFilt := by unfold Ack.release; rfl
@[simp] theorem release_buf : (a.release s b).buf = a.buf := by unfold Ack.release; rfl
@[simp] theorem release_aq : (a.release s b).aq = a.aq := by unfold Ack.release; rfl
@[simp] theorem release_M : (a.release s b).M = a.M := by unfold Ack.release; rfl
@[simp] theorem release_panicked : (a.release s b).panicked = a.panicked := by unfold Ack.release; rfl
@[simp] theorem release_released : (a.release s b).released = upd a.released s (a.released s + 1) := by
  unfold Ack.release; rfl
@[simp] theorem release_hst : (a.release s b).hst = upd a.hst s .idle := by unfold Ack.release; rfl
theorem release_fail : (a.release s b).fail = if b then upd a.fail s true else a.fail := by
  unfold Ack.release; rfl

macro "clone_field" : tactic =>
  `(tactic| (first
    | (unfold Ack.cloneAck; simp only []; split <;> (try split) <;> rfl)
    | (unfold Ack.cloneNack; simp only []; split <;> rfl)))

@[simp] theorem cloneAck_tickets : (a.cloneAck d s i).tickets = a.tickets := by clone_field
@[simp] theorem cloneAck_released : (a.cloneAck d s i).released = a.released := by clone_field
@[simp] theorem cloneAck_fail : (a.cloneAck d s i).fail = a.fail := by clone_field
@[simp] theorem cloneAck_hst : (a.cloneAck d s i).hst = a.hst := by clone_field
@[simp] theorem cloneAck_reads : (a.cloneAck d s i).reads = a.reads := by clone_field
@[simp] theorem cloneAck_log : (a.cloneAck d s i).log = a.log := by clone_field
@[simp] theorem cloneAck_win : (a.cloneAck d s i).win = a.win := by clone_field
@[simp] theorem cloneAck_broken : (a.cloneAck d s i).broken = a.broken := by clone_field
@[simp] theorem cloneAck_fanned : (a.cloneAck d s i).fanned = a.fanned := by clone_field
@[simp] theorem cloneAck_filt : (a.cloneAck d s i).filt = a.filt := by clone_field
@[simp] theorem cloneAck_clFilt : (a.cloneAck d s i).clFilt = a.clFilt := by clone_field
@[simp] theorem cloneAck_buf : (a.cloneAck d s i).buf = a.buf := by clone_field
@[simp] theorem cloneAck_aq : (a.cloneAck d s i).aq = a.aq := by clone_field
@[simp] theorem cloneAck_wdead : (a.cloneAck d s i).wdead = a.wdead := by clone_field
@[simp] theorem cloneAck_M : (a.cloneAck d s i).M = a.M := by clone_field
@[simp] theorem cloneAck_cl : (a.cloneAck d s i).cl = upd2 a.cl s i ((a.cl s i).set d .acked) := by clone_field
@[simp] theorem cloneAck_rem : (a.cloneAck d s i).rem = upd2 a.rem s i (a.rem s i - 1) := by clone_field

@[simp] theorem cloneNack_tickets : (a.cloneNack d s i).tickets = a.tickets := by clone_field
@[simp] theorem cloneNack_released : (a.cloneNack d s i).released = a.released := by clone_field
@[simp] theorem cloneNack_fail : (a.cloneNack d s i).fail = a.fail := by clone_field
@[simp] theorem cloneNack_hst : (a.cloneNack d s i).hst = a.hst := by clone_field
@[simp] theorem cloneNack_reads : (a.cloneNack d s i).reads = a.reads := by clone_field
@[simp] theorem cloneNack_log : (a.cloneNack d s i).log = a.log := by clone_field
@[simp] theorem cloneNack_win : (a.cloneNack d s i).win = a.win := by clone_field
@[simp] theorem cloneNack_broken : (a.cloneNack d s i).broken = a.broken := by clone_field
@[simp] theorem cloneNack_fanned : (a.cloneNack d s i).fanned = a.fanned := by clone_field
@[simp] theorem cloneNack_filt : (a.cloneNack d s i).filt = a.filt := by clone_field
@[simp] theorem cloneNack_clFilt : (a.cloneNack d s i).clFilt = a.clFilt := by clone_field
@[simp] theorem cloneNack_buf : (a.cloneNack d s i).buf = a.buf := by clone_field
@[simp] theorem cloneNack_aq : (a.cloneNack d s i).aq = a.aq := by clone_field
@[simp] theorem cloneNack_wdead : (a.cloneNack d s i).wdead = a.wdead := by clone_field
@[simp] theorem cloneNack_M : (a.cloneNack d s i).M = a.M := by clone_field
@[simp] theorem cloneNack_rem : (a.cloneNack d s i).rem = a.rem := by clone_field
@[simp] theorem cloneNack_cl : (a.cloneNack d s i).cl = upd2 a.cl s i ((a.cl s i).set d .nacked) := by clone_field

macro "dproc_field" : tactic =>
  `(tactic| (unfold Ack.dproc; split <;> (try split) <;> simp))

@[simp] theorem dproc_tickets : (a.dproc d s i x).tickets = a.tickets := by dproc_field
@[simp] theorem dproc_released : (a.dproc d s i x).released = a.released := by dproc_field
@[simp] theorem dproc_fail : (a.dproc d s i x).fail = a.fail := by dproc_field
@[simp] theorem dproc_hst : (a.dproc d s i x).hst = a.hst := by dproc_field
@[simp] theorem dproc_reads : (a.dproc d s i x).reads = a.reads := by dproc_field
@[simp] theorem dproc_log : (a.dproc d s i x).log = a.log := by dproc_field
@[simp] theorem dproc_win : (a.dproc d s i x).win = a.win := by dproc_field
@[simp] theorem dproc_broken : (a.dproc d s i x).broken = a.broken := by dproc_field
@[simp] theorem dproc_fanned : (a.dproc d s i x).fanned = a.fanned := by dproc_field
@[simp] theorem dproc_filt : (a.dproc d s i x).filt = a.filt := by dproc_field
@[simp] theorem dproc_clFilt : (a.dproc d s i x).clFilt = a.clFilt := by dproc_field
@[simp] theorem dproc_buf : (a.dproc d s i x).buf = a.buf := by dproc_field
@[simp] theorem dproc_M : (a.dproc d s i x).M = a.M := by dproc_field

macro "proc_field" : tactic =>
  `(tactic| (first
    | (unfold Ack.procO; split <;> rfl)
    | (unfold Ack.procB; split <;> simp)))

variable (k : PKind)
@[simp] theorem procO_tickets : (a.procO s i k).tickets = a.tickets := by proc_field
@[simp] theorem procO_released : (a.procO s i k).released = a.released := by proc_field
@[simp] theorem procO_fail : (a.procO s i k).fail = a.fail := by proc_field
@[simp] theorem procO_hst : (a.procO s i k).hst = a.hst := by proc_field
@[simp] theorem procO_reads : (a.procO s i k).reads = a.reads := by proc_field
@[simp] theorem procO_win : (a.procO s i k).win = a.win := by proc_field
@[simp] theorem procO_broken : (a.procO s i k).broken = a.broken := by proc_field
@[simp] theorem procO_fanned : (a.procO s i k).fanned = a.fanned := by proc_field
@[simp] theorem procO_clFilt : (a.procO s i k).clFilt = a.clFilt := by proc_field
@[simp] theorem procO_buf : (a.procO s i k).buf = a.buf := by proc_field
@[simp] theorem procO_aq : (a.procO s i k).aq = a.aq := by proc_field
@[simp] theorem procO_wdead : (a.procO s i k).wdead = a.wdead := by proc_field
@[simp] theorem procO_M : (a.procO s i k).M = a.M := by proc_field
@[simp] theorem procO_cl : (a.procO s i k).cl = a.cl := by proc_field
@[simp] theorem procO_rem : (a.procO s i k).rem = a.rem := by proc_field
@[simp] theorem procO_panicked : (a.procO s i k).panicked = a.panicked := by proc_field
@[simp] theorem procO_log : (a.procO s i k).log = .proc none s i k :: a.log := by proc_field

@[simp] theorem procB_tickets : (a.procB d s i k).tickets = a.tickets := by proc_field
@[simp] theorem procB_released : (a.procB d s i k).released = a.released := by proc_field
@[simp] theorem procB_fail : (a.procB d s i k).fail = a.fail := by proc_field
@[simp] theorem procB_hst : (a.procB d s i k).hst = a.hst := by proc_field
@[simp] theorem procB_reads : (a.procB d s i k).reads = a.reads := by proc_field
@[simp] theorem procB_win : (a.procB d s i k).win = a.win := by proc_field
@[simp] theorem procB_broken : (a.procB d s i k).broken = a.broken := by proc_field
@[simp] theorem procB_fanned : (a.procB d s i k).fanned = a.fanned := by proc_field
@[simp] theorem procB_filt : (a.procB d s i k).filt = a.filt := by proc_field
@[simp] theorem procB_buf : (a.procB d s i k).buf = a.buf := by proc_field
@[simp] theorem procB_aq : (a.procB d s i k).aq = a.aq := by proc_field
@[simp] theorem procB_wdead : (a.procB d s i k).wdead = a.wdead := by proc_field
@[simp] theorem procB_M : (a.procB d s i k).M = a.M := by proc_field
@[simp] theorem procB_log : (a.procB d s i k).log = .proc (some d) s i k :: a.log := by proc_field

end fields

/-- destruct `h : a.step e = some a'` for a fixed constructor of `e` into its guard facts and
`a' = …`. -/
macro "step_cases" h:ident : tactic =>
  `(tactic| (simp only [Ack.step] at $h:ident
             repeat' (split at $h:ident)
             all_goals (first | (cases $h:ident) | skip)))

theorem turn_iff (a : Ack) (s i : Nat) :
    a.turn s i = true ↔ a.hst s = .idle ∧ (a.tickets s)[a.released s]? = some i := by
  simp [Ack.turn]

/-! ### inversion lemmas: what each event requires and does -/

section inversion
variable {a a' : Ack}

theorem step_read {s : Nat} (h : a.step (.read s) = some a') :
    a' = { a with reads := upd a.reads s (a.reads s + 1), log := .read s :: a.log } := by
  step_cases h; rfl

theorem step_enq {s i : Nat} (h : a.step (.enq s i) = some a') :
    (i = (a.tickets s).length ∧ i < a.reads s ∧ a.ost s i = .open) ∧
    a' = { a with tickets := upd a.tickets s (a.tickets s ++ [i]) } := by
  step_cases h; exact ⟨by assumption, rfl⟩

theorem step_procO {s i : Nat} {k : PKind} (h : a.step (.proc none s i k) = some a') :
    (a.ost s i = .open ∧ a.fanned s i = false ∧ i < a.reads s) ∧ a' = a.procO s i k := by
  step_cases h; exact ⟨by assumption, rfl⟩

theorem step_procB {d s i : Nat} {k : PKind} (h : a.step (.proc (some d) s i k) = some a') :
    (a.fanned s i = true ∧ d < a.M ∧ a.clone s i d = .open) ∧ a' = a.procB d s i k := by
  step_cases h; exact ⟨by assumption, rfl⟩

theorem step_fan {s i : Nat} (h : a.step (.fan s i) = some a') :
    (a.ost s i = .open ∧ a.fanned s i = false ∧ i ∈ a.tickets s) ∧
    a' = { a with fanned := upd2 a.fanned s i true, rem := upd2 a.rem s i a.M,
                  cl := upd2 a.cl s i (List.replicate a.M .open),
                  clFilt := fun x y z => if x = s ∧ y = i then a.filt s i else a.clFilt x y z } := by
  step_cases h; exact ⟨by assumption, rfl⟩

theorem step_write {d s i : Nat} {ok : Bool} (h : a.step (.write d s i ok) = some a') :
    (a.fanned s i = true ∧ d < a.M ∧ a.clone s i d = .open ∧ a.clFilt s i d = false) ∧
    ((ok = true ∧ a' = { a with aq := upd a.aq d (a.aq d ++ [(s, i)]), log := .write d s i ok :: a.log }) ∨
     (ok = false ∧ a' = { (a.cloneNack d s i) with log := .write d s i ok :: a.log })) := by
  step_cases h
  · rename_i hg hok; exact ⟨hg, Or.inl ⟨hok, rfl⟩⟩
  · rename_i hg hok; exact ⟨hg, Or.inr ⟨by simpa using hok, rfl⟩⟩

theorem step_fpass {d s i : Nat} (h : a.step (.fpass d s i) = some a') : a' = a := by
  step_cases h; rfl

theorem step_fack {d s i : Nat} (h : a.step (.fack d s i) = some a') :
    (a.fanned s i = true ∧ d < a.M ∧ a.clone s i d = .open ∧ a.clFilt s i d = true ∧ a.wdead d = false) ∧
    a' = a.cloneAck d s i := by
  step_cases h; exact ⟨by assumption, rfl⟩

theorem step_dreply {d : Nat} {acks : List DAck} (h : a.step (.dreply d acks) = some a') :
    (a.wdead d = true ∧ a' = { a with log := .dreply d acks :: a.log }) ∨
    ∃ s i, (a.aq d)[0]? = some (s, i) ∧
      (a.wdead d = false ∧ a.buf d = [] ∧ a.clFilt s i d = false ∧ a.clone s i d = .open) ∧
      ((acks = [] ∧ a' = { a with log := .dreply d acks :: a.log, wdead := upd a.wdead d true }) ∨
       (∃ x rest, acks = x :: rest ∧
          a' = ({ a with log := .dreply d acks :: a.log, buf := upd a.buf d rest }).dproc d s i x)) := by
  by_cases hw : a.wdead d = true
  · left
    step_cases h
    all_goals first
      | exact ⟨hw, rfl⟩
      | (exfalso; simp_all)
  · right
    have hw' : a.wdead d = false := by simpa using hw
    cases acks with
    | nil =>
      step_cases h
      all_goals first
        | exact ⟨_, _, by assumption, ⟨hw', by assumption⟩, Or.inl ⟨rfl, rfl⟩⟩
        | (exfalso; simp_all)
    | cons y rest =>
      step_cases h
      all_goals first
        | (exfalso; simp_all; done)
        | (rename_i x hf
           have hx : x = y := by simp [firstAck] at hf; exact hf.symm
           subst hx
           exact ⟨_, _, by assumption, ⟨hw', by assumption⟩, Or.inr ⟨_, _, rfl, rfl⟩⟩)
        | (rename_i hf; simp [firstAck] at hf)

theorem step_dreplyErr {d : Nat} (h : a.step (.dreplyErr d) = some a') :
    a' = { a with wdead := upd a.wdead d true, log := .dreplyErr d :: a.log } := by
  step_cases h; rfl

theorem step_dbuf {d : Nat} (h : a.step (.dbuf d) = some a') :
    ∃ s i, (a.aq d)[0]? = some (s, i) ∧ (a.wdead d = false ∧ a.clone s i d = .open) ∧
      ∃ x rest, a.buf d = x :: rest ∧ a' = ({ a with buf := upd a.buf d rest }).dproc d s i x := by
  step_cases h
  rename_i x rest hb
  exact ⟨_, _, by assumption, by assumption, x, rest, hb, rfl⟩

theorem step_nackO {s i : Nat} (h : a.step (.nackO s i) = some a') :
    (a.ost s i = .open ∧ a.fanned s i = false ∧ i < a.reads s) ∧
    a' = { a with ost := upd2 a.ost s i .nacked } := by
  step_cases h; exact ⟨by assumption, rfl⟩

theorem step_nackB {d s i : Nat} (h : a.step (.nackB d s i) = some a') :
    (a.fanned s i = true ∧ d < a.M ∧ a.clone s i d = .open) ∧
    a' = { (a.cloneNack d s i) with aq := upd a.aq d ((a.aq d).filter (· ≠ (s, i))) } := by
  step_cases h; exact ⟨by assumption, rfl⟩

theorem step_sack {s i : Nat} {r : SRes} (h : a.step (.sack s i r) = some a') :
    (a.hst s = .idle ∧ (a.tickets s)[a.released s]? = some i ∧ a.ost s i = .acked ∧ a.fail s = false ∧
      ((r = .err ∧ a' = ({ a with log := .sack s i r :: a.log }).release s true) ∨
       (r ≠ .err ∧ a' = { a with log := .sack s i r :: a.log, hst := upd a.hst s (.winAck i) }))) ∨
    (a.hst s = .needSack i ∧
      a' = ({ a with log := .sack s i r :: a.log }).release s (decide (r = SRes.err))) := by
  step_cases h
  · rename_i hh hg hr
    rw [turn_iff] at hg
    exact Or.inl ⟨hh, hg.1.2, hg.2.1, hg.2.2, Or.inl ⟨hr, rfl⟩⟩
  · rename_i hh hg hr
    rw [turn_iff] at hg
    exact Or.inl ⟨hh, hg.1.2, hg.2.1, hg.2.2, Or.inr ⟨hr, rfl⟩⟩
  · rename_i j hh hj
    subst hj
    exact Or.inr ⟨hh, rfl⟩

theorem step_winAck {s : Nat} (h : a.step (.winAck s) = some a') :
    ∃ j, a.hst s = .winAck j ∧ a' = ({ a with win := a.winAfterAck }).release s false := by
  step_cases h
  rename_i j hh
  exact ⟨j, hh, rfl⟩

theorem step_dlqw {s i : Nat} {ok : Bool} (h : a.step (.dlqw s i ok) = some a') :
    (a.hst s = .idle ∧ (a.tickets s)[a.released s]? = some i ∧ a.ost s i = .nacked ∧ a.fail s = false ∧
      a.win.nack1.2 = true) ∧
    ((ok = true ∧
        a' = { a with win := (a.win.nack1).1, log := Ev.dlqw s i ok :: a.log, hst := upd a.hst s (.dlqWait i) }) ∨
     (ok = false ∧
        a' = ({ a with win := (a.win.nack1).1, log := Ev.dlqw s i ok :: a.log, broken := true }).release s true)) := by
  step_cases h
  · rename_i hg hok
    have ht := (turn_iff a s i).mp hg.1
    exact ⟨⟨ht.1, ht.2, hg.2.1, hg.2.2.1, hg.2.2.2⟩, Or.inl ⟨hok, rfl⟩⟩
  · rename_i hg hok
    have ht := (turn_iff a s i).mp hg.1
    exact ⟨⟨ht.1, ht.2, hg.2.1, hg.2.2.1, hg.2.2.2⟩, Or.inr ⟨by simpa using hok, rfl⟩⟩

theorem step_dlqa {s i : Nat} {ok : Bool} (h : a.step (.dlqa s i ok) = some a') :
    a.hst s = .dlqWait i ∧
    ((ok = true ∧ a' = { a with log := .dlqa s i ok :: a.log, hst := upd a.hst s (.needSack i) }) ∨
     (ok = false ∧ a' = ({ a with log := .dlqa s i ok :: a.log, broken := true }).release s true)) := by
  step_cases h
  · rename_i j hh hj hok
    subst hj
    exact ⟨hh, Or.inl ⟨hok, rfl⟩⟩
  · rename_i j hh hj hok
    subst hj
    exact ⟨hh, Or.inr ⟨by simpa using hok, rfl⟩⟩

theorem step_hfail {s i : Nat} (h : a.step (.hfail s i) = some a') :
    (a.hst s = .idle ∧ (a.tickets s)[a.released s]? = some i ∧ a.ost s i ≠ .open) ∧
    ((a.fail s = true ∧ a' = a.release s true) ∨
     (a.fail s = false ∧ a.ost s i = .nacked ∧ a.dlqAccepts = false ∧
        a' = ({ a with win := a.winAfterRefuse }).release s true)) := by
  step_cases h
  · rename_i hg hf
    have ht := (turn_iff a s i).mp hg.1
    exact ⟨⟨ht.1, ht.2, hg.2⟩, Or.inl ⟨hf, rfl⟩⟩
  · rename_i hg hf hd
    have ht := (turn_iff a s i).mp hg.1
    exact ⟨⟨ht.1, ht.2, hg.2⟩, Or.inr ⟨by simpa using hf, hd.1, by simpa using hd.2, rfl⟩⟩

theorem step_dlqStop (h : a.step .dlqStop = some a') : a' = { a with broken := true } := by
  step_cases h; rfl

theorem step_wkill {d : Nat} (h : a.step (.wkill d) = some a') : a' = { a with wdead := upd a.wdead d true } := by
  step_cases h; rfl

theorem step_fdeliver {d : Nat} (h : a.step (.fdeliver d) = some a') : a' = a := by
  step_cases h; rfl
theorem step_mv {g : Seg} {k s i : Nat} (h : a.step (.mv g k s i) = some a') : a' = a := by
  step_cases h; rfl
theorem step_pdone {g : Seg} {k s i : Nat} (h : a.step (.pdone g k s i) = some a') : a' = a := by
  step_cases h; rfl

end inversion

theorem lt_of_getElem?_some {α : Type} {l : List α} {k : Nat} {x : α} (h : l[k]? = some x) : k < l.length :=
  (List.getElem?_eq_some_iff.mp h).1

/-! ### tickets, handler state, `fail` latch -/

/-- stated over the five fields it talks about, so that events which leave them alone preserve it
by definitional unfolding. -/
def InvT' (tickets : Nat → List Nat) (reads released : Nat → Nat) (hst : Nat → HSt) (fail : Nat → Bool) : Prop :=
  (∀ s, tickets s = List.range (tickets s).length) ∧
  (∀ s, (tickets s).length ≤ reads s) ∧
  (∀ s, released s ≤ (tickets s).length) ∧
  (∀ s i, hst s = .winAck i ∨ hst s = .dlqWait i ∨ hst s = .needSack i →
      (tickets s)[released s]? = some i) ∧
  (∀ s, hst s ≠ .idle → fail s = false)

def InvT (a : Ack) : Prop := InvT' a.tickets a.reads a.released a.hst a.fail

theorem invT_init (M size thr : Nat) : InvT (Ack.init M size thr) := by
  simp [InvT, InvT', Ack.init]

/-- releasing the running / due handler of source `s`. -/
theorem invT_release (a : Ack) (s : Nat) (b : Bool) (hT : InvT a)
    (hlt : a.released s < (a.tickets s).length) : InvT (a.release s b) := by
  obtain ⟨t1, t2, t3, t4, t5⟩ := hT
  refine ⟨?_, ?_, ?_, ?_, ?_⟩
  · intro s'; simpa using t1 s'
  · intro s'; simpa using t2 s'
  · intro s'
    by_cases hs : s' = s
    · subst hs; simp; omega
    · simpa [hs] using t3 s'
  · intro s' i' h
    by_cases hs : s' = s
    · subst hs; simp at h
    · simp [hs] at h ⊢; exact t4 s' i' h
  · intro s' h
    by_cases hs : s' = s
    · subst hs; simp at h
    · simp [hs] at h
      have := t5 s' h
      rw [release_fail]
      by_cases hb : b = true <;> simp [hb, hs, this]

/-- a handler of source `s` moves to a busy state `st` for the ticket `i` whose turn it is. -/
theorem invT_busy (a : Ack) (s i : Nat) (st : HSt) (hT : InvT a)
    (hst : st = .winAck i ∨ st = .dlqWait i ∨ st = .needSack i)
    (hti : (a.tickets s)[a.released s]? = some i) (hf : a.fail s = false) :
    InvT' a.tickets a.reads a.released (upd a.hst s st) a.fail := by
  obtain ⟨t1, t2, t3, t4, t5⟩ := hT
  refine ⟨t1, t2, t3, ?_, ?_⟩
  · intro s' i' h
    by_cases hs : s' = s
    · subst hs
      simp at h
      rcases hst with rfl | rfl | rfl <;> simp at h <;> subst h <;> exact hti
    · simp [hs] at h ⊢; exact t4 s' i' h
  · intro s' h
    by_cases hs : s' = s
    · subst hs; exact hf
    · simp [hs] at h; exact t5 s' h

theorem invT_step (a a' : Ack) (e : Ev) (hT : InvT a) (h : a.step e = some a') : InvT a' := by
  have hT' := hT
  obtain ⟨t1, t2, t3, t4, t5⟩ := hT
  cases e with
  | read s =>
    have := step_read h; subst this
    refine ⟨t1, ?_, t3, t4, t5⟩
    intro s'
    by_cases hs : s' = s
    · subst hs; simp; have := t2 s'; omega
    · simpa [hs] using t2 s'
  | enq s i =>
    obtain ⟨⟨hi, hr, _⟩, rfl⟩ := step_enq h
    refine ⟨?_, ?_, ?_, ?_, t5⟩
    · intro s'
      by_cases hs : s' = s
      · subst hs; simp [hi, List.range_succ]; exact t1 s'
      · simpa [hs] using t1 s'
    · intro s'
      by_cases hs : s' = s
      · subst hs; simp; omega
      · simpa [hs] using t2 s'
    · intro s'
      by_cases hs : s' = s
      · subst hs; simp; have := t3 s'; omega
      · simpa [hs] using t3 s'
    · intro s' i' hh
      by_cases hs : s' = s
      · subst hs
        have h4 := t4 s' i' hh
        have hlt := lt_of_getElem?_some h4
        simp [List.getElem?_append_left hlt, h4]
      · simpa [hs] using t4 s' i' hh
  | sack s i r =>
    rcases step_sack h with ⟨hh, hti, _, hf, ⟨_, rfl⟩ | ⟨_, rfl⟩⟩ | ⟨hh, rfl⟩
    · exact invT_release _ s true hT' (lt_of_getElem?_some hti)
    · exact invT_busy a s i _ hT' (Or.inl rfl) hti hf
    · exact invT_release _ s _ hT' (lt_of_getElem?_some (t4 s i (Or.inr (Or.inr hh))))
  | winAck s =>
    obtain ⟨j, hh, rfl⟩ := step_winAck h
    exact invT_release _ s _ hT' (lt_of_getElem?_some (t4 s j (Or.inl hh)))
  | dlqw s i ok =>
    obtain ⟨⟨hh, hti, _, hf, _⟩, ⟨_, rfl⟩ | ⟨_, rfl⟩⟩ := step_dlqw h
    · exact invT_busy a s i _ hT' (Or.inr (Or.inl rfl)) hti hf
    · exact invT_release _ s true hT' (lt_of_getElem?_some hti)
  | dlqa s i ok =>
    obtain ⟨hh, ⟨_, rfl⟩ | ⟨_, rfl⟩⟩ := step_dlqa h
    · exact invT_busy a s i _ hT' (Or.inr (Or.inr rfl)) (t4 s i (Or.inr (Or.inl hh))) (t5 s (by simp [hh]))
    · exact invT_release _ s true hT' (lt_of_getElem?_some (t4 s i (Or.inr (Or.inl hh))))
  | hfail s i =>
    obtain ⟨⟨hh, hti, _⟩, ⟨_, rfl⟩ | ⟨_, _, _, rfl⟩⟩ := step_hfail h
    · exact invT_release _ s true hT' (lt_of_getElem?_some hti)
    · exact invT_release _ s true hT' (lt_of_getElem?_some hti)
  | proc br s i k =>
    cases br with
    | none => obtain ⟨_, rfl⟩ := step_procO h; simpa [InvT] using hT'
    | some d => obtain ⟨_, rfl⟩ := step_procB h; simpa [InvT] using hT'
  | fan s i => obtain ⟨_, rfl⟩ := step_fan h; exact hT'
  | write d s i ok =>
    obtain ⟨_, ⟨_, rfl⟩ | ⟨_, rfl⟩⟩ := step_write h
    · exact hT'
    · simpa [InvT] using hT'
  | fpass d s i => have := step_fpass h; subst this; exact hT'
  | fack d s i => obtain ⟨_, rfl⟩ := step_fack h; simpa [InvT] using hT'
  | dreply d acks =>
    rcases step_dreply h with ⟨_, rfl⟩ | ⟨s, i, _, _, ⟨_, rfl⟩ | ⟨x, rest, _, rfl⟩⟩
    · exact hT'
    · exact hT'
    · simpa [InvT] using hT'
  | dreplyErr d => have := step_dreplyErr h; subst this; exact hT'
  | dbuf d =>
    obtain ⟨s, i, _, _, x, rest, _, rfl⟩ := step_dbuf h
    simpa [InvT] using hT'
  | nackO s i => obtain ⟨_, rfl⟩ := step_nackO h; exact hT'
  | nackB d s i => obtain ⟨_, rfl⟩ := step_nackB h; simpa [InvT] using hT'
  | dlqStop => have := step_dlqStop h; subst this; exact hT'
  | wkill d => have := step_wkill h; subst this; exact hT'
  | fdeliver d => have := step_fdeliver h; subst this; exact hT'
  | mv g k s i => have := step_mv h; subst this; exact hT'
  | pdone g k s i => have := step_pdone h; subst this; exact hT'

/-- `tickets s` is `0, 1, 2, …`: the ticket whose turn it is carries the index `released s`. -/
theorem ticket_eq_released {a : Ack} (hT : InvT a) {s i : Nat}
    (h : (a.tickets s)[a.released s]? = some i) : i = a.released s := by
  have h1 := hT.1 s
  have hlt := lt_of_getElem?_some h
  rw [h1] at h
  rw [List.getElem?_range hlt] at h
  exact (Option.some.inj h).symm

theorem ticket_lt_reads {a : Ack} (hT : InvT a) {s i : Nat}
    (h : (a.tickets s)[a.released s]? = some i) : i < a.reads s := by
  have := ticket_eq_released hT h
  have hlt := lt_of_getElem?_some h
  have := hT.2.1 s
  omega

/-! ### C04: the acked sequence is a prefix of the read sequence -/

def inflight : HSt → Nat
  | .winAck _ => 1
  | _ => 0

def InvL' (log : List Ev) (reads released : Nat → Nat) (hst : Nat → HSt) (fail : Nat → Bool) : Prop :=
  (∀ s, readCount log s = reads s) ∧
  (∀ s, sackCount log s ≤ released s + inflight (hst s)) ∧
  (∀ s, fail s = false → sackCount log s = released s + inflight (hst s)) ∧
  monC04 log = true

def InvL (a : Ack) : Prop := InvL' a.log a.reads a.released a.hst a.fail

theorem invL_init (M size thr : Nat) : InvL (Ack.init M size thr) := by
  simp [InvL, InvL', Ack.init, readCount, sackCount, monC04, inflight]

/-- an observable event that is neither a read nor a source ack leaves the C04 bookkeeping alone. -/
theorem invL_log {log : List Ev} {reads released : Nat → Nat} {hst : Nat → HSt} {fail : Nat → Bool}
    (e : Ev) (hL : InvL' log reads released hst fail)
    (h1 : ∀ s, readCount (e :: log) s = readCount log s)
    (h2 : ∀ s, sackCount (e :: log) s = sackCount log s)
    (h3 : monC04 (e :: log) = monC04 log) :
    InvL' (e :: log) reads released hst fail := by
  obtain ⟨l1, l2, l3, l4⟩ := hL
  exact ⟨fun s => by rw [h1]; exact l1 s, fun s => by rw [h2]; exact l2 s,
    fun s hf => by rw [h2]; exact l3 s hf, by rw [h3]; exact l4⟩

/-- the handler of `s` finishes (`release`) after `n` more source acks were logged (`n ≤ 1`),
where before `sackCount = released + inflight`. -/
theorem invL_release (a : Ack) (s : Nat) (b : Bool) (log' : List Ev) (hL : InvL a)
    (hr : ∀ s', readCount log' s' = readCount a.log s')
    (hs : ∀ s', s' ≠ s → sackCount log' s' = sackCount a.log s')
    (hle : sackCount log' s ≤ a.released s + 1)
    (heq : b = false → sackCount log' s = a.released s + 1)
    (hm : monC04 log' = true) :
    InvL' log' a.reads (upd a.released s (a.released s + 1)) (upd a.hst s .idle)
      (if b then upd a.fail s true else a.fail) := by
  obtain ⟨l1, l2, l3, l4⟩ := hL
  refine ⟨fun s' => by rw [hr]; exact l1 s', ?_, ?_, hm⟩
  · intro s'
    by_cases h : s' = s
    · subst h; simp [inflight]; exact hle
    · simp [h]; rw [hs s' h]; exact l2 s'
  · intro s' hf
    by_cases h : s' = s
    · subst h
      simp [inflight]
      cases b with
      | false => exact heq rfl
      | true => simp at hf
    · simp [h]
      rw [hs s' h]
      apply l3 s'
      cases b with
      | false => simpa using hf
      | true => simpa [h] using hf

theorem invL_step (a a' : Ack) (e : Ev) (hT : InvT a) (hL : InvL a) (h : a.step e = some a') : InvL a' := by
  have hL' := hL
  obtain ⟨l1, l2, l3, l4⟩ := hL
  cases e with
  | read s =>
    have := step_read h; subst this
    refine ⟨?_, ?_, ?_, ?_⟩
    · intro s'
      by_cases hs : s' = s
      · subst hs; simp [readCount, List.countP_cons]; exact l1 s'
      · simp [readCount, List.countP_cons, hs, Ne.symm hs]
        have := l1 s'; simp [readCount] at this; exact this
    · intro s'; simpa [sackCount, List.countP_cons] using l2 s'
    · intro s' hf; simpa [sackCount, List.countP_cons] using l3 s' hf
    · simpa [monC04] using l4
  | enq s i => obtain ⟨_, rfl⟩ := step_enq h; exact hL'
  | sack s i r =>
    have hcnt : ∀ s', s' ≠ s → sackCount (Ev.sack s i r :: a.log) s' = sackCount a.log s' := by
      intro s' hs; simp [sackCount, List.countP_cons, Ne.symm hs]
    have hcs : sackCount (Ev.sack s i r :: a.log) s = sackCount a.log s + 1 := by
      simp [sackCount, List.countP_cons]
    have hrd : ∀ s', readCount (Ev.sack s i r :: a.log) s' = readCount a.log s' := by
      intro s'; simp [readCount, List.countP_cons]
    rcases step_sack h with ⟨hh, hti, _, hf, hres⟩ | ⟨hh, rfl⟩
    · have hi := ticket_eq_released hT hti
      have hir := ticket_lt_reads hT hti
      have hc : sackCount a.log s = a.released s := by
        have := l3 s hf; simpa [hh, inflight] using this
      have hm : monC04 (Ev.sack s i r :: a.log) = true := by
        simp [monC04, l4, hc, hi, l1 s]; omega
      rcases hres with ⟨_, rfl⟩ | ⟨_, rfl⟩
      · have := invL_release a s true (Ev.sack s i r :: a.log) hL' hrd hcnt (by omega) (by simp) hm
        simpa [InvL, release_fail] using this
      · refine ⟨fun s' => by rw [hrd]; exact l1 s', ?_, ?_, hm⟩
        · intro s'
          by_cases hs : s' = s
          · subst hs; simp [inflight]; omega
          · simp [hs]; rw [hcnt s' hs]; exact l2 s'
        · intro s' hf'
          by_cases hs : s' = s
          · subst hs; simp [inflight]; omega
          · simp [hs]; rw [hcnt s' hs]; exact l3 s' hf'
    · have hti := hT.2.2.2.1 s i (Or.inr (Or.inr hh))
      have hf := hT.2.2.2.2 s (by simp [hh])
      have hi := ticket_eq_released hT hti
      have hir := ticket_lt_reads hT hti
      have hc : sackCount a.log s = a.released s := by
        have := l3 s hf; simpa [hh, inflight] using this
      have hm : monC04 (Ev.sack s i r :: a.log) = true := by
        simp [monC04, l4, hc, hi, l1 s]; omega
      have := invL_release a s (decide (r = SRes.err)) (Ev.sack s i r :: a.log) hL' hrd hcnt (by omega)
        (fun _ => by omega) hm
      simpa [InvL, release_fail] using this
  | winAck s =>
    obtain ⟨j, hh, rfl⟩ := step_winAck h
    have hle := l2 s
    have := invL_release a s false a.log hL' (fun _ => rfl) (fun _ _ => rfl)
      (by simpa [hh, inflight] using hle)
      (fun _ => by
        have hf := hT.2.2.2.2 s (by simp [hh])
        have := l3 s hf; simpa [hh, inflight] using this) l4
    simpa [InvL, release_fail] using this
  | dlqw s i ok =>
    have hrd : ∀ s', readCount (Ev.dlqw s i ok :: a.log) s' = readCount a.log s' := by
      intro s'; simp [readCount, List.countP_cons]
    have hsk : ∀ s', sackCount (Ev.dlqw s i ok :: a.log) s' = sackCount a.log s' := by
      intro s'; simp [sackCount, List.countP_cons]
    have hm : monC04 (Ev.dlqw s i ok :: a.log) = true := by simp [monC04, l4]
    obtain ⟨⟨hh, hti, _, hf, _⟩, ⟨_, rfl⟩ | ⟨_, rfl⟩⟩ := step_dlqw h
    · refine ⟨fun s' => by rw [hrd]; exact l1 s', ?_, ?_, hm⟩
      · intro s'
        rw [hsk]
        by_cases hs : s' = s
        · subst hs; simpa [inflight, hh] using l2 s'
        · simpa [hs] using l2 s'
      · intro s' hf'
        rw [hsk]
        by_cases hs : s' = s
        · subst hs; simpa [inflight, hh] using l3 s' hf'
        · simpa [hs] using l3 s' hf'
    · have hle := l2 s
      have := invL_release a s true (Ev.dlqw s i ok :: a.log) hL' hrd (fun s' _ => hsk s')
        (by rw [hsk]; simp [hh, inflight] at hle; omega) (by simp) hm
      simpa [InvL, release_fail] using this
  | dlqa s i ok =>
    have hrd : ∀ s', readCount (Ev.dlqa s i ok :: a.log) s' = readCount a.log s' := by
      intro s'; simp [readCount, List.countP_cons]
    have hsk : ∀ s', sackCount (Ev.dlqa s i ok :: a.log) s' = sackCount a.log s' := by
      intro s'; simp [sackCount, List.countP_cons]
    have hm : monC04 (Ev.dlqa s i ok :: a.log) = true := by simp [monC04, l4]
    obtain ⟨hh, ⟨_, rfl⟩ | ⟨_, rfl⟩⟩ := step_dlqa h
    · refine ⟨fun s' => by rw [hrd]; exact l1 s', ?_, ?_, hm⟩
      · intro s'
        rw [hsk]
        by_cases hs : s' = s
        · subst hs; simpa [inflight, hh] using l2 s'
        · simpa [hs] using l2 s'
      · intro s' hf'
        rw [hsk]
        by_cases hs : s' = s
        · subst hs; simpa [inflight, hh] using l3 s' hf'
        · simpa [hs] using l3 s' hf'
    · have hle := l2 s
      have := invL_release a s true (Ev.dlqa s i ok :: a.log) hL' hrd (fun s' _ => hsk s')
        (by rw [hsk]; simp [hh, inflight] at hle; omega) (by simp) hm
      simpa [InvL, release_fail] using this
  | hfail s i =>
    obtain ⟨⟨hh, hti, _⟩, hres⟩ := step_hfail h
    have hle := l2 s
    have hrel := invL_release a s true a.log hL' (fun _ => rfl) (fun _ _ => rfl)
      (by simp [hh, inflight] at hle; omega) (by simp) l4
    rcases hres with ⟨_, rfl⟩ | ⟨_, _, _, rfl⟩
    · simpa [InvL, release_fail] using hrel
    · simpa [InvL, release_fail] using hrel
  | proc br s i k =>
    have h1 : ∀ s', readCount (Ev.proc br s i k :: a.log) s' = readCount a.log s' := by
      intro s'; simp [readCount, List.countP_cons]
    have h2 : ∀ s', sackCount (Ev.proc br s i k :: a.log) s' = sackCount a.log s' := by
      intro s'; simp [sackCount, List.countP_cons]
    have h3 : monC04 (Ev.proc br s i k :: a.log) = monC04 a.log := by simp [monC04]
    cases br with
    | none => obtain ⟨_, rfl⟩ := step_procO h; simpa [InvL] using invL_log _ hL' h1 h2 h3
    | some d => obtain ⟨_, rfl⟩ := step_procB h; simpa [InvL] using invL_log _ hL' h1 h2 h3
  | fan s i => obtain ⟨_, rfl⟩ := step_fan h; exact hL'
  | write d s i ok =>
    have h1 : ∀ s', readCount (Ev.write d s i ok :: a.log) s' = readCount a.log s' := by
      intro s'; simp [readCount, List.countP_cons]
    have h2 : ∀ s', sackCount (Ev.write d s i ok :: a.log) s' = sackCount a.log s' := by
      intro s'; simp [sackCount, List.countP_cons]
    have h3 : monC04 (Ev.write d s i ok :: a.log) = monC04 a.log := by simp [monC04]
    obtain ⟨_, ⟨_, rfl⟩ | ⟨_, rfl⟩⟩ := step_write h
    · exact invL_log _ hL' h1 h2 h3
    · simpa [InvL] using invL_log _ hL' h1 h2 h3
  | fpass d s i => have := step_fpass h; subst this; exact hL'
  | fack d s i => obtain ⟨_, rfl⟩ := step_fack h; simpa [InvL] using hL'
  | dreply d acks =>
    have h1 : ∀ s', readCount (Ev.dreply d acks :: a.log) s' = readCount a.log s' := by
      intro s'; simp [readCount, List.countP_cons]
    have h2 : ∀ s', sackCount (Ev.dreply d acks :: a.log) s' = sackCount a.log s' := by
      intro s'; simp [sackCount, List.countP_cons]
    have h3 : monC04 (Ev.dreply d acks :: a.log) = monC04 a.log := by simp [monC04]
    rcases step_dreply h with ⟨_, rfl⟩ | ⟨s, i, _, _, ⟨_, rfl⟩ | ⟨x, rest, _, rfl⟩⟩
    · exact invL_log _ hL' h1 h2 h3
    · exact invL_log _ hL' h1 h2 h3
    · simpa [InvL] using invL_log _ hL' h1 h2 h3
  | dreplyErr d =>
    have := step_dreplyErr h; subst this
    exact invL_log _ hL' (by intro s'; simp [readCount, List.countP_cons])
      (by intro s'; simp [sackCount, List.countP_cons]) (by simp [monC04])
  | dbuf d =>
    obtain ⟨s, i, _, _, x, rest, _, rfl⟩ := step_dbuf h
    simpa [InvL] using hL'
  | nackO s i => obtain ⟨_, rfl⟩ := step_nackO h; exact hL'
  | nackB d s i => obtain ⟨_, rfl⟩ := step_nackB h; simpa [InvL] using hL'
  | dlqStop => have := step_dlqStop h; subst this; exact hL'
  | wkill d => have := step_wkill h; subst this; exact hL'
  | fdeliver d => have := step_fdeliver h; subst this; exact hL'
  | mv g k s i => have := step_mv h; subst this; exact hL'
  | pdone g k s i => have := step_pdone h; subst this; exact hL'

/-! ### C07 (pipeline clauses): DLQ exactly once, in source order, ack only after the DLQ ack,
a failed DLQ write never acks -/

def InvD' (log : List Ev) (released : Nat → Nat) (hst : Nat → HSt) (fail : Nat → Bool) (broken : Bool) : Prop :=
  (∀ s i, dlqwIn log s i = true →
      i < released s ∨ (i = released s ∧ (hst s = .dlqWait i ∨ hst s = .needSack i))) ∧
  (∀ s i, sackIn log s i = true → i < released s ∨ (i = released s ∧ hst s = .winAck i)) ∧
  (∀ s i, dlqaOkIn log s i = true → i < released s ∨ (i = released s ∧ hst s = .needSack i)) ∧
  (∀ s, dlqFailOf log s = true → fail s = true) ∧
  (dlqFailAny log = true → broken = true) ∧
  (∀ s i, hst s = .needSack i → dlqaOkIn log s i = true) ∧
  (∀ s i, hst s = .dlqWait i → dlqwIn log s i = true) ∧
  monC07 log = true

def InvD (a : Ack) : Prop := InvD' a.log a.released a.hst a.fail a.broken

theorem invD_init (M size thr : Nat) : InvD (Ack.init M size thr) := by
  simp [InvD, InvD', Ack.init, dlqwIn, sackIn, dlqaOkIn, dlqFailOf, dlqFailAny, monC07]

/-- events that are neither a DLQ write, a DLQ reply nor a source ack. -/
def Ev.neutral : Ev → Bool
  | .dlqw _ _ _ | .dlqa _ _ _ | .sack _ _ _ => false
  | _ => true

theorem invD_log {log : List Ev} {released : Nat → Nat} {hst : Nat → HSt} {fail : Nat → Bool} {broken : Bool}
    (e : Ev) (he : e.neutral = true) (hD : InvD' log released hst fail broken) :
    InvD' (e :: log) released hst fail broken := by
  obtain ⟨d1, d2, d3, d4, d5, d6, d7, d8⟩ := hD
  have h1 : ∀ s i, dlqwIn (e :: log) s i = dlqwIn log s i := by
    intro s i; cases e <;> simp_all [Ev.neutral, dlqwIn]
  have h2 : ∀ s i, sackIn (e :: log) s i = sackIn log s i := by
    intro s i; cases e <;> simp_all [Ev.neutral, sackIn]
  have h3 : ∀ s i, dlqaOkIn (e :: log) s i = dlqaOkIn log s i := by
    intro s i; cases e <;> simp_all [Ev.neutral, dlqaOkIn]
  have h4 : ∀ s, dlqFailOf (e :: log) s = dlqFailOf log s := by
    intro s; cases e <;> simp_all [Ev.neutral, dlqFailOf]
  have h5 : dlqFailAny (e :: log) = dlqFailAny log := by
    cases e <;> simp_all [Ev.neutral, dlqFailAny]
  have h8 : monC07 (e :: log) = monC07 log := by
    cases e <;> simp_all [Ev.neutral, monC07]
  refine ⟨?_, ?_, ?_, ?_, ?_, ?_, ?_, ?_⟩
  · intro s i h; rw [h1] at h; exact d1 s i h
  · intro s i h; rw [h2] at h; exact d2 s i h
  · intro s i h; rw [h3] at h; exact d3 s i h
  · intro s h; rw [h4] at h; exact d4 s h
  · intro h; rw [h5] at h; exact d5 h
  · intro s i h; rw [h3]; exact d6 s i h
  · intro s i h; rw [h1]; exact d7 s i h
  · rw [h8]; exact d8

/-- the handler of `s` finishes, possibly after logging events about the ticket whose turn it is
(`released s`). -/
theorem invD_release {log log' : List Ev} {released : Nat → Nat} {hst : Nat → HSt} {fail fail' : Nat → Bool}
    {broken broken' : Bool} (s : Nat) (hD : InvD' log released hst fail broken)
    (hf : ∀ s', fail s' = true → fail' s' = true) (hb : broken = true → broken' = true)
    (n1 : ∀ s' i', dlqwIn log' s' i' = true → dlqwIn log s' i' = true ∨ (s' = s ∧ i' = released s))
    (n2 : ∀ s' i', sackIn log' s' i' = true → sackIn log s' i' = true ∨ (s' = s ∧ i' = released s))
    (n3 : ∀ s' i', dlqaOkIn log' s' i' = true → dlqaOkIn log s' i' = true ∨ (s' = s ∧ i' = released s))
    (n4 : ∀ s', dlqFailOf log' s' = true → dlqFailOf log s' = true ∨ (s' = s ∧ fail' s = true))
    (n5 : dlqFailAny log' = true → dlqFailAny log = true ∨ broken' = true)
    (m1 : ∀ s' i', dlqwIn log s' i' = true → dlqwIn log' s' i' = true)
    (m3 : ∀ s' i', dlqaOkIn log s' i' = true → dlqaOkIn log' s' i' = true)
    (hm : monC07 log' = true) :
    InvD' log' (upd released s (released s + 1)) (upd hst s .idle) fail' broken' := by
  obtain ⟨d1, d2, d3, d4, d5, d6, d7, d8⟩ := hD
  refine ⟨?_, ?_, ?_, ?_, ?_, ?_, ?_, hm⟩
  · intro s' i h
    by_cases hs : s' = s
    · subst hs; simp
      rcases n1 s' i h with h | ⟨_, h⟩
      · rcases d1 s' i h with h | ⟨h, _⟩ <;> omega
      · omega
    · rcases n1 s' i h with h | ⟨h, _⟩
      · simpa [hs] using d1 s' i h
      · exact absurd h hs
  · intro s' i h
    by_cases hs : s' = s
    · subst hs; simp
      rcases n2 s' i h with h | ⟨_, h⟩
      · rcases d2 s' i h with h | ⟨h, _⟩ <;> omega
      · omega
    · rcases n2 s' i h with h | ⟨h, _⟩
      · simpa [hs] using d2 s' i h
      · exact absurd h hs
  · intro s' i h
    by_cases hs : s' = s
    · subst hs; simp
      rcases n3 s' i h with h | ⟨_, h⟩
      · rcases d3 s' i h with h | ⟨h, _⟩ <;> omega
      · omega
    · rcases n3 s' i h with h | ⟨h, _⟩
      · simpa [hs] using d3 s' i h
      · exact absurd h hs
  · intro s' h
    rcases n4 s' h with h | ⟨h1, h2⟩
    · exact hf s' (d4 s' h)
    · subst h1; exact h2
  · intro h
    rcases n5 h with h | h
    · exact hb (d5 h)
    · exact h
  · intro s' i h
    by_cases hs : s' = s
    · subst hs; simp at h
    · simp [hs] at h; exact m3 _ _ (d6 s' i h)
  · intro s' i h
    by_cases hs : s' = s
    · subst hs; simp at h
    · simp [hs] at h; exact m1 _ _ (d7 s' i h)

/-- the handler of `s` moves on to state `st`, keeping the semaphore. -/
theorem invD_busy {log log' : List Ev} {released : Nat → Nat} {hst : Nat → HSt} {fail : Nat → Bool}
    {broken : Bool} (s : Nat) (st : HSt) (hD : InvD' log released hst fail broken)
    (o1 : ∀ i', hst s = .dlqWait i' ∨ hst s = .needSack i' → st = .dlqWait i' ∨ st = .needSack i')
    (o2 : ∀ i', hst s = .winAck i' → st = .winAck i')
    (o3 : ∀ i', hst s = .needSack i' → st = .needSack i')
    (n1 : ∀ s' i', dlqwIn log' s' i' = true → dlqwIn log s' i' = true ∨
        (s' = s ∧ i' = released s ∧ (st = .dlqWait i' ∨ st = .needSack i')))
    (n2 : ∀ s' i', sackIn log' s' i' = true → sackIn log s' i' = true ∨
        (s' = s ∧ i' = released s ∧ st = .winAck i'))
    (n3 : ∀ s' i', dlqaOkIn log' s' i' = true → dlqaOkIn log s' i' = true ∨
        (s' = s ∧ i' = released s ∧ st = .needSack i'))
    (n4 : ∀ s', dlqFailOf log' s' = true → dlqFailOf log s' = true)
    (n5 : dlqFailAny log' = true → dlqFailAny log = true)
    (m1 : ∀ s' i', dlqwIn log s' i' = true → dlqwIn log' s' i' = true)
    (m3 : ∀ s' i', dlqaOkIn log s' i' = true → dlqaOkIn log' s' i' = true)
    (q6 : ∀ i', st = .needSack i' → dlqaOkIn log' s i' = true)
    (q7 : ∀ i', st = .dlqWait i' → dlqwIn log' s i' = true)
    (hm : monC07 log' = true) :
    InvD' log' released (upd hst s st) fail broken := by
  obtain ⟨d1, d2, d3, d4, d5, d6, d7, d8⟩ := hD
  refine ⟨?_, ?_, ?_, ?_, ?_, ?_, ?_, hm⟩
  · intro s' i h
    by_cases hs : s' = s
    · subst hs; simp
      rcases n1 s' i h with h | ⟨_, h1, h2⟩
      · rcases d1 s' i h with h | ⟨h1, h2⟩
        · exact Or.inl h
        · exact Or.inr ⟨h1, o1 i h2⟩
      · exact Or.inr ⟨h1, h2⟩
    · rcases n1 s' i h with h | ⟨h, _⟩
      · simpa [hs] using d1 s' i h
      · exact absurd h hs
  · intro s' i h
    by_cases hs : s' = s
    · subst hs; simp
      rcases n2 s' i h with h | ⟨_, h1, h2⟩
      · rcases d2 s' i h with h | ⟨h1, h2⟩
        · exact Or.inl h
        · exact Or.inr ⟨h1, o2 i h2⟩
      · exact Or.inr ⟨h1, h2⟩
    · rcases n2 s' i h with h | ⟨h, _⟩
      · simpa [hs] using d2 s' i h
      · exact absurd h hs
  · intro s' i h
    by_cases hs : s' = s
    · subst hs; simp
      rcases n3 s' i h with h | ⟨_, h1, h2⟩
      · rcases d3 s' i h with h | ⟨h1, h2⟩
        · exact Or.inl h
        · exact Or.inr ⟨h1, o3 i h2⟩
      · exact Or.inr ⟨h1, h2⟩
    · rcases n3 s' i h with h | ⟨h, _⟩
      · simpa [hs] using d3 s' i h
      · exact absurd h hs
  · intro s' h; exact d4 s' (n4 s' h)
  · intro h; exact d5 (n5 h)
  · intro s' i h
    by_cases hs : s' = s
    · subst hs; simp at h; exact q6 i h
    · simp [hs] at h; exact m3 _ _ (d6 s' i h)
  · intro s' i h
    by_cases hs : s' = s
    · subst hs; simp at h; exact q7 i h
    · simp [hs] at h; exact m1 _ _ (d7 s' i h)

theorem bool_false_of_imp {b : Bool} {p : Prop} (h : b = true → p) (hn : ¬ p) : b = false := by
  cases b with
  | false => rfl
  | true => exact absurd (h rfl) hn

theorem invD_step (a a' : Ack) (e : Ev) (hT : InvT a) (hD : InvD a) (h : a.step e = some a') : InvD a' := by
  have hD' := hD
  obtain ⟨d1, d2, d3, d4, d5, d6, d7, d8⟩ := hD
  cases e with
  | sack s i r =>
    -- what the new log entry does to the log predicates
    have h1 : ∀ s' i', dlqwIn (Ev.sack s i r :: a.log) s' i' = dlqwIn a.log s' i' := by
      intro s' i'; simp [dlqwIn]
    have h2 : ∀ s' i', sackIn (Ev.sack s i r :: a.log) s' i' = ((s == s' && i == i') || sackIn a.log s' i') := by
      intro s' i'; simp [sackIn]
    have h3 : ∀ s' i', dlqaOkIn (Ev.sack s i r :: a.log) s' i' = dlqaOkIn a.log s' i' := by
      intro s' i'; simp [dlqaOkIn]
    have h4 : ∀ s', dlqFailOf (Ev.sack s i r :: a.log) s' = dlqFailOf a.log s' := by
      intro s'; simp [dlqFailOf]
    have h5 : dlqFailAny (Ev.sack s i r :: a.log) = dlqFailAny a.log := by simp [dlqFailAny]
    -- in both cases: i is the ticket whose turn it is, the handler was allowed to ack
    have key : i = a.released s ∧ a.fail s = false ∧
        (dlqwIn a.log s i = true → dlqaOkIn a.log s i = true) := by
      rcases step_sack h with ⟨hh, hti, _, hf, _⟩ | ⟨hh, _⟩
      · have hi := ticket_eq_released hT hti
        refine ⟨hi, hf, ?_⟩
        intro hw
        rcases d1 s i hw with hlt | ⟨_, hb⟩
        · omega
        · rcases hb with hb | hb <;> simp [hh] at hb
      · have hti := hT.2.2.2.1 s i (Or.inr (Or.inr hh))
        exact ⟨ticket_eq_released hT hti, hT.2.2.2.2 s (by simp [hh]), fun _ => d6 s i hh⟩
    obtain ⟨hi, hf, hjust⟩ := key
    have hnf : dlqFailOf a.log s = false := bool_false_of_imp (d4 s) (by simp [hf])
    have hm : monC07 (Ev.sack s i r :: a.log) = true := by
      simp only [monC07, d8, hnf, Bool.true_and, Bool.not_false, Bool.and_true]
      cases hw : dlqwIn a.log s i with
      | false => simp
      | true => simp [hjust hw]
    have n2 : ∀ s' i', sackIn (Ev.sack s i r :: a.log) s' i' = true →
        sackIn a.log s' i' = true ∨ (s' = s ∧ i' = a.released s) := by
      intro s' i' hh; rw [h2] at hh; simp at hh
      rcases hh with ⟨rfl, rfl⟩ | hh
      · exact Or.inr ⟨rfl, hi⟩
      · exact Or.inl hh
    rcases step_sack h with ⟨hh, hti, _, _, ⟨_, rfl⟩ | ⟨_, rfl⟩⟩ | ⟨hh, rfl⟩
    · have := invD_release (fail' := upd a.fail s true) (broken' := a.broken) s hD'
        (fun s' hs' => by by_cases hs : s' = s <;> simp [hs, hs']) id
        (fun s' i' hh => by rw [h1] at hh; exact Or.inl hh) n2
        (fun s' i' hh => by rw [h3] at hh; exact Or.inl hh)
        (fun s' hh => by rw [h4] at hh; exact Or.inl hh)
        (fun hh => by rw [h5] at hh; exact Or.inl hh)
        (fun s' i' hh => by rw [h1]; exact hh) (fun s' i' hh => by rw [h3]; exact hh) hm
      simpa [InvD, release_fail] using this
    · refine invD_busy s (.winAck i) hD' (by simp [hh]) (by simp [hh]) (by simp [hh])
        (fun s' i' hh => by rw [h1] at hh; exact Or.inl hh)
        (fun s' i' hh => by
          rcases n2 s' i' hh with h | ⟨h1, h2⟩
          · exact Or.inl h
          · exact Or.inr ⟨h1, h2, by rw [h2, hi]⟩)
        (fun s' i' hh => by rw [h3] at hh; exact Or.inl hh)
        (fun s' hh => by rw [h4] at hh; exact hh)
        (fun hh => by rw [h5] at hh; exact hh)
        (fun s' i' hh => by rw [h1]; exact hh) (fun s' i' hh => by rw [h3]; exact hh)
        (by simp) (by simp) hm
    · have := invD_release (fail' := if decide (r = SRes.err) then upd a.fail s true else a.fail)
        (broken' := a.broken) s hD'
        (fun s' hs' => by
          by_cases hr : r = SRes.err
          · by_cases hs : s' = s <;> simp [hr, hs, hs']
          · simp [hr, hs']) id
        (fun s' i' hh => by rw [h1] at hh; exact Or.inl hh) n2
        (fun s' i' hh => by rw [h3] at hh; exact Or.inl hh)
        (fun s' hh => by rw [h4] at hh; exact Or.inl hh)
        (fun hh => by rw [h5] at hh; exact Or.inl hh)
        (fun s' i' hh => by rw [h1]; exact hh) (fun s' i' hh => by rw [h3]; exact hh) hm
      simpa [InvD, release_fail] using this
  | winAck s =>
    obtain ⟨j, hh, rfl⟩ := step_winAck h
    have := invD_release (log' := a.log) (fail' := a.fail) (broken' := a.broken) s hD' (fun _ h => h) id
      (fun _ _ h => Or.inl h) (fun _ _ h => Or.inl h) (fun _ _ h => Or.inl h) (fun _ h => Or.inl h)
      (fun h => Or.inl h) (fun _ _ h => h) (fun _ _ h => h) d8
    simpa [InvD, release_fail] using this
  | hfail s i =>
    obtain ⟨_, hres⟩ := step_hfail h
    have := invD_release (log' := a.log) (fail' := upd a.fail s true) (broken' := a.broken) s hD'
      (fun s' hs' => by by_cases hs : s' = s <;> simp [hs, hs']) id
      (fun _ _ h => Or.inl h) (fun _ _ h => Or.inl h) (fun _ _ h => Or.inl h) (fun _ h => Or.inl h)
      (fun h => Or.inl h) (fun _ _ h => h) (fun _ _ h => h) d8
    rcases hres with ⟨_, rfl⟩ | ⟨_, _, _, rfl⟩
    · simpa [InvD, release_fail] using this
    · simpa [InvD, release_fail] using this
  | dlqw s i ok =>
    obtain ⟨⟨hh, hti, _, hf, hacc⟩, hres⟩ := step_dlqw h
    have hi := ticket_eq_released hT hti
    have h1 : ∀ s' i', dlqwIn (Ev.dlqw s i ok :: a.log) s' i' = ((s == s' && i == i') || dlqwIn a.log s' i') := by
      intro s' i'; simp [dlqwIn]
    have h2 : ∀ s' i', sackIn (Ev.dlqw s i ok :: a.log) s' i' = sackIn a.log s' i' := by
      intro s' i'; simp [sackIn]
    have h3 : ∀ s' i', dlqaOkIn (Ev.dlqw s i ok :: a.log) s' i' = dlqaOkIn a.log s' i' := by
      intro s' i'; simp [dlqaOkIn]
    have n1 : ∀ s' i', dlqwIn (Ev.dlqw s i ok :: a.log) s' i' = true →
        dlqwIn a.log s' i' = true ∨ (s' = s ∧ i' = a.released s) := by
      intro s' i' hw; rw [h1] at hw; simp at hw
      rcases hw with ⟨rfl, rfl⟩ | hw
      · exact Or.inr ⟨rfl, hi⟩
      · exact Or.inl hw
    -- this record was not in the DLQ before, earlier DLQ records of s are older, it was not acked,
    -- and the DLQ is not broken
    have hnw : dlqwIn a.log s i = false := bool_false_of_imp (d1 s i) (by
      intro hc; rcases hc with hc | ⟨_, hc⟩
      · omega
      · rcases hc with hc | hc <;> simp [hh] at hc)
    have hns : sackIn a.log s i = false := bool_false_of_imp (d2 s i) (by
      intro hc; rcases hc with hc | ⟨_, hc⟩
      · omega
      · simp [hh] at hc)
    have hnb : dlqFailOf a.log s = false := bool_false_of_imp (d4 s) (by simp [hf])
    have hord : dlqBefore a.log s i = true := by
      unfold dlqBefore
      rw [List.all_eq_true]
      intro e' he'
      cases e' with
      | dlqw s' j ok' =>
        by_cases hs : s' = s
        · subst hs
          have hw : dlqwIn a.log s' j = true := by
            simp only [dlqwIn, List.any_eq_true]
            exact ⟨_, he', by simp⟩
          rcases d1 s' j hw with hlt | ⟨_, hc⟩
          · simp; omega
          · rcases hc with hc | hc <;> simp [hh] at hc
        · simp [hs]
      | _ => rfl
    have hm : monC07 (Ev.dlqw s i ok :: a.log) = true := by
      simp only [monC07, d8, hnw, hns, hnb, hord, Bool.true_and, Bool.not_false, Bool.and_true]
    rcases hres with ⟨hok, rfl⟩ | ⟨hok, rfl⟩
    · subst hok
      refine invD_busy s (.dlqWait i) hD' (by simp [hh]) (by simp [hh]) (by simp [hh])
        (fun s' i' hw => by
          rcases n1 s' i' hw with h | ⟨h1, h2⟩
          · exact Or.inl h
          · exact Or.inr ⟨h1, h2, Or.inl (by rw [h2, hi])⟩)
        (fun s' i' hw => by rw [h2] at hw; exact Or.inl hw)
        (fun s' i' hw => by rw [h3] at hw; exact Or.inl hw)
        (fun s' hw => by simpa [dlqFailOf] using hw)
        (fun hw => by simpa [dlqFailAny] using hw)
        (fun s' i' hw => by rw [h1]; simp [hw]) (fun s' i' hw => by rw [h3]; exact hw)
        (by simp) (by intro i' hi'; simp at hi'; subst hi'; rw [h1]; simp) hm
    · subst hok
      have := invD_release (log' := Ev.dlqw s i false :: a.log) (fail' := upd a.fail s true) (broken' := true)
        s hD' (fun s' hs' => by by_cases hs : s' = s <;> simp [hs, hs']) (fun _ => rfl)
        n1 (fun s' i' hw => by rw [h2] at hw; exact Or.inl hw)
        (fun s' i' hw => by rw [h3] at hw; exact Or.inl hw)
        (fun s' hw => by
          simp [dlqFailOf] at hw
          rcases hw with rfl | hw
          · exact Or.inr ⟨rfl, by simp⟩
          · left; simpa [dlqFailOf] using hw)
        (fun _ => Or.inr rfl)
        (fun s' i' hw => by rw [h1]; simp [hw]) (fun s' i' hw => by rw [h3]; exact hw) hm
      simpa [InvD, release_fail] using this
  | dlqa s i ok =>
    obtain ⟨hh, hres⟩ := step_dlqa h
    have hti := hT.2.2.2.1 s i (Or.inr (Or.inl hh))
    have hi := ticket_eq_released hT hti
    have hf := hT.2.2.2.2 s (by simp [hh])
    have h1 : ∀ s' i', dlqwIn (Ev.dlqa s i ok :: a.log) s' i' = dlqwIn a.log s' i' := by
      intro s' i'; simp [dlqwIn]
    have h2 : ∀ s' i', sackIn (Ev.dlqa s i ok :: a.log) s' i' = sackIn a.log s' i' := by
      intro s' i'; simp [sackIn]
    have hw : dlqwIn a.log s i = true := d7 s i hh
    have hna : dlqaOkIn a.log s i = false := bool_false_of_imp (d3 s i) (by
      intro hc; rcases hc with hc | ⟨_, hc⟩
      · omega
      · simp [hh] at hc)
    have hnf : dlqFailOf a.log s = false := bool_false_of_imp (d4 s) (by simp [hf])
    have hm : monC07 (Ev.dlqa s i ok :: a.log) = true := by
      simp only [monC07, d8, hw, hna, hnf, Bool.true_and, Bool.not_false, Bool.and_true]
    rcases hres with ⟨hok, rfl⟩ | ⟨hok, rfl⟩
    · subst hok
      have h3 : ∀ s' i', dlqaOkIn (Ev.dlqa s i true :: a.log) s' i' = ((s == s' && i == i') || dlqaOkIn a.log s' i') := by
        intro s' i'; simp [dlqaOkIn]
      refine invD_busy s (.needSack i) hD' (by simp [hh]) (by simp [hh]) (by simp [hh])
        (fun s' i' hw => by rw [h1] at hw; exact Or.inl hw)
        (fun s' i' hw => by rw [h2] at hw; exact Or.inl hw)
        (fun s' i' hw => by
          rw [h3] at hw; simp at hw
          rcases hw with ⟨rfl, rfl⟩ | hw
          · exact Or.inr ⟨rfl, hi, rfl⟩
          · exact Or.inl hw)
        (fun s' hw => by simpa [dlqFailOf] using hw)
        (fun hw => by simpa [dlqFailAny] using hw)
        (fun s' i' hw => by rw [h1]; exact hw) (fun s' i' hw => by rw [h3]; simp [hw])
        (by intro i' hi'; simp at hi'; subst hi'; rw [h3]; simp) (by simp) hm
    · subst hok
      have h3 : ∀ s' i', dlqaOkIn (Ev.dlqa s i false :: a.log) s' i' = dlqaOkIn a.log s' i' := by
        intro s' i'; simp [dlqaOkIn]
      have := invD_release (log' := Ev.dlqa s i false :: a.log) (fail' := upd a.fail s true) (broken' := true)
        s hD' (fun s' hs' => by by_cases hs : s' = s <;> simp [hs, hs']) (fun _ => rfl)
        (fun s' i' hw => by rw [h1] at hw; exact Or.inl hw)
        (fun s' i' hw => by rw [h2] at hw; exact Or.inl hw)
        (fun s' i' hw => by rw [h3] at hw; exact Or.inl hw)
        (fun s' hw => by
          simp [dlqFailOf] at hw
          rcases hw with rfl | hw
          · exact Or.inr ⟨rfl, by simp⟩
          · left; simpa [dlqFailOf] using hw)
        (fun _ => Or.inr rfl)
        (fun s' i' hw => by rw [h1]; exact hw) (fun s' i' hw => by rw [h3]; exact hw) hm
      simpa [InvD, release_fail] using this
  | read s => have := step_read h; subst this; exact invD_log _ rfl hD'
  | enq s i => obtain ⟨_, rfl⟩ := step_enq h; exact hD'
  | proc br s i k =>
    cases br with
    | none => obtain ⟨_, rfl⟩ := step_procO h; simpa [InvD] using invD_log (Ev.proc none s i k) rfl hD'
    | some d => obtain ⟨_, rfl⟩ := step_procB h; simpa [InvD] using invD_log (Ev.proc (some d) s i k) rfl hD'
  | fan s i => obtain ⟨_, rfl⟩ := step_fan h; exact hD'
  | write d s i ok =>
    obtain ⟨_, ⟨_, rfl⟩ | ⟨_, rfl⟩⟩ := step_write h
    · exact invD_log _ rfl hD'
    · simpa [InvD] using invD_log (Ev.write d s i ok) rfl hD'
  | fpass d s i => have := step_fpass h; subst this; exact hD'
  | fack d s i => obtain ⟨_, rfl⟩ := step_fack h; simpa [InvD] using hD'
  | dreply d acks =>
    rcases step_dreply h with ⟨_, rfl⟩ | ⟨s, i, _, _, ⟨_, rfl⟩ | ⟨x, rest, _, rfl⟩⟩
    · exact invD_log _ rfl hD'
    · exact invD_log _ rfl hD'
    · simpa [InvD] using invD_log (Ev.dreply d acks) rfl hD'
  | dreplyErr d => have := step_dreplyErr h; subst this; exact invD_log _ rfl hD'
  | dbuf d =>
    obtain ⟨s, i, _, _, x, rest, _, rfl⟩ := step_dbuf h
    simpa [InvD] using hD'
  | nackO s i => obtain ⟨_, rfl⟩ := step_nackO h; exact hD'
  | nackB d s i => obtain ⟨_, rfl⟩ := step_nackB h; simpa [InvD] using hD'
  | dlqStop =>
    have := step_dlqStop h; subst this
    exact ⟨d1, d2, d3, d4, fun _ => rfl, d6, d7, d8⟩
  | wkill d => have := step_wkill h; subst this; exact hD'
  | fdeliver d => have := step_fdeliver h; subst this; exact hD'
  | mv g k s i => have := step_mv h; subst this; exact hD'
  | pdone g k s i => have := step_pdone h; subst this; exact hD'

/-! ### C01: every source ack is justified; C09: the `BUG:` panics of message.go are unreachable -/

theorem count_set_acked {l : List Status} {d : Nat} {x : Status} (h : l[d]? = some x) (hx : x ≠ .acked) :
    (l.set d .acked).count .acked = l.count .acked + 1 := by
  have hlt := lt_of_getElem?_some h
  have hx' : l[d] = x := by
    have := List.getElem?_eq_some_iff.mp h; exact this.2
  rw [List.count_set hlt, hx']
  cases x <;> simp_all

theorem count_set_nacked {l : List Status} {d : Nat} {x : Status} (h : l[d]? = some x) (hx : x ≠ .acked) :
    (l.set d .nacked).count .acked = l.count .acked := by
  have hlt := lt_of_getElem?_some h
  have hx' : l[d] = x := by
    have := List.getElem?_eq_some_iff.mp h; exact this.2
  rw [List.count_set hlt, hx']
  cases x <;> simp_all

theorem count_lt_of_not_acked {l : List Status} {d : Nat} {x : Status} (h : l[d]? = some x) (hx : x ≠ .acked) :
    l.count .acked < l.length := by
  have hle : l.count .acked ≤ l.length := List.count_le_length
  rcases Nat.lt_or_ge (l.count .acked) l.length with hlt | hge
  · exact hlt
  · have heq : l.count .acked = l.length := by omega
    have hall := List.count_eq_length.mp heq
    have hm : x ∈ l := List.mem_of_getElem? h
    exact absurd (hall x hm).symm hx

theorem clone_open_get {a : Ack} {s i d : Nat} (hc : a.clone s i d = .open) (hl : d < (a.cl s i).length) :
    (a.cl s i)[d]? = some .open := by
  unfold Ack.clone at hc
  rw [List.getElem?_eq_getElem hl] at hc ⊢
  simpa using hc

def InvJ' (M : Nat) (ost : Nat → Nat → Status) (filt fanned : Nat → Nat → Bool) (rem : Nat → Nat → Nat)
    (cl : Nat → Nat → List Status) (clFilt : Nat → Nat → Nat → Bool) (buf : Nat → List DAck)
    (panicked : Bool) (log : List Ev) : Prop :=
  (∀ s i, fanned s i = true → (cl s i).length = M) ∧
  (∀ s i, fanned s i = true → rem s i + (cl s i).count .acked = M) ∧
  (∀ s i, ost s i = .acked → fanned s i = true ∧ rem s i = 0) ∧
  (∀ s i d, (cl s i)[d]? = some .acked → dackOkIn log d s i = true ∨ filtIn log d s i = true) ∧
  (∀ d x, x ∈ buf d → ∃ acks, Ev.dreply d acks ∈ log ∧ x ∈ acks) ∧
  (∀ s i, filt s i = true → ∀ d, filtIn log d s i = true) ∧
  (∀ s i d, clFilt s i d = true → filtIn log d s i = true) ∧
  (∀ s i, fanned s i = true → ost s i = .nacked → Status.nacked ∈ cl s i) ∧
  (∀ s i, fanned s i = false → cl s i = []) ∧
  panicked = false ∧
  monC01 M log = true

def InvJ (a : Ack) : Prop :=
  InvJ' a.M a.ost a.filt a.fanned a.rem a.cl a.clFilt a.buf a.panicked a.log

theorem invJ_init (M size thr : Nat) : InvJ (Ack.init M size thr) := by
  simp [InvJ, InvJ', Ack.init, monC01]

theorem dackOkIn_cons (e : Ev) (log : List Ev) (d s i : Nat) (h : dackOkIn log d s i = true) :
    dackOkIn (e :: log) d s i = true := by
  unfold dackOkIn at h ⊢
  rw [List.any_cons, h]; simp

theorem filtIn_cons (e : Ev) (log : List Ev) (d s i : Nat) (h : filtIn log d s i = true) :
    filtIn (e :: log) d s i = true := by
  unfold filtIn at h ⊢
  rw [List.any_cons, h]; simp

/-- logging an event that is not a source ack. -/
theorem invJ_log {M : Nat} {ost : Nat → Nat → Status} {filt fanned : Nat → Nat → Bool} {rem : Nat → Nat → Nat}
    {cl : Nat → Nat → List Status} {clFilt : Nat → Nat → Nat → Bool} {buf : Nat → List DAck}
    {panicked : Bool} {log : List Ev} (e : Ev) (he : ∀ s i r, e ≠ .sack s i r)
    (hJ : InvJ' M ost filt fanned rem cl clFilt buf panicked log) :
    InvJ' M ost filt fanned rem cl clFilt buf panicked (e :: log) := by
  obtain ⟨j0, j1, j2, j3, j4, j5, j6, p2, j7, p1, jm⟩ := hJ
  refine ⟨j0, j1, j2, ?_, ?_, ?_, ?_, p2, j7, p1, ?_⟩
  · intro s i d h
    rcases j3 s i d h with h | h
    · exact Or.inl (dackOkIn_cons _ _ _ _ _ h)
    · exact Or.inr (filtIn_cons _ _ _ _ _ h)
  · intro d x h
    obtain ⟨acks, h1, h2⟩ := j4 d x h
    exact ⟨acks, List.mem_cons_of_mem _ h1, h2⟩
  · intro s i h d; exact filtIn_cons _ _ _ _ _ (j5 s i h d)
  · intro s i d h; exact filtIn_cons _ _ _ _ _ (j6 s i d h)
  · cases e with
    | sack s i r => exact absurd rfl (he s i r)
    | _ => simpa [monC01] using jm

/-- clone d of `(s,i)` is acked (reply matched, or filtered), with its justification in the log. -/
theorem invJ_cloneAck (a : Ack) (d s i : Nat) (hJ : InvJ a)
    (hf : a.fanned s i = true) (hd : d < a.M) (hc : a.clone s i d = .open)
    (hjust : dackOkIn a.log d s i = true ∨ filtIn a.log d s i = true) : InvJ (a.cloneAck d s i) := by
  obtain ⟨j0, j1, j2, j3, j4, j5, j6, p2, j7, p1, jm⟩ := hJ
  have hlen := j0 s i hf
  have hget := clone_open_get hc (by omega)
  have hcnt := count_set_acked hget (by simp)
  have hlt := count_lt_of_not_acked hget (by simp)
  have hrem := j1 s i hf
  have hrem1 : 1 ≤ a.rem s i := by omega
  -- common part: everything but `ost` / `panicked`
  have core : ∀ ost' pan', (∀ s' i', ost' s' i' = .acked → (s' = s ∧ i' = i ∧ a.rem s i - 1 = 0) ∨ a.ost s' i' = .acked) →
      (∀ s' i', ost' s' i' = .nacked → a.ost s' i' = .nacked) → pan' = false →
      InvJ' a.M ost' a.filt a.fanned (upd2 a.rem s i (a.rem s i - 1))
        (upd2 a.cl s i ((a.cl s i).set d .acked)) a.clFilt a.buf pan' a.log := by
    intro ost' pan' ho hn hp
    refine ⟨?_, ?_, ?_, ?_, j4, j5, j6, ?_, ?_, hp, jm⟩
    · intro s' i' h
      by_cases hk : s' = s ∧ i' = i
      · obtain ⟨rfl, rfl⟩ := hk; simp [hlen]
      · simp [hk]; exact j0 s' i' h
    · intro s' i' h
      by_cases hk : s' = s ∧ i' = i
      · obtain ⟨rfl, rfl⟩ := hk; simp [hcnt]; omega
      · simp [hk]; exact j1 s' i' h
    · intro s' i' h
      rcases ho s' i' h with ⟨rfl, rfl, h0⟩ | h
      · simp [hf, h0]
      · by_cases hk : s' = s ∧ i' = i
        · obtain ⟨rfl, rfl⟩ := hk
          have := (j2 s' i' h).2; omega
        · simp [hk]; exact j2 s' i' h
    · intro s' i' d' h
      by_cases hk : s' = s ∧ i' = i
      · obtain ⟨rfl, rfl⟩ := hk
        simp [List.getElem?_set] at h
        by_cases hdd : d = d'
        · subst hdd; exact hjust
        · simp [hdd] at h; exact j3 s' i' d' h
      · simp [hk] at h; exact j3 s' i' d' h
    · intro s' i' h hn'
      have hn'' := hn s' i' hn'
      by_cases hk : s' = s ∧ i' = i
      · obtain ⟨rfl, rfl⟩ := hk
        simp
        have hmem := p2 s' i' h hn''
        obtain ⟨k, hk1⟩ := List.mem_iff_getElem?.mp hmem
        apply List.mem_iff_getElem?.mpr
        refine ⟨k, ?_⟩
        rw [List.getElem?_set]
        by_cases hdk : d = k
        · subst hdk; rw [hget] at hk1; simp at hk1
        · simp [hdk, hk1]
      · simp [hk]; exact p2 s' i' h hn''
    · intro s' i' h
      by_cases hk : s' = s ∧ i' = i
      · obtain ⟨rfl, rfl⟩ := hk; simp [hf] at h
      · simp [hk]; exact j7 s' i' h
  unfold Ack.cloneAck
  simp only []
  by_cases h0 : a.rem s i - 1 = 0
  · rw [if_pos h0]
    -- all clones are acked now: the original is still open
    have hopen : a.ost s i = .open := by
      cases ho : a.ost s i with
      | «open» => rfl
      | acked => have := (j2 s i ho).2; omega
      | nacked =>
        have hmem := p2 s i hf ho
        -- count acked = M - 1 before, so every other clone is acked; clone d is open: no nacked one
        have hc2 : (a.cl s i).count .acked + 1 = (a.cl s i).length := by omega
        exfalso
        obtain ⟨k, hk⟩ := List.mem_iff_getElem?.mp hmem
        have hcnt' : ((a.cl s i).set d .acked).count .acked = ((a.cl s i).set d .acked).length := by
          rw [hcnt, List.length_set]; exact hc2
        have hall := List.count_eq_length.mp hcnt'
        have hmem' : Status.nacked ∈ (a.cl s i).set d .acked := by
          apply List.mem_iff_getElem?.mpr
          refine ⟨k, ?_⟩
          rw [List.getElem?_set]
          by_cases hdk : d = k
          · subst hdk; rw [hget] at hk; simp at hk
          · simp [hdk, hk]
        have := hall _ hmem'
        simp at this
    simp only [hopen]
    exact core _ _ (by
      intro s' i' h
      by_cases hk : s' = s ∧ i' = i
      · obtain ⟨rfl, rfl⟩ := hk; exact Or.inl ⟨rfl, rfl, h0⟩
      · simp [hk] at h; exact Or.inr h) (by
      intro s' i' h
      by_cases hk : s' = s ∧ i' = i
      · obtain ⟨rfl, rfl⟩ := hk; simp at h
      · simpa [hk] using h) p1
  · rw [if_neg h0]
    exact core _ _ (fun _ _ h => Or.inr h) (fun _ _ h => h) p1

/-- clone d of `(s,i)` is nacked by whoever holds it. -/
theorem invJ_cloneNack (a : Ack) (d s i : Nat) (hJ : InvJ a)
    (hf : a.fanned s i = true) (hd : d < a.M) (hc : a.clone s i d = .open) : InvJ (a.cloneNack d s i) := by
  obtain ⟨j0, j1, j2, j3, j4, j5, j6, p2, j7, p1, jm⟩ := hJ
  have hlen := j0 s i hf
  have hget := clone_open_get hc (by omega)
  have hcnt := count_set_nacked hget (by simp)
  have hlt := count_lt_of_not_acked hget (by simp)
  have hrem := j1 s i hf
  have hna : a.ost s i ≠ .acked := by
    intro ho; have := (j2 s i ho).2; omega
  have hmemd : Status.nacked ∈ (a.cl s i).set d .nacked := List.mem_set (by omega) _
  have core : ∀ ost', (∀ s' i', ost' s' i' = .acked → a.ost s' i' = .acked) →
      (∀ s' i', ost' s' i' = .nacked → (s' = s ∧ i' = i) ∨ a.ost s' i' = .nacked) →
      InvJ' a.M ost' a.filt a.fanned a.rem (upd2 a.cl s i ((a.cl s i).set d .nacked)) a.clFilt a.buf
        a.panicked a.log := by
    intro ost' ho hn
    refine ⟨?_, ?_, ?_, ?_, j4, j5, j6, ?_, ?_, p1, jm⟩
    · intro s' i' h
      by_cases hk : s' = s ∧ i' = i
      · obtain ⟨rfl, rfl⟩ := hk; simp [hlen]
      · simp [hk]; exact j0 s' i' h
    · intro s' i' h
      by_cases hk : s' = s ∧ i' = i
      · obtain ⟨rfl, rfl⟩ := hk; simp [hcnt]; exact hrem
      · simp [hk]; exact j1 s' i' h
    · intro s' i' h; exact j2 s' i' (ho s' i' h)
    · intro s' i' d' h
      by_cases hk : s' = s ∧ i' = i
      · obtain ⟨rfl, rfl⟩ := hk
        simp [List.getElem?_set] at h
        by_cases hdd : d = d'
        · subst hdd; simp at h
        · simp [hdd] at h; exact j3 s' i' d' h
      · simp [hk] at h; exact j3 s' i' d' h
    · intro s' i' h hn'
      by_cases hk : s' = s ∧ i' = i
      · obtain ⟨rfl, rfl⟩ := hk; simp; exact hmemd
      · simp [hk]
        rcases hn s' i' hn' with hk' | h'
        · exact absurd hk' hk
        · exact p2 s' i' h h'
    · intro s' i' h
      by_cases hk : s' = s ∧ i' = i
      · obtain ⟨rfl, rfl⟩ := hk; simp [hf] at h
      · simp [hk]; exact j7 s' i' h
  unfold Ack.cloneNack
  simp only []
  cases ho : a.ost s i with
  | «open» =>
    simp only []
    exact core _ (by
      intro s' i' h
      by_cases hk : s' = s ∧ i' = i
      · obtain ⟨rfl, rfl⟩ := hk; simp at h
      · simpa [hk] using h) (by
      intro s' i' h
      by_cases hk : s' = s ∧ i' = i
      · exact Or.inl hk
      · simp [hk] at h; exact Or.inr h)
  | nacked => simp only []; exact core _ (fun _ _ h => h) (fun _ _ h => Or.inr h)
  | acked => exact absurd ho hna

/-- the acker worker handles its queue head with reply element `x`. -/
theorem invJ_dproc (a : Ack) (d s i : Nat) (x : DAck) (hJ : InvJ a)
    (hf : a.fanned s i = true) (hd : d < a.M) (hc : a.clone s i d = .open)
    (hx : x.1 = some (s, i) → x.2 = true → dackOkIn a.log d s i = true) : InvJ (a.dproc d s i x) := by
  unfold Ack.dproc
  by_cases h1 : x.1 = some (s, i)
  · rw [if_pos h1]
    simp only []
    by_cases h2 : x.2 = true
    · rw [if_pos h2]
      exact invJ_cloneAck _ d s i hJ hf hd hc (Or.inl (hx h1 h2))
    · rw [if_neg h2]
      exact invJ_cloneNack _ d s i hJ hf hd hc
  · rw [if_neg h1]; exact hJ

theorem dackOkIn_of_mem {log : List Ev} {d s i : Nat} {acks : List DAck}
    (h1 : Ev.dreply d acks ∈ log) (h2 : ((some (s, i), true) : DAck) ∈ acks) : dackOkIn log d s i = true := by
  unfold dackOkIn
  rw [List.any_eq_true]
  exact ⟨_, h1, by simpa using h2⟩

/-! the acker queues only hold clones that exist -/

def InvQ (a : Ack) : Prop := ∀ d s i, (s, i) ∈ a.aq d → a.fanned s i = true ∧ d < a.M

theorem invQ_init (M size thr : Nat) : InvQ (Ack.init M size thr) := by
  simp [InvQ, Ack.init]

theorem dproc_aq_sub (a : Ack) (d s i : Nat) (x : DAck) (d' : Nat) (y : Nat × Nat)
    (h : y ∈ (a.dproc d s i x).aq d') : y ∈ a.aq d' := by
  unfold Ack.dproc at h
  split at h
  · split at h <;> simp at h <;>
      (by_cases hd : d' = d
       · subst hd; simp at h; exact List.mem_of_mem_tail h
       · simpa [hd] using h)
  · exact h

theorem invQ_step (a a' : Ack) (e : Ev) (hQ : InvQ a) (h : a.step e = some a') : InvQ a' := by
  cases e with
  | read s => have := step_read h; subst this; exact hQ
  | enq s i => obtain ⟨_, rfl⟩ := step_enq h; exact hQ
  | proc br s i k =>
    cases br with
    | none => obtain ⟨_, rfl⟩ := step_procO h; intro d' s' i' hm; simpa using hQ d' s' i' (by simpa using hm)
    | some d => obtain ⟨_, rfl⟩ := step_procB h; intro d' s' i' hm; simpa using hQ d' s' i' (by simpa using hm)
  | fan s i =>
    obtain ⟨_, rfl⟩ := step_fan h
    intro d' s' i' hm
    have := hQ d' s' i' hm
    refine ⟨?_, this.2⟩
    by_cases hk : s' = s ∧ i' = i
    · obtain ⟨rfl, rfl⟩ := hk; simp
    · simp [hk]; exact this.1
  | write d s i ok =>
    obtain ⟨⟨hf, hd, _, _⟩, ⟨_, rfl⟩ | ⟨_, rfl⟩⟩ := step_write h
    · intro d' s' i' hm
      by_cases hdd : d' = d
      · subst hdd
        simp at hm
        rcases hm with hm | ⟨rfl, rfl⟩
        · exact hQ d' s' i' hm
        · exact ⟨hf, hd⟩
      · simp [hdd] at hm; exact hQ d' s' i' hm
    · intro d' s' i' hm; simpa using hQ d' s' i' (by simpa using hm)
  | fpass d s i => have := step_fpass h; subst this; exact hQ
  | fack d s i =>
    obtain ⟨_, rfl⟩ := step_fack h
    intro d' s' i' hm; simpa using hQ d' s' i' (by simpa using hm)
  | dreply d acks =>
    rcases step_dreply h with ⟨_, rfl⟩ | ⟨s, i, _, _, ⟨_, rfl⟩ | ⟨x, rest, _, rfl⟩⟩
    · exact hQ
    · exact hQ
    · intro d' s' i' hm
      have := dproc_aq_sub _ d s i x d' (s', i') hm
      simpa using hQ d' s' i' this
  | dreplyErr d => have := step_dreplyErr h; subst this; exact hQ
  | dbuf d =>
    obtain ⟨s, i, _, _, x, rest, _, rfl⟩ := step_dbuf h
    intro d' s' i' hm
    have := dproc_aq_sub _ d s i x d' (s', i') hm
    simpa using hQ d' s' i' this
  | nackO s i => obtain ⟨_, rfl⟩ := step_nackO h; exact hQ
  | nackB d s i =>
    obtain ⟨_, rfl⟩ := step_nackB h
    intro d' s' i' hm
    have hm' : (s', i') ∈ a.aq d' := by
      by_cases hdd : d' = d
      · subst hdd; simp at hm; exact hm.1
      · simpa [hdd] using hm
    simpa using hQ d' s' i' hm'
  | sack s i r =>
    rcases step_sack h with ⟨_, _, _, _, ⟨_, rfl⟩ | ⟨_, rfl⟩⟩ | ⟨_, rfl⟩
    · intro d' s' i' hm; simpa using hQ d' s' i' (by simpa using hm)
    · exact hQ
    · intro d' s' i' hm; simpa using hQ d' s' i' (by simpa using hm)
  | winAck s =>
    obtain ⟨j, _, rfl⟩ := step_winAck h
    intro d' s' i' hm; simpa using hQ d' s' i' (by simpa using hm)
  | hfail s i =>
    obtain ⟨_, ⟨_, rfl⟩ | ⟨_, _, _, rfl⟩⟩ := step_hfail h
    · intro d' s' i' hm; simpa using hQ d' s' i' (by simpa using hm)
    · intro d' s' i' hm; simpa using hQ d' s' i' (by simpa using hm)
  | dlqw s i ok =>
    obtain ⟨_, ⟨_, rfl⟩ | ⟨_, rfl⟩⟩ := step_dlqw h
    · exact hQ
    · intro d' s' i' hm; simpa using hQ d' s' i' (by simpa using hm)
  | dlqa s i ok =>
    obtain ⟨_, ⟨_, rfl⟩ | ⟨_, rfl⟩⟩ := step_dlqa h
    · exact hQ
    · intro d' s' i' hm; simpa using hQ d' s' i' (by simpa using hm)
  | dlqStop => have := step_dlqStop h; subst this; exact hQ
  | wkill d => have := step_wkill h; subst this; exact hQ
  | fdeliver d => have := step_fdeliver h; subst this; exact hQ
  | mv g k s i => have := step_mv h; subst this; exact hQ
  | pdone g k s i => have := step_pdone h; subst this; exact hQ

theorem invJ_step (a a' : Ack) (e : Ev) (hT : InvT a) (hD : InvD a) (hQ : InvQ a) (hJ : InvJ a)
    (h : a.step e = some a') : InvJ a' := by
  have hJ' := hJ
  obtain ⟨j0, j1, j2, j3, j4, j5, j6, p2, j7, p1, jm⟩ := hJ
  cases e with
  | read s => have := step_read h; subst this; exact invJ_log _ (by intros; simp) hJ'
  | enq s i => obtain ⟨_, rfl⟩ := step_enq h; exact hJ'
  | proc br s i k =>
    cases br with
    | none =>
      obtain ⟨⟨ho, hnf, _⟩, rfl⟩ := step_procO h
      have base := invJ_log (Ev.proc none s i k) (by intros; simp) hJ'
      obtain ⟨b0, b1, b2, b3, b4, b5, b6, b7, b8, b9, bm⟩ := base
      cases k with
      | pass => exact ⟨b0, b1, b2, b3, b4, b5, b6, b7, b8, b9, bm⟩
      | filter =>
        refine ⟨b0, b1, b2, b3, b4, ?_, b6, b7, b8, b9, bm⟩
        intro s' i' hh d
        by_cases hk : s' = s ∧ i' = i
        · obtain ⟨rfl, rfl⟩ := hk; simp [filtIn]
        · simp [Ack.procO, hk] at hh; exact b5 s' i' hh d
      | fail =>
        refine ⟨b0, b1, ?_, b3, b4, b5, b6, ?_, b8, b9, bm⟩
        · intro s' i' hh
          by_cases hk : s' = s ∧ i' = i
          · obtain ⟨rfl, rfl⟩ := hk; simp [Ack.procO] at hh
          · simp [Ack.procO, hk] at hh; exact b2 s' i' hh
        · intro s' i' hh hn
          by_cases hk : s' = s ∧ i' = i
          · obtain ⟨rfl, rfl⟩ := hk; simp [Ack.procO, hnf] at hh
          · simp [Ack.procO, hk] at hn hh; exact b7 s' i' hh hn
    | some d =>
      obtain ⟨⟨hf, hd, hc⟩, rfl⟩ := step_procB h
      cases k with
      | pass => exact invJ_log (Ev.proc (some d) s i .pass) (by intros; simp) hJ'
      | filter =>
        have base := invJ_log (Ev.proc (some d) s i .filter) (by intros; simp) hJ'
        obtain ⟨b0, b1, b2, b3, b4, b5, b6, b7, b8, b9, bm⟩ := base
        refine ⟨b0, b1, b2, b3, b4, b5, ?_, b7, b8, b9, bm⟩
        intro s' i' d' hh
        by_cases hk : s' = s ∧ i' = i ∧ d' = d
        · obtain ⟨rfl, rfl, rfl⟩ := hk; simp [filtIn]
        · simp [Ack.procB, hk] at hh; exact b6 s' i' d' hh
      | fail =>
        have := invJ_cloneNack a d s i hJ' hf hd hc
        have := invJ_log (Ev.proc (some d) s i .fail) (by intros; simp) this
        simpa [InvJ, Ack.procB] using this
  | fan s i =>
    obtain ⟨⟨ho, hnf, _⟩, rfl⟩ := step_fan h
    refine ⟨?_, ?_, ?_, ?_, j4, j5, ?_, ?_, ?_, p1, jm⟩
    · intro s' i' hh
      by_cases hk : s' = s ∧ i' = i
      · obtain ⟨rfl, rfl⟩ := hk; simp
      · simp [hk] at hh ⊢; exact j0 s' i' hh
    · intro s' i' hh
      by_cases hk : s' = s ∧ i' = i
      · obtain ⟨rfl, rfl⟩ := hk; simp [List.count_replicate]
      · simp [hk] at hh ⊢; exact j1 s' i' hh
    · intro s' i' hh
      by_cases hk : s' = s ∧ i' = i
      · obtain ⟨rfl, rfl⟩ := hk; simp [ho] at hh
      · simp [hk]; exact j2 s' i' hh
    · intro s' i' d' hh
      by_cases hk : s' = s ∧ i' = i
      · obtain ⟨rfl, rfl⟩ := hk
        simp at hh
        have := List.getElem?_replicate (a := Status.open) (n := a.M) (i := d')
        rw [this] at hh
        by_cases hdm : d' < a.M <;> simp [hdm] at hh
      · simp [hk] at hh; exact j3 s' i' d' hh
    · intro s' i' d' hh
      by_cases hk : s' = s ∧ i' = i
      · obtain ⟨rfl, rfl⟩ := hk; simp at hh; exact j5 s' i' hh d'
      · simp [hk] at hh; exact j6 s' i' d' hh
    · intro s' i' hh hn
      by_cases hk : s' = s ∧ i' = i
      · obtain ⟨rfl, rfl⟩ := hk; simp [ho] at hn
      · simp [hk] at hh ⊢; exact p2 s' i' hh hn
    · intro s' i' hh
      by_cases hk : s' = s ∧ i' = i
      · obtain ⟨rfl, rfl⟩ := hk; simp at hh
      · simp [hk] at hh ⊢; exact j7 s' i' hh
  | write d s i ok =>
    obtain ⟨⟨hf, hd, hc, _⟩, ⟨_, rfl⟩ | ⟨_, rfl⟩⟩ := step_write h
    · exact invJ_log _ (by intros; simp) hJ'
    · have := invJ_cloneNack a d s i hJ' hf hd hc
      have := invJ_log (Ev.write d s i ok) (by intros; simp) this
      simpa [InvJ] using this
  | fpass d s i => have := step_fpass h; subst this; exact hJ'
  | fack d s i =>
    obtain ⟨⟨hf, hd, hc, hfl, _⟩, rfl⟩ := step_fack h
    exact invJ_cloneAck _ d s i hJ' hf hd hc (Or.inr (j6 s i d hfl))
  | dreply d acks =>
    rcases step_dreply h with ⟨_, rfl⟩ | ⟨s, i, hq, ⟨_, hb, _, hc⟩, ⟨_, rfl⟩ | ⟨x, rest, hacks, rfl⟩⟩
    · exact invJ_log _ (by intros; simp) hJ'
    · exact invJ_log _ (by intros; simp) hJ'
    · -- the head of the queue is a clone that exists
      obtain ⟨hf, hd⟩ := hQ d s i (List.mem_of_getElem? hq)
      have base := invJ_log (Ev.dreply d acks) (by intros; simp) hJ'
      obtain ⟨b0, b1, b2, b3, b4, b5, b6, b7, b8, b9, bm⟩ := base
      have a1 : InvJ { a with log := Ev.dreply d acks :: a.log, buf := upd a.buf d rest } := by
        refine ⟨b0, b1, b2, b3, ?_, b5, b6, b7, b8, b9, bm⟩
        intro d' y hy
        by_cases hdd : d' = d
        · subst hdd
          simp at hy
          exact ⟨acks, List.mem_cons_self, by rw [hacks]; exact List.mem_cons_of_mem _ hy⟩
        · simp [hdd] at hy; exact b4 d' y hy
      apply invJ_dproc _ d s i x a1 hf hd hc
      intro hx1 hx2
      apply dackOkIn_of_mem (acks := acks) List.mem_cons_self
      rw [hacks]
      have : x = (some (s, i), true) := Prod.ext hx1 hx2
      rw [this]; exact List.mem_cons_self
  | dreplyErr d => have := step_dreplyErr h; subst this; exact invJ_log _ (by intros; simp) hJ'
  | dbuf d =>
    obtain ⟨s, i, hq, ⟨_, hc⟩, x, rest, hb, rfl⟩ := step_dbuf h
    obtain ⟨hf, hd⟩ := hQ d s i (List.mem_of_getElem? hq)
    have a1 : InvJ { a with buf := upd a.buf d rest } := by
      refine ⟨j0, j1, j2, j3, ?_, j5, j6, p2, j7, p1, jm⟩
      intro d' y hy
      by_cases hdd : d' = d
      · subst hdd
        simp at hy
        exact j4 d' y (by rw [hb]; exact List.mem_cons_of_mem _ hy)
      · simp [hdd] at hy; exact j4 d' y hy
    apply invJ_dproc _ d s i x a1 hf hd hc
    intro hx1 hx2
    obtain ⟨acks, h1, h2⟩ := j4 d x (by rw [hb]; exact List.mem_cons_self)
    have : x = (some (s, i), true) := Prod.ext hx1 hx2
    rw [this] at h2
    exact dackOkIn_of_mem h1 h2
  | nackO s i =>
    obtain ⟨⟨ho, hnf, _⟩, rfl⟩ := step_nackO h
    refine ⟨j0, j1, ?_, j3, j4, j5, j6, ?_, j7, p1, jm⟩
    · intro s' i' hh
      by_cases hk : s' = s ∧ i' = i
      · obtain ⟨rfl, rfl⟩ := hk; simp at hh
      · simp [hk] at hh; exact j2 s' i' hh
    · intro s' i' hh hn
      by_cases hk : s' = s ∧ i' = i
      · obtain ⟨rfl, rfl⟩ := hk; simp [hnf] at hh
      · simp [hk] at hn; exact p2 s' i' hh hn
  | nackB d s i =>
    obtain ⟨⟨hf, hd, hc⟩, rfl⟩ := step_nackB h
    have := invJ_cloneNack a d s i hJ' hf hd hc
    simpa [InvJ] using this
  | sack s i r =>
    have hjust : justified a.M a.log s i = true := by
      rcases step_sack h with ⟨_, _, ho, _, _⟩ | ⟨hh, _⟩
      · obtain ⟨hf, hr0⟩ := j2 s i ho
        have hlen := j0 s i hf
        have hcnt := j1 s i hf
        have hall := List.count_eq_length.mp (by omega : (a.cl s i).count .acked = (a.cl s i).length)
        unfold justified
        apply Bool.or_eq_true_iff.mpr
        left
        rw [List.all_eq_true]
        intro d hd
        have hd' : d < a.M := by simpa using hd
        have hget : (a.cl s i)[d]? = some .acked := by
          rw [List.getElem?_eq_getElem (by omega)]
          have := hall ((a.cl s i)[d]'(by omega)) (List.getElem_mem _)
          simp [← this]
        rcases j3 s i d hget with h1 | h1 <;> simp [h1]
      · unfold justified
        simp [hD.2.2.2.2.2.1 s i hh]
    have hm : monC01 a.M (Ev.sack s i r :: a.log) = true := by simp [monC01, jm, hjust]
    have base : InvJ' a.M a.ost a.filt a.fanned a.rem a.cl a.clFilt a.buf a.panicked (Ev.sack s i r :: a.log) := by
      refine ⟨j0, j1, j2, ?_, ?_, ?_, ?_, p2, j7, p1, hm⟩
      · intro s' i' d hh
        rcases j3 s' i' d hh with h1 | h1
        · exact Or.inl (dackOkIn_cons _ _ _ _ _ h1)
        · exact Or.inr (filtIn_cons _ _ _ _ _ h1)
      · intro d x hh
        obtain ⟨acks, h1, h2⟩ := j4 d x hh
        exact ⟨acks, List.mem_cons_of_mem _ h1, h2⟩
      · intro s' i' hh d; exact filtIn_cons _ _ _ _ _ (j5 s' i' hh d)
      · intro s' i' d hh; exact filtIn_cons _ _ _ _ _ (j6 s' i' d hh)
    rcases step_sack h with ⟨_, _, _, _, ⟨_, rfl⟩ | ⟨_, rfl⟩⟩ | ⟨_, rfl⟩
    · simpa [InvJ] using base
    · exact base
    · simpa [InvJ] using base
  | winAck s => obtain ⟨j, _, rfl⟩ := step_winAck h; simpa [InvJ] using hJ'
  | hfail s i =>
    obtain ⟨_, ⟨_, rfl⟩ | ⟨_, _, _, rfl⟩⟩ := step_hfail h
    · simpa [InvJ] using hJ'
    · simpa [InvJ] using hJ'
  | dlqw s i ok =>
    obtain ⟨_, ⟨_, rfl⟩ | ⟨_, rfl⟩⟩ := step_dlqw h
    · exact invJ_log _ (by intros; simp) hJ'
    · simpa [InvJ] using invJ_log (Ev.dlqw s i ok) (by intros; simp) hJ'
  | dlqa s i ok =>
    obtain ⟨_, ⟨_, rfl⟩ | ⟨_, rfl⟩⟩ := step_dlqa h
    · exact invJ_log _ (by intros; simp) hJ'
    · simpa [InvJ] using invJ_log (Ev.dlqa s i ok) (by intros; simp) hJ'
  | dlqStop => have := step_dlqStop h; subst this; exact hJ'
  | wkill d => have := step_wkill h; subst this; exact hJ'
  | fdeliver d => have := step_fdeliver h; subst this; exact hJ'
  | mv g k s i => have := step_mv h; subst this; exact hJ'
  | pdone g k s i => have := step_pdone h; subst this; exact hJ'

/-! ### all together: every reachable state -/

def AInv (a : Ack) : Prop := InvT a ∧ InvL a ∧ InvD a ∧ InvQ a ∧ InvJ a

theorem ainv_init (M size thr : Nat) : AInv (Ack.init M size thr) :=
  ⟨invT_init M size thr, invL_init M size thr, invD_init M size thr, invQ_init M size thr, invJ_init M size thr⟩

theorem ainv_step {a a' : Ack} {e : Ev} (hI : AInv a) (h : a.step e = some a') : AInv a' := by
  obtain ⟨hT, hL, hD, hQ, hJ⟩ := hI
  exact ⟨invT_step a a' e hT h, invL_step a a' e hT hL h, invD_step a a' e hT hD h,
    invQ_step a a' e hQ h, invJ_step a a' e hT hD hQ hJ h⟩

theorem ainv_run {a a' : Ack} (evs : List Ev) (hI : AInv a) (h : Ack.run a evs = some a') : AInv a' := by
  induction evs generalizing a with
  | nil => simp [Ack.run] at h; subst h; exact hI
  | cons e es ih =>
    simp only [Ack.run] at h
    cases hs : a.step e with
    | none => simp [hs] at h
    | some a1 => rw [hs] at h; exact ih (ainv_step hI hs) h

theorem ainv_reach (M size thr : Nat) (evs : List Ev) (a : Ack)
    (h : Ack.run (Ack.init M size thr) evs = some a) : AInv a :=
  ainv_run evs (ainv_init M size thr) h

/-- the number of destinations never changes. -/
theorem step_M {a a' : Ack} {e : Ev} (h : a.step e = some a') : a'.M = a.M := by
  cases e with
  | read s => have := step_read h; subst this; rfl
  | enq s i => obtain ⟨_, rfl⟩ := step_enq h; rfl
  | proc br s i k =>
    cases br with
    | none => obtain ⟨_, rfl⟩ := step_procO h; simp
    | some d => obtain ⟨_, rfl⟩ := step_procB h; simp
  | fan s i => obtain ⟨_, rfl⟩ := step_fan h; rfl
  | write d s i ok => obtain ⟨_, ⟨_, rfl⟩ | ⟨_, rfl⟩⟩ := step_write h <;> simp
  | fpass d s i => have := step_fpass h; subst this; rfl
  | fack d s i => obtain ⟨_, rfl⟩ := step_fack h; simp
  | dreply d acks => rcases step_dreply h with ⟨_, rfl⟩ | ⟨s, i, _, _, ⟨_, rfl⟩ | ⟨x, rest, _, rfl⟩⟩ <;> simp
  | dreplyErr d => have := step_dreplyErr h; subst this; rfl
  | dbuf d => obtain ⟨s, i, _, _, x, rest, _, rfl⟩ := step_dbuf h; simp
  | nackO s i => obtain ⟨_, rfl⟩ := step_nackO h; rfl
  | nackB d s i => obtain ⟨_, rfl⟩ := step_nackB h; simp
  | sack s i r => rcases step_sack h with ⟨_, _, _, _, ⟨_, rfl⟩ | ⟨_, rfl⟩⟩ | ⟨_, rfl⟩ <;> simp
  | winAck s => obtain ⟨j, _, rfl⟩ := step_winAck h; simp
  | hfail s i => obtain ⟨_, ⟨_, rfl⟩ | ⟨_, _, _, rfl⟩⟩ := step_hfail h <;> simp
  | dlqw s i ok => obtain ⟨_, ⟨_, rfl⟩ | ⟨_, rfl⟩⟩ := step_dlqw h <;> simp
  | dlqa s i ok => obtain ⟨_, ⟨_, rfl⟩ | ⟨_, rfl⟩⟩ := step_dlqa h <;> simp
  | dlqStop => have := step_dlqStop h; subst this; rfl
  | wkill d => have := step_wkill h; subst this; rfl
  | fdeliver d => have := step_fdeliver h; subst this; rfl
  | mv g k s i => have := step_mv h; subst this; rfl
  | pdone g k s i => have := step_pdone h; subst this; rfl

/-- the log is exactly the observable events, newest first. -/
theorem step_log {a a' : Ack} {e : Ev} (h : a.step e = some a') :
    a'.log = if e.observable then e :: a.log else a.log := by
  cases e with
  | read s => have := step_read h; subst this; rfl
  | enq s i => obtain ⟨_, rfl⟩ := step_enq h; rfl
  | proc br s i k =>
    cases br with
    | none => obtain ⟨_, rfl⟩ := step_procO h; simp [Ev.observable]
    | some d => obtain ⟨_, rfl⟩ := step_procB h; simp [Ev.observable]
  | fan s i => obtain ⟨_, rfl⟩ := step_fan h; rfl
  | write d s i ok => obtain ⟨_, ⟨_, rfl⟩ | ⟨_, rfl⟩⟩ := step_write h <;> simp [Ev.observable]
  | fpass d s i => have := step_fpass h; subst this; rfl
  | fack d s i => obtain ⟨_, rfl⟩ := step_fack h; simp [Ev.observable]
  | dreply d acks =>
    rcases step_dreply h with ⟨_, rfl⟩ | ⟨s, i, _, _, ⟨_, rfl⟩ | ⟨x, rest, _, rfl⟩⟩ <;> simp [Ev.observable]
  | dreplyErr d => have := step_dreplyErr h; subst this; rfl
  | dbuf d =>
    obtain ⟨s, i, _, _, x, rest, _, rfl⟩ := step_dbuf h; simp [Ev.observable]
  | nackO s i => obtain ⟨_, rfl⟩ := step_nackO h; rfl
  | nackB d s i => obtain ⟨_, rfl⟩ := step_nackB h; simp [Ev.observable]
  | sack s i r =>
    rcases step_sack h with ⟨_, _, _, _, ⟨_, rfl⟩ | ⟨_, rfl⟩⟩ | ⟨_, rfl⟩ <;> simp [Ev.observable]
  | winAck s => obtain ⟨j, _, rfl⟩ := step_winAck h; simp [Ev.observable]
  | hfail s i => obtain ⟨_, ⟨_, rfl⟩ | ⟨_, _, _, rfl⟩⟩ := step_hfail h <;> simp [Ev.observable]
  | dlqw s i ok => obtain ⟨_, ⟨_, rfl⟩ | ⟨_, rfl⟩⟩ := step_dlqw h <;> simp [Ev.observable]
  | dlqa s i ok => obtain ⟨_, ⟨_, rfl⟩ | ⟨_, rfl⟩⟩ := step_dlqa h <;> simp [Ev.observable]
  | dlqStop => have := step_dlqStop h; subst this; rfl
  | wkill d => have := step_wkill h; subst this; rfl
  | fdeliver d => have := step_fdeliver h; subst this; rfl
  | mv g k s i => have := step_mv h; subst this; rfl
  | pdone g k s i => have := step_pdone h; subst this; rfl

theorem run_log {a a' : Ack} (evs : List Ev) (h : Ack.run a evs = some a') :
    a'.log = (evs.filter Ev.observable).reverse ++ a.log := by
  induction evs generalizing a with
  | nil => simp [Ack.run] at h; subst h; simp
  | cons e es ih =>
    simp only [Ack.run] at h
    cases hs : a.step e with
    | none => simp [hs] at h
    | some a1 =>
      rw [hs] at h
      rw [ih h, step_log hs]
      by_cases ho : e.observable = true <;> simp [ho, List.filter_cons]

theorem run_M {a a' : Ack} (evs : List Ev) (h : Ack.run a evs = some a') : a'.M = a.M := by
  induction evs generalizing a with
  | nil => simp [Ack.run] at h; subst h; rfl
  | cons e es ih =>
    simp only [Ack.run] at h
    cases hs : a.step e with
    | none => simp [hs] at h
    | some a1 => rw [hs] at h; rw [ih h, step_M hs]

end Conduit.Stream
