import ConduitModel.Model.StreamCondMerge
import ConduitModel.Spec.StreamCondMerge

/-
Helper lemmas for C09 (condition merge): the fixed merge loop computes `spec`, never panics,
and `spec` is aligned.
-/
namespace Conduit.Stream.CondMerge

variable {ρ τ : Type}

/-! ### the evaluation loop -/

theorem keptOf_length (cs : List Cond) (rs : List ρ) (h : cs.length = rs.length) :
    (keptOf cs rs).length = keptCount cs := by
  induction cs generalizing rs with
  | nil => simp [keptOf, keptCount]
  | cons c cs ih =>
    cases rs with
    | nil => simp at h
    | cons r rs =>
      have h' : cs.length = rs.length := by simpa using h
      cases c <;> simp [keptOf, keptCount, ih rs h']

theorem errOf_eq (cs : List Cond) (rs : List ρ) (h : cs.length = rs.length) :
    errOf cs rs = hasErr cs := by
  induction cs generalizing rs with
  | nil => simp [errOf, hasErr]
  | cons c cs ih =>
    cases rs with
    | nil => simp at h
    | cons r rs =>
      have h' : cs.length = rs.length := by simpa using h
      cases c <;> simp [errOf, hasErr, ih rs h']

/-- every pass-through index produced from position `i` on is `≥ i`. -/
theorem passOf_ge (cs : List Cond) (rs : List ρ) (i : Nat) :
    ∀ x ∈ passOf cs rs i, i ≤ x := by
  induction cs generalizing rs i with
  | nil => simp [passOf]
  | cons c cs ih =>
    cases rs with
    | nil => simp [passOf]
    | cons r rs =>
      cases c with
      | err => simp [passOf]
      | keep =>
        intro x hx
        have : x ∈ passOf cs rs (i+1) := by simpa [passOf] using hx
        have := ih rs (i+1) x this
        omega
      | pass =>
        intro x hx
        have hx' : x = i ∨ x ∈ passOf cs rs (i+1) := by simpa [passOf] using hx
        rcases hx' with h | h
        · omega
        · have := ih rs (i+1) x h; omega

theorem passOf_length_le (cs : List Cond) (rs : List ρ) (i : Nat) :
    (passOf cs rs i).length ≤ rs.length := by
  induction cs generalizing rs i with
  | nil => simp [passOf]
  | cons c cs ih =>
    cases rs with
    | nil => simp [passOf]
    | cons r rs =>
      have := ih rs (i+1)
      cases c <;> simp [passOf] <;> omega

/-- all records pass through: the "no records are kept" shortcut coincides with `spec`. -/
theorem spec_all_pass (cs : List Cond) (rs : List ρ) (ts : List τ) (i : Nat)
    (hlen : cs.length = rs.length) (h : (passOf cs rs i).length = rs.length) :
    spec cs rs ts = rs.map .single := by
  induction cs generalizing rs i with
  | nil => cases rs <;> simp_all [spec]
  | cons c cs ih =>
    cases rs with
    | nil => simp at hlen
    | cons r rs =>
      have hlen' : cs.length = rs.length := by simpa using hlen
      cases c with
      | err => simp [passOf] at h
      | keep =>
        have := passOf_length_le cs rs (i+1)
        simp [passOf] at h; omega
      | pass =>
        have h' : (passOf cs rs (i+1)).length = rs.length := by simpa [passOf] using h
        simp [spec, ih rs (i+1) hlen' h']

/-! ### the merge loop -/

/-- what the loop appends from loop index `i` on, given the remaining conditions/records and the
not yet consumed part `os` of `outRecs`. After a condition error the pass-through list is
exhausted, so the loop consumes one element of `os` per remaining iteration. -/
def specO : List Cond → List ρ → List (Out ρ τ) → List (Out ρ τ)
  | [], _, _ => []
  | _ :: _, [], _ => []
  | .pass :: cs, r :: rs, os => .single r :: specO cs rs os
  | .keep :: cs, _ :: rs, o :: os => o :: specO cs rs os
  | .keep :: _, _ :: _, [] => []
  | .err :: _, _ :: rs, os => os.take (rs.length + 1)

/-- with the pass-through list exhausted the loop copies `outRecs` until it or the fuel ends. -/
theorem mergeLoop_nil_pass (recs : List ρ) (outRecs : List (Out ρ τ)) :
    ∀ (fuel i next : Nat) (merged : List (Out ρ τ)), next ≤ outRecs.length →
      mergeLoop recs outRecs fuel i next [] merged = .ok (merged ++ (outRecs.drop next).take fuel) := by
  intro fuel
  induction fuel with
  | zero => intro i next merged _; simp [mergeLoop]
  | succ fuel ih =>
    intro i next merged hn
    rw [mergeLoop]
    have h0 : ¬ (0 < ([] : List Nat).length ∧ ([] : List Nat)[0]? = some i) := by simp
    rw [if_neg h0]
    by_cases he : next = outRecs.length
    · rw [if_pos he]; simp [he]
    · rw [if_neg he]
      have hlt : next < outRecs.length := by omega
      rw [List.getElem?_eq_getElem hlt]
      simp only []
      rw [ih (i+1) (next+1) _ (by omega), List.drop_eq_getElem_cons hlt, List.take_succ_cons]
      simp

/-- loop invariant: from index `i` (with `recs.drop i = rs`) the loop appends `specO`. -/
theorem mergeLoop_spec (recs : List ρ) (outRecs : List (Out ρ τ)) :
    ∀ (cs : List Cond) (rs : List ρ) (i next : Nat) (merged : List (Out ρ τ)),
      cs.length = rs.length → recs.drop i = rs → next ≤ outRecs.length →
      mergeLoop recs outRecs rs.length i next (passOf cs rs i) merged
        = .ok (merged ++ specO cs rs (outRecs.drop next)) := by
  intro cs
  induction cs with
  | nil =>
    intro rs i next merged hlen _ _
    have : rs = [] := by cases rs <;> simp_all
    subst this
    simp [mergeLoop, specO]
  | cons c cs ih =>
    intro rs i next merged hlen hdrop hn
    cases rs with
    | nil => simp at hlen
    | cons r rs =>
      have hlen' : cs.length = rs.length := by simpa using hlen
      have hri : recs[i]? = some r := by
        have : (recs.drop i)[0]? = some r := by rw [hdrop]; rfl
        simpa using this
      have hdrop' : recs.drop (i+1) = rs := by
        have : (recs.drop i).drop 1 = rs := by rw [hdrop]; rfl
        simpa [List.drop_drop, Nat.add_comm] using this
      cases c with
      | pass =>
        have hs : passOf (Cond.pass :: cs) (r :: rs) i = i :: passOf cs rs (i+1) := by
          simp [passOf]
        rw [hs]
        show mergeLoop recs outRecs (rs.length + 1) i next _ merged = _
        rw [mergeLoop]
        have hc : 0 < (i :: passOf cs rs (i+1)).length ∧ (i :: passOf cs rs (i+1))[0]? = some i := by
          simp
        rw [if_pos hc, hri]
        simp only [List.drop_succ_cons, List.drop_zero]
        rw [ih rs (i+1) next _ hlen' hdrop' hn]
        simp [specO]
      | keep =>
        have hs : passOf (Cond.keep :: cs) (r :: rs) i = passOf cs rs (i+1) := by
          simp [passOf]
        rw [hs]
        show mergeLoop recs outRecs (rs.length + 1) i next _ merged = _
        rw [mergeLoop]
        have hc : ¬ (0 < (passOf cs rs (i+1)).length ∧ (passOf cs rs (i+1))[0]? = some i) := by
          intro ⟨_, h⟩
          have hm : i ∈ passOf cs rs (i+1) := List.mem_of_getElem? h
          have := passOf_ge cs rs (i+1) i hm
          omega
        rw [if_neg hc]
        by_cases he : next = outRecs.length
        · rw [if_pos he]
          simp [he, specO]
        · rw [if_neg he]
          have hlt : next < outRecs.length := by omega
          rw [List.getElem?_eq_getElem hlt]
          simp only []
          rw [ih rs (i+1) (next+1) _ hlen' hdrop' (by omega)]
          rw [List.drop_eq_getElem_cons hlt]
          simp [specO]
      | err =>
        have hs : passOf (Cond.err :: cs) (r :: rs) i = [] := by simp [passOf]
        rw [hs, mergeLoop_nil_pass recs outRecs _ i next merged hn]
        simp [specO]

/-- the condition error the code appends to `outRecs`: only when every kept record has a result. -/
def extra (cs : List Cond) (n : Nat) : List (Out ρ τ) :=
  if hasErr cs = true ∧ n = keptCount cs then [Out.condErr] else []

@[simp] theorem extra_nil (n : Nat) : (extra [] n : List (Out ρ τ)) = [] := by simp [extra, hasErr]
@[simp] theorem extra_pass (cs : List Cond) (n : Nat) :
    (extra (Cond.pass :: cs) n : List (Out ρ τ)) = extra cs n := rfl
@[simp] theorem extra_keep_succ (cs : List Cond) (n : Nat) :
    (extra (Cond.keep :: cs) (n+1) : List (Out ρ τ)) = extra cs n := by simp [extra, hasErr, keptCount]
@[simp] theorem extra_keep_zero (cs : List Cond) :
    (extra (Cond.keep :: cs) 0 : List (Out ρ τ)) = [] := by simp [extra, keptCount]
@[simp] theorem extra_err_zero (cs : List Cond) :
    (extra (Cond.err :: cs) 0 : List (Out ρ τ)) = [Out.condErr] := by simp [extra, hasErr, keptCount]

theorem extra_length_le (cs : List Cond) (n : Nat) :
    (extra cs n : List (Out ρ τ)).length ≤ (hasErr cs).toNat := by
  unfold extra
  by_cases h1 : hasErr cs = true <;> by_cases h2 : n = keptCount cs <;> simp [h1, h2]

/-- `outRecs` as built by the code (`raw` mapped, plus the condition error when every kept
record has a result) makes the loop's output the reference merge. -/
theorem specO_eq_spec (cs : List Cond) (rs : List ρ) (ts : List τ)
    (hlen : cs.length = rs.length) (hk : ts.length ≤ keptCount cs) :
    specO cs rs (ts.map (Out.res (ρ := ρ)) ++ extra cs ts.length) = spec cs rs ts := by
  induction cs generalizing rs ts with
  | nil => simp [specO, spec]
  | cons c cs ih =>
    cases rs with
    | nil => simp at hlen
    | cons r rs =>
      have hlen' : cs.length = rs.length := by simpa using hlen
      cases c with
      | pass =>
        have hk' : ts.length ≤ keptCount cs := by simpa [keptCount] using hk
        simp [specO, spec, ih rs ts hlen' hk']
      | keep =>
        cases ts with
        | nil => simp [specO, spec]
        | cons t ts =>
          have hk' : ts.length ≤ keptCount cs := by simp [keptCount] at hk; omega
          simp [specO, spec, ih rs ts hlen' hk']
      | err =>
        have : ts = [] := by
          simp [keptCount] at hk; exact hk
        subst this
        simp [specO, spec]

/-! ### `spec` is aligned -/

theorem spec_length_le (cs : List Cond) (rs : List ρ) (ts : List τ) :
    (spec cs rs ts).length ≤ cs.length := by
  induction cs generalizing rs ts with
  | nil => simp [spec]
  | cons c cs ih =>
    cases rs with
    | nil => simp [spec]
    | cons r rs =>
      cases c with
      | pass => simp only [spec, List.length_cons]; have := ih rs ts; omega
      | keep =>
        cases ts with
        | nil => simp [spec]
        | cons t ts => simp only [spec, List.length_cons]; have := ih rs ts; omega
      | err => cases ts <;> simp [spec]

theorem spec_aligned (cs : List Cond) (rs : List ρ) (ts : List τ) : Aligned cs rs ts (spec cs rs ts) := by
  refine ⟨spec_length_le cs rs ts, ?_⟩
  induction cs generalizing rs ts with
  | nil => intro j x h; simp [spec] at h
  | cons c cs ih =>
    intro j x h
    cases rs with
    | nil => simp [spec] at h
    | cons r rs =>
      cases c with
      | pass =>
        cases j with
        | zero =>
          simp only [spec, List.getElem?_cons_zero, Option.some.injEq] at h
          subst h
          simp
        | succ j =>
          simp only [spec, List.getElem?_cons_succ] at h
          have := ih rs ts j x h
          simpa [rank] using this
      | keep =>
        cases ts with
        | nil => simp [spec] at h
        | cons t ts =>
          cases j with
          | zero =>
            simp only [spec, List.getElem?_cons_zero, Option.some.injEq] at h
            subst h
            simp [rank]
          | succ j =>
            simp only [spec, List.getElem?_cons_succ] at h
            have := ih rs ts j x h
            simpa [rank] using this
      | err =>
        cases ts with
        | nil =>
          cases j with
          | zero =>
            simp only [spec, List.getElem?_cons_zero, Option.some.injEq] at h
            subst h
            simp
          | succ j => simp [spec] at h
        | cons t ts => simp [spec] at h

/-- a full-length plugin reply and no condition error: the merge has the length of the input. -/
theorem spec_full_length (cs : List Cond) (rs : List ρ) (ts : List τ)
    (hlen : cs.length = rs.length) (hk : ts.length = keptCount cs) (he : hasErr cs = false) :
    (spec cs rs ts).length = cs.length := by
  induction cs generalizing rs ts with
  | nil => simp [spec]
  | cons c cs ih =>
    cases rs with
    | nil => simp at hlen
    | cons r rs =>
      have hlen' : cs.length = rs.length := by simpa using hlen
      cases c with
      | pass =>
        simp only [spec, List.length_cons]
        rw [ih rs ts hlen' (by simpa [keptCount] using hk) (by simpa [hasErr] using he)]
      | keep =>
        cases ts with
        | nil => simp [keptCount] at hk
        | cons t ts =>
          simp only [spec, List.length_cons]
          rw [ih rs ts hlen' (by simpa [keptCount] using hk) (by simpa [hasErr] using he)]
      | err => simp [hasErr] at he

theorem kept_err_le_length (cs : List Cond) :
    keptCount cs + (hasErr cs).toNat ≤ cs.length := by
  induction cs with
  | nil => simp [keptCount, hasErr]
  | cons c cs ih => cases c <;> simp [keptCount, hasErr] <;> omega

/-! ### the whole function -/

/-- what the plugin returns (`raw`), as `condMerge` computes it: it is not called when no record
is kept. -/
def rawOf (conds : List Cond) (recs : List ρ) (plugin : List ρ → List τ) : List τ :=
  if 0 < (keptOf conds recs).length then plugin (keptOf conds recs) else []

theorem condMerge_eq (conds : List Cond) (recs : List ρ) (plugin : List ρ → List τ)
    (hlen : conds.length = recs.length) :
    condMerge conds recs plugin =
      .ok (if keptCount conds < (rawOf conds recs plugin).length then [Out.moreErr]
           else spec conds recs (rawOf conds recs plugin)) := by
  have hK := keptOf_length conds recs hlen
  have hE := errOf_eq conds recs hlen
  unfold condMerge
  simp only []
  rw [show (if 0 < (keptOf conds recs).length then plugin (keptOf conds recs) else [])
        = rawOf conds recs plugin from rfl, hK, hE]
  generalize rawOf conds recs plugin = raw
  by_cases hmore : keptCount conds < raw.length
  · simp [hmore]
  · rw [if_neg hmore, if_neg hmore]
    have hk : raw.length ≤ keptCount conds := by omega
    have hout : (if hasErr conds = true ∧ (List.map (Out.res (ρ := ρ)) raw).length = keptCount conds
                  then List.map Out.res raw ++ [Out.condErr] else List.map Out.res raw)
                = raw.map (Out.res (ρ := ρ)) ++ extra conds raw.length := by
      unfold extra
      by_cases hc : hasErr conds = true ∧ raw.length = keptCount conds
      · simp [hc]
      · have hc' : ¬ (hasErr conds = true ∧ (List.map (Out.res (ρ := ρ)) raw).length = keptCount conds) := by
          simpa using hc
        rw [if_neg hc', if_neg hc]; simp
    rw [hout]
    have hO := specO_eq_spec conds recs raw hlen hk
    have hloop := mergeLoop_spec recs (raw.map (Out.res (ρ := ρ)) ++ extra conds raw.length)
        conds recs 0 0 [] hlen (by simp) (by simp)
    simp only [List.nil_append, List.drop_zero, hO] at hloop
    by_cases hall : (passOf conds recs 0).length = recs.length
    · rw [if_pos hall, spec_all_pass conds recs raw 0 hlen hall]
    · rw [if_neg hall]
      by_cases hp : 0 < (passOf conds recs 0).length
      · rw [if_pos hp, hloop]
      · rw [if_neg hp]
        -- no pass-through record at all: `outRecs` itself is the reference merge
        have hp0 : passOf conds recs 0 = [] := List.eq_nil_of_length_eq_zero (by omega)
        rw [hp0, mergeLoop_nil_pass _ _ _ _ _ _ (by simp)] at hloop
        simp only [List.nil_append, List.drop_zero, Except.ok.injEq] at hloop
        rw [← hloop, List.take_of_length_le]
        have h1 := extra_length_le (ρ := ρ) (τ := τ) conds raw.length
        have h2 := kept_err_le_length conds
        simp only [List.length_append, List.length_map]
        omega

end Conduit.Stream.CondMerge
