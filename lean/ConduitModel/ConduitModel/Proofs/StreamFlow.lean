import ConduitModel.Model.StreamFlow

/-
M4 / Flow — order, origin and flag facts about the write logs, for every topology and every
interleaving: induction over the event list with the inductive invariant `Inv`.
-/
namespace Conduit.Stream

/-! ### chains -/

theorem flatR_pushFirst (st : Stages) (m : Msg) (st' : Stages)
    (h : pushFirst st m = some st') : flatR st' = flatR st ++ [m] := by
  cases st with
  | nil => simp [pushFirst] at h
  | cons q rest =>
    simp [pushFirst] at h
    subst h
    simp [flatR]

/-- the predicate `Stages.remove` keeps. -/
def keepP (s i : Nat) (m : Msg) : Bool := !(m.s == s && m.i == i)

/-- the function `Stages.mark` applies. -/
def markF (s i : Nat) (m : Msg) : Msg := if m.s == s && m.i == i then { m with filt := true } else m

theorem flatR_remove (st : Stages) (s i : Nat) :
    flatR (st.remove s i) = (flatR st).filter (keepP s i) := by
  induction st with
  | nil => simp [Stages.remove, flatR]
  | cons q rest ih =>
    have : flatR (Stages.remove rest s i) = (flatR rest).filter (keepP s i) := ih
    simp only [Stages.remove, List.map_cons, flatR, List.filter_append] at this ⊢
    rw [this]
    rfl

theorem flatR_mark (st : Stages) (s i : Nat) :
    flatR (st.mark s i) = (flatR st).map (markF s i) := by
  induction st with
  | nil => simp [Stages.mark, flatR]
  | cons q rest ih =>
    have : flatR (Stages.mark rest s i) = (flatR rest).map (markF s i) := ih
    simp only [Stages.mark, List.map_cons, flatR, List.map_append] at this ⊢
    rw [this]
    rfl

theorem has_iff (st : Stages) (s i : Nat) :
    st.has s i = true ↔ ∃ m ∈ flatR st, m.s = s ∧ m.i = i := by
  induction st with
  | nil => simp [Stages.has, flatR]
  | cons q rest ih =>
    have ih' : (rest.any fun q => q.any fun m => m.s == s && m.i == i) = true ↔
        ∃ m ∈ flatR rest, m.s = s ∧ m.i = i := ih
    simp only [Stages.has, List.any_cons, Bool.or_eq_true, flatR, List.mem_append]
    rw [ih']
    constructor
    · rintro (h | ⟨m, hm, h⟩)
      · simp only [List.any_eq_true, Bool.and_eq_true, beq_iff_eq] at h
        obtain ⟨m, hm, h⟩ := h
        exact ⟨m, Or.inr hm, h⟩
      · exact ⟨m, Or.inl hm, h⟩
    · rintro ⟨m, hm | hm, h⟩
      · exact Or.inr ⟨m, hm, h⟩
      · left
        simp only [List.any_eq_true, Bool.and_eq_true, beq_iff_eq]
        exact ⟨m, hm, h⟩

@[simp] theorem markF_s (s i : Nat) (m : Msg) : (markF s i m).s = m.s := by
  unfold markF; split <;> rfl

@[simp] theorem markF_i (s i : Nat) (m : Msg) : (markF s i m).i = m.i := by
  unfold markF; split <;> rfl

theorem markF_filt (s i : Nat) (m : Msg) (h : m.filt = true) : (markF s i m).filt = true := by
  unfold markF; split <;> simp [h]

theorem markF_hit (s i : Nat) (m : Msg) (h1 : m.s = s) (h2 : m.i = i) : (markF s i m).filt = true := by
  simp [markF, h1, h2]

/-! ### `idxOf` -/

@[simp] theorem idxOf_nil (s : Nat) : idxOf s [] = [] := rfl

theorem idxOf_append (s : Nat) (a b : List Msg) : idxOf s (a ++ b) = idxOf s a ++ idxOf s b := by
  simp [idxOf]

theorem idxOf_cons (s : Nat) (m : Msg) (l : List Msg) : idxOf s (m :: l) = idxOf s [m] ++ idxOf s l :=
  idxOf_append s [m] l

theorem idxOf_single_ne (s : Nat) (m : Msg) (h : m.s ≠ s) : idxOf s [m] = [] := by
  simp [idxOf, h]

theorem idxOf_cons_ne (s : Nat) (m : Msg) (l : List Msg) (h : m.s ≠ s) : idxOf s (m :: l) = idxOf s l := by
  rw [idxOf_cons, idxOf_single_ne s m h]; rfl

theorem idxOf_single_eq (s : Nat) (m : Msg) (h : m.s = s) : idxOf s [m] = [m.i] := by
  simp [idxOf, h]

theorem idxOf_sublist (s : Nat) {a b : List Msg} (h : a.Sublist b) : (idxOf s a).Sublist (idxOf s b) :=
  (h.filter _).map _

theorem idxOf_filter_sublist (s : Nat) (p : Msg → Bool) (l : List Msg) :
    (idxOf s (l.filter p)).Sublist (idxOf s l) :=
  idxOf_sublist s List.filter_sublist

theorem idxOf_map_markF (s s' i' : Nat) (l : List Msg) : idxOf s (l.map (markF s' i')) = idxOf s l := by
  induction l with
  | nil => rfl
  | cons m l ih =>
    rw [List.map_cons, idxOf_cons, idxOf_cons s m, ih]
    congr 1
    by_cases h : m.s = s <;> simp [idxOf, h]

theorem mem_idxOf {s x : Nat} {l : List Msg} : x ∈ idxOf s l ↔ ∃ m ∈ l, m.s = s ∧ m.i = x := by
  simp [idxOf, and_assoc]

theorem flatR_replicate_nil (n : Nat) : flatR (List.replicate n []) = [] := by
  induction n with
  | zero => rfl
  | succ n ih => simp [List.replicate_succ, flatR, ih]

/-! ### the order `Le` on message lists: fewer messages, same order, flags only set -/

def Le (l' l : List Msg) : Prop :=
  (∀ s, (idxOf s l').Sublist (idxOf s l)) ∧
  ∀ m ∈ l', ∃ m1 ∈ l, m1.s = m.s ∧ m1.i = m.i ∧ (m1.filt = true → m.filt = true)

theorem Le.refl (l : List Msg) : Le l l :=
  ⟨fun _ => List.Sublist.refl _, fun m hm => ⟨m, hm, rfl, rfl, id⟩⟩

theorem Le.of_eq {l' l : List Msg} (h : l' = l) : Le l' l := h ▸ Le.refl _

theorem Le.of_sublist {l' l : List Msg} (h : l'.Sublist l) : Le l' l :=
  ⟨fun s => idxOf_sublist s h, fun m hm => ⟨m, h.subset hm, rfl, rfl, id⟩⟩

theorem Le.nil (l : List Msg) : Le [] l := Le.of_sublist (List.nil_sublist l)

theorem Le.filter (p : Msg → Bool) (l : List Msg) : Le (l.filter p) l := Le.of_sublist List.filter_sublist

theorem Le.mark (s i : Nat) (l : List Msg) : Le (l.map (markF s i)) l :=
  ⟨fun s' => by rw [idxOf_map_markF]; exact List.Sublist.refl _, fun m hm => by
    obtain ⟨m1, h1, rfl⟩ := List.mem_map.1 hm
    exact ⟨m1, h1, by simp, by simp, markF_filt _ _ _⟩⟩

theorem Le.append {a' a b' b : List Msg} (ha : Le a' a) (hb : Le b' b) : Le (a' ++ b') (a ++ b) :=
  ⟨fun s => by rw [idxOf_append, idxOf_append]; exact (ha.1 s).append (hb.1 s), fun m hm => by
    rcases List.mem_append.1 hm with h | h
    · obtain ⟨m1, h1, h2⟩ := ha.2 m h; exact ⟨m1, List.mem_append_left _ h1, h2⟩
    · obtain ⟨m1, h1, h2⟩ := hb.2 m h; exact ⟨m1, List.mem_append_right _ h1, h2⟩⟩

theorem Le.trans {a b c : List Msg} (h1 : Le a b) (h2 : Le b c) : Le a c :=
  ⟨fun s => (h1.1 s).trans (h2.1 s), fun m hm => by
    obtain ⟨m1, hm1, e1, e2, e3⟩ := h1.2 m hm
    obtain ⟨m2, hm2, g1, g2, g3⟩ := h2.2 m1 hm1
    exact ⟨m2, hm2, g1.trans e1, g2.trans e2, fun h => e3 (g3 h)⟩⟩

/-! ### `Eqv`: the same messages, in the same order per source -/

def Eqv (a b : List Msg) : Prop := (∀ s, idxOf s a = idxOf s b) ∧ ∀ x, x ∈ a ↔ x ∈ b

theorem Eqv.refl (a : List Msg) : Eqv a a := ⟨fun _ => rfl, fun _ => Iff.rfl⟩

theorem Eqv.symm {a b : List Msg} (h : Eqv a b) : Eqv b a := ⟨fun s => (h.1 s).symm, fun x => (h.2 x).symm⟩

theorem Eqv.of_eq {a b : List Msg} (h : a = b) : Eqv a b := h ▸ Eqv.refl _

theorem Eqv.trans {a b c : List Msg} (h1 : Eqv a b) (h2 : Eqv b c) : Eqv a c :=
  ⟨fun s => (h1.1 s).trans (h2.1 s), fun x => (h1.2 x).trans (h2.2 x)⟩

theorem Eqv.append {a a' b b' : List Msg} (ha : Eqv a a') (hb : Eqv b b') : Eqv (a ++ b) (a' ++ b') :=
  ⟨fun s => by rw [idxOf_append, idxOf_append, ha.1 s, hb.1 s], fun x => by
    rw [List.mem_append, List.mem_append, ha.2 x, hb.2 x]⟩

theorem Eqv.le {a b : List Msg} (h : Eqv a b) : Le a b :=
  ⟨fun s => by rw [h.1 s]; exact List.Sublist.refl _, fun m hm => ⟨m, (h.2 m).1 hm, rfl, rfl, id⟩⟩

theorem takeFirst_spec (s : Nat) : ∀ (q : List Msg) (m : Msg) (r : List Msg),
    takeFirst s q = some (m, r) → m.s = s ∧ Eqv q (m :: r) := by
  intro q
  induction q with
  | nil => intro m r h; simp [takeFirst] at h
  | cons a q0 ih =>
    intro m r h
    by_cases ha : a.s = s
    · simp only [takeFirst, ha, if_true, Option.some.injEq, Prod.mk.injEq] at h
      obtain ⟨h1, h2⟩ := h
      subst h1; subst h2
      exact ⟨ha, Eqv.refl _⟩
    · cases ht : takeFirst s q0 with
      | none => simp [takeFirst, ha, ht] at h
      | some p =>
        obtain ⟨m1, r0⟩ := p
        simp only [takeFirst, ha, if_false, ht, Option.map_some, Option.some.injEq, Prod.mk.injEq] at h
        obtain ⟨h1, h2⟩ := h
        subst h1; subst h2
        obtain ⟨hs, he⟩ := ih m1 r0 ht
        refine ⟨hs, ?_, ?_⟩
        · intro s'
          rw [idxOf_cons s' a q0, he.1 s', idxOf_cons s' m1 r0, idxOf_cons s' m1 (a :: r0), idxOf_cons s' a r0]
          by_cases h' : a.s = s'
          · have : m1.s ≠ s' := by rw [hs, ← h']; exact Ne.symm ha
            rw [idxOf_single_ne s' m1 this]; rfl
          · rw [idxOf_single_ne s' a h']; rfl
        · intro x
          rw [List.mem_cons, he.2 x]
          simp only [List.mem_cons]
          constructor
          · rintro (h | h | h)
            · exact Or.inr (Or.inl h)
            · exact Or.inl h
            · exact Or.inr (Or.inr h)
          · rintro (h | h | h)
            · exact Or.inr (Or.inl h)
            · exact Or.inl h
            · exact Or.inr (Or.inr h)

theorem flatR_moveAt : ∀ (st : Stages) (k s : Nat) (m : Msg) (st' : Stages),
    moveAt st k s = some (m, st') → Eqv (flatR st') (flatR st) := by
  intro st
  induction st with
  | nil => intro k s m st' h; cases k <;> simp [moveAt] at h
  | cons q rest ih =>
    intro k s m st' h
    cases k with
    | zero =>
      cases rest with
      | nil => simp [moveAt] at h
      | cons q' rest' =>
        cases ht : takeFirst s q with
        | none => simp [moveAt, ht] at h
        | some p =>
          obtain ⟨m1, r⟩ := p
          simp only [moveAt, ht, Option.map_some, Option.some.injEq, Prod.mk.injEq] at h
          obtain ⟨h1, h2⟩ := h
          subst h1; subst h2
          obtain ⟨_, he⟩ := takeFirst_spec s q m1 r ht
          have e : flatR (r :: (q' ++ [m1]) :: rest') = (flatR rest' ++ q') ++ (m1 :: r) := by
            simp [flatR]
          rw [e]
          exact Eqv.append (Eqv.refl _) he.symm
    | succ k =>
      cases hm : moveAt rest k s with
      | none => simp [moveAt, hm] at h
      | some p =>
        obtain ⟨m1, r⟩ := p
        simp only [moveAt, hm, Option.map_some, Option.some.injEq, Prod.mk.injEq] at h
        obtain ⟨h1, h2⟩ := h
        subst h1; subst h2
        exact Eqv.append (ih k s m1 r hm) (Eqv.refl _)

theorem flatR_popLast : ∀ (st : Stages) (s : Nat) (m : Msg) (st' : Stages),
    popLast st s = some (m, st') → m.s = s ∧ Eqv (flatR st) (m :: flatR st') := by
  intro st
  induction st with
  | nil => intro s m st' h; simp [popLast] at h
  | cons q rest ih =>
    intro s m st' h
    cases rest with
    | nil =>
      cases ht : takeFirst s q with
      | none => simp [popLast, ht] at h
      | some p =>
        obtain ⟨m1, r⟩ := p
        simp only [popLast, ht, Option.map_some, Option.some.injEq, Prod.mk.injEq] at h
        obtain ⟨h1, h2⟩ := h
        subst h1; subst h2
        obtain ⟨hs, he⟩ := takeFirst_spec s q m1 r ht
        refine ⟨hs, ?_⟩
        simpa [flatR] using he
    | cons q2 rest' =>
      cases hm : popLast (q2 :: rest') s with
      | none => simp [popLast, hm] at h
      | some p =>
        obtain ⟨m1, r⟩ := p
        simp only [popLast, hm, Option.map_some, Option.some.injEq, Prod.mk.injEq] at h
        obtain ⟨h1, h2⟩ := h
        subst h1; subst h2
        obtain ⟨hs, he⟩ := ih s m1 r hm
        refine ⟨hs, ?_⟩
        have e : m1 :: flatR (q :: r) = (m1 :: flatR r) ++ q := rfl
        rw [e]
        exact Eqv.append he (Eqv.refl _)

/-! ### the invariant -/

/-- what the FanoutNode still holds for branch `d`. -/
def curFor (f : Flow) (d : Nat) : List Msg := if d ∈ f.pend then f.cur.toList else []

/-- everything on its way from source `s` to destination `d`, the write log first, then by
distance to the DestinationNode. -/
def full (f : Flow) (s d : Nat) : List Msg :=
  f.wlog d ++ (flatR (f.dst d) ++ (curFor f d ++ (flatR f.pl ++ flatR (f.src s))))

theorem mem_full {f : Flow} {s d : Nat} {m : Msg} :
    m ∈ full f s d ↔ m ∈ f.wlog d ∨ m ∈ flatR (f.dst d) ∨ m ∈ curFor f d ∨ m ∈ flatR f.pl ∨ m ∈ flatR (f.src s) := by
  simp [full]

structure Inv (f : Flow) : Prop where
  sorted : ∀ s d, (idxOf s (full f s d)).Pairwise (· < ·)
  bound : ∀ s d, ∀ m ∈ full f s d, m.i < f.reads m.s
  srcOwn : ∀ s, ∀ m ∈ flatR (f.src s), m.s = s
  nodup : f.pend.Nodup
  unflag : ∀ d, ∀ m ∈ f.wlog d, m.filt = false
  flagged : ∀ s d, ∀ m ∈ full f s d, ∀ br, (br = none ∨ br = some d) → (br, m.s, m.i) ∈ f.flt → m.filt = true
  fltBound : ∀ br s i, (br, s, i) ∈ f.flt → i < f.reads s

theorem inv_of_sub {f f' : Flow} (hi : Inv f)
    (hreads : f'.reads = f.reads) (hflt : f'.flt = f.flt)
    (hsub : ∀ s d, (idxOf s (full f' s d)).Sublist (idxOf s (full f s d)))
    (hmem : ∀ s d, ∀ m ∈ full f' s d, ∃ s1, ∃ m1 ∈ full f s1 d,
      m1.s = m.s ∧ m1.i = m.i ∧ (m1.filt = true → m.filt = true))
    (hsrc : ∀ s, ∀ m ∈ flatR (f'.src s), m.s = s)
    (hnd : f'.pend.Nodup)
    (hunf : ∀ d, ∀ m ∈ f'.wlog d, m.filt = false) : Inv f' where
  sorted s d := (hi.sorted s d).sublist (hsub s d)
  bound s d m hm := by
    obtain ⟨s1, m1, h1, hs, hi', _⟩ := hmem s d m hm
    have := hi.bound s1 d m1 h1
    rw [hreads, ← hs, ← hi']; exact this
  srcOwn := hsrc
  nodup := hnd
  unflag := hunf
  flagged s d m hm br hbr hin := by
    obtain ⟨s1, m1, h1, hs, hi', hf⟩ := hmem s d m hm
    apply hf
    apply hi.flagged s1 d m1 h1 br hbr
    rw [hs, hi', ← hflt]; exact hin
  fltBound br s i h := by rw [hreads]; rw [hflt] at h; exact hi.fltBound br s i h

theorem inv_of_le {f f' : Flow} (hi : Inv f)
    (hreads : f'.reads = f.reads) (hflt : f'.flt = f.flt)
    (hle : ∀ s d, Le (full f' s d) (full f s d))
    (hsrc : ∀ s, ∀ m ∈ flatR (f'.src s), m.s = s)
    (hnd : f'.pend.Nodup)
    (hunf : ∀ d, ∀ m ∈ f'.wlog d, m.filt = false) : Inv f' :=
  inv_of_sub hi hreads hflt (fun s d => (hle s d).1 s)
    (fun s d m hm => ⟨s, (hle s d).2 m hm⟩) hsrc hnd hunf

theorem full_le {f f' : Flow} {s d : Nat}
    (hw : f'.wlog d = f.wlog d)
    (hd : Le (flatR (f'.dst d)) (flatR (f.dst d)))
    (hc : Le (curFor f' d) (curFor f d))
    (hp : Le (flatR f'.pl) (flatR f.pl))
    (hs : Le (flatR (f'.src s)) (flatR (f.src s))) : Le (full f' s d) (full f s d) := by
  unfold full
  exact Le.append (Le.of_eq hw) (Le.append hd (Le.append hc (Le.append hp hs)))

theorem inv_of_parts {f f' : Flow} (hi : Inv f)
    (hreads : f'.reads = f.reads) (hflt : f'.flt = f.flt)
    (hw : ∀ d, f'.wlog d = f.wlog d)
    (hd : ∀ d, Le (flatR (f'.dst d)) (flatR (f.dst d)))
    (hc : ∀ d, Le (curFor f' d) (curFor f d))
    (hp : Le (flatR f'.pl) (flatR f.pl))
    (hs : ∀ s, Le (flatR (f'.src s)) (flatR (f.src s)))
    (hnd : f'.pend.Nodup) : Inv f' :=
  inv_of_le hi hreads hflt (fun s d => full_le (hw d) (hd d) (hc d) hp (hs s))
    (fun s m hm => by
      obtain ⟨m1, h1, h2, _⟩ := (hs s).2 m hm
      rw [← h2]; exact hi.srcOwn s m1 h1)
    hnd (fun d m hm => by rw [hw d] at hm; exact hi.unflag d m hm)

/-- `L` is below `full f s d` when it is a sublist of a per-source rearrangement of it. -/
theorem le_full_of {f : Flow} {s d : Nat} {L D P S : List Msg}
    (hD : Eqv D (flatR (f.dst d))) (hP : Eqv P (flatR f.pl)) (hS : Eqv S (flatR (f.src s)))
    (h : L.Sublist (f.wlog d ++ (D ++ (curFor f d ++ (P ++ S))))) : Le L (full f s d) :=
  Le.trans (Le.of_sublist h)
    (Eqv.append (Eqv.refl _) (Eqv.append hD (Eqv.append (Eqv.refl _) (Eqv.append hP hS)))).le

theorem inv_init (τ : Topo) : Inv (Flow.init τ) := by
  have hfull : ∀ s d, full (Flow.init τ) s d = [] := by
    intro s d; simp [full, curFor, Flow.init, flatR_replicate_nil]
  refine ⟨?_, ?_, ?_, ?_, ?_, ?_, ?_⟩
  · intro s d; rw [hfull]; simp
  · intro s d m hm; rw [hfull] at hm; simp at hm
  · intro s m hm; simp [Flow.init, flatR_replicate_nil] at hm
  · simp [Flow.init]
  · intro d m hm; simp [Flow.init] at hm
  · intro s d m hm; rw [hfull] at hm; simp at hm
  · intro br s i h; simp [Flow.init] at h

/-! ### `upd` and chains -/

theorem flatR_upd_le {g : Nat → Stages} {k : Nat} {st : Stages} (h : Le (flatR st) (flatR (g k))) (x : Nat) :
    Le (flatR (upd g k st x)) (flatR (g x)) := by
  by_cases hx : x = k
  · subst hx; simpa using h
  · simpa [upd, hx] using Le.refl _

/-! ### one lemma per event -/

theorem inv_read {τ : Topo} {f f' : Flow} {s0 : Nat} (hi : Inv f)
    (h : Flow.step τ f (.read s0) = some f') : Inv f' := by
  simp only [Flow.step] at h
  cases hp : pushFirst (f.src s0) ⟨s0, f.reads s0, false⟩ with
  | none => simp [hp] at h
  | some st =>
    simp only [hp, Option.map_some, Option.some.injEq] at h
    have hst := flatR_pushFirst _ _ _ hp
    have hfull : ∀ s d, full f' s d =
        if s = s0 then full f s d ++ [⟨s0, f.reads s0, false⟩] else full f s d := by
      intro s d
      subst h
      by_cases hs : s = s0
      · subst hs; simp [full, curFor, hst]
      · simp [full, curFor, hs]
    have hreads : ∀ x, f.reads x ≤ f'.reads x ∧ f'.reads s0 = f.reads s0 + 1 := by
      intro x; subst h; simp only [upd_apply]; constructor
      · split
        · next hx => subst hx; omega
        · omega
      · simp
    have hflt : f'.flt = f.flt := by subst h; rfl
    have hwlog : f'.wlog = f.wlog := by subst h; rfl
    have hpend : f'.pend = f.pend := by subst h; rfl
    have hmemF : ∀ s d m, m ∈ full f' s d → m ∈ full f s d ∨ m = ⟨s0, f.reads s0, false⟩ := by
      intro s d m hm
      rw [hfull] at hm
      split at hm
      · simpa using hm
      · exact Or.inl hm
    refine ⟨?_, ?_, ?_, ?_, ?_, ?_, ?_⟩
    · intro s d
      rw [hfull]
      split
      · next hs =>
        subst hs
        rw [idxOf_append, idxOf_single_eq s ⟨s, f.reads s, false⟩ rfl]
        refine List.pairwise_append.2 ⟨hi.sorted s d, List.pairwise_singleton _ _, ?_⟩
        intro a ha b hb
        simp only [List.mem_singleton] at hb
        subst hb
        obtain ⟨m, hm, hs, rfl⟩ := mem_idxOf.1 ha
        have := hi.bound s d m hm
        rw [hs] at this
        exact this
      · exact hi.sorted s d
    · intro s d m hm
      rcases hmemF s d m hm with h1 | h1
      · exact Nat.lt_of_lt_of_le (hi.bound s d m h1) (hreads m.s).1
      · subst h1
        simp only
        rw [(hreads s0).2]; omega
    · intro s m hm
      subst h
      simp only at hm
      by_cases hs : s = s0
      · subst hs
        rw [upd_same, hst] at hm
        rcases List.mem_append.1 hm with h1 | h1
        · exact hi.srcOwn s m h1
        · simp at h1; subst h1; rfl
      · rw [upd_other _ _ _ _ hs] at hm
        exact hi.srcOwn s m hm
    · rw [hpend]; exact hi.nodup
    · rw [hwlog]; exact hi.unflag
    · intro s d m hm br hbr hin
      rw [hflt] at hin
      rcases hmemF s d m hm with h1 | h1
      · exact hi.flagged s d m h1 br hbr hin
      · subst h1
        have := hi.fltBound _ _ _ hin
        simp at this
    · intro br s i hin
      rw [hflt] at hin
      exact Nat.lt_of_lt_of_le (hi.fltBound br s i hin) (hreads s).1

theorem inv_mvSrc {f f' : Flow} {s0 k i : Nat} (hi : Inv f)
    (h : Flow.step.mvSrc f s0 k i = some f') : Inv f' := by
  unfold Flow.step.mvSrc at h
  by_cases h1 : k + 1 < (f.src s0).length
  · rw [if_pos h1] at h
    cases hm : moveAt (f.src s0) k s0 with
    | none => simp [hm] at h
    | some p =>
      obtain ⟨m, st⟩ := p
      simp only [hm] at h
      by_cases hc : m.s = s0 ∧ m.i = i
      · rw [if_pos hc, Option.some.injEq] at h
        subst h
        exact inv_of_parts hi rfl rfl (fun _ => rfl) (fun _ => Le.refl _) (fun _ => Le.refl _) (Le.refl _)
          (flatR_upd_le ((flatR_moveAt _ _ _ _ _ hm).le)) hi.nodup
      · rw [if_neg hc] at h; cases h
  · rw [if_neg h1] at h
    by_cases h2 : k + 1 = (f.src s0).length
    · rw [if_pos h2] at h
      cases hm : popLast (f.src s0) s0 with
      | none => simp [hm] at h
      | some p =>
        obtain ⟨m, st⟩ := p
        simp only [hm] at h
        by_cases hc : m.s = s0 ∧ m.i = i
        · rw [if_pos hc] at h
          cases hq : pushFirst f.pl m with
          | none => simp [hq] at h
          | some p' =>
            simp only [hq, Option.map_some, Option.some.injEq] at h
            have e1 := (flatR_popLast _ _ _ _ hm).2
            have e2 := flatR_pushFirst _ _ _ hq
            subst h
            have hsame : ∀ d, Le (full { f with src := upd f.src s0 st, pl := p' } s0 d) (full f s0 d) := by
              intro d
              apply le_full_of (Eqv.refl _) (Eqv.refl _) e1.symm
              simp [full, curFor, e2]
            have hidx : ∀ s d, s ≠ s0 →
                idxOf s (full { f with src := upd f.src s0 st, pl := p' } s d) = idxOf s (full f s d) := by
              intro s d hs
              have : m.s ≠ s := by rw [hc.1]; exact Ne.symm hs
              simp [full, curFor, idxOf_append, upd, hs, e2, idxOf_cons_ne s m _ this]
            have hmm : ∀ s d, s ≠ s0 → ∀ m' ∈ full { f with src := upd f.src s0 st, pl := p' } s d,
                m' ∈ full f s d ∨ m' = m := by
              intro s d hs m' hm'
              simp only [mem_full, upd_other _ _ _ _ hs, e2, List.mem_append, List.mem_singleton] at hm' ⊢
              rcases hm' with h | h | h | (h | h) | h
              · exact Or.inl (Or.inl h)
              · exact Or.inl (Or.inr (Or.inl h))
              · exact Or.inl (Or.inr (Or.inr (Or.inl h)))
              · exact Or.inl (Or.inr (Or.inr (Or.inr (Or.inl h))))
              · exact Or.inr h
              · exact Or.inl (Or.inr (Or.inr (Or.inr (Or.inr h))))
            have hm0 : ∀ d, m ∈ full f s0 d := by
              intro d; rw [mem_full, e1.2 m]; simp
            refine inv_of_sub hi rfl rfl ?_ ?_ ?_ hi.nodup hi.unflag
            · intro s d
              by_cases hs : s = s0
              · subst hs; exact (hsame d).1 s
              · rw [hidx s d hs]; exact List.Sublist.refl _
            · intro s d m' hm'
              by_cases hs : s = s0
              · subst hs; exact ⟨s, (hsame d).2 m' hm'⟩
              · rcases hmm s d hs m' hm' with h | h
                · exact ⟨s, m', h, rfl, rfl, id⟩
                · subst h; exact ⟨s0, m', hm0 d, rfl, rfl, id⟩
            · intro s m' hm'
              simp only at hm'
              by_cases hs : s = s0
              · subst hs
                rw [upd_same] at hm'
                exact hi.srcOwn s m' ((e1.2 m').2 (List.mem_cons_of_mem _ hm'))
              · rw [upd_other _ _ _ _ hs] at hm'
                exact hi.srcOwn s m' hm'
        · rw [if_neg hc] at h; cases h
    · rw [if_neg h2] at h; cases h

theorem inv_enq {τ : Topo} {f f' : Flow} {s0 i : Nat} (hi : Inv f)
    (h : Flow.step τ f (.enq s0 i) = some f') : Inv f' := by
  simp only [Flow.step] at h
  exact inv_mvSrc hi h

theorem inv_mv_src {τ : Topo} {f f' : Flow} {s0 k s' i : Nat} (hi : Inv f)
    (h : Flow.step τ f (.mv (.src s0) k s' i) = some f') : Inv f' := by
  simp only [Flow.step] at h
  by_cases h1 : s' ≠ s0
  · rw [if_pos h1] at h; cases h
  · rw [if_neg h1] at h
    by_cases h2 : τ.jobs (.src s0) k ∧ (Seg.src s0, k, s0, i) ∉ f.done
    · rw [if_pos h2] at h; cases h
    · rw [if_neg h2] at h
      exact inv_mvSrc hi h

theorem inv_mv_pl {τ : Topo} {f f' : Flow} {k s0 i : Nat} (hi : Inv f)
    (h : Flow.step τ f (.mv .pl k s0 i) = some f') : Inv f' := by
  simp only [Flow.step] at h
  by_cases h2 : τ.jobs .pl k ∧ (Seg.pl, k, s0, i) ∉ f.done
  · rw [if_pos h2] at h; cases h
  · rw [if_neg h2] at h
    cases hm : moveAt f.pl k s0 with
    | none => simp [hm] at h
    | some p =>
      obtain ⟨m, st⟩ := p
      simp only [hm] at h
      by_cases hc : m.s = s0 ∧ m.i = i
      · rw [if_pos hc, Option.some.injEq] at h
        subst h
        exact inv_of_parts hi rfl rfl (fun _ => rfl) (fun _ => Le.refl _) (fun _ => Le.refl _)
          ((flatR_moveAt _ _ _ _ _ hm).le) (fun _ => Le.refl _) hi.nodup
      · rw [if_neg hc] at h; cases h

theorem inv_mv_dst {τ : Topo} {f f' : Flow} {d0 k s0 i : Nat} (hi : Inv f)
    (h : Flow.step τ f (.mv (.dst d0) k s0 i) = some f') : Inv f' := by
  simp only [Flow.step] at h
  by_cases h2 : τ.jobs (.dst d0) k ∧ (Seg.dst d0, k, s0, i) ∉ f.done
  · rw [if_pos h2] at h; cases h
  · rw [if_neg h2] at h
    cases hm : moveAt (f.dst d0) k s0 with
    | none => simp [hm] at h
    | some p =>
      obtain ⟨m, st⟩ := p
      simp only [hm] at h
      by_cases hc : m.s = s0 ∧ m.i = i
      · rw [if_pos hc, Option.some.injEq] at h
        subst h
        exact inv_of_parts hi rfl rfl (fun _ => rfl) (flatR_upd_le ((flatR_moveAt _ _ _ _ _ hm).le))
          (fun _ => Le.refl _) (Le.refl _) (fun _ => Le.refl _) hi.nodup
      · rw [if_neg hc] at h; cases h

theorem inv_fan {τ : Topo} {f f' : Flow} {s0 i : Nat} (hi : Inv f)
    (h : Flow.step τ f (.fan s0 i) = some f') : Inv f' := by
  simp only [Flow.step] at h
  by_cases hp : f.pend ≠ []
  · rw [if_pos hp] at h; cases h
  · rw [if_neg hp] at h
    have hp' : f.pend = [] := Classical.not_not.1 hp
    by_cases h2 : τ.jobs .pl (f.pl.length - 1) ∧ (Seg.pl, f.pl.length - 1, s0, i) ∉ f.done
    · rw [if_pos h2] at h; cases h
    · rw [if_neg h2] at h
      cases hm : popLast f.pl s0 with
      | none => simp [hm] at h
      | some p =>
        obtain ⟨m, st⟩ := p
        simp only [hm] at h
        by_cases hc : m.s = s0 ∧ m.i = i
        · rw [if_pos hc, Option.some.injEq] at h
          subst h
          have e1 := (flatR_popLast _ _ _ _ hm).2
          refine inv_of_le hi rfl rfl ?_ hi.srcOwn List.nodup_range hi.unflag
          intro s d
          apply le_full_of (Eqv.refl _) e1.symm (Eqv.refl _)
          by_cases hd : d < τ.nDst
          · simp [full, curFor, hp', hd]
          · simp [full, curFor, hp', hd]
        · rw [if_neg hc] at h; cases h

theorem inv_fdeliver {τ : Topo} {f f' : Flow} {d0 : Nat} (hi : Inv f)
    (h : Flow.step τ f (.fdeliver d0) = some f') : Inv f' := by
  simp only [Flow.step] at h
  cases hc : f.cur with
  | none => simp [hc] at h
  | some m =>
    simp only [hc] at h
    by_cases hd : d0 ∈ f.pend
    · rw [if_pos hd] at h
      cases hq : pushFirst (f.dst d0) m with
      | none => simp [hq] at h
      | some st =>
        simp only [hq, Option.map_some, Option.some.injEq] at h
        subst h
        have e := flatR_pushFirst _ _ _ hq
        refine inv_of_le hi rfl rfl ?_ hi.srcOwn (hi.nodup.erase _) hi.unflag
        intro s d
        apply Le.of_eq
        by_cases hdd : d = d0
        · subst hdd
          have : d ∉ f.pend.erase d := hi.nodup.not_mem_erase
          simp [full, curFor, this, hd, hc, e]
        · have : d ∈ f.pend.erase d0 ↔ d ∈ f.pend := List.mem_erase_of_ne hdd
          simp [full, curFor, this, hdd, hc]
    · rw [if_neg hd] at h; cases h

theorem inv_write {τ : Topo} {f f' : Flow} {d0 s0 i : Nat} {ok : Bool} (hi : Inv f)
    (h : Flow.step τ f (.write d0 s0 i ok) = some f') : Inv f' := by
  simp only [Flow.step] at h
  by_cases h2 : τ.jobs (.dst d0) ((f.dst d0).length - 1) ∧ (Seg.dst d0, (f.dst d0).length - 1, s0, i) ∉ f.done
  · rw [if_pos h2] at h; cases h
  · rw [if_neg h2] at h
    cases hm : popLast (f.dst d0) s0 with
    | none => simp [hm] at h
    | some p =>
      obtain ⟨m, st⟩ := p
      simp only [hm] at h
      by_cases hc : m.s = s0 ∧ m.i = i ∧ m.filt = false
      · rw [if_pos hc, Option.some.injEq] at h
        subst h
        have e1 := (flatR_popLast _ _ _ _ hm).2
        refine inv_of_le hi rfl rfl ?_ hi.srcOwn hi.nodup ?_
        · intro s d
          by_cases hdd : d = d0
          · subst hdd
            apply le_full_of e1.symm (Eqv.refl _) (Eqv.refl _)
            simp [full, curFor]
          · apply Le.of_eq
            simp [full, curFor, hdd]
        · intro d m' hm'
          simp only at hm'
          by_cases hdd : d = d0
          · subst hdd
            rw [upd_same] at hm'
            rcases List.mem_append.1 hm' with h1 | h1
            · exact hi.unflag d m' h1
            · simp only [List.mem_singleton] at h1; subst h1; exact hc.2.2
          · rw [upd_other _ _ _ _ hdd] at hm'
            exact hi.unflag d m' hm'
      · rw [if_neg hc] at h; cases h

theorem inv_fpass {τ : Topo} {f f' : Flow} {d0 s0 i : Nat} (hi : Inv f)
    (h : Flow.step τ f (.fpass d0 s0 i) = some f') : Inv f' := by
  simp only [Flow.step] at h
  by_cases h2 : τ.jobs (.dst d0) ((f.dst d0).length - 1) ∧ (Seg.dst d0, (f.dst d0).length - 1, s0, i) ∉ f.done
  · rw [if_pos h2] at h; cases h
  · rw [if_neg h2] at h
    cases hm : popLast (f.dst d0) s0 with
    | none => simp [hm] at h
    | some p =>
      obtain ⟨m, st⟩ := p
      simp only [hm] at h
      by_cases hc : m.s = s0 ∧ m.i = i ∧ m.filt = true
      · rw [if_pos hc, Option.some.injEq] at h
        subst h
        have e1 := (flatR_popLast _ _ _ _ hm).2
        exact inv_of_parts hi rfl rfl (fun _ => rfl)
          (flatR_upd_le (Le.trans (Le.of_sublist (List.sublist_cons_self m _)) e1.symm.le))
          (fun _ => Le.refl _) (Le.refl _) (fun _ => Le.refl _) hi.nodup
      · rw [if_neg hc] at h; cases h

/-! ### events that drop or flag a message -/

theorem remove_le (st : Stages) (s i : Nat) : Le (flatR (st.remove s i)) (flatR st) := by
  rw [flatR_remove]; exact Le.filter _ _

theorem mark_le (st : Stages) (s i : Nat) : Le (flatR (st.mark s i)) (flatR st) := by
  rw [flatR_mark]; exact Le.mark _ _ _

theorem sorted_lt {s : Nat} {A B : List Msg} (h : (idxOf s (A ++ B)).Pairwise (· < ·)) {m m0 : Msg}
    (hm : m ∈ A) (hm0 : m0 ∈ B) (hs : m.s = s) (hs0 : m0.s = s) : m.i < m0.i := by
  rw [idxOf_append] at h
  exact (List.pairwise_append.1 h).2.2 m.i (mem_idxOf.2 ⟨m, hm, hs, rfl⟩) m0.i (mem_idxOf.2 ⟨m0, hm0, hs0, rfl⟩)

theorem mem_mark_hit {st : Stages} {s i : Nat} {m : Msg} (hm : m ∈ flatR (st.mark s i))
    (h1 : m.s = s) (h2 : m.i = i) : m.filt = true := by
  rw [flatR_mark] at hm
  obtain ⟨m1, _, rfl⟩ := List.mem_map.1 hm
  exact markF_hit s i m1 (by simpa using h1) (by simpa using h2)

/-- a processor flags `(s0,i0)`: the invariant survives if every copy on the way to a destination the
new history entry speaks about is flagged now. -/
theorem inv_of_filter {f f' : Flow} (hi : Inv f) (br0 : Option Nat) (s0 i0 : Nat)
    (hreads : f'.reads = f.reads) (hflt : f'.flt = (br0, s0, i0) :: f.flt)
    (hw : ∀ d, f'.wlog d = f.wlog d)
    (hd : ∀ d, Le (flatR (f'.dst d)) (flatR (f.dst d)))
    (hc : ∀ d, Le (curFor f' d) (curFor f d))
    (hp : Le (flatR f'.pl) (flatR f.pl))
    (hs : ∀ s, Le (flatR (f'.src s)) (flatR (f.src s)))
    (hnd : f'.pend.Nodup)
    (hb : i0 < f.reads s0)
    (hnew : ∀ s d, ∀ m ∈ full f' s d, (br0 = none ∨ br0 = some d) → m.s = s0 → m.i = i0 → m.filt = true) :
    Inv f' where
  sorted s d := (hi.sorted s d).sublist ((full_le (hw d) (hd d) (hc d) hp (hs s)).1 s)
  bound s d m hm := by
    obtain ⟨m1, h1, hs', hi', _⟩ := (full_le (hw d) (hd d) (hc d) hp (hs s)).2 m hm
    have := hi.bound s d m1 h1
    rw [hreads, ← hs', ← hi']; exact this
  srcOwn s m hm := by
    obtain ⟨m1, h1, h2, _⟩ := (hs s).2 m hm
    rw [← h2]; exact hi.srcOwn s m1 h1
  nodup := hnd
  unflag d m hm := by rw [hw d] at hm; exact hi.unflag d m hm
  flagged s d m hm br hbr hin := by
    rw [hflt] at hin
    rcases List.mem_cons.1 hin with h | h
    · simp only [Prod.mk.injEq] at h
      obtain ⟨h1, h2, h3⟩ := h
      subst h1
      exact hnew s d m hm hbr h2 h3
    · obtain ⟨m1, h1, hs', hi', hf⟩ := (full_le (hw d) (hd d) (hc d) hp (hs s)).2 m hm
      apply hf
      apply hi.flagged s d m1 h1 br hbr
      rw [hs', hi']; exact h
  fltBound br s i h := by
    rw [hreads]; rw [hflt] at h
    rcases List.mem_cons.1 h with h | h
    · simp only [Prod.mk.injEq] at h
      obtain ⟨_, h2, h3⟩ := h
      subst h2; subst h3; exact hb
    · exact hi.fltBound br s i h

theorem inv_proc_none {τ : Topo} {f f' : Flow} {s0 i0 : Nat} {k : PKind} (hi : Inv f)
    (h : Flow.step τ f (.proc none s0 i0 k) = some f') : Inv f' := by
  simp only [Flow.step] at h
  by_cases hh : ((f.src s0).has s0 i0 || f.pl.has s0 i0) = true
  · rw [if_pos hh] at h
    cases k with
    | pass =>
      simp only [Option.some.injEq] at h
      subst h; exact hi
    | fail =>
      simp only [Option.some.injEq] at h
      subst h
      exact inv_of_parts hi rfl rfl (fun _ => rfl) (fun _ => Le.refl _) (fun _ => Le.refl _)
        (remove_le _ _ _) (flatR_upd_le (remove_le _ _ _)) hi.nodup
    | filter =>
      simp only [Option.some.injEq] at h
      subst h
      -- the message the processor holds
      have hm0 : ∃ m0, (m0 ∈ flatR f.pl ∨ m0 ∈ flatR (f.src s0)) ∧ m0.s = s0 ∧ m0.i = i0 := by
        rcases Bool.or_eq_true_iff.1 hh with h1 | h1
        · obtain ⟨m0, h2, h3⟩ := (has_iff _ _ _).1 h1
          exact ⟨m0, Or.inr h2, h3⟩
        · obtain ⟨m0, h2, h3⟩ := (has_iff _ _ _).1 h1
          exact ⟨m0, Or.inl h2, h3⟩
      obtain ⟨m0, hm0, hs0, hi0⟩ := hm0
      have hm0f : ∀ d, m0 ∈ full f s0 d := by
        intro d; rw [mem_full]
        rcases hm0 with h1 | h1
        · exact Or.inr (Or.inr (Or.inr (Or.inl h1)))
        · exact Or.inr (Or.inr (Or.inr (Or.inr h1)))
      refine inv_of_filter hi none s0 i0 rfl rfl (fun _ => rfl) (fun _ => Le.refl _) (fun _ => Le.refl _)
        (mark_le _ _ _) (flatR_upd_le (mark_le _ _ _)) hi.nodup ?_ ?_
      · have := hi.bound s0 0 m0 (hm0f 0)
        rw [hs0, hi0] at this; exact this
      · intro s d m hm _ h1 h2
        rw [mem_full] at hm
        simp only at hm
        have hfront : m ∈ f.wlog d ++ (flatR (f.dst d) ++ curFor f d) → m.filt = true := by
          intro hA
          have hsplit : full f s0 d = (f.wlog d ++ (flatR (f.dst d) ++ curFor f d)) ++
              (flatR f.pl ++ flatR (f.src s0)) := by simp [full]
          have hsort := hi.sorted s0 d
          rw [hsplit] at hsort
          have hB : m0 ∈ flatR f.pl ++ flatR (f.src s0) := List.mem_append.2 hm0
          have := sorted_lt hsort hA hB h1 hs0
          omega
        rcases hm with h | h | h | h | h
        · exact hfront (List.mem_append_left _ h)
        · exact hfront (List.mem_append_right _ (List.mem_append_left _ h))
        · exact hfront (List.mem_append_right _ (List.mem_append_right _ h))
        · exact mem_mark_hit h h1 h2
        · by_cases hs : s = s0
          · subst hs
            rw [upd_same] at h
            exact mem_mark_hit h h1 h2
          · rw [upd_other _ _ _ _ hs] at h
            exact absurd ((hi.srcOwn s m h).symm.trans h1) hs
  · rw [if_neg hh] at h; cases h

theorem inv_proc_some {τ : Topo} {f f' : Flow} {d0 s0 i0 : Nat} {k : PKind} (hi : Inv f)
    (h : Flow.step τ f (.proc (some d0) s0 i0 k) = some f') : Inv f' := by
  simp only [Flow.step] at h
  by_cases hh : (f.dst d0).has s0 i0 = true
  · rw [if_pos hh] at h
    cases k with
    | pass =>
      simp only [Option.some.injEq] at h
      subst h; exact hi
    | fail =>
      simp only [Option.some.injEq] at h
      subst h
      exact inv_of_parts hi rfl rfl (fun _ => rfl) (flatR_upd_le (remove_le _ _ _)) (fun _ => Le.refl _)
        (Le.refl _) (fun _ => Le.refl _) hi.nodup
    | filter =>
      simp only [Option.some.injEq] at h
      subst h
      obtain ⟨m0, hm0, hs0, hi0⟩ := (has_iff _ _ _).1 hh
      refine inv_of_filter hi (some d0) s0 i0 rfl rfl (fun _ => rfl) (flatR_upd_le (mark_le _ _ _))
        (fun _ => Le.refl _) (Le.refl _) (fun _ => Le.refl _) hi.nodup ?_ ?_
      · have := hi.bound s0 d0 m0 (mem_full.2 (Or.inr (Or.inl hm0)))
        rw [hs0, hi0] at this; exact this
      · intro s d m hm hbr h1 h2
        have hd : d = d0 := by
          rcases hbr with h | h
          · cases h
          · exact (Option.some.inj h).symm
        subst hd
        rw [mem_full] at hm
        simp only [upd_same] at hm
        have hsort := hi.sorted s0 d
        have hback : m ∈ curFor f d ++ (flatR f.pl ++ flatR (f.src s0)) → m.filt = true := by
          intro hB
          have hsplit : full f s0 d = (f.wlog d ++ flatR (f.dst d)) ++
              (curFor f d ++ (flatR f.pl ++ flatR (f.src s0))) := by simp [full]
          rw [hsplit] at hsort
          have := sorted_lt hsort (List.mem_append_right _ hm0) hB hs0 h1
          omega
        rcases hm with h | h | h | h | h
        · have hsplit : full f s0 d = f.wlog d ++ (flatR (f.dst d) ++
              (curFor f d ++ (flatR f.pl ++ flatR (f.src s0)))) := rfl
          rw [hsplit] at hsort
          have := sorted_lt hsort h (List.mem_append_left _ hm0) h1 hs0
          omega
        · exact mem_mark_hit h h1 h2
        · exact hback (List.mem_append_left _ h)
        · exact hback (List.mem_append_right _ (List.mem_append_left _ h))
        · have hs : s = s0 := (hi.srcOwn s m h).symm.trans h1
          subst hs
          exact hback (List.mem_append_right _ (List.mem_append_right _ h))
  · rw [if_neg hh] at h; cases h

theorem inv_nackO {τ : Topo} {f f' : Flow} {s0 i0 : Nat} (hi : Inv f)
    (h : Flow.step τ f (.nackO s0 i0) = some f') : Inv f' := by
  simp only [Flow.step, Option.some.injEq] at h
  subst h
  exact inv_of_parts hi rfl rfl (fun _ => rfl) (fun _ => Le.refl _) (fun _ => Le.refl _)
    (remove_le _ _ _) (flatR_upd_le (remove_le _ _ _)) hi.nodup

theorem inv_nackB {τ : Topo} {f f' : Flow} {d0 s0 i0 : Nat} (hi : Inv f)
    (h : Flow.step τ f (.nackB d0 s0 i0) = some f') : Inv f' := by
  simp only [Flow.step, Option.some.injEq] at h
  subst h
  refine inv_of_parts hi rfl rfl (fun _ => rfl) (flatR_upd_le (remove_le _ _ _)) ?_
    (Le.refl _) (fun _ => Le.refl _) ?_
  · intro d
    apply Le.of_sublist
    simp only [curFor]
    split
    · by_cases hd : d ∈ f.pend.erase d0
      · rw [if_pos hd, if_pos (List.mem_of_mem_erase hd)]; exact List.Sublist.refl _
      · rw [if_neg hd]; exact List.nil_sublist _
    · exact List.Sublist.refl _
  · simp only
    split
    · exact hi.nodup.erase _
    · exact hi.nodup

theorem inv_pdone {τ : Topo} {f f' : Flow} {g : Seg} {k s0 i0 : Nat} (hi : Inv f)
    (h : Flow.step τ f (.pdone g k s0 i0) = some f') : Inv f' := by
  simp only [Flow.step, Option.some.injEq] at h
  subst h
  exact inv_of_parts hi rfl rfl (fun _ => rfl) (fun _ => Le.refl _) (fun _ => Le.refl _)
    (Le.refl _) (fun _ => Le.refl _) hi.nodup

theorem inv_step {τ : Topo} {f f' : Flow} {e : Ev} (hi : Inv f)
    (h : Flow.step τ f e = some f') : Inv f' := by
  cases e with
  | read s => exact inv_read hi h
  | proc br s i k =>
    cases br with
    | none => exact inv_proc_none hi h
    | some d => exact inv_proc_some hi h
  | write d s i ok => exact inv_write hi h
  | enq s i => exact inv_enq hi h
  | fan s i => exact inv_fan hi h
  | fdeliver d => exact inv_fdeliver hi h
  | mv g k s i =>
    cases g with
    | src s0 => exact inv_mv_src hi h
    | pl => exact inv_mv_pl hi h
    | dst d => exact inv_mv_dst hi h
  | pdone g k s i => exact inv_pdone hi h
  | fpass d s i => exact inv_fpass hi h
  | nackO s i => exact inv_nackO hi h
  | nackB d s i => exact inv_nackB hi h
  | dreply _ _ | dreplyErr _ | dlqw _ _ _ | dlqa _ _ _ | sack _ _ _ | dbuf _ | winAck _ | hfail _ _ | dlqStop | wkill _ | fack _ _ _ =>
    simp only [Flow.step, Option.some.injEq] at h
    subst h; exact hi

theorem inv_run {τ : Topo} (evs : List Ev) {f f' : Flow} (hi : Inv f)
    (h : Flow.run τ f evs = some f') : Inv f' := by
  induction evs generalizing f with
  | nil =>
    simp only [Flow.run, Option.some.injEq] at h
    subst h; exact hi
  | cons e es ih =>
    simp only [Flow.run] at h
    cases hs : Flow.step τ f e with
    | none => simp [hs] at h
    | some f1 =>
      simp only [hs] at h
      exact ih (inv_step hi hs) h

/-! ### the statements -/

/-- (1) per destination and per source, the write log is strictly increasing in the emit index:
records arrive in read order and none is written twice. -/
theorem flow_writes_sorted (τ : Topo) (evs : List Ev) (f : Flow)
    (h : Flow.run τ (Flow.init τ) evs = some f) (d s : Nat) :
    List.Pairwise (· < ·) (idxOf s (f.wlog d)) := by
  have hi := inv_run evs (inv_init τ) h
  have := hi.sorted s d
  unfold full at this
  rw [idxOf_append] at this
  exact (List.pairwise_append.1 this).1

/-- (2) only records that were read are written. -/
theorem flow_writes_read (τ : Topo) (evs : List Ev) (f : Flow)
    (h : Flow.run τ (Flow.init τ) evs = some f) (d : Nat) :
    ∀ m ∈ f.wlog d, m.i < f.reads m.s := by
  have hi := inv_run evs (inv_init τ) h
  intro m hm
  exact hi.bound 0 d m (mem_full.2 (Or.inl hm))

/-- (3) written messages did not carry the filtered flag. -/
theorem flow_written_unflagged (τ : Topo) (evs : List Ev) (f : Flow)
    (h : Flow.run τ (Flow.init τ) evs = some f) (d : Nat) :
    ∀ m ∈ f.wlog d, m.filt = false :=
  (inv_run evs (inv_init τ) h).unflag d

/-- (4) a record for which a processor on its way to destination d returned FilterRecord is never
written to d. -/
theorem flow_filtered_absent (τ : Topo) (evs : List Ev) (f : Flow)
    (h : Flow.run τ (Flow.init τ) evs = some f) (d : Nat) :
    ∀ m ∈ f.wlog d, (none, m.s, m.i) ∉ f.flt ∧ (some d, m.s, m.i) ∉ f.flt := by
  have hi := inv_run evs (inv_init τ) h
  intro m hm
  have hf := hi.unflag d m hm
  have hfl := hi.flagged 0 d m (mem_full.2 (Or.inl hm))
  constructor
  · intro hin
    have := hfl none (Or.inl rfl) hin
    rw [hf] at this; cases this
  · intro hin
    have := hfl (some d) (Or.inr rfl) hin
    rw [hf] at this; cases this

end Conduit.Stream
