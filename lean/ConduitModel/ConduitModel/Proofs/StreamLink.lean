import ConduitModel.Proofs.StreamPipe
import ConduitModel.Proofs.StreamMonitor

/-
The product system: what the Flow component knows (write logs, read counters, filter history) is
what the Ack component's log of observable events shows — so the Flow theorems speak about the
observable trace (C05 monitor).
-/
set_option linter.unusedSimpArgs false
set_option linter.unusedVariables false

namespace Conduit.Stream

theorem mvSrc_obs {f f' : Flow} {s k i : Nat} (h : Flow.step.mvSrc f s k i = some f') :
    f'.wlog = f.wlog ∧ f'.reads = f.reads ∧ f'.flt = f.flt := by
  unfold Flow.step.mvSrc at h
  split at h
  · split at h
    · split at h
      · cases h; exact ⟨rfl, rfl, rfl⟩
      · cases h
    · cases h
  · split at h
    · split at h
      · split at h
        · rename_i m st _ _
          cases hp : pushFirst f.pl m with
          | none => simp [hp] at h
          | some p => simp [hp] at h; subst h; exact ⟨rfl, rfl, rfl⟩
        · cases h
      · cases h
    · cases h

/-- what a Flow step does to the three things the C05 monitor looks at. -/
theorem flow_step_obs {τ : Topo} {f f' : Flow} {e : Ev} (h : Flow.step τ f e = some f') :
    (∀ s, e = .read s → f'.reads = upd f.reads s (f.reads s + 1) ∧ f'.wlog = f.wlog ∧ f'.flt = f.flt) ∧
    (∀ d s i ok, e = .write d s i ok →
        ∃ m : Msg, m.s = s ∧ m.i = i ∧ f'.wlog = upd f.wlog d (f.wlog d ++ [m]) ∧ f'.reads = f.reads ∧ f'.flt = f.flt) ∧
    (∀ br s i, e = .proc br s i .filter → f'.flt = (br, s, i) :: f.flt ∧ f'.wlog = f.wlog ∧ f'.reads = f.reads) ∧
    ((∀ s, e ≠ .read s) → (∀ d s i ok, e ≠ .write d s i ok) → (∀ br s i, e ≠ .proc br s i .filter) →
        f'.wlog = f.wlog ∧ f'.reads = f.reads ∧ f'.flt = f.flt) := by
  cases e with
  | read s =>
    simp only [Flow.step, Option.map_eq_some_iff] at h
    obtain ⟨st, _, rfl⟩ := h
    refine ⟨?_, ?_, ?_, ?_⟩
    · intro s' hs; cases hs; exact ⟨rfl, rfl, rfl⟩
    · intro d s' i ok hs; cases hs
    · intro br s' i hs; cases hs
    · intro h1; exact absurd rfl (h1 s)
  | write d s i ok =>
    simp only [Flow.step] at h
    split at h
    · cases h
    · split at h
      · split at h
        · rename_i m st hp hm
          cases h
          refine ⟨?_, ?_, ?_, ?_⟩
          · intro s' hs; cases hs
          · intro d' s' i' ok' hs; cases hs; exact ⟨m, hm.1, hm.2.1, rfl, rfl, rfl⟩
          · intro br s' i' hs; cases hs
          · intro _ h2; exact absurd rfl (h2 d s i ok)
        · cases h
      · cases h
  | proc br s i k =>
    cases br with
    | none =>
      simp only [Flow.step] at h
      split at h
      · cases k with
        | pass =>
          cases h
          exact ⟨fun _ hs => (by cases hs), fun _ _ _ _ hs => (by cases hs), fun _ _ _ hs => (by cases hs),
            fun _ _ _ => ⟨rfl, rfl, rfl⟩⟩
        | filter =>
          cases h
          refine ⟨fun _ hs => (by cases hs), fun _ _ _ _ hs => (by cases hs), ?_, fun _ _ h3 => absurd rfl (h3 none s i)⟩
          intro br s' i' hs; cases hs; exact ⟨rfl, rfl, rfl⟩
        | fail =>
          cases h
          exact ⟨fun _ hs => (by cases hs), fun _ _ _ _ hs => (by cases hs), fun _ _ _ hs => (by cases hs),
            fun _ _ _ => ⟨rfl, rfl, rfl⟩⟩
      · cases h
    | some d =>
      simp only [Flow.step] at h
      split at h
      · cases k with
        | pass =>
          cases h
          exact ⟨fun _ hs => (by cases hs), fun _ _ _ _ hs => (by cases hs), fun _ _ _ hs => (by cases hs),
            fun _ _ _ => ⟨rfl, rfl, rfl⟩⟩
        | filter =>
          cases h
          refine ⟨fun _ hs => (by cases hs), fun _ _ _ _ hs => (by cases hs), ?_, fun _ _ h3 => absurd rfl (h3 (some d) s i)⟩
          intro br s' i' hs; cases hs; exact ⟨rfl, rfl, rfl⟩
        | fail =>
          cases h
          exact ⟨fun _ hs => (by cases hs), fun _ _ _ _ hs => (by cases hs), fun _ _ _ hs => (by cases hs),
            fun _ _ _ => ⟨rfl, rfl, rfl⟩⟩
      · cases h
  | enq s i =>
    refine ⟨fun _ hs => (by cases hs), fun _ _ _ _ hs => (by cases hs), fun _ _ _ hs => (by cases hs), fun _ _ _ => ?_⟩
    simp only [Flow.step] at h
    exact mvSrc_obs h
  | mv g k s i =>
    refine ⟨fun _ hs => (by cases hs), fun _ _ _ _ hs => (by cases hs), fun _ _ _ hs => (by cases hs), fun _ _ _ => ?_⟩
    cases g with
    | src s0 =>
      simp only [Flow.step] at h
      split at h
      · cases h
      · split at h
        · cases h
        · exact mvSrc_obs h
    | pl =>
      simp only [Flow.step] at h
      repeat' (split at h)
      all_goals first
        | (cases h; exact ⟨rfl, rfl, rfl⟩)
        | (cases h)
    | dst d =>
      simp only [Flow.step] at h
      repeat' (split at h)
      all_goals first
        | (cases h; exact ⟨rfl, rfl, rfl⟩)
        | (cases h)
  | fdeliver d =>
    refine ⟨fun _ hs => (by cases hs), fun _ _ _ _ hs => (by cases hs), fun _ _ _ hs => (by cases hs), fun _ _ _ => ?_⟩
    simp only [Flow.step] at h
    split at h
    · split at h
      · rename_i m _ _
        cases hp : pushFirst (f.dst d) m with
        | none => simp [hp] at h
        | some st => simp [hp] at h; subst h; exact ⟨rfl, rfl, rfl⟩
      · cases h
    · cases h
  | _ =>
    refine ⟨fun _ hs => (by cases hs), fun _ _ _ _ hs => (by cases hs), fun _ _ _ hs => (by cases hs), fun _ _ _ => ?_⟩
    simp only [Flow.step] at h
    repeat' (split at h)
    all_goals first
      | (cases h; exact ⟨rfl, rfl, rfl⟩)
      | (cases h)

theorem pipe_run_snoc (τ : Topo) (p : Pipe) (pre : List Ev) (e : Ev) :
    Pipe.run τ p (pre ++ [e]) = (Pipe.run τ p pre).bind fun q => Pipe.step τ q e := by
  induction pre generalizing p with
  | nil =>
    simp only [List.nil_append, Pipe.run, Option.bind]
    cases Pipe.step τ p e <;> rfl
  | cons x xs ih =>
    simp only [List.cons_append, Pipe.run]
    cases Pipe.step τ p x with
    | none => rfl
    | some q => exact ih q

/-- the Ack component's log shows what the Flow component has recorded. -/
structure Link (p : Pipe) : Prop where
  w : ∀ d s, writeSeq d s p.ack.log = idxOf s (p.flow.wlog d)
  r : ∀ s, readCount p.ack.log s = p.flow.reads s
  f : ∀ d s i, filtIn p.ack.log d s i = true ↔ ((none, s, i) ∈ p.flow.flt ∨ (some d, s, i) ∈ p.flow.flt)

theorem link_init (τ : Topo) (size thr : Nat) : Link (Pipe.init τ size thr) := by
  refine ⟨?_, ?_, ?_⟩ <;> simp [Pipe.init, Flow.init, Ack.init, writeSeq, idxOf, readCount, filtIn]

/-- one step of the product keeps the link and the C05 monitor. `pre` is the run so far (needed
to apply the Flow theorems, which speak about runs from the initial state). -/
theorem link_step (τ : Topo) (size thr : Nat) (pre : List Ev) (p p' : Pipe) (e : Ev)
    (hpre : Pipe.run τ (Pipe.init τ size thr) pre = some p) (hs : Pipe.step τ p e = some p')
    (hl : Link p) (hm : monC05 p.ack.log = true) : Link p' ∧ monC05 p'.ack.log = true := by
  obtain ⟨hf, ha⟩ := pipe_step_proj hs
  have hlog := step_log ha
  obtain ⟨o1, o2, o3, o4⟩ := flow_step_obs hf
  have hrun' : Pipe.run τ (Pipe.init τ size thr) (pre ++ [e]) = some p' := by
    rw [pipe_run_snoc, hpre]; exact hs
  have hfrun' := (pipe_run_proj _ hrun').1
  cases e with
  | read s =>
    obtain ⟨h1, h2, h3⟩ := o1 s rfl
    simp only [Ev.observable, if_true] at hlog
    refine ⟨⟨?_, ?_, ?_⟩, ?_⟩
    · intro d s'; rw [hlog, h2]; simpa [writeSeq] using hl.w d s'
    · intro s'
      rw [hlog, h1]
      by_cases hss : s' = s
      · subst hss; simp [readCount, List.countP_cons]; have := hl.r s'; simp [readCount] at this; exact this
      · simp [readCount, List.countP_cons, hss, Ne.symm hss]; have := hl.r s'; simp [readCount] at this; exact this
    · intro d s' i; rw [hlog, h3]; simpa [filtIn] using hl.f d s' i
    · rw [hlog]; simpa [monC05] using hm
  | write d s i ok =>
    obtain ⟨m, hms, hmi, h1, h2, h3⟩ := o2 d s i ok rfl
    simp only [Ev.observable, if_true] at hlog
    -- the Flow theorems at the new state
    have hsorted := flow_writes_sorted τ _ _ hfrun' d s
    have hread := flow_writes_read τ _ _ hfrun' d
    have habs := flow_filtered_absent τ _ _ hfrun' d
    have hw' : p'.flow.wlog d = p.flow.wlog d ++ [m] := by rw [h1]; simp
    have hmem : m ∈ p'.flow.wlog d := by rw [hw']; simp
    have hidx : idxOf s (p'.flow.wlog d) = idxOf s (p.flow.wlog d) ++ [i] := by
      rw [hw', idxOf_append]; simp [idxOf, hms, hmi]
    refine ⟨⟨?_, ?_, ?_⟩, ?_⟩
    · intro d' s'
      rw [hlog, h1]
      by_cases hk : d' = d ∧ s' = s
      · obtain ⟨rfl, rfl⟩ := hk
        simp only [writeSeq, and_self, if_true, upd_same, idxOf_append]
        rw [hl.w]; simp [idxOf, hms, hmi]
      · simp only [writeSeq]
        have hk' : ¬ (d = d' ∧ s = s') := fun h => hk ⟨h.1.symm, h.2.symm⟩
        rw [if_neg hk', hl.w]
        by_cases hd : d' = d
        · subst hd
          have hs' : s' ≠ s := fun h => hk ⟨rfl, h⟩
          simp [idxOf_append, idxOf, hms, Ne.symm hs']
        · simp [hd]
    · intro s'; rw [hlog, h2]; simpa [readCount, List.countP_cons] using hl.r s'
    · intro d' s' i'; rw [hlog, h3]; simpa [filtIn] using hl.f d' s' i'
    · rw [hlog]
      simp only [monC05, hm, Bool.true_and, Bool.and_eq_true, decide_eq_true_eq, Bool.not_eq_true']
      refine ⟨⟨?_, ?_⟩, ?_⟩
      · -- everything d was given of s before is older
        unfold writesBefore
        rw [List.all_eq_true]
        intro e' he'
        cases e' with
        | write d' s' j ok' =>
          by_cases hk : d' = d ∧ s' = s
          · obtain ⟨rfl, rfl⟩ := hk
            have hj : j ∈ writeSeq d' s' p.ack.log := (mem_writeSeq d' s' j _).mpr ⟨ok', he'⟩
            rw [hl.w] at hj
            rw [hidx, List.pairwise_append] at hsorted
            have := hsorted.2.2 j hj i (by simp)
            simp; exact this
          · simp only [Bool.or_eq_true, Bool.not_eq_true', Bool.and_eq_false_iff, beq_eq_false_iff_ne, ne_eq,
              decide_eq_true_eq]
            left
            by_cases hd : d' = d
            · right; intro hs'; exact hk ⟨hd, hs'⟩
            · left; exact hd
        | _ => rfl
      · have := hread m hmem
        rw [hms, hmi, h2] at this
        rw [hl.r]; exact this
      · have := habs m hmem
        rw [hms, hmi, h3] at this
        cases hfi : filtIn p.ack.log d s i with
        | false => rfl
        | true =>
          rcases (hl.f d s i).mp hfi with hc | hc
          · exact absurd hc this.1
          · exact absurd hc this.2
  | proc br s i k =>
    simp only [Ev.observable, if_true] at hlog
    cases k with
    | filter =>
      obtain ⟨h1, h2, h3⟩ := o3 br s i rfl
      refine ⟨⟨?_, ?_, ?_⟩, ?_⟩
      · intro d s'; rw [hlog, h2]; simpa [writeSeq] using hl.w d s'
      · intro s'; rw [hlog, h3]; simpa [readCount, List.countP_cons] using hl.r s'
      · intro d s' i'
        rw [hlog, h1]
        have hold := hl.f d s' i'
        cases br with
        | none =>
          simp only [filtIn, List.any_cons, Bool.or_eq_true, List.mem_cons] at hold ⊢
          constructor
          · rintro (hh | hh)
            · simp at hh; obtain ⟨rfl, rfl⟩ := hh; exact Or.inl (Or.inl rfl)
            · rcases hold.mp hh with hc | hc
              · exact Or.inl (Or.inr hc)
              · exact Or.inr (Or.inr hc)
          · rintro ((hh | hh) | (hh | hh))
            · left; injection hh with _ h2'; injection h2' with h3' h4'; simp [h3', h4']
            · exact Or.inr (hold.mpr (Or.inl hh))
            · cases hh
            · exact Or.inr (hold.mpr (Or.inr hh))
        | some d0 =>
          simp only [filtIn, List.any_cons, Bool.or_eq_true, List.mem_cons] at hold ⊢
          constructor
          · rintro (hh | hh)
            · simp at hh; obtain ⟨⟨rfl, rfl⟩, rfl⟩ := hh; exact Or.inr (Or.inl rfl)
            · rcases hold.mp hh with hc | hc
              · exact Or.inl (Or.inr hc)
              · exact Or.inr (Or.inr hc)
          · rintro ((hh | hh) | (hh | hh))
            · cases hh
            · exact Or.inr (hold.mpr (Or.inl hh))
            · left; injection hh with h1' h2'; injection h2' with h3' h4'; injection h1' with h5'
              simp [h3', h4', h5']
            · exact Or.inr (hold.mpr (Or.inr hh))
      · rw [hlog]; simpa [monC05] using hm
    | pass =>
      obtain ⟨h1, h2, h3⟩ := o4 (fun _ hh => by cases hh) (fun _ _ _ _ hh => by cases hh) (fun _ _ _ hh => by cases hh)
      refine ⟨⟨?_, ?_, ?_⟩, ?_⟩
      · intro d s'; rw [hlog, h1]; simpa [writeSeq] using hl.w d s'
      · intro s'; rw [hlog, h2]; simpa [readCount, List.countP_cons] using hl.r s'
      · intro d s' i'; rw [hlog, h3]; cases br <;> simpa [filtIn] using hl.f d s' i'
      · rw [hlog]; simpa [monC05] using hm
    | fail =>
      obtain ⟨h1, h2, h3⟩ := o4 (fun _ hh => by cases hh) (fun _ _ _ _ hh => by cases hh) (fun _ _ _ hh => by cases hh)
      refine ⟨⟨?_, ?_, ?_⟩, ?_⟩
      · intro d s'; rw [hlog, h1]; simpa [writeSeq] using hl.w d s'
      · intro s'; rw [hlog, h2]; simpa [readCount, List.countP_cons] using hl.r s'
      · intro d s' i'; rw [hlog, h3]; cases br <;> simpa [filtIn] using hl.f d s' i'
      · rw [hlog]; simpa [monC05] using hm
  | _ =>
    obtain ⟨h1, h2, h3⟩ := o4 (fun _ hh => by cases hh) (fun _ _ _ _ hh => by cases hh) (fun _ _ _ hh => by cases hh)
    refine ⟨⟨?_, ?_, ?_⟩, ?_⟩
    · intro d s'; rw [hlog, h1]; simpa [Ev.observable, writeSeq] using hl.w d s'
    · intro s'; rw [hlog, h2]; simpa [Ev.observable, readCount, List.countP_cons] using hl.r s'
    · intro d s' i'; rw [hlog, h3]; simpa [Ev.observable, filtIn] using hl.f d s' i'
    · rw [hlog]; simpa [Ev.observable, monC05] using hm

theorem link_run (τ : Topo) (size thr : Nat) :
    ∀ (evs pre : List Ev) (p0 p : Pipe), Pipe.run τ (Pipe.init τ size thr) pre = some p0 →
      Link p0 → monC05 p0.ack.log = true → Pipe.run τ p0 evs = some p →
      Link p ∧ monC05 p.ack.log = true := by
  intro evs
  induction evs with
  | nil => intro pre p0 p _ hl hm h; simp [Pipe.run] at h; subst h; exact ⟨hl, hm⟩
  | cons e es ih =>
    intro pre p0 p hpre hl hm h
    simp only [Pipe.run] at h
    cases hs : Pipe.step τ p0 e with
    | none => simp [hs] at h
    | some p1 =>
      rw [hs] at h
      obtain ⟨hl1, hm1⟩ := link_step τ size thr pre p0 p1 e hpre hs hl hm
      have hpre1 : Pipe.run τ (Pipe.init τ size thr) (pre ++ [e]) = some p1 := by
        rw [pipe_run_snoc, hpre]; exact hs
      exact ih (pre ++ [e]) p1 p hpre1 hl1 hm1 h

end Conduit.Stream
