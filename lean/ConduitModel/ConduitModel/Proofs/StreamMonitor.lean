import ConduitModel.Spec.StreamMonitor

/-
Reading the monitors: what `mon log = true` says about any split `log = post ++ e :: pre`
(the log is newest first, so `pre` is what happened before `e`).
-/
set_option linter.unusedSimpArgs false

namespace Conduit.Stream

theorem monC01_suffix (M : Nat) (post l : List Ev) (h : monC01 M (post ++ l) = true) : monC01 M l = true := by
  induction post with
  | nil => simpa using h
  | cons x xs ih =>
    simp only [List.cons_append, monC01, Bool.and_eq_true] at h
    exact ih h.1

theorem monC04_suffix (post l : List Ev) (h : monC04 (post ++ l) = true) : monC04 l = true := by
  induction post with
  | nil => simpa using h
  | cons x xs ih =>
    simp only [List.cons_append, monC04, Bool.and_eq_true] at h
    exact ih h.1

theorem monC05_suffix (post l : List Ev) (h : monC05 (post ++ l) = true) : monC05 l = true := by
  induction post with
  | nil => simpa using h
  | cons x xs ih =>
    simp only [List.cons_append, monC05, Bool.and_eq_true] at h
    exact ih h.1

theorem monC07_suffix (post l : List Ev) (h : monC07 (post ++ l) = true) : monC07 l = true := by
  induction post with
  | nil => simpa using h
  | cons x xs ih =>
    simp only [List.cons_append, monC07, Bool.and_eq_true] at h
    exact ih h.1

/-- the positions acked to source `s`, oldest first. -/
def sackSeq (s : Nat) : List Ev → List Nat
  | [] => []
  | .sack s' i _ :: rest => if s' = s then sackSeq s rest ++ [i] else sackSeq s rest
  | _ :: rest => sackSeq s rest

/-- the DLQ records of source `s`, oldest first. -/
def dlqSeq (s : Nat) : List Ev → List Nat
  | [] => []
  | .dlqw s' i _ :: rest => if s' = s then dlqSeq s rest ++ [i] else dlqSeq s rest
  | _ :: rest => dlqSeq s rest

/-- what destination `d` was given of source `s`, oldest first. -/
def writeSeq (d s : Nat) : List Ev → List Nat
  | [] => []
  | .write d' s' i _ :: rest => if d' = d ∧ s' = s then writeSeq d s rest ++ [i] else writeSeq d s rest
  | _ :: rest => writeSeq d s rest

theorem sackSeq_length (s : Nat) (log : List Ev) : (sackSeq s log).length = sackCount log s := by
  induction log with
  | nil => simp [sackSeq, sackCount]
  | cons e rest ih =>
    cases e with
    | sack s' i r =>
      by_cases hs : s' = s
      · subst hs; simp [sackSeq, sackCount, List.countP_cons] at ih ⊢; omega
      · simp [sackSeq, sackCount, List.countP_cons, hs] at ih ⊢; exact ih
    | _ => simpa [sackSeq, sackCount, List.countP_cons] using ih

/-- C04, read off the monitor: the acked sequence of every source is `0, 1, …, k-1` with
`k ≤` the number of records read. -/
theorem sackSeq_of_monC04 (s : Nat) (log : List Ev) (h : monC04 log = true) :
    sackSeq s log = List.range (sackCount log s) ∧ sackCount log s ≤ readCount log s := by
  induction log with
  | nil => simp [sackSeq, sackCount, readCount]
  | cons e rest ih =>
    simp only [monC04, Bool.and_eq_true] at h
    obtain ⟨ih1, ih2⟩ := ih h.1
    cases e with
    | sack s' i r =>
      have he := h.2
      simp only [Bool.and_eq_true, beq_iff_eq, decide_eq_true_eq] at he
      by_cases hs : s' = s
      · subst hs
        have hc : sackCount (Ev.sack s' i r :: rest) s' = sackCount rest s' + 1 := by
          simp [sackCount, List.countP_cons]
        have hr : readCount (Ev.sack s' i r :: rest) s' = readCount rest s' := by
          simp [readCount, List.countP_cons]
        rw [hc, hr]
        refine ⟨?_, by omega⟩
        simp [sackSeq, ih1, List.range_succ, he.1]
      · have hc : sackCount (Ev.sack s' i r :: rest) s = sackCount rest s := by
          simp [sackCount, List.countP_cons, hs]
        have hr : readCount (Ev.sack s' i r :: rest) s = readCount rest s := by
          simp [readCount, List.countP_cons]
        rw [hc, hr]
        exact ⟨by simp [sackSeq, hs, ih1], ih2⟩
    | read s' =>
      have hc : sackCount (Ev.read s' :: rest) s = sackCount rest s := by simp [sackCount, List.countP_cons]
      have hr : readCount rest s ≤ readCount (Ev.read s' :: rest) s := by
        simp [readCount, List.countP_cons]
      rw [hc]
      exact ⟨by simp [sackSeq, ih1], by omega⟩
    | _ =>
      refine ⟨?_, ?_⟩
      · simpa [sackSeq, sackCount, List.countP_cons] using ih1
      · simpa [sackCount, readCount, List.countP_cons] using ih2

theorem mem_dlqSeq (s i : Nat) (log : List Ev) : i ∈ dlqSeq s log ↔ dlqwIn log s i = true := by
  induction log with
  | nil => simp [dlqSeq, dlqwIn]
  | cons e rest ih =>
    cases e with
    | dlqw s' j ok =>
      by_cases hs : s' = s
      · subst hs
        simp only [dlqSeq, if_true, List.mem_append, List.mem_singleton, ih, dlqwIn, List.any_cons]
        simp only [dlqwIn] at ih
        constructor
        · rintro (h | h)
          · simp [h]
          · simp [h]
        · intro h
          simp at h
          rcases h with h | h
          · exact Or.inr h.symm
          · left; simpa using h
      · simp only [dlqSeq, hs, if_false, ih, dlqwIn, List.any_cons]
        simp [hs]
    | _ => simpa [dlqSeq, dlqwIn] using ih

/-- C07, read off the monitor: the DLQ records of a source are strictly increasing in the emit
index — in source order, and no record twice. -/
theorem dlqSeq_of_monC07 (s : Nat) (log : List Ev) (h : monC07 log = true) :
    List.Pairwise (· < ·) (dlqSeq s log) := by
  induction log with
  | nil => simp [dlqSeq]
  | cons e rest ih =>
    simp only [monC07, Bool.and_eq_true] at h
    have ih' := ih h.1
    cases e with
    | dlqw s' i ok =>
      by_cases hs : s' = s
      · subst hs
        simp only [dlqSeq, if_true]
        rw [List.pairwise_append]
        refine ⟨ih', by simp, ?_⟩
        intro j hj k hk
        simp at hk; subst hk
        have he := h.2
        simp only [Bool.and_eq_true] at he
        have hb := he.1.1.2
        unfold dlqBefore at hb
        rw [List.all_eq_true] at hb
        have hw := (mem_dlqSeq s' j rest).mp hj
        unfold dlqwIn at hw
        rw [List.any_eq_true] at hw
        obtain ⟨e', he', hm⟩ := hw
        have := hb e' he'
        cases e' with
        | dlqw s2 j2 ok2 =>
          simp at hm
          obtain ⟨rfl, rfl⟩ := hm
          simpa using this
        | _ => simp at hm
      · simpa [dlqSeq, hs] using ih'
    | _ => simpa [dlqSeq] using ih'

theorem mem_writeSeq (d s i : Nat) (log : List Ev) :
    i ∈ writeSeq d s log ↔ ∃ ok, Ev.write d s i ok ∈ log := by
  induction log with
  | nil => simp [writeSeq]
  | cons e rest ih =>
    cases e with
    | write d' s' j ok =>
      by_cases hk : d' = d ∧ s' = s
      · obtain ⟨rfl, rfl⟩ := hk
        simp only [writeSeq, and_self, if_true, List.mem_append, ih, List.mem_cons, List.not_mem_nil, or_false]
        constructor
        · rintro (⟨ok', h⟩ | h)
          · exact ⟨ok', Or.inr h⟩
          · exact ⟨ok, Or.inl (by rw [h])⟩
        · rintro ⟨ok', h | h⟩
          · right; injection h with _ _ h3 _
          · exact Or.inl ⟨ok', h⟩
      · simp only [writeSeq, hk, if_false, ih, List.mem_cons]
        constructor
        · rintro ⟨ok', h⟩; exact ⟨ok', Or.inr h⟩
        · rintro ⟨ok', h | h⟩
          · injection h with h1 h2 _ _; exact absurd ⟨h1.symm, h2.symm⟩ hk
          · exact ⟨ok', h⟩
    | _ => simpa [writeSeq] using ih

/-- C05, read off the monitor: what a destination is given of one source is strictly increasing
in the emit index — read order, nothing twice. -/
theorem writeSeq_of_monC05 (d s : Nat) (log : List Ev) (h : monC05 log = true) :
    List.Pairwise (· < ·) (writeSeq d s log) := by
  induction log with
  | nil => simp [writeSeq]
  | cons e rest ih =>
    simp only [monC05, Bool.and_eq_true] at h
    have ih' := ih h.1
    cases e with
    | write d' s' i ok =>
      by_cases hk : d' = d ∧ s' = s
      · obtain ⟨rfl, rfl⟩ := hk
        simp only [writeSeq, and_self, if_true]
        rw [List.pairwise_append]
        refine ⟨ih', by simp, ?_⟩
        intro j hj k hk
        simp at hk; subst hk
        have he := h.2
        simp only [Bool.and_eq_true] at he
        have hb := he.1.1
        unfold writesBefore at hb
        rw [List.all_eq_true] at hb
        obtain ⟨ok', hw⟩ := (mem_writeSeq d' s' j rest).mp hj
        have := hb _ hw
        simpa using this
      · simpa [writeSeq, hk] using ih'
    | _ => simpa [writeSeq] using ih'

end Conduit.Stream
