import ConduitModel.Model.StreamPipe
import ConduitModel.Proofs.StreamAck
import ConduitModel.Proofs.StreamFlow

/-
Projections of the product system.
-/
namespace Conduit.Stream

theorem pipe_step_proj {τ : Topo} {p p' : Pipe} {e : Ev} (h : Pipe.step τ p e = some p') :
    Flow.step τ p.flow e = some p'.flow ∧ Ack.step p.ack e = some p'.ack := by
  unfold Pipe.step at h
  cases hf : Flow.step τ p.flow e with
  | none => simp [hf] at h
  | some f =>
    cases ha : Ack.step p.ack e with
    | none => simp [hf, ha] at h
    | some a => simp [hf, ha] at h; subst h; exact ⟨rfl, rfl⟩

theorem pipe_run_proj {τ : Topo} {p p' : Pipe} (evs : List Ev) (h : Pipe.run τ p evs = some p') :
    Flow.run τ p.flow evs = some p'.flow ∧ Ack.run p.ack evs = some p'.ack := by
  induction evs generalizing p with
  | nil => simp [Pipe.run] at h; subst h; simp [Flow.run, Ack.run]
  | cons e es ih =>
    simp only [Pipe.run] at h
    cases hs : Pipe.step τ p e with
    | none => simp [hs] at h
    | some p1 =>
      rw [hs] at h
      obtain ⟨h1, h2⟩ := pipe_step_proj hs
      obtain ⟨i1, i2⟩ := ih h
      simp [Flow.run, Ack.run, h1, h2, i1, i2]

end Conduit.Stream
