import ConduitModel.Model.Time
import ConduitModel.Proofs.Json

/-! Helper lemmas: RFC 3339 formatting of a timestamp is inverted by the parser. -/
namespace Conduit.Codec

theorem num2_digitChar (a b : Nat) : num2 (digitChar a) (digitChar b) = some (a % 10 * 10 + b % 10) := by
  simp [num2, isDigit_digitChar, digitVal_digitChar]

theorem fracDigits_digits : ∀ (w n : Nat), ∀ c ∈ fracDigits w n, isDigit c = true
  | 0, _, c, h => by simp [fracDigits] at h
  | w + 1, n, c, h => by
    unfold fracDigits at h
    by_cases h0 : n = 0
    · simp [h0] at h
    · simp only [h0, if_false, List.mem_cons] at h
      rcases h with h | h
      · subst h; exact isDigit_digitChar _
      · exact fracDigits_digits w _ c h

theorem fracDigits_length : ∀ (w n : Nat), (fracDigits w n).length ≤ w
  | 0, _ => by simp [fracDigits]
  | w + 1, n => by
    unfold fracDigits
    by_cases h0 : n = 0
    · simp [h0]
    · have := fracDigits_length w (n % 10 ^ w)
      simp [h0]; omega

theorem fracVal_fracDigits : ∀ (w n : Nat), n < 10 ^ w → fracVal w (fracDigits w n) = n
  | 0, n, h => by simp at h; simp [fracVal, h]
  | w + 1, n, h => by
    unfold fracDigits
    by_cases h0 : n = 0
    · simp [h0, fracVal]
    · have hlt : n / 10 ^ w < 10 := by
        apply Nat.div_lt_of_lt_mul
        rw [Nat.pow_succ] at h; exact h
      have hm : n % 10 ^ w < 10 ^ w := Nat.mod_lt _ (Nat.pow_pos (by decide))
      simp only [h0, if_false, fracVal, digitVal_digitChar, fracVal_fracDigits w _ hm]
      rw [Nat.mod_eq_of_lt hlt]
      exact Nat.div_add_mod' n (10 ^ w)

theorem parseZone_formatZone (off : Int) (h1 : -1440 < off) (h2 : off < 1440) :
    parseZone (formatZone off) = some off := by
  unfold formatZone
  by_cases h0 : off = 0
  · subst h0; rfl
  · simp only [h0, if_false, pad2, List.cons_append, List.nil_append]
    by_cases hn : off < 0
    · simp only [hn, if_true, parseZone, num2_digitChar]
      have ha : (off.natAbs / 60 / 10 % 10 * 10 + off.natAbs / 60 % 10) < 24 := by omega
      have hb : (off.natAbs % 60 / 10 % 10 * 10 + off.natAbs % 60 % 10) < 60 := by omega
      simp [ha]
      omega
    · simp only [hn, if_false, parseZone, num2_digitChar]
      have ha : (off.natAbs / 60 / 10 % 10 * 10 + off.natAbs / 60 % 10) < 24 := by omega
      have hb : (off.natAbs % 60 / 10 % 10 * 10 + off.natAbs % 60 % 10) < 60 := by omega
      simp [ha]
      omega

theorem formatZone_head (off : Int) : ∃ c r, formatZone off = c :: r ∧ (c = 'Z' ∨ c = '-' ∨ c = '+') := by
  unfold formatZone
  by_cases h0 : off = 0
  · exact ⟨'Z', [], by simp [h0], Or.inl rfl⟩
  · by_cases hn : off < 0
    · exact ⟨'-', pad2 (off.natAbs / 60) ++ ':' :: pad2 (off.natAbs % 60), by simp [h0, hn], Or.inr (Or.inl rfl)⟩
    · exact ⟨'+', pad2 (off.natAbs / 60) ++ ':' :: pad2 (off.natAbs % 60), by simp [h0, hn], Or.inr (Or.inr rfl)⟩

theorem parseFracZone_format (nano : Nat) (off : Int) (hn : nano < 1000000000) (h1 : -1440 < off) (h2 : off < 1440) :
    parseFracZone ((if nano = 0 then [] else '.' :: fracDigits 9 nano) ++ formatZone off) = some (nano, off) := by
  have hz := parseZone_formatZone off h1 h2
  obtain ⟨c, r, e, hc⟩ := formatZone_head off
  by_cases h0 : nano = 0
  · subst h0
    simp only [if_true, List.nil_append]
    rw [e] at hz ⊢
    rcases hc with hc | hc | hc <;> subst hc <;> simp [parseFracZone, hz]
  · have hd : Delim (formatZone off) := by
      rw [e]; rcases hc with hc | hc | hc <;> subst hc <;> (simp [Delim]; decide)
    have hs := spanDigits_append (fracDigits 9 nano) (formatZone off) (fracDigits_digits 9 nano) hd
    have hl := fracDigits_length 9 nano
    have hne : fracDigits 9 nano ≠ [] := by
      unfold fracDigits; simp [h0]
    have hv := fracVal_fracDigits 9 nano (by simpa using hn)
    simp only [h0, if_false, List.cons_append, parseFracZone, hs, hz, hv]
    simp [hne]; omega

theorem parseTime_formatTime (t : Time) (h : t.valid = true) : parseTime (formatTime t) = some t := by
  obtain ⟨year, month, day, hour, min, sec, nano, off⟩ := t
  simp only [Time.valid, Bool.and_eq_true, decide_eq_true_eq] at h
  obtain ⟨⟨⟨⟨⟨⟨⟨⟨⟨⟨hy, hm1⟩, hm2⟩, hd1⟩, hd2⟩, hh⟩, hmi⟩, hs⟩, hns⟩, ho1⟩, ho2⟩ := h
  have hfz := parseFracZone_format nano off hns ho1 ho2
  simp only [formatTime, pad4, pad2, List.cons_append, List.nil_append, parseTime, num2_digitChar, hfz]
  have e1 : year / 1000 % 10 * 10 + year / 100 % 10 = year / 100 := by omega
  have e2 : year / 10 % 10 * 10 + year % 10 = year % 100 := by omega
  have e3 : month / 10 % 10 * 10 + month % 10 = month := by omega
  have hd3 : day ≤ 31 := by
    have : daysIn year month ≤ 31 := by unfold daysIn; split <;> (try split) <;> omega
    omega
  have e4 : day / 10 % 10 * 10 + day % 10 = day := by omega
  have e5 : hour / 10 % 10 * 10 + hour % 10 = hour := by omega
  have e6 : min / 10 % 10 * 10 + min % 10 = min := by omega
  have e7 : sec / 10 % 10 * 10 + sec % 10 = sec := by omega
  have e8 : year / 100 * 100 + year % 100 = year := by omega
  simp [e1, e2, e3, e4, e5, e6, e7, e8, hm1, hm2, hd1, hd2, hh, hmi, hs]

end Conduit.Codec
