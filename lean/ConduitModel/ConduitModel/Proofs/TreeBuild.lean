import ConduitModel.Model.TreeBuild
import ConduitModel.Spec.FunnelMon
import ConduitModel.Proofs.MonFFan

/-!
# The shape of the trees built by `Model/TreeBuild.lean`

`chainN f ts tl` is the closed form: a chain `f → ts…` whose last node has the children `tl`.
Every tree-building function of the model is shown to return such closed forms, from which
`Linear` / `Fan1` / `tasksS` / `Mon.dests` are read off.
-/
namespace Conduit.Funnel
open Conduit.Funnel.Mon

/-- the chain `ts` (as a list of at most one node) ending in the children `tl` -/
def chainL : List TaskSpec → List TaskNode → List TaskNode
  | [], tl => tl
  | t :: ts, tl => [.mk t.1 t.2 (chainL ts tl)]

/-- node `f`, then the chain `ts`, then the children `tl` -/
def chainN (f : TaskSpec) (ts : List TaskSpec) (tl : List TaskNode) : TaskNode := .mk f.1 f.2 (chainL ts tl)

theorem leaf_eq (f : TaskSpec) : leaf f = chainN f [] [] := rfl

theorem chainN_cons (f t : TaskSpec) (ts : List TaskSpec) (tl : List TaskNode) :
    chainN f (t :: ts) tl = .mk f.1 f.2 [chainN t ts tl] := rfl

/-! ## `AppendToEnd` on a chain -/

theorem appendToEnd_chain (ts : List TaskSpec) : ∀ (f : TaskSpec) (nx : List TaskNode),
    appendToEnd (chainN f ts []) nx = some (chainN f ts nx) := by
  induction ts with
  | nil => intro f nx; simp [chainN, chainL, appendToEnd]
  | cons t ts ih =>
    intro f nx
    rw [chainN_cons, appendToEnd, ih t nx]
    rfl

theorem chainL_append (a b : List TaskSpec) (tl : List TaskNode) : chainL (a ++ b) tl = chainL a (chainL b tl) := by
  induction a with
  | nil => rfl
  | cons t a ih => simp [chainL, ih]

theorem appendTasks_chain (rest : List TaskSpec) : ∀ (f : TaskSpec) (done : List TaskSpec),
    appendTasks (chainN f done []) rest = some (chainN f (done ++ rest) []) := by
  induction rest with
  | nil => intro f done; simp [appendTasks]
  | cons t rest ih =>
    intro f done
    rw [appendTasks, appendToEnd_chain]
    have h : chainN f done [leaf t] = chainN f (done ++ [t]) [] := by
      simp [chainN, chainL_append, chainL, leaf]
    simp only [h]
    rw [ih f (done ++ [t])]
    simp

theorem appendTasks_leaf (f : TaskSpec) (rest : List TaskSpec) :
    appendTasks (leaf f) rest = some (chainN f rest []) := by
  rw [leaf_eq, appendTasks_chain]; simp

/-! ## closed forms of the builders -/

/-- a destination branch -/
def branchOf : List TaskSpec → TaskNode
  | [] => default
  | f :: rest => chainN f rest []

theorem destBranches_ok (dests : List (List TaskSpec)) (hne : ∀ b ∈ dests, b ≠ []) :
    destBranches dests = .ok (dests.map branchOf) := by
  induction dests with
  | nil => rfl
  | cons b bs ih =>
    cases b with
    | nil => exact absurd rfl (hne [] (List.mem_cons_self ..))
    | cons f rest =>
      rw [destBranches, appendTasks_leaf, ih (fun b hb => hne b (List.mem_cons_of_mem _ hb))]
      rfl

/-- the only way `destBranches` fails: an empty branch -/
theorem destBranches_err (dests : List (List TaskSpec)) (e : TreeErr) (h : destBranches dests = .error e) :
    e = .emptyBranch ∧ [] ∈ dests := by
  induction dests with
  | nil => simp [destBranches] at h
  | cons b bs ih =>
    cases b with
    | nil => simp [destBranches] at h; exact ⟨h.symm, List.mem_cons_self ..⟩
    | cons f rest =>
      rw [destBranches, appendTasks_leaf] at h
      simp only at h
      cases hb : destBranches bs with
      | error e' =>
        rw [hb] at h
        simp only at h
        have := ih (Except.error.inj h ▸ hb)
        exact ⟨this.1, List.mem_cons_of_mem _ this.2⟩
      | ok l => rw [hb] at h; simp at h

theorem destBranches_ok_ne (dests : List (List TaskSpec)) (l : List TaskNode) (h : destBranches dests = .ok l) :
    ∀ b ∈ dests, b ≠ [] := by
  induction dests generalizing l with
  | nil => intro b hb; cases hb
  | cons b bs ih =>
    cases b with
    | nil => simp [destBranches] at h
    | cons f rest =>
      rw [destBranches, appendTasks_leaf] at h
      simp only at h
      cases hbs : destBranches bs with
      | error e' => rw [hbs] at h; simp at h
      | ok l' =>
        intro b hb
        rcases List.mem_cons.mp hb with rfl | hb
        · exact List.cons_ne_nil _ _
        · exact ih l' hbs b hb

/-- the shared roots: the branches themselves, or the processor chain ending in the branches -/
def sharedRootsOf (procs : List Nat) (dests : List (List TaskSpec)) : List TaskNode :=
  match procs with
  | [] => dests.map branchOf
  | p :: ps => [chainN (p, .proc) (ps.map fun q => (q, TaskKind.proc)) (dests.map branchOf)]

theorem buildSharedTail_ok (procs : List Nat) (dests : List (List TaskSpec)) (hne : ∀ b ∈ dests, b ≠ []) :
    buildSharedTail procs dests = .ok (sharedRootsOf procs dests) := by
  rw [buildSharedTail, destBranches_ok dests hne]
  cases procs with
  | nil => rfl
  | cons p ps =>
    simp only [sharedRootsOf]
    rw [appendTasks_leaf]
    simp only []
    rw [appendToEnd_chain]

theorem sourceTree_ok (f : TaskSpec) (rest : List TaskSpec) (roots : List TaskNode) :
    sourceTree (f :: rest) roots = .ok (chainN f rest roots) := by
  rw [sourceTree, appendTasks_leaf]
  simp only []
  rw [appendToEnd_chain]

theorem workerTreeE_ok (f : TaskSpec) (rest : List TaskSpec) (procs : List Nat) (dests : List (List TaskSpec))
    (hne : ∀ b ∈ dests, b ≠ []) :
    workerTreeE (f :: rest) procs dests = .ok (chainN f rest (sharedRootsOf procs dests)) := by
  rw [workerTreeE, buildSharedTail_ok procs dests hne]
  exact sourceTree_ok f rest _

theorem workerTree_ok (f : TaskSpec) (rest : List TaskSpec) (procs : List Nat) (dests : List (List TaskSpec))
    (hne : ∀ b ∈ dests, b ≠ []) :
    workerTree (f :: rest) procs dests = some (chainN f rest (sharedRootsOf procs dests)) := by
  rw [workerTree, workerTreeE_ok f rest procs dests hne]

/-- `buildSharedTail` never fails with the "multiple next tasks" error, whatever its arguments -/
theorem buildSharedTail_err (procs : List Nat) (dests : List (List TaskSpec)) (e : TreeErr)
    (h : buildSharedTail procs dests = .error e) : e = .emptyBranch ∧ [] ∈ dests := by
  by_cases hne : ∀ b ∈ dests, b ≠ []
  · rw [buildSharedTail_ok procs dests hne] at h; cases h
  · rw [buildSharedTail] at h
    cases hb : destBranches dests with
    | error e' =>
      rw [hb] at h
      simp only at h
      exact Except.error.inj h ▸ destBranches_err dests e' hb
    | ok l => exact absurd (destBranches_ok_ne dests l hb) hne

/-! ## shapes -/

theorem linear_chainN (ts : List TaskSpec) : ∀ f : TaskSpec, Linear (chainN f ts []) := by
  induction ts with
  | nil => intro f; exact .mk _ _ _ (by simp [chainL]) (fun n hn => by simp [chainL] at hn)
  | cons t ts ih =>
    intro f
    rw [chainN_cons]
    exact .mk _ _ _ (by simp) (fun n hn => by rw [List.mem_singleton.mp hn]; exact ih t)

theorem linear_branchOf (b : List TaskSpec) (hb : b ≠ []) : Linear (branchOf b) := by
  cases b with
  | nil => exact absurd rfl hb
  | cons f rest => exact linear_chainN rest f

theorem Linear.fan1 : ∀ {node : TaskNode}, Linear node → Fan1 node
  | .mk _ _ [], _ => .mk _ _ _ (fun _ _ hn => nomatch hn) (fun h2 => absurd h2 (by simp))
  | .mk _ _ [c], h =>
    .mk _ _ _ (fun _ n hn => by
        rw [List.mem_singleton.mp hn]
        exact Linear.fan1 (h.child c (List.mem_singleton_self c)))
      (fun h2 => absurd h2 (by simp))
  | .mk _ _ (_ :: _ :: _), h => absurd h.len (by simp [TaskNode.next])

/-- a chain ending in children that are (at most one: `Fan1`; two or more: all `Linear`) is `Fan1` -/
theorem fan1_chainN (ts : List TaskSpec) (tl : List TaskNode)
    (h1 : tl.length ≤ 1 → ∀ n ∈ tl, Fan1 n) (h2 : 2 ≤ tl.length → ∀ n ∈ tl, Linear n) :
    ∀ f : TaskSpec, Fan1 (chainN f ts tl) := by
  induction ts with
  | nil => intro f; exact .mk _ _ _ h1 h2
  | cons t ts ih =>
    intro f
    rw [chainN_cons]
    exact .mk _ _ _ (fun _ n hn => by rw [List.mem_singleton.mp hn]; exact ih t) (fun h => absurd h (by simp))

theorem linear_branches (dests : List (List TaskSpec)) (hne : ∀ b ∈ dests, b ≠ []) :
    ∀ n ∈ dests.map branchOf, Linear n := by
  intro n hn
  obtain ⟨b, hb, rfl⟩ := List.mem_map.mp hn
  exact linear_branchOf b (hne b hb)

theorem fan1_sharedRoots (procs : List Nat) (dests : List (List TaskSpec)) (hne : ∀ b ∈ dests, b ≠ []) :
    (∀ n ∈ sharedRootsOf procs dests, Fan1 n) ∧
    (2 ≤ (sharedRootsOf procs dests).length → ∀ n ∈ sharedRootsOf procs dests, Linear n) := by
  have hlin := linear_branches dests hne
  cases procs with
  | nil => exact ⟨fun n hn => (hlin n hn).fan1, fun _ => hlin⟩
  | cons p ps =>
    refine ⟨fun n hn => ?_, fun h => absurd h (by simp [sharedRootsOf])⟩
    rw [List.mem_singleton.mp hn]
    exact fan1_chainN _ _ (fun _ n hn => (hlin n hn).fan1) (fun _ => hlin) _

theorem fan1_workerShape (f : TaskSpec) (rest : List TaskSpec) (procs : List Nat) (dests : List (List TaskSpec))
    (hne : ∀ b ∈ dests, b ≠ []) : Fan1 (chainN f rest (sharedRootsOf procs dests)) :=
  fan1_chainN rest _ (fun _ => (fan1_sharedRoots procs dests hne).1) (fan1_sharedRoots procs dests hne).2 f

/-! ## task ids and destinations -/

theorem tasksL_chainL (ts : List TaskSpec) (tl : List TaskNode) :
    tasksL (chainL ts tl) = ts.map (·.1) ++ tasksL tl := by
  induction ts with
  | nil => rfl
  | cons t ts ih => simp [chainL, tasksL_cons, tasksL_nil, tasksS_eq, TaskNode.id, TaskNode.next, ih]

theorem tasksS_chainN (f : TaskSpec) (ts : List TaskSpec) (tl : List TaskNode) :
    tasksS (chainN f ts tl) = f.1 :: (ts.map (·.1) ++ tasksL tl) := by
  rw [tasksS_eq]; simp [chainN, TaskNode.id, TaskNode.next, tasksL_chainL]

theorem tasksS_branchOf (b : List TaskSpec) (hb : b ≠ []) : tasksS (branchOf b) = b.map (·.1) := by
  cases b with
  | nil => exact absurd rfl hb
  | cons f rest => simp [branchOf, tasksS_chainN, tasksL_nil]

theorem tasksL_branches (dests : List (List TaskSpec)) (hne : ∀ b ∈ dests, b ≠ []) :
    tasksL (dests.map branchOf) = dests.flatten.map (·.1) := by
  induction dests with
  | nil => simp [tasksL_nil]
  | cons b bs ih =>
    simp only [List.map_cons, tasksL_cons, List.flatten_cons, List.map_append]
    rw [tasksS_branchOf b (hne b (List.mem_cons_self ..)), ih (fun b hb => hne b (List.mem_cons_of_mem _ hb))]

theorem tasksL_sharedRoots (procs : List Nat) (dests : List (List TaskSpec)) (hne : ∀ b ∈ dests, b ≠ []) :
    tasksL (sharedRootsOf procs dests) = procs ++ dests.flatten.map (·.1) := by
  cases procs with
  | nil => simp [sharedRootsOf, tasksL_branches dests hne]
  | cons p ps =>
    simp only [sharedRootsOf, tasksL_cons, tasksL_nil, tasksS_chainN, tasksL_branches dests hne]
    simp [Function.comp_def]

theorem tasksS_workerShape (f : TaskSpec) (rest : List TaskSpec) (procs : List Nat) (dests : List (List TaskSpec))
    (hne : ∀ b ∈ dests, b ≠ []) :
    tasksS (chainN f rest (sharedRootsOf procs dests)) =
      (f :: rest).map (·.1) ++ procs ++ dests.flatten.map (·.1) := by
  rw [tasksS_chainN, tasksL_sharedRoots procs dests hne]; simp

/-- ids of the destination tasks of a task list -/
def destIds (ts : List TaskSpec) : List Nat := (ts.filter (·.2 == .dest)).map (·.1)

theorem destIds_cons (t : TaskSpec) (ts : List TaskSpec) :
    destIds (t :: ts) = (if t.2 == .dest then [t.1] else []) ++ destIds ts := by
  unfold destIds
  by_cases h : (t.2 == TaskKind.dest) = true <;> simp [h]

theorem destIds_append (a b : List TaskSpec) : destIds (a ++ b) = destIds a ++ destIds b := by
  simp [destIds]

theorem dests_mk (id : Nat) (k : TaskKind) (next : List TaskNode) :
    destsS (.mk id k next) = (if k == .dest then [id] else []) ++ destsL next := destsS_eq _

theorem destsL_chainL (ts : List TaskSpec) (tl : List TaskNode) :
    destsL (chainL ts tl) = destIds ts ++ destsL tl := by
  induction ts with
  | nil => simp [chainL, destIds]
  | cons t ts ih => simp [chainL, destsL_cons, destsL_nil, dests_mk, ih, destIds_cons]

theorem dests_chainN (f : TaskSpec) (ts : List TaskSpec) (tl : List TaskNode) :
    destsS (chainN f ts tl) = destIds (f :: ts) ++ destsL tl := by
  rw [chainN, dests_mk, destsL_chainL, destIds_cons]; simp

theorem dests_branchOf (b : List TaskSpec) (hb : b ≠ []) : destsS (branchOf b) = destIds b := by
  cases b with
  | nil => exact absurd rfl hb
  | cons f rest => simp [branchOf, dests_chainN, destsL_nil]

theorem destsL_branches (dl : List (List TaskSpec)) (hne : ∀ b ∈ dl, b ≠ []) :
    destsL (dl.map branchOf) = destIds dl.flatten := by
  induction dl with
  | nil => simp [destsL_nil, destIds]
  | cons b bs ih =>
    simp only [List.map_cons, destsL_cons, List.flatten_cons, destIds_append]
    rw [dests_branchOf b (hne b (List.mem_cons_self ..)), ih (fun b hb => hne b (List.mem_cons_of_mem _ hb))]

theorem destIds_procs (ps : List Nat) : destIds (ps.map fun q => (q, TaskKind.proc)) = [] := by
  induction ps with
  | nil => rfl
  | cons p ps ih => rw [List.map_cons, destIds_cons, ih]; rfl

theorem destsL_sharedRoots (procs : List Nat) (dl : List (List TaskSpec)) (hne : ∀ b ∈ dl, b ≠ []) :
    destsL (sharedRootsOf procs dl) = destIds dl.flatten := by
  cases procs with
  | nil => simp [sharedRootsOf, destsL_branches dl hne]
  | cons p ps =>
    simp only [sharedRootsOf, destsL_cons, destsL_nil, dests_chainN, destsL_branches dl hne, destIds_cons,
      destIds_procs]
    simp

theorem dests_workerShape (f : TaskSpec) (rest : List TaskSpec) (procs : List Nat) (dl : List (List TaskSpec))
    (hne : ∀ b ∈ dl, b ≠ []) :
    destsS (chainN f rest (sharedRootsOf procs dl)) = destIds (f :: rest) ++ destIds dl.flatten := by
  rw [dests_chainN, destsL_sharedRoots procs dl hne]

theorem destIds_srcChain (s : Nat) (ps : List Nat) : destIds (srcChain s ps) = [] := by
  rw [srcChain, destIds_cons, destIds_procs]; rfl

theorem destIds_destChain (d : Nat) (ps : List Nat) : destIds (destChain d ps) = [d] := by
  rw [destChain, destIds_append, destIds_procs]; rfl

theorem destIds_destChains (ds : List (Nat × List Nat)) :
    destIds (ds.map fun d => destChain d.1 d.2).flatten = ds.map (·.1) := by
  induction ds with
  | nil => rfl
  | cons d ds ih => simp only [List.map_cons, List.flatten_cons, destIds_append, destIds_destChain, ih]; rfl

end Conduit.Funnel
