import ConduitModel.Proofs.TreeBuild

/-!
# What a successful `buildWorkers` (model of `buildRunnablePipeline`) returns, in closed form
-/
namespace Conduit.Funnel
open Conduit.Funnel.Mon

def procIds (ps : List ProcRef) : List Nat := ps.map (·.1)
def procSpecs (ps : List Nat) : List TaskSpec := ps.map fun q => (q, TaskKind.proc)

def srcConns (cs : List ConnCfg) : List ConnCfg := cs.filter (·.kind == .source)
def dstConns (cs : List ConnCfg) : List ConnCfg := cs.filter (·.kind == .dest)

/-- `srcTaskSets` / `destTasks` of a successful build -/
def srcSetsOf (cs : List ConnCfg) : List (List TaskSpec) := (srcConns cs).map fun c => srcChain c.id (procIds c.procs)
def destSetsOf (cs : List ConnCfg) : List (List TaskSpec) := (dstConns cs).map fun c => destChain c.id (procIds c.procs)

/-- processor ids in the order in which the build reserves them -/
def srcProcIds (cs : List ConnCfg) : List Nat := ((srcConns cs).map fun c => procIds c.procs).flatten
def dstProcIds (cs : List ConnCfg) : List Nat := ((dstConns cs).map fun c => procIds c.procs).flatten
def allProcIds (cfg : PipeCfg) : List Nat := srcProcIds cfg.conns ++ dstProcIds cfg.conns ++ procIds cfg.procs

theorem srcConns_cons (c : ConnCfg) (cs : List ConnCfg) :
    srcConns (c :: cs) = if c.kind = .source then c :: srcConns cs else srcConns cs := by
  unfold srcConns; cases hk : c.kind <;> simp [hk]

theorem dstConns_cons (c : ConnCfg) (cs : List ConnCfg) :
    dstConns (c :: cs) = if c.kind = .dest then c :: dstConns cs else dstConns cs := by
  unfold dstConns; cases hk : c.kind <;> simp [hk]

/-! ## the `seen` maps -/

theorem hasDup_false : ∀ l : List Nat, hasDup l = false ↔ l.Nodup
  | [] => by simp [hasDup]
  | x :: xs => by simp [hasDup, hasDup_false xs, List.nodup_cons]

mutual
theorem nodeIds_eq : (t : TaskNode) → nodeIds t = tasksS t
  | .mk id k next => by rw [nodeIds, tasksS, nodesIds_eq next]
theorem nodesIds_eq : (l : List TaskNode) → nodesIds l = tasksL l
  | [] => by rw [nodesIds, tasksL]
  | n :: ns => by rw [nodesIds, tasksL, nodeIds_eq n, nodesIds_eq ns]
end

/-! ## `buildProcessorTasks` -/

theorem buildProcessorTasks_ok (ps : List ProcRef) : ∀ (r ts r' : List Nat),
    buildProcessorTasks r ps = .ok (ts, r') →
    ts = procIds ps ∧ r' = ts.reverse ++ r ∧ ts.Nodup ∧ ∀ x ∈ ts, x ∉ r := by
  induction ps with
  | nil =>
    intro r ts r' h
    simp only [buildProcessorTasks, Except.ok.injEq, Prod.mk.injEq] at h
    obtain ⟨rfl, rfl⟩ := h
    simp [procIds]
  | cons p ps ih =>
    intro r ts r' h
    obtain ⟨id, found⟩ := p
    rw [buildProcessorTasks] at h
    cases found with
    | false => simp at h
    | true =>
      simp only [Bool.not_true, Bool.false_eq_true, if_false] at h
      cases hc : r.contains id with
      | true => rw [hc] at h; simp at h
      | false =>
        rw [hc] at h
        simp only [Bool.false_eq_true, if_false] at h
        cases hrec : buildProcessorTasks (id :: r) ps with
        | error e => rw [hrec] at h; simp at h
        | ok v =>
          obtain ⟨ts', r''⟩ := v
          rw [hrec] at h
          simp only [Except.ok.injEq, Prod.mk.injEq] at h
          obtain ⟨rfl, rfl⟩ := h
          obtain ⟨h1, h2, h3, h4⟩ := ih (id :: r) ts' r'' hrec
          have hid : id ∉ r := by simpa using hc
          refine ⟨by simp [procIds, h1], by simp [h2], ?_, ?_⟩
          · refine List.nodup_cons.mpr ⟨fun hm => ?_, h3⟩
            exact h4 id hm (List.mem_cons_self ..)
          · intro x hx
            rcases List.mem_cons.mp hx with rfl | hx
            · exact hid
            · exact fun hm => h4 x hx (List.mem_cons_of_mem _ hm)

/-! ## `buildSourceTasks` / `buildDestinationTasks` -/

theorem nodup_append_of {a b : List Nat} (ha : a.Nodup) (hb : b.Nodup) (hd : ∀ x ∈ b, x ∉ a) : (a ++ b).Nodup :=
  List.nodup_append.mpr ⟨ha, hb, fun x hx y hy hxy => hd y hy (hxy ▸ hx)⟩

theorem buildSourceTasks_ok (cs : List ConnCfg) : ∀ (r : List Nat) (sets : List (List TaskSpec)) (r' : List Nat),
    buildSourceTasks r cs = .ok (sets, r') →
    sets = srcSetsOf cs ∧ r' = (srcProcIds cs).reverse ++ r ∧ (srcProcIds cs).Nodup ∧
    (∀ x ∈ srcProcIds cs, x ∉ r) ∧ ∀ c ∈ cs, c.kind ≠ .missing := by
  induction cs with
  | nil =>
    intro r sets r' h
    simp only [buildSourceTasks, Except.ok.injEq, Prod.mk.injEq] at h
    obtain ⟨rfl, rfl⟩ := h
    simp [srcSetsOf, srcProcIds, srcConns]
  | cons c cs ih =>
    intro r sets r' h
    rw [buildSourceTasks] at h
    cases hk : c.kind with
    | missing => rw [hk] at h; simp at h
    | dest =>
      rw [hk] at h
      simp only at h
      obtain ⟨h1, h2, h3, h4, h5⟩ := ih r sets r' h
      refine ⟨?_, ?_, ?_, ?_, ?_⟩
      · simpa [srcSetsOf, srcConns_cons, hk] using h1
      · simpa [srcProcIds, srcConns_cons, hk] using h2
      · simpa [srcProcIds, srcConns_cons, hk] using h3
      · simpa [srcProcIds, srcConns_cons, hk] using h4
      · intro d hd
        rcases List.mem_cons.mp hd with rfl | hd
        · rw [hk]; simp
        · exact h5 d hd
    | source =>
      rw [hk] at h
      simp only at h
      cases hp : buildProcessorTasks r c.procs with
      | error e => rw [hp] at h; simp at h
      | ok v =>
        obtain ⟨ps, r1⟩ := v
        rw [hp] at h
        simp only at h
        cases hrec : buildSourceTasks r1 cs with
        | error e => rw [hrec] at h; simp at h
        | ok w =>
          obtain ⟨sets', r2⟩ := w
          rw [hrec] at h
          simp only [Except.ok.injEq, Prod.mk.injEq] at h
          obtain ⟨rfl, rfl⟩ := h
          obtain ⟨p1, p2, p3, p4⟩ := buildProcessorTasks_ok c.procs r ps r1 hp
          obtain ⟨h1, h2, h3, h4, h5⟩ := ih r1 sets' r2 hrec
          have e : srcProcIds (c :: cs) = ps ++ srcProcIds cs := by
            simp [srcProcIds, srcConns_cons, hk, p1]
          refine ⟨?_, ?_, ?_, ?_, ?_⟩
          · simp [srcSetsOf, srcConns_cons, hk, p1] at h1 ⊢
            exact h1
          · rw [e, h2, p2]; simp
          · rw [e]
            refine nodup_append_of p3 h3 (fun x hx hm => h4 x hx ?_)
            rw [p2]; exact List.mem_append_left _ (List.mem_reverse.mpr hm)
          · rw [e]
            intro x hx
            rcases List.mem_append.mp hx with hx | hx
            · exact p4 x hx
            · exact fun hm => h4 x hx (by rw [p2]; exact List.mem_append_right _ hm)
          · intro d hd
            rcases List.mem_cons.mp hd with rfl | hd
            · rw [hk]; simp
            · exact h5 d hd

theorem buildDestinationTasks_ok (cs : List ConnCfg) : ∀ (r : List Nat) (sets : List (List TaskSpec)) (r' : List Nat),
    buildDestinationTasks r cs = .ok (sets, r') →
    sets = destSetsOf cs ∧ r' = (dstProcIds cs).reverse ++ r ∧ (dstProcIds cs).Nodup ∧
    (∀ x ∈ dstProcIds cs, x ∉ r) := by
  induction cs with
  | nil =>
    intro r sets r' h
    simp only [buildDestinationTasks, Except.ok.injEq, Prod.mk.injEq] at h
    obtain ⟨rfl, rfl⟩ := h
    simp [destSetsOf, dstProcIds, dstConns]
  | cons c cs ih =>
    intro r sets r' h
    rw [buildDestinationTasks] at h
    cases hk : c.kind with
    | missing => rw [hk] at h; simp at h
    | source =>
      rw [hk] at h
      simp only at h
      obtain ⟨h1, h2, h3, h4⟩ := ih r sets r' h
      refine ⟨?_, ?_, ?_, ?_⟩
      · simpa [destSetsOf, dstConns_cons, hk] using h1
      · simpa [dstProcIds, dstConns_cons, hk] using h2
      · simpa [dstProcIds, dstConns_cons, hk] using h3
      · simpa [dstProcIds, dstConns_cons, hk] using h4
    | dest =>
      rw [hk] at h
      simp only at h
      cases hp : buildProcessorTasks r c.procs with
      | error e => rw [hp] at h; simp at h
      | ok v =>
        obtain ⟨ps, r1⟩ := v
        rw [hp] at h
        simp only at h
        cases hrec : buildDestinationTasks r1 cs with
        | error e => rw [hrec] at h; simp at h
        | ok w =>
          obtain ⟨sets', r2⟩ := w
          rw [hrec] at h
          simp only [Except.ok.injEq, Prod.mk.injEq] at h
          obtain ⟨rfl, rfl⟩ := h
          obtain ⟨p1, p2, p3, p4⟩ := buildProcessorTasks_ok c.procs r ps r1 hp
          obtain ⟨h1, h2, h3, h4⟩ := ih r1 sets' r2 hrec
          have e : dstProcIds (c :: cs) = ps ++ dstProcIds cs := by
            simp [dstProcIds, dstConns_cons, hk, p1]
          refine ⟨?_, ?_, ?_, ?_⟩
          · simp [destSetsOf, dstConns_cons, hk, p1] at h1 ⊢
            exact h1
          · rw [e, h2, p2]; simp
          · rw [e]
            refine nodup_append_of p3 h3 (fun x hx hm => h4 x hx ?_)
            rw [p2]; exact List.mem_append_left _ (List.mem_reverse.mpr hm)
          · rw [e]
            intro x hx
            rcases List.mem_append.mp hx with hx | hx
            · exact p4 x hx
            · exact fun hm => h4 x hx (by rw [p2]; exact List.mem_append_right _ hm)

/-! ## the per-source loop -/

theorem srcChain_ids (s : Nat) (ps : List Nat) : (srcChain s ps).map (·.1) = s :: ps := by
  simp [srcChain, Function.comp_def]

/-- the tree of the worker of source connector `c` -/
def treeOf (roots : List TaskNode) (c : ConnCfg) : TaskNode :=
  chainN (c.id, .source) (procSpecs (procIds c.procs)) roots

theorem buildWorkerTrees_srcSets (roots : List TaskNode) (scs : List ConnCfg) :
    ∀ ts, buildWorkerTrees roots (scs.map fun c => srcChain c.id (procIds c.procs)) = .ok ts →
      ts = scs.map (treeOf roots) ∧ ∀ c ∈ scs, (c.id :: procIds c.procs).Nodup := by
  induction scs with
  | nil => intro ts h; simp [buildWorkerTrees] at h; simp [h]
  | cons c scs ih =>
    intro ts h
    rw [List.map_cons, buildWorkerTrees, srcChain_ids, srcChain, sourceTree_ok] at h
    simp only at h
    cases hd : hasDup (c.id :: procIds c.procs) with
    | true => rw [hd] at h; simp at h
    | false =>
      rw [hd] at h
      simp only [Bool.false_eq_true, if_false] at h
      cases hrec : buildWorkerTrees roots (scs.map fun c => srcChain c.id (procIds c.procs)) with
      | error e => rw [hrec] at h; simp at h
      | ok ts' =>
        rw [hrec] at h
        simp only [Except.ok.injEq] at h
        obtain ⟨h1, h2⟩ := ih ts' hrec
        have hnd : (c.id :: procIds c.procs).Nodup := (hasDup_false _).mp hd
        refine ⟨by rw [← h, h1]; rfl, ?_⟩
        intro d hd'
        rcases List.mem_cons.mp hd' with rfl | hd'
        · exact hnd
        · exact h2 d hd'

/-- the per-source loop never fails with an `AppendToEnd` error on the task lists of `buildSourceTasks` -/
theorem buildWorkerTrees_no_append (roots : List TaskNode) (scs : List ConnCfg) (e : TreeErr) :
    buildWorkerTrees roots (scs.map fun c => srcChain c.id (procIds c.procs)) ≠ .error (.append e) := by
  induction scs with
  | nil => simp [buildWorkerTrees]
  | cons c scs ih =>
    rw [List.map_cons, buildWorkerTrees, srcChain, sourceTree_ok]
    simp only
    split
    · simp
    · cases hrec : buildWorkerTrees roots (scs.map fun c => srcChain c.id (procIds c.procs)) with
      | error e' =>
        simp only
        intro h
        exact ih (by rw [hrec, Except.error.inj h])
      | ok ts' => simp

/-! ## the whole build -/

theorem destSetsOf_ne (cs : List ConnCfg) : ∀ b ∈ destSetsOf cs, b ≠ [] := by
  intro b hb
  obtain ⟨c, _, rfl⟩ := List.mem_map.mp hb
  simp [destChain]

/-- the shared roots of the pipeline -/
def sharedOf (cfg : PipeCfg) : List TaskNode := sharedRootsOf (procIds cfg.procs) (destSetsOf cfg.conns)

/-- everything a successful build establishes -/
structure Built (cfg : PipeCfg) (trees : List TaskNode) : Prop where
  trees_eq : trees = (srcConns cfg.conns).map (treeOf (sharedOf cfg))
  procs_nodup : (allProcIds cfg).Nodup
  shared_nodup : (tasksL (sharedOf cfg)).Nodup
  prefix_nodup : ∀ c ∈ srcConns cfg.conns, (c.id :: procIds c.procs).Nodup
  has_src : srcConns cfg.conns ≠ []
  has_dst : dstConns cfg.conns ≠ []

theorem buildWorkers_ok (cfg : PipeCfg) (trees : List TaskNode) (h : buildWorkers cfg = .ok trees) : Built cfg trees := by
  rw [buildWorkers] at h
  cases hs : buildSourceTasks [] cfg.conns with
  | error e => rw [hs] at h; simp at h
  | ok v =>
    obtain ⟨srcSets, r1⟩ := v
    rw [hs] at h
    simp only at h
    obtain ⟨s1, s2, s3, _, _⟩ := buildSourceTasks_ok cfg.conns [] srcSets r1 hs
    by_cases hse : srcSets.isEmpty = true
    · simp [hse] at h
    · simp only [hse, Bool.false_eq_true, if_false] at h
      cases hd : buildDestinationTasks r1 cfg.conns with
      | error e => rw [hd] at h; simp at h
      | ok w =>
        obtain ⟨destTasks, r2⟩ := w
        rw [hd] at h
        simp only at h
        obtain ⟨d1, d2, d3, d4⟩ := buildDestinationTasks_ok cfg.conns r1 destTasks r2 hd
        by_cases hde : destTasks.isEmpty = true
        · simp [hde] at h
        · simp only [hde, Bool.false_eq_true, if_false] at h
          cases hp : buildProcessorTasks r2 cfg.procs with
          | error e => rw [hp] at h; simp at h
          | ok u =>
            obtain ⟨procTasks, r3⟩ := u
            rw [hp] at h
            simp only at h
            obtain ⟨p1, _, p3, p4⟩ := buildProcessorTasks_ok cfg.procs r2 procTasks r3 hp
            subst d1 p1 s1
            rw [buildSharedTail_ok _ _ (destSetsOf_ne cfg.conns)] at h
            simp only at h
            by_cases hk : ((sharedRootsOf (procIds cfg.procs) (destSetsOf cfg.conns)).isEmpty ||
                hasDup (nodesIds (sharedRootsOf (procIds cfg.procs) (destSetsOf cfg.conns)))) = true
            · simp [hk] at h
            · simp only [hk, Bool.false_eq_true, if_false] at h
              obtain ⟨t1, t2⟩ := buildWorkerTrees_srcSets _ (srcConns cfg.conns) trees h
              have hk' := hk
              simp only [Bool.or_eq_true, not_or, Bool.not_eq_true] at hk'
              refine ⟨t1, ?_, ?_, t2, ?_, ?_⟩
              · -- all processor ids reserved during the build are distinct
                unfold allProcIds
                refine nodup_append_of (nodup_append_of s3 d3 (fun x hx hm => d4 x hx ?_)) p3 (fun x hx hm => p4 x hx ?_)
                · rw [s2]; exact List.mem_append_left _ (List.mem_reverse.mpr hm)
                · rw [d2, s2]
                  rcases List.mem_append.mp hm with hm | hm
                  · exact List.mem_append_right _ (List.mem_append_left _ (List.mem_reverse.mpr hm))
                  · exact List.mem_append_left _ (List.mem_reverse.mpr hm)
              · rw [← nodesIds_eq]; exact (hasDup_false _).mp hk'.2
              · intro he; apply hse; simp [srcSetsOf, he]
              · intro he; apply hde; simp [destSetsOf, he]

/-- the build never takes one of the "(bug)" exits: no empty destination branch, no failing `AppendToEnd` -/
theorem buildWorkers_no_bug (cfg : PipeCfg) (e : TreeErr) :
    buildWorkers cfg ≠ .error (.tail e) ∧ buildWorkers cfg ≠ .error (.append e) := by
  have key : ∀ x : BuildErr, (x = .tail e ∨ x = .append e) → buildWorkers cfg ≠ .error x := by
    intro x hx h
    rw [buildWorkers] at h
    cases hs : buildSourceTasks [] cfg.conns with
    | error e' =>
      rw [hs] at h
      simp only at h
      have e1 := Except.error.inj h
      subst e1
      clear h
      -- buildSourceTasks only fails with connector / processor / running
      have : ∀ (cs : List ConnCfg) (r : List Nat) (y : BuildErr), buildSourceTasks r cs = .error y →
          y = .connector ∨ y = .processor ∨ y = .running := by
        intro cs
        induction cs with
        | nil => intro r y h; simp [buildSourceTasks] at h
        | cons c cs ih =>
          intro r y h
          rw [buildSourceTasks] at h
          cases hk : c.kind with
          | missing => rw [hk] at h; simp at h; exact Or.inl h.symm
          | dest => rw [hk] at h; exact ih r y h
          | source =>
            rw [hk] at h
            simp only at h
            cases hp : buildProcessorTasks r c.procs with
            | error e'' =>
              rw [hp] at h
              simp only at h
              have := Except.error.inj h
              subst this
              exact Or.inr (procErr _ _ _ hp)
            | ok v =>
              rw [hp] at h
              simp only at h
              cases hrec : buildSourceTasks v.2 cs with
              | error e'' => rw [hrec] at h; simp only at h; exact ih v.2 y (by rw [hrec, Except.error.inj h])
              | ok w => rw [hrec] at h; simp at h
      rcases this cfg.conns [] e' hs with h | h | h <;> rcases hx with hx | hx <;> rw [h] at hx <;> cases hx
    | ok v =>
      obtain ⟨srcSets, r1⟩ := v
      rw [hs] at h
      simp only at h
      obtain ⟨s1, _⟩ := buildSourceTasks_ok cfg.conns [] srcSets r1 hs
      by_cases hse : srcSets.isEmpty = true
      · simp [hse] at h; subst h; rcases hx with hx | hx <;> cases hx
      · simp only [hse, Bool.false_eq_true, if_false] at h
        cases hd : buildDestinationTasks r1 cfg.conns with
        | error e' =>
          rw [hd] at h
          simp only at h
          have e1 := Except.error.inj h
          subst e1
          have : ∀ (cs : List ConnCfg) (r : List Nat) (y : BuildErr), buildDestinationTasks r cs = .error y →
              y = .connector ∨ y = .processor ∨ y = .running := by
            intro cs
            induction cs with
            | nil => intro r y h; simp [buildDestinationTasks] at h
            | cons c cs ih =>
              intro r y h
              rw [buildDestinationTasks] at h
              cases hk : c.kind with
              | missing => rw [hk] at h; simp at h; exact Or.inl h.symm
              | source => rw [hk] at h; exact ih r y h
              | dest =>
                rw [hk] at h
                simp only at h
                cases hp : buildProcessorTasks r c.procs with
                | error e'' =>
                  rw [hp] at h
                  simp only at h
                  have := Except.error.inj h
                  subst this
                  exact Or.inr (procErr _ _ _ hp)
                | ok v =>
                  rw [hp] at h
                  simp only at h
                  cases hrec : buildDestinationTasks v.2 cs with
                  | error e'' => rw [hrec] at h; simp only at h; exact ih v.2 y (by rw [hrec, Except.error.inj h])
                  | ok w => rw [hrec] at h; simp at h
          rcases this cfg.conns r1 e' hd with h | h | h <;> rcases hx with hx | hx <;> rw [h] at hx <;> cases hx
        | ok w =>
          obtain ⟨destTasks, r2⟩ := w
          rw [hd] at h
          simp only at h
          obtain ⟨d1, _⟩ := buildDestinationTasks_ok cfg.conns r1 destTasks r2 hd
          by_cases hde : destTasks.isEmpty = true
          · simp [hde] at h; subst h; rcases hx with hx | hx <;> cases hx
          · simp only [hde, Bool.false_eq_true, if_false] at h
            cases hp : buildProcessorTasks r2 cfg.procs with
            | error e' =>
              rw [hp] at h
              simp only at h
              have e1 := Except.error.inj h
              subst e1
              rcases procErr _ _ _ hp with h | h <;> rcases hx with hx | hx <;> rw [h] at hx <;> cases hx
            | ok u =>
              obtain ⟨procTasks, r3⟩ := u
              rw [hp] at h
              simp only at h
              obtain ⟨p1, _⟩ := buildProcessorTasks_ok cfg.procs r2 procTasks r3 hp
              subst d1 p1 s1
              rw [buildSharedTail_ok _ _ (destSetsOf_ne cfg.conns)] at h
              simp only at h
              split at h
              · have e1 := Except.error.inj h
                subst e1
                rcases hx with hx | hx <;> cases hx
              · rcases hx with rfl | rfl
                · -- .tail: the per-source loop only produces .append / .worker
                  have : ∀ (roots : List TaskNode) (sets : List (List TaskSpec)) (e' : TreeErr),
                      buildWorkerTrees roots sets ≠ .error (.tail e') := by
                    intro roots sets e'
                    induction sets with
                    | nil => simp [buildWorkerTrees]
                    | cons s sets ih =>
                      rw [buildWorkerTrees]
                      split
                      · simp
                      · split
                        · simp
                        · cases hrec : buildWorkerTrees roots sets with
                          | error e'' => simp only; intro h; exact ih (by rw [hrec, Except.error.inj h])
                          | ok ts => simp
                  exact this _ _ _ h
                · exact buildWorkerTrees_no_append _ _ _ h
  exact ⟨key _ (Or.inl rfl), key _ (Or.inr rfl)⟩
where
  procErr : ∀ (ps : List ProcRef) (r : List Nat) (y : BuildErr), buildProcessorTasks r ps = .error y →
      y = .processor ∨ y = .running := by
    intro ps
    induction ps with
    | nil => intro r y h; simp [buildProcessorTasks] at h
    | cons p ps ih =>
      intro r y h
      obtain ⟨id, found⟩ := p
      rw [buildProcessorTasks] at h
      cases found with
      | false => simp at h; exact Or.inl h.symm
      | true =>
        simp only [Bool.not_true, Bool.false_eq_true, if_false] at h
        cases hc : r.contains id with
        | true => rw [hc] at h; simp at h; exact Or.inr h.symm
        | false =>
          rw [hc] at h
          simp only [Bool.false_eq_true, if_false] at h
          cases hrec : buildProcessorTasks (id :: r) ps with
          | error e'' => rw [hrec] at h; simp only at h; exact ih (id :: r) y (by rw [hrec, Except.error.inj h])
          | ok v => rw [hrec] at h; simp at h

end Conduit.Funnel
