import ConduitModel.Proofs.BatchWF
import ConduitModel.Proofs.DlqWindow

/-!
# The worker as the root acker: `Worker.Ack` / `Worker.Nack` / `DLQ.Nack` / `DLQ.Ack` / `sendToDLQ`

Helper lemmas for `Props/WorkerProps.lean` (C07 / C01 at the root of the ack chain).

* running `M = ExceptT Stop (StateM PS)`: `run_modify`, `run_tryCatch` (plus `Agree.run_*`);
* pure restatements `sendToDLQP`, `dlqNackP`, `workerNackP`, `workerAckP : PS → … → Except Stop α × PS`
  with `sendToDLQ_eq`, `dlqNack_eq`, `workerNack_eq`, `workerAck_eq` (`x.run.run s = xP s …`);
  `destDo` enters through `destDo_eq_model` (`Proofs/BatchAgree.lean`);
* window: `nackN_le`, `nackN_zero`, `ackN_zero`; scripts: `popReplyP_eq`, `popScripts_other`;
* `dlqNackP_spec`, `workerNackRest_spec`, and the master case analysis `workerNackP_spec`:
  final state ∈ {`stNack`, `stWrite`, `stAck n`} with the result classified as
  `Panics` (with a `PanicCause`) / `IsFatal` / `Refused` / `.ok`;
* `workerNackP_panic_cause`, `PanicCause_of_wf`; `original_row`, `infoOf_getElem`.
Core-only.
-/
namespace Conduit.Funnel
open Conduit.Dlq Agree

theorem run_modify (f : PS → PS) (s : PS) : (modify f : M PUnit).run.run s = (.ok ⟨⟩, f s) := rfl

theorem run_tryCatch {α} (x : M α) (h : Stop → M α) (s : PS) :
    (tryCatch x h).run.run s = (match x.run.run s with
      | (.ok a, s') => (.ok a, s')
      | (.error e, s') => (h e).run.run s') := by
  show (ExceptT.tryCatch x h).run.run s = _
  unfold ExceptT.tryCatch
  simp only [ExceptT.run_mk, StateT.run_bind]
  have e : StateT.run x s = x.run.run s := rfl
  rw [e]
  rcases x.run.run s with ⟨r, s'⟩
  cases r <;> rfl

/-- what `sendToDLQ` hands to the DLQ destination: record, its nack error, the failing task -/
def dlqInfo (b : Batch) (taskID : Nat) : List (Rec × Option Err × Nat) :=
  (b.recs.zip b.st).map fun (r, st) => (r, st.err, taskID)

/-- number of leading `.ack` flags -/
def leadAcks (st : List Status) : Nat := (st.takeWhile (·.flag = .ack)).length

/-- the `(successCount, err)` result of `sendToDLQ` computed from the DLQ batch after `Do` -/
def sendResult (db : Batch) (len : Nat) : Nat × Option Err :=
  if leadAcks db.st < len then (leadAcks db.st, some (wrap (((db.st[leadAcks db.st]?).bind (·.err)).getD plainErr)))
  else (leadAcks db.st, none)

def nilErrMsg : String := "nil pointer dereference: status.Error.Error()"

/-- pure `sendToDLQ` -/
def sendToDLQP (s : PS) (b : Batch) (taskID : Nat) : Except Stop (Nat × Option Err) × PS :=
  if (b.st.take b.recs.length).any (·.err.isNone) then (.error (.panic nilErrMsg), s)
  else
    let s0 : PS := { s with log := s.log.push (.dlqw s.dlqTask (dlqInfo b taskID)) }
    let rp := popReplyP s0 s.dlqTask
    match destDoP (Batch.new b.recs) (destReply rp.1).1 (destReply rp.1).2 with
    | .error (.err e) => (.ok (0, some (wrap e)), rp.2)
    | .error (.panic m) => (.error (.panic m), rp.2)
    | .ok db => (.ok (sendResult db b.recs.length), rp.2)

theorem map_eta_rec (l : List Rec) : l.map (fun r => ({ tag := r.tag, pos := r.pos } : Rec)) = l := by
  induction l with
  | nil => rfl
  | cons a t ih => simp only [List.map_cons, ih]

theorem sendToDLQ_eq (b : Batch) (taskID : Nat) (s : PS) :
    (sendToDLQ b taskID).run.run s = sendToDLQP s b taskID := by
  unfold sendToDLQ sendToDLQP
  rw [run_bind, run_get]
  simp only [map_eta_rec]
  by_cases hnil : (b.st.take b.recs.length).any (·.err.isNone) = true
  · simp only [hnil, if_true, run_bind, run_throw]; rfl
  · simp only [hnil, if_false, Bool.false_eq_true, run_bind, run_pure, run_tryCatch, destDo_eq_model]
    simp only [dlqInfo]
    generalize popReplyP _ s.dlqTask = rp
    rcases hd : destDoP (Batch.new b.recs) (destReply rp.1).1 (destReply rp.1).2 with e | db
    · cases e with
      | panic m => simp only [run_throw]
      | err e => simp only [run_pure]
    · simp only [sendResult, leadAcks]
      by_cases h : (List.takeWhile (fun x : Status => decide (x.flag = Flag.ack)) db.st).length < b.recs.length
      · simp only [h, if_true, run_pure]
      · simp only [h, if_false, run_pure]

/-- the tail of `DLQ.Nack` after a (possibly skipped) successful DLQ write -/
def dlqNackTail (thr : Nat) (batch : Batch) (nacked : Nat) (s2 : PS) : Except Stop (Nat × Option Err) × PS :=
  if nacked < batch.recs.length then
    match idx batch.st nacked "recordStatuses[nacked]" with
    | .error e => (.error e, s2)
    | .ok stE =>
      if thr > 0 then (.ok (nacked, some (fatalE (wrap (stE.err.getD plainErr)))), s2)
      else (.ok (nacked, stE.err), s2)
  else (.ok (nacked, none), s2)

/-- pure `DLQ.Nack` -/
def dlqNackP (s : PS) (batch : Batch) (taskID : Nat) : Except Stop (Nat × Option Err) × PS :=
  if batch.recs.length = 0 then (.ok (0, none), s) else
  let nacked := (s.win.nackN batch.recs.length).2
  let s1 : PS := { s with win := (s.win.nackN batch.recs.length).1 }
  if nacked > 0 then
    match (if nacked < batch.recs.length then batch.sub 0 nacked else .ok batch) with
    | .error e => (.error e, s1)
    | .ok b =>
      match sendToDLQP s1 b taskID with
      | (.error e, s2) => (.error e, s2)
      | (.ok (succ, some e), s2) => (.ok (succ, some (fatalE e)), s2)
      | (.ok (_, none), s2) => dlqNackTail s.thr batch nacked s2
  else dlqNackTail s.thr batch nacked s1

theorem dlqNackTail_run (thr : Nat) (batch : Batch) (nacked : Nat) (s2 : PS) (hlt : nacked < batch.recs.length) :
    (do let stE ← liftR (idx batch.st nacked "recordStatuses[nacked]")
        if thr > 0 then pure (nacked, some (fatalE (wrap (stE.err.getD plainErr)))) else pure (nacked, stE.err)
      : M (Nat × Option Err)).run.run s2 = dlqNackTail thr batch nacked s2 := by
  unfold dlqNackTail
  simp only [hlt, if_true, run_bind, run_liftR]
  cases idx batch.st nacked "recordStatuses[nacked]" with
  | error e => rfl
  | ok stE =>
    by_cases ht : thr > 0
    · simp only [ht, if_true, run_pure]
    · simp only [ht, if_false, run_pure]

theorem dlqNack_eq (batch : Batch) (taskID : Nat) (s : PS) :
    (dlqNack batch taskID).run.run s = dlqNackP s batch taskID := by
  unfold dlqNack dlqNackP
  by_cases h0 : batch.recs.length = 0
  · simp only [h0, if_true]; rfl
  · simp only [h0, if_false]
    rw [run_bind, run_get]
    simp only
    rcases hw : s.win.nackN batch.recs.length with ⟨w, nacked⟩
    simp only [run_bind, run_set]
    by_cases hn : nacked > 0
    · simp only [hn, if_true]
      by_cases hlt : nacked < batch.recs.length
      · simp only [hlt, if_true, run_bind, run_liftR]
        cases batch.sub 0 nacked with
        | error e => rfl
        | ok b =>
          simp only [sendToDLQ_eq]
          rcases sendToDLQP _ b taskID with ⟨r, s2⟩
          rcases r with e | ⟨succ, _ | e⟩
          · rfl
          · exact dlqNackTail_run s.thr batch nacked s2 hlt
          · rfl
      · simp only [hlt, if_false, run_bind, run_pure, sendToDLQ_eq]
        rcases sendToDLQP _ batch taskID with ⟨r, s2⟩
        rcases r with e | ⟨succ, _ | e⟩
        · rfl
        · simp only [dlqNackTail, hlt, if_false, run_pure]
        · rfl
    · simp only [hn, if_false]
      by_cases hlt : nacked < batch.recs.length
      · simp only [hlt, if_true]
        exact dlqNackTail_run s.thr batch nacked _ hlt
      · simp only [dlqNackTail, hlt, if_false, run_pure]

def emptyPos : String := "pipeline.empty_source_position"

/-- the end of `Worker.Nack`: the DLQ's error, if any, is returned -/
def nackFin (err : Option Err) (s2 : PS) : Except Stop Unit × PS :=
  match err with
  | some e => (.error (.err (wrap e)), s2)
  | none => (.ok (), s2)

/-- `Worker.Nack` after `DLQ.Nack` returned `(n, err)` in state `s1` -/
def workerNackRest (batch : Batch) (n : Nat) (err : Option Err) (s1 : PS) : Except Stop Unit × PS :=
  if n > 0 then
    if n > batch.original.pos.length then (.error (.panic "slice bounds out of range: positions[:n]"), s1)
    else if !validateAckPositions (batch.original.pos.take n) then
      (match err with
        | some e => (.error (.err (fatalE (joinErr (coded "pipeline.empty_source_position") (wrap e)))), s1)
        | none => (.error (.err (fatalE (coded emptyPos))), s1))
    else
      let s2 : PS := { s1 with log := s1.log.push (.sack (batch.original.pos.take n)) }
      if n > batch.recs.length then (.error (.panic "slice bounds out of range: records[:n]"), s2)
      else nackFin err s2
  else nackFin err s1

/-- pure `Worker.Nack` -/
def workerNackP (s : PS) (batch : Batch) (taskID : Nat) : Except Stop Unit × PS :=
  match dlqNackP s batch.original taskID with
  | (.error e, s1) => (.error e, s1)
  | (.ok (n, err), s1) => workerNackRest batch n err s1

theorem nackFin_run (err : Option Err) (s2 : PS) :
    (match err with | some e => throw (.err (wrap e)) | none => pure () : M Unit).run.run s2 = nackFin err s2 := by
  cases err <;> rfl

theorem workerNack_eq (batch : Batch) (taskID : Nat) (s : PS) :
    (workerNack batch taskID).run.run s = workerNackP s batch taskID := by
  unfold workerNack workerNackP
  simp only [run_bind, dlqNack_eq]
  rcases dlqNackP s batch.original taskID with ⟨r, s1⟩
  rcases r with e | ⟨n, err⟩
  · rfl
  · simp only [workerNackRest]
    by_cases hn : n > 0
    · simp only [hn, if_true]
      by_cases h1 : n > batch.original.pos.length
      · simp only [h1, if_true, run_bind, run_throw]
      · simp only [h1, if_false]
        by_cases h2 : validateAckPositions (batch.original.pos.take n) = true
        · simp only [h2, Bool.not_true, Bool.false_eq_true, if_false, run_bind, run_emit]
          by_cases h3 : n > batch.recs.length
          · simp only [h3, if_true, run_bind, run_throw]
          · simp only [h3, if_false]
            cases err <;> rfl
        · simp only [h2, Bool.not_false, if_true, emptyPos]
          cases err <;> simp only [run_bind, run_throw]
    · simp only [hn, if_false]
      cases err <;> rfl

/-- pure `Worker.Ack` -/
def workerAckP (s : PS) (batch : Batch) : Except Stop Unit × PS :=
  if !validateAckPositions batch.original.pos then (.error (.err (coded emptyPos)), s)
  else
    let s1 : PS := { s with log := s.log.push (.sack batch.original.pos) }
    if batch.recs.length = 0 then (.ok (), s1)
    else (.ok (), { s1 with win := s1.win.ackN batch.recs.length })

theorem dlqAck_run (batch : Batch) (s : PS) :
    (dlqAck batch).run.run s =
      if batch.recs.length = 0 then (.ok (), s) else (.ok (), { s with win := s.win.ackN batch.recs.length }) := by
  unfold dlqAck
  by_cases h : batch.recs.length = 0
  · simp only [h, if_true]; rfl
  · simp only [h, if_false]; rfl

theorem workerAck_eq (batch : Batch) (s : PS) : (workerAck batch).run.run s = workerAckP s batch := by
  unfold workerAck workerAckP
  by_cases h : validateAckPositions batch.original.pos = true
  · simp only [h, Bool.not_true, Bool.false_eq_true, if_false, run_bind, run_emit, dlqAck_run]
  · simp only [h, Bool.not_false, if_true, run_bind, run_throw, emptyPos]
theorem storeLoop_le (x : Bool) : ∀ (k : Nat) (w : Win) (i : Nat), (Win.storeLoop x w k i).2 ≤ i + k := by
  intro k
  induction k with
  | zero => intro w i; simp [Win.storeLoop]
  | succ k ih =>
    intro w i
    rw [Win.storeLoop]
    split
    · simp only; omega
    · have := ih (w.put x) (i+1); omega

theorem nackN_le (w : Win) (c : Nat) : (w.nackN c).2 ≤ c := by
  unfold Win.nackN Win.storeN
  split
  · exact Nat.le_refl _
  · split
    · exact Nat.zero_le _
    · have := storeLoop_le true c w 0; omega

theorem nackN_zero (w : Win) : (w.nackN 0).1 = w := by
  unfold Win.nackN Win.storeN
  split
  · rfl
  · split <;> rfl

theorem ackN_zero (w : Win) : w.ackN 0 = w := by
  unfold Win.ackN Win.storeN
  split
  · rfl
  · split
    · rfl
    · split <;> rfl

def nextReply (scripts : List (Nat × List Reply)) (task : Nat) : Option Reply :=
  match scripts.find? (·.1 == task) with
  | some (_, r :: _) => some r
  | _ => none

def popScripts (scripts : List (Nat × List Reply)) (task : Nat) : List (Nat × List Reply) :=
  match scripts.find? (·.1 == task) with
  | some (_, _ :: rest) => scripts.map fun (t, l) => if t == task then (t, rest) else (t, l)
  | _ => scripts

theorem popReplyP_eq (s : PS) (t : Nat) :
    popReplyP s t = (nextReply s.scripts t, { s with scripts := popScripts s.scripts t }) := by
  unfold popReplyP nextReply popScripts
  generalize s.scripts.find? (·.1 == t) = o
  rcases o with _ | ⟨_, _ | ⟨r, rest⟩⟩ <;> rfl

theorem find?_map_other (sc : List (Nat × List Reply)) (task t : Nat) (rest : List Reply) (h : t ≠ task) :
    (sc.map fun (p : Nat × List Reply) => if p.1 == task then (p.1, rest) else (p.1, p.2)).find? (·.1 == t) = sc.find? (·.1 == t) := by
  induction sc with
  | nil => rfl
  | cons a sc ih =>
    obtain ⟨a1, a2⟩ := a
    simp only [List.map_cons, List.find?_cons]
    by_cases ha : (a1 == task) = true
    · have h1 : (a1 == t) = false := by
        have : a1 = task := by simpa using ha
        subst this
        simp only [beq_eq_false_iff_ne]; exact fun hh => h hh.symm
      simp only [ha, if_true, h1]
      exact ih
    · simp only [ha, if_false, Bool.false_eq_true]
      cases h2 : (a1 == t)
      · simp only; exact ih
      · rfl

theorem popScripts_other (sc : List (Nat × List Reply)) (task t : Nat) (h : t ≠ task) :
    (popScripts sc task).find? (·.1 == t) = sc.find? (·.1 == t) := by
  unfold popScripts
  split
  · exact find?_map_other sc task t _ h
  · rfl
/-- `sub(0, k)`: a slice-bounds panic or the `k`-prefix of the three parallel lists. -/
theorem sub_zero_cases (b : Batch) (k : Nat) :
    (∃ m, b.sub 0 k = .error (.panic m)) ∨
    (∃ b', b.sub 0 k = .ok b' ∧ b'.recs = b.recs.take k ∧ b'.st = b.st.take k ∧ b'.pos = b.pos.take k ∧
      k ≤ b.recs.length ∧ k ≤ b.st.length ∧ k ≤ b.pos.length) := by
  unfold Batch.sub
  by_cases hc : (0 > k ∨ k > b.recs.length ∨ k > b.st.length ∨ k > b.pos.length)
  · left; simp only [hc, if_true]; exact ⟨_, rfl⟩
  · simp only [hc, if_false]
    rcases hr : b.runs with _ | rs
    · right
      exact ⟨_, rfl, rfl, rfl, rfl, by omega⟩
    · by_cases hl : k > rs.length
      · left; simp only [hl, if_true]; exact ⟨_, rfl⟩
      · right
        simp only [hl, if_false]
        exact ⟨_, rfl, rfl, rfl, rfl, by omega⟩
/-! ## results as pure functions of the DLQ destination's outcome -/

def tailRes (thr : Nat) (batch : Batch) (nacked : Nat) : Except Stop (Nat × Option Err) :=
  if nacked < batch.recs.length then
    match idx batch.st nacked "recordStatuses[nacked]" with
    | .error e => .error e
    | .ok stE =>
      if thr > 0 then .ok (nacked, some (fatalE (wrap (stE.err.getD plainErr))))
      else .ok (nacked, stE.err)
  else .ok (nacked, none)

theorem dlqNackTail_eq (thr : Nat) (batch : Batch) (nacked : Nat) (s2 : PS) :
    dlqNackTail thr batch nacked s2 = (tailRes thr batch nacked, s2) := by
  unfold dlqNackTail tailRes
  by_cases h : nacked < batch.recs.length
  · simp only [h, if_true]
    cases idx batch.st nacked "recordStatuses[nacked]" with
    | error e => rfl
    | ok stE => by_cases ht : thr > 0 <;> simp only [ht, if_true, if_false]
  · simp only [h, if_false]

def sendRes (out : R Batch) (len : Nat) : Except Stop (Nat × Option Err) :=
  match out with
  | .error (.err e) => .ok (0, some (wrap e))
  | .error (.panic m) => .error (.panic m)
  | .ok db => .ok (sendResult db len)

def afterSend (thr : Nat) (batch : Batch) (k : Nat) (sr : Except Stop (Nat × Option Err)) :
    Except Stop (Nat × Option Err) :=
  match sr with
  | .error e => .error e
  | .ok (succ, some e) => .ok (succ, some (fatalE e))
  | .ok (_, none) => tailRes thr batch k

def noNilErr (b : Batch) : Prop := (b.st.take b.recs.length).any (·.err.isNone) = false

theorem sendToDLQP_eq (s : PS) (b : Batch) (task : Nat) :
    sendToDLQP s b task =
      if (b.st.take b.recs.length).any (·.err.isNone) then (.error (.panic nilErrMsg), s)
      else (sendRes (destDoP (Batch.new b.recs) (destReply (nextReply s.scripts s.dlqTask)).1
                      (destReply (nextReply s.scripts s.dlqTask)).2) b.recs.length,
            { s with log := s.log.push (.dlqw s.dlqTask (dlqInfo b task)),
                     scripts := popScripts s.scripts s.dlqTask }) := by
  unfold sendToDLQP
  by_cases h : (b.st.take b.recs.length).any (·.err.isNone) = true
  · simp only [h, if_true]
  · simp only [h, if_false, Bool.false_eq_true, popReplyP_eq, sendRes]
    rcases destDoP (Batch.new b.recs) (destReply (nextReply s.scripts s.dlqTask)).1
      (destReply (nextReply s.scripts s.dlqTask)).2 with e | db
    · cases e <;> rfl
    · rfl

def stN (s : PS) (ob : Batch) : PS := { s with win := (s.win.nackN ob.recs.length).1 }

def infoOf (ob : Batch) (k task : Nat) : List (Rec × Option Err × Nat) :=
  ((ob.recs.zip ob.st).take k).map fun (r, st) => (r, st.err, task)

def stWg (s : PS) (ob : Batch) (task : Nat) : PS :=
  { stN s ob with log := s.log.push (.dlqw s.dlqTask (infoOf ob (s.win.nackN ob.recs.length).2 task)),
                  scripts := popScripts s.scripts s.dlqTask }

def replyOf (s : PS) : Option Err × List AckResp := destReply (nextReply s.scripts s.dlqTask)

theorem zip_take_take {α β} (l : List α) (m : List β) (k : Nat) : (l.take k).zip (m.take k) = (l.zip m).take k := by
  induction k generalizing l m with
  | zero => simp
  | succ k ih =>
    cases l with
    | nil => simp
    | cons a l =>
      cases m with
      | nil => simp
      | cons b m => simp [ih]

theorem afterSend_eq (s1 : PS) (thr : Nat) (ob b : Batch) (k task : Nat) :
    (match sendToDLQP s1 b task with
      | (.error e, s2) => (Except.error e, s2)
      | (.ok (succ, some e), s2) => (.ok (succ, some (fatalE e)), s2)
      | (.ok (_, none), s2) => dlqNackTail thr ob k s2) =
    if (b.st.take b.recs.length).any (·.err.isNone) then (.error (.panic nilErrMsg), s1)
    else (afterSend thr ob k (sendRes (destDoP (Batch.new b.recs) (replyOf s1).1 (replyOf s1).2) b.recs.length),
          { s1 with log := s1.log.push (.dlqw s1.dlqTask (dlqInfo b task)),
                    scripts := popScripts s1.scripts s1.dlqTask }) := by
  rw [sendToDLQP_eq]
  by_cases h : (b.st.take b.recs.length).any (·.err.isNone) = true
  · simp only [h, if_true]
  · simp only [h, if_false, Bool.false_eq_true, replyOf]
    rcases sendRes _ b.recs.length with e | ⟨succ, _ | e⟩
    · rfl
    · simp only [afterSend, dlqNackTail_eq]
    · rfl

theorem dlqNackP_spec (s : PS) (ob : Batch) (task : Nat) :
    (ob.recs.length = 0 ∧ dlqNackP s ob task = (.ok (0, none), s)) ∨
    (0 < ob.recs.length ∧ (s.win.nackN ob.recs.length).2 = 0 ∧ dlqNackP s ob task = (tailRes s.thr ob 0, stN s ob)) ∨
    (0 < (s.win.nackN ob.recs.length).2 ∧
      (((s.win.nackN ob.recs.length).2 < ob.recs.length ∧ ∃ m', ob.sub 0 (s.win.nackN ob.recs.length).2 = .error (.panic m')) ∨
        (ob.st.take (s.win.nackN ob.recs.length).2).any (·.err.isNone) = true) ∧
      ∃ m, dlqNackP s ob task = (.error (.panic m), stN s ob)) ∨
    (0 < (s.win.nackN ob.recs.length).2 ∧ (s.win.nackN ob.recs.length).2 ≤ ob.recs.length ∧
      dlqNackP s ob task =
        (afterSend s.thr ob (s.win.nackN ob.recs.length).2
          (sendRes (destDoP (Batch.new (ob.recs.take (s.win.nackN ob.recs.length).2)) (replyOf s).1 (replyOf s).2)
            (s.win.nackN ob.recs.length).2), stWg s ob task)) := by
  have hle := nackN_le s.win ob.recs.length
  unfold stWg stN
  generalize hk : (s.win.nackN ob.recs.length).2 = k at hle ⊢
  unfold dlqNackP
  by_cases h0 : ob.recs.length = 0
  · left; refine ⟨h0, ?_⟩; simp only [h0, if_true]
  · right
    simp only [h0, if_false, hk]
    by_cases hk0 : k > 0
    · right
      simp only [hk0, if_true]
      -- the batch handed to sendToDLQ
      have key : ∀ b : Batch, b.recs = ob.recs.take k → dlqInfo b task = infoOf ob k task →
          b.st.take k = ob.st.take k →
          (((ob.st.take k).any (·.err.isNone) = true ∧ ∃ m, (match sendToDLQP { s with win := (s.win.nackN ob.recs.length).1 } b task with
            | (.error e, s2) => (Except.error e, s2)
            | (.ok (succ, some e), s2) => (.ok (succ, some (fatalE e)), s2)
            | (.ok (_, none), s2) => dlqNackTail s.thr ob k s2) =
              (.error (.panic m), { s with win := (s.win.nackN ob.recs.length).1 })) ∨
           (match sendToDLQP { s with win := (s.win.nackN ob.recs.length).1 } b task with
            | (.error e, s2) => (Except.error e, s2)
            | (.ok (succ, some e), s2) => (.ok (succ, some (fatalE e)), s2)
            | (.ok (_, none), s2) => dlqNackTail s.thr ob k s2) =
            (afterSend s.thr ob k (sendRes (destDoP (Batch.new (ob.recs.take k)) (replyOf s).1 (replyOf s).2) k),
              { s with win := (s.win.nackN ob.recs.length).1,
                       log := s.log.push (.dlqw s.dlqTask (infoOf ob k task)),
                       scripts := popScripts s.scripts s.dlqTask })) := by
        intro b hr hinfo hst
        rw [afterSend_eq]
        have hlen : b.recs.length = k := by rw [hr, List.length_take]; omega
        by_cases hnil : (b.st.take b.recs.length).any (·.err.isNone) = true
        · left; simp only [hnil, if_true]
          rw [hlen, hst] at hnil
          exact ⟨hnil, _, rfl⟩
        · right
          simp only [hnil, if_false, Bool.false_eq_true]
          rw [hlen, hinfo, hr]
          rfl
      by_cases hlt : k < ob.recs.length
      · simp only [hlt, if_true]
        rcases sub_zero_cases ob k with ⟨m, hm⟩ | ⟨b, hb, hr, hs, _⟩
        · left; refine ⟨trivial, Or.inl ⟨trivial, m, hm⟩, m, ?_⟩; rw [hm]
        · rw [hb]
          rcases key b hr (by unfold dlqInfo infoOf; rw [hr, hs, zip_take_take])
              (by rw [hs, List.take_take, Nat.min_self]) with ⟨hnil, m, hm⟩ | hm
          · left; exact ⟨trivial, Or.inr hnil, m, hm⟩
          · right; exact ⟨trivial, hle, hm⟩
      · simp only [hlt, if_false]
        have hkl : k = ob.recs.length := by omega
        rcases key ob (by rw [hkl, List.take_length]) (by
            unfold dlqInfo infoOf
            rw [List.take_of_length_le (by rw [List.length_zip]; omega)]) rfl with ⟨hnil, m, hm⟩ | hm
        · left; exact ⟨trivial, Or.inr hnil, m, hm⟩
        · right; exact ⟨trivial, hle, hm⟩
    · left
      have : k = 0 := by omega
      subst this
      refine ⟨by omega, rfl, ?_⟩
      simp only [hk0, if_false, dlqNackTail_eq]
def IsPanic (r : Except Stop Unit) : Prop := ∃ m, r = .error (.panic m)
def IsFatal (r : Except Stop Unit) : Prop := ∃ e, r = .error (.err e) ∧ e.fatal = true
/-- the result that hands an optional error back unchanged -/
def rawRes (err : Option Err) : Except Stop Unit :=
  match err with | some e => .error (.err e) | none => .ok ()

theorem nackFin_eq (err : Option Err) (s : PS) : nackFin err s = (rawRes err, s) := by
  cases err <;> rfl

theorem rawRes_fatal (e : Err) : IsFatal (rawRes (some (fatalE e))) := ⟨_, rfl, rfl⟩

/-- `Worker.Nack` after `DLQ.Nack`: no ack at all (`n = 0`, or a panic / fatal error before
the ack), or exactly one `.sack` of the first `n` original positions. -/
theorem workerNackRest_spec (batch : Batch) (n : Nat) (err : Option Err) (s1 : PS) :
    (n = 0 ∧ workerNackRest batch n err s1 = (rawRes err, s1)) ∨
    (0 < n ∧ ∃ r, workerNackRest batch n err s1 = (r, s1) ∧
      ((IsPanic r ∧ n > batch.original.pos.length) ∨ IsFatal r)) ∨
    (0 < n ∧ n ≤ batch.original.pos.length ∧ validateAckPositions (batch.original.pos.take n) = true ∧
      ∃ r, workerNackRest batch n err s1 = (r, { s1 with log := s1.log.push (.sack (batch.original.pos.take n)) }) ∧
        ((IsPanic r ∧ n > batch.recs.length) ∨ r = rawRes err)) := by
  unfold workerNackRest
  by_cases hn : n > 0
  · right
    simp only [hn, if_true]
    by_cases h1 : n > batch.original.pos.length
    · left; simp only [h1, if_true]; exact ⟨trivial, _, rfl, Or.inl ⟨⟨_, rfl⟩, trivial⟩⟩
    · simp only [h1, if_false]
      by_cases h2 : validateAckPositions (batch.original.pos.take n) = true
      · right
        simp only [h2, Bool.not_true, Bool.false_eq_true, if_false]
        refine ⟨trivial, by omega, trivial, ?_⟩
        by_cases h3 : n > batch.recs.length
        · simp only [h3, if_true]; exact ⟨_, rfl, Or.inl ⟨⟨_, rfl⟩, trivial⟩⟩
        · simp only [h3, if_false, nackFin_eq]; exact ⟨_, rfl, Or.inr rfl⟩
      · left
        simp only [h2, Bool.not_false, if_true]
        refine ⟨trivial, ?_⟩
        cases err with
        | some e => exact ⟨_, rfl, Or.inr ⟨_, rfl, rfl⟩⟩
        | none => exact ⟨_, rfl, Or.inr ⟨_, rfl, rfl⟩⟩
  · left
    have : n = 0 := by omega
    subst this
    simp only [hn, if_false, nackFin_eq]
    exact ⟨trivial, trivial⟩

theorem workerNackP_of_error {s : PS} {batch : Batch} {task : Nat} {e : Stop} {s1 : PS}
    (h : dlqNackP s batch.original task = (.error e, s1)) : workerNackP s batch task = (.error e, s1) := by
  unfold workerNackP; rw [h]

theorem workerNackP_of_ok {s : PS} {batch : Batch} {task : Nat} {n : Nat} {err : Option Err} {s1 : PS}
    (h : dlqNackP s batch.original task = (.ok (n, err), s1)) :
    workerNackP s batch task = workerNackRest batch n err s1 := by
  unfold workerNackP; rw [h]

theorem idx_cases {α} (l : List α) (i : Nat) (w : String) :
    (l[i]? = none ∧ ∃ m, idx l i w = .error (.panic m)) ∨ ∃ x, l[i]? = some x ∧ idx l i w = .ok x := by
  unfold idx
  cases l[i]? with
  | none => left; exact ⟨rfl, _, rfl⟩
  | some x => right; exact ⟨x, rfl, rfl⟩

theorem tailRes_lt (thr : Nat) (ob : Batch) (k : Nat) (hlt : k < ob.recs.length) :
    (ob.st[k]? = none ∧ ∃ m, tailRes thr ob k = .error (.panic m)) ∨
    ∃ st, ob.st[k]? = some st ∧
      tailRes thr ob k = if thr > 0 then .ok (k, some (fatalE (wrap (st.err.getD plainErr)))) else .ok (k, st.err) := by
  unfold tailRes
  simp only [hlt, if_true]
  rcases idx_cases ob.st k "recordStatuses[nacked]" with ⟨hnone, m, hm⟩ | ⟨st, hst, hm⟩
  · left; rw [hm]; exact ⟨hnone, m, rfl⟩
  · right; rw [hm]; exact ⟨st, hst, rfl⟩

theorem tailRes_ge (thr : Nat) (ob : Batch) (k : Nat) (hge : ¬ k < ob.recs.length) :
    tailRes thr ob k = .ok (k, none) := by
  unfold tailRes; simp only [hge, if_false]

/-! ## vocabulary of the worker-level statements -/

/-- the number of nacks of `batch` the DLQ window accepts in state `s` -/
def accepted (s : PS) (batch : Batch) : Nat := (s.win.nackN batch.original.recs.length).2

/-- what `Worker.Nack` hands to the DLQ destination -/
def dlqWritten (s : PS) (batch : Batch) (task : Nat) : List (Rec × Option Err × Nat) :=
  infoOf batch.original (accepted s batch) task

/-- the DLQ batch after `DestinationTask.Do` consumed the DLQ destination's next reply -/
def dlqBatchAfter (s : PS) (batch : Batch) : R Batch :=
  destDoP (Batch.new (batch.original.recs.take (accepted s batch))) (replyOf s).1 (replyOf s).2

/-- number of leading records of the DLQ write that the DLQ destination positively confirmed
(`0` when the write / the ack loop failed) -/
def dlqConfirmed (s : PS) (batch : Batch) : Nat :=
  match dlqBatchAfter s batch with
  | .ok db => leadAcks db.st
  | .error _ => 0

def stNack (s : PS) (batch : Batch) : PS := stN s batch.original
def stWrite (s : PS) (batch : Batch) (task : Nat) : PS := stWg s batch.original task
def stAck (s : PS) (batch : Batch) (task n : Nat) : PS :=
  { stWrite s batch task with
    log := (stWrite s batch task).log.push (.sack (batch.original.pos.take n)) }

/-- the window refused record `accepted s batch` with threshold 0: its own error is returned as is -/
def Refused (s : PS) (batch : Batch) (r : Except Stop Unit) : Prop :=
  s.thr = 0 ∧ ∃ st, batch.original.st[accepted s batch]? = some st ∧ r = rawRes st.err

theorem stN_len_zero (s : PS) (ob : Batch) (h : ob.recs.length = 0) : stN s ob = s := by
  unfold stN; rw [h, nackN_zero]

theorem workerNackRest_zero (batch : Batch) (err : Option Err) (s1 : PS) :
    workerNackRest batch 0 err s1 = (rawRes err, s1) := by
  unfold workerNackRest
  simp only [Nat.lt_irrefl, gt_iff_lt, if_false, nackFin_eq]

theorem destDoP_new_no_panic (recs : List Rec) (werr : Option Err) (resps : List AckResp) (m : String) :
    destDoP (Batch.new recs) werr resps ≠ .error (.panic m) := by
  rcases destDoP_total (new_WF #[] recs) werr resps with ⟨b', all, g, _⟩ | ⟨e, g⟩ <;> rw [g] <;> intro hc <;> cases hc

/-- why `Worker.Nack` can panic at all: a slice-bounds panic of `sub(0, accepted)`, a nil
`status.Error` among the records sent to the DLQ, a missing status of the refused record, or
fewer positions / records than nacks to acknowledge — none possible for a well-formed batch whose
nacked records carry an error (`PanicCause_of_wf`). -/
def PanicCause (s : PS) (batch : Batch) : Prop :=
  (accepted s batch < batch.original.recs.length ∧
      ∃ m, batch.original.sub 0 (accepted s batch) = .error (.panic m)) ∨
  (batch.original.st.take (accepted s batch)).any (·.err.isNone) = true ∨
  (accepted s batch < batch.original.recs.length ∧ batch.original.st[accepted s batch]? = none) ∨
  accepted s batch > batch.original.pos.length ∨
  accepted s batch > batch.recs.length

def Panics (s : PS) (batch : Batch) (r : Except Stop Unit) : Prop := IsPanic r ∧ PanicCause s batch

theorem workerNackP_spec (s : PS) (batch : Batch) (task : Nat) :
    (∃ r, workerNackP s batch task = (r, stNack s batch) ∧
      ((batch.original.recs.length = 0 ∧ r = .ok ()) ∨
       (0 < batch.original.recs.length ∧ accepted s batch = 0 ∧ (Panics s batch r ∨ IsFatal r ∨ Refused s batch r)) ∨
       (0 < accepted s batch ∧ Panics s batch r))) ∨
    (∃ r, workerNackP s batch task = (r, stWrite s batch task) ∧ 0 < accepted s batch ∧
      (IsFatal r ∨ (Panics s batch r ∧ 0 < dlqConfirmed s batch))) ∨
    (∃ n r, workerNackP s batch task = (r, stAck s batch task n) ∧ 1 ≤ n ∧ n ≤ accepted s batch ∧
      n ≤ dlqConfirmed s batch ∧ n ≤ batch.original.pos.length ∧
      validateAckPositions (batch.original.pos.take n) = true ∧
      (Panics s batch r ∨ IsFatal r ∨ (n = accepted s batch ∧ accepted s batch < batch.original.recs.length ∧ Refused s batch r) ∨
        (n = accepted s batch ∧ accepted s batch = batch.original.recs.length ∧ r = .ok ()))) := by
  unfold Panics PanicCause Refused dlqConfirmed dlqBatchAfter stAck stWrite stNack accepted
  rcases dlqNackP_spec s batch.original task with ⟨h0, he⟩ | ⟨hl, hk, he⟩ | ⟨hk, hcause, m, he⟩ | ⟨hk, hle, he⟩
  · left
    rw [workerNackP_of_ok he, stN_len_zero s _ h0, workerNackRest_zero]
    exact ⟨_, rfl, Or.inl ⟨h0, rfl⟩⟩
  · left
    rcases tailRes_lt s.thr batch.original 0 hl with ⟨hnone, m, hm⟩ | ⟨st, hst, hm⟩
    · rw [hm] at he; rw [workerNackP_of_error he]
      exact ⟨_, rfl, Or.inr (Or.inl ⟨hl, hk, Or.inl ⟨⟨m, rfl⟩,
        Or.inr (Or.inr (Or.inl (by rw [hk]; exact ⟨hl, hnone⟩)))⟩⟩)⟩
    · by_cases ht : s.thr > 0
      · simp only [ht, if_true] at hm
        rw [hm] at he; rw [workerNackP_of_ok he, workerNackRest_zero]
        exact ⟨_, rfl, Or.inr (Or.inl ⟨hl, hk, Or.inr (Or.inl (rawRes_fatal _))⟩)⟩
      · simp only [ht, if_false] at hm
        rw [hm] at he; rw [workerNackP_of_ok he, workerNackRest_zero]
        exact ⟨_, rfl, Or.inr (Or.inl ⟨hl, hk, Or.inr (Or.inr ⟨by omega, st, by rw [hk]; exact hst, rfl⟩)⟩)⟩
  · left
    rw [workerNackP_of_error he]
    refine ⟨_, rfl, Or.inr (Or.inr ⟨hk, ⟨m, rfl⟩, ?_⟩)⟩
    rcases hcause with hc | hc
    · exact Or.inl hc
    · exact Or.inr (Or.inl hc)
  · right
    generalize hkdef : (s.win.nackN batch.original.recs.length).2 = k at *
    -- after a DLQ write: `Worker.Nack`'s last part on `(n, err)`
    have fin : ∀ (n : Nat) (err : Option Err), 0 < n → n ≤ k →
        dlqNackP s batch.original task = (.ok (n, err), stWg s batch.original task) →
        (∃ r, workerNackP s batch task = (r, stWg s batch.original task) ∧
          ((IsPanic r ∧ k > batch.original.pos.length) ∨ IsFatal r)) ∨
        (n ≤ batch.original.pos.length ∧ validateAckPositions (batch.original.pos.take n) = true ∧
          ∃ r, workerNackP s batch task =
            (r, { stWg s batch.original task with
                  log := (stWg s batch.original task).log.push (.sack (batch.original.pos.take n)) }) ∧
            ((IsPanic r ∧ k > batch.recs.length) ∨ r = rawRes err)) := by
      intro n err hn hnk hd
      rw [workerNackP_of_ok hd]
      rcases workerNackRest_spec batch n err (stWg s batch.original task) with ⟨h0, _⟩ | ⟨_, r, hr, hp⟩ | ⟨_, h1, h2, r, hr, hp⟩
      · omega
      · left
        refine ⟨r, hr, ?_⟩
        rcases hp with ⟨hp, hgt⟩ | hp
        · exact Or.inl ⟨hp, by omega⟩
        · exact Or.inr hp
      · right
        refine ⟨h1, h2, r, hr, ?_⟩
        rcases hp with ⟨hp, hgt⟩ | hp
        · exact Or.inl ⟨hp, by omega⟩
        · exact Or.inr hp
    -- the two panic causes of `fin`, as `PanicCause`
    have cpos : ∀ {P Q R : Prop}, k > batch.original.pos.length →
        P ∨ Q ∨ R ∨ k > batch.original.pos.length ∨ k > batch.recs.length :=
      fun h => Or.inr (Or.inr (Or.inr (Or.inl h)))
    have crec : ∀ {P Q R : Prop}, k > batch.recs.length →
        P ∨ Q ∨ R ∨ k > batch.original.pos.length ∨ k > batch.recs.length :=
      fun h => Or.inr (Or.inr (Or.inr (Or.inr h)))
    rcases hout : destDoP (Batch.new (batch.original.recs.take k)) (replyOf s).1 (replyOf s).2 with e | db
    · rw [hout] at he
      cases e with
      | panic m => exact absurd hout (destDoP_new_no_panic _ _ _ m)
      | err e =>
        left
        rw [workerNackP_of_ok (n := 0) (err := some (fatalE (wrap e))) he, workerNackRest_zero]
        exact ⟨_, rfl, hk, Or.inl (rawRes_fatal _)⟩
    · rw [hout] at he
      simp only [sendRes, sendResult] at he
      by_cases ha : leadAcks db.st < k
      · simp only [ha, if_true, afterSend] at he
        by_cases ha0 : leadAcks db.st = 0
        · left
          rw [ha0] at he
          rw [workerNackP_of_ok he, workerNackRest_zero]
          exact ⟨_, rfl, hk, Or.inl (rawRes_fatal _)⟩
        · rcases fin _ _ (by omega) (by omega) he with ⟨r, hr, hp⟩ | ⟨h1, h2, r, hr, hp⟩
          · left
            refine ⟨r, hr, hk, ?_⟩
            rcases hp with ⟨hp, hgt⟩ | hp
            · exact Or.inr ⟨⟨hp, cpos hgt⟩, (show 0 < leadAcks db.st by omega)⟩
            · exact Or.inl hp
          · right
            refine ⟨leadAcks db.st, r, hr, by omega, by omega, Nat.le_refl _, h1, h2, ?_⟩
            rcases hp with ⟨hp, hgt⟩ | hp
            · exact Or.inl ⟨hp, crec hgt⟩
            · right; left; rw [hp]; exact rawRes_fatal _
      · simp only [ha, if_false, afterSend] at he
        by_cases hlt : k < batch.original.recs.length
        · rcases tailRes_lt s.thr batch.original k hlt with ⟨hnone, m, hm⟩ | ⟨st, hst, hm⟩
          · left
            rw [hm] at he; rw [workerNackP_of_error he]
            exact ⟨_, rfl, hk, Or.inr ⟨⟨⟨m, rfl⟩, Or.inr (Or.inr (Or.inl ⟨hlt, hnone⟩))⟩,
              (show 0 < leadAcks db.st by omega)⟩⟩
          · by_cases ht : s.thr > 0
            · simp only [ht, if_true] at hm
              rw [hm] at he
              rcases fin _ _ hk (Nat.le_refl _) he with ⟨r, hr, hp⟩ | ⟨h1, h2, r, hr, hp⟩
              · left
                refine ⟨r, hr, hk, ?_⟩
                rcases hp with ⟨hp, hgt⟩ | hp
                · exact Or.inr ⟨⟨hp, cpos hgt⟩, (show 0 < leadAcks db.st by omega)⟩
                · exact Or.inl hp
              · right
                refine ⟨k, r, hr, hk, Nat.le_refl _, (show k ≤ leadAcks db.st by omega), h1, h2, ?_⟩
                rcases hp with ⟨hp, hgt⟩ | hp
                · exact Or.inl ⟨hp, crec hgt⟩
                · right; left; rw [hp]; exact rawRes_fatal _
            · simp only [ht, if_false] at hm
              rw [hm] at he
              rcases fin _ _ hk (Nat.le_refl _) he with ⟨r, hr, hp⟩ | ⟨h1, h2, r, hr, hp⟩
              · left
                refine ⟨r, hr, hk, ?_⟩
                rcases hp with ⟨hp, hgt⟩ | hp
                · exact Or.inr ⟨⟨hp, cpos hgt⟩, (show 0 < leadAcks db.st by omega)⟩
                · exact Or.inl hp
              · right
                refine ⟨k, r, hr, hk, Nat.le_refl _, (show k ≤ leadAcks db.st by omega), h1, h2, ?_⟩
                rcases hp with ⟨hp, hgt⟩ | hp
                · exact Or.inl ⟨hp, crec hgt⟩
                · right; right; left
                  exact ⟨rfl, hlt, by omega, st, hst, hp⟩
        · rw [tailRes_ge _ _ _ hlt] at he
          rcases fin _ _ hk (Nat.le_refl _) he with ⟨r, hr, hp⟩ | ⟨h1, h2, r, hr, hp⟩
          · left
            refine ⟨r, hr, hk, ?_⟩
            rcases hp with ⟨hp, hgt⟩ | hp
            · exact Or.inr ⟨⟨hp, cpos hgt⟩, (show 0 < leadAcks db.st by omega)⟩
            · exact Or.inl hp
          · right
            refine ⟨k, r, hr, hk, Nat.le_refl _, (show k ≤ leadAcks db.st by omega), h1, h2, ?_⟩
            rcases hp with ⟨hp, hgt⟩ | hp
            · exact Or.inl ⟨hp, crec hgt⟩
            · right; right; right
              exact ⟨rfl, by omega, hp⟩

/-- `originalBatch()` of a batch holding split records: row `i` of the result is a row of the
batch with a non-nil position; its record is the ORIGINAL stored in `splitRecords` under that
position when there is one (else the row's own record), its status is the row's status. -/
theorem original_row (batch : Batch) (hs : batch.split.length ≠ 0) (i : Nat) (r : Rec)
    (h : batch.original.recs[i]? = some r) :
    ∃ (p : PosV) (r0 : Rec) (st : Status), (p, r0, st) ∈ batch.pos.zip (batch.recs.zip batch.st) ∧ p ≠ none ∧
      batch.original.pos[i]? = some p ∧ batch.original.st[i]? = some st ∧
      r = (lookup batch.split (keyOf p)).getD r0 := by
  unfold Batch.original at h ⊢
  simp only [hs, if_false] at h ⊢
  simp only [List.getElem?_map] at h ⊢
  cases hrow : ((batch.pos.zip (batch.recs.zip batch.st)).filter fun x => x.1 != none)[i]? with
  | none => rw [hrow] at h; cases h
  | some row =>
    obtain ⟨p, r0, st⟩ := row
    rw [hrow] at h
    have hm := List.mem_of_getElem? hrow
    rw [List.mem_filter] at hm
    refine ⟨p, r0, st, hm.1, ?_, rfl, rfl, ?_⟩
    · have := hm.2; simpa using this
    · simpa using h.symm

theorem infoOf_getElem (ob : Batch) (k task i : Nat) (e : Rec × Option Err × Nat)
    (h : (infoOf ob k task)[i]? = some e) :
    i < k ∧ e.2.2 = task ∧ ob.recs[i]? = some e.1 ∧ ∃ st, ob.st[i]? = some st ∧ st.err = e.2.1 := by
  unfold infoOf at h
  rw [List.getElem?_map, List.getElem?_take] at h
  by_cases hi : i < k
  · simp only [hi, if_true, List.getElem?_zip_eq_some, Option.map_eq_some_iff] at h
    obtain ⟨⟨r, st⟩, ⟨h1, h2⟩, rfl⟩ := h
    exact ⟨hi, rfl, h1, st, h2, rfl⟩
  · simp only [hi, if_false] at h; cases h

theorem log_ne_push2 {α} (a : Array α) (x y : α) : a ≠ (a.push x).push y := by
  intro h; have := congrArg Array.size h; simp at this; omega
theorem push_ne_push2 {α} (a : Array α) (x x' y : α) : a.push x ≠ (a.push x').push y := by
  intro h; have := congrArg Array.size h; simp at this
theorem log_ne_push {α} (a : Array α) (x : α) : a ≠ a.push x := by
  intro h; have := congrArg Array.size h; simp at this
theorem push2_inj {α} {a : Array α} {x x' y y' : α} (h : (a.push x).push y = (a.push x').push y') : x = x' ∧ y = y' := by
  rw [Array.push_eq_push, Array.push_eq_push] at h
  exact ⟨h.2.1, h.1⟩

theorem not_mem_take_of_nodup {α} {l : List α} (hnd : l.Nodup) {k n : Nat} {p : α} (hk : l[k]? = some p) (hn : n ≤ k) :
    p ∉ l.take n := by
  intro hm
  obtain ⟨i, hi⟩ := List.mem_iff_getElem?.1 hm
  rw [List.getElem?_take] at hi
  by_cases hin : i < n
  · simp only [hin, if_true] at hi
    have hlt : i < l.length := (List.getElem?_eq_some_iff.mp hi).1
    have := (List.getElem?_inj hlt hnd).mp (hi.trans hk.symm)
    omega
  · simp only [hin, if_false] at hi; cases hi

/-- every index below `leadAcks` carries the flag `.ack` -/
theorem leadAcks_spec (st : List Status) (i : Nat) (hi : i < leadAcks st) :
    ∃ x, st[i]? = some x ∧ x.flag = .ack := by
  unfold leadAcks at hi
  induction st generalizing i with
  | nil => simp at hi
  | cons a st ih =>
    rw [List.takeWhile_cons] at hi
    by_cases ha : a.flag = .ack
    · simp only [ha, decide_true, if_true, List.length_cons] at hi
      cases i with
      | zero => exact ⟨a, rfl, ha⟩
      | succ i => simpa using ih i (by omega)
    · simp [ha] at hi

theorem accepted_le (s : PS) (batch : Batch) : accepted s batch ≤ batch.original.recs.length :=
  nackN_le _ _

theorem original_recs_le (b : Batch) : b.original.recs.length ≤ b.recs.length := by
  unfold Batch.original
  by_cases hs : b.split.length = 0
  · simp only [hs, if_true]; exact Nat.le_refl _
  · simp only [hs, if_false, List.length_map]
    refine Nat.le_trans (List.length_filter_le _ _) ?_
    rw [List.length_zip, List.length_zip]
    omega

/-- a panic of `Worker.Nack` always has one of the causes of `PanicCause` -/
theorem workerNackP_panic_cause (s : PS) (batch : Batch) (task : Nat) (m : String)
    (h : (workerNackP s batch task).1 = .error (.panic m)) : PanicCause s batch := by
  have nf : ∀ r : Except Stop Unit, r = .error (.panic m) → IsFatal r → False := by
    rintro r hr ⟨e, he, _⟩; rw [he] at hr; cases hr
  have nr : ∀ r : Except Stop Unit, r = .error (.panic m) → Refused s batch r → False := by
    rintro r hr ⟨_, st, _, he⟩
    rw [he] at hr
    cases hst : st.err <;> rw [hst] at hr <;> cases hr
  rcases workerNackP_spec s batch task with ⟨r, hw, hr⟩ | ⟨r, hw, _, hr⟩ | ⟨n, r, hw, _, _, _, _, _, hr⟩ <;>
    rw [hw] at h <;> simp only at h
  · rcases hr with ⟨_, hr⟩ | ⟨_, _, hr | hr | hr⟩ | ⟨_, hr⟩
    · rw [hr] at h; cases h
    · exact hr.2
    · exact (nf r h hr).elim
    · exact (nr r h hr).elim
    · exact hr.2
  · rcases hr with hr | ⟨hr, _⟩
    · exact (nf r h hr).elim
    · exact hr.2
  · rcases hr with hr | hr | ⟨_, _, hr⟩ | ⟨_, _, hr⟩
    · exact hr.2
    · exact (nf r h hr).elim
    · exact (nr r h hr).elim
    · rw [hr] at h; cases h

/-- no cause of a panic exists for a well-formed batch whose records to dead-letter carry an error -/
theorem PanicCause_of_wf {hp : Heap} {s : PS} {batch : Batch} (hwf : batch.WF hp)
    (herr : ∀ st ∈ batch.original.st.take (accepted s batch), st.err ≠ none) : ¬ PanicCause s batch := by
  have hob := original_WF hwf
  have hle := accepted_le s batch
  have h1 := hob.1.st_len
  have h2 := hob.1.pos_len
  have h3 := original_recs_le batch
  rintro (⟨_, m, hm⟩ | hnil | ⟨hlt, hnone⟩ | hgt | hgt)
  · obtain ⟨b', hb, _⟩ := sub_ok hob (Nat.zero_le _) hle
    rw [hb] at hm; cases hm
  · rw [List.any_eq_true] at hnil
    obtain ⟨st, hst, hn⟩ := hnil
    have := herr st hst
    cases he : st.err with
    | none => exact this he
    | some e => rw [he] at hn; cases hn
  · rw [List.getElem?_eq_none_iff] at hnone; omega
  · omega
  · omega

end Conduit.Funnel
