import ConduitModel.Proofs.WorkerAcker
import ConduitModel.Spec.FunnelMon

/-!
# The DLQ batch after `DestinationTask.Do` vs. the trace monitor's `confirmed`

For the fresh batch `sendToDLQ` builds (`NewBatch`): when `destDoP` returns `.ok db`, the flag of
record `j` in `db` is `.ack` iff `Mon.confirmedLoop` (Spec/FunnelMon.lean) says record `j` was
covered by a validated ack without error (`destDoP_new_confirmed`); `replyOf` is
`Mon.replyOfCall … 0` (`replyOf_none`). Core-only.
-/
namespace Conduit.Funnel
open Conduit.Dlq Agree

/-! ## the leading `.ack` flags of the DLQ batch = the monitor's `confirmed` semantics -/

def isAck (st : Status) : Bool := decide (st.flag = .ack)

/-- a batch as `sendToDLQ` builds it (`NewBatch`): nothing filtered, no split records -/
structure Simple (N : Nat) (b : Batch) : Prop where
  wf : b.WF #[]
  split : b.split = []
  fc : b.filterCount = 0
  len : b.st.length = N

theorem Simple.act {N : Nat} {b : Batch} (h : Simple N b) : actList b.st = List.range N := by
  have : countFilter b.st = 0 := by rw [← h.wf.2, h.fc]
  rw [actList_of_countFilter_zero this, h.len]

theorem Simple.nAct {N : Nat} {b : Batch} (h : Simple N b) : b.nAct = N := by
  unfold Batch.nAct; rw [h.act]; simp

theorem mark_simple {N : Nat} {b : Batch} (hs : Simple N b) (c : Nat) (acks : List (PosV × Option Err))
    (hc : c + acks.length ≤ N)
    (hack : ∀ (i : Nat) (st : Status), c ≤ i → b.st[i]? = some st → st.flag = .ack) :
    ∃ b1 : Batch, destMark b c acks = .ok b1 ∧ Simple N b1 ∧
      (∀ q : Nat, q < c ∨ c + acks.length ≤ q → b1.st[q]? = b.st[q]?) ∧
      (∀ i : Nat, i < acks.length → (b1.st[c + i]?).map isAck = (acks[i]?).map (·.2.isNone)) := by
  obtain ⟨b1, e1, p1⟩ := destMark_ok hs.wf c acks (by rw [hs.nAct]; exact hc)
  have hm := p1.marked hs.split
  rw [hs.act] at hm
  have hs1 : Simple N b1 := by
    refine ⟨p1.wf, p1.split.trans hs.split, p1.fc.trans hs.fc, ?_⟩
    have h0 : countFilter b1.st = 0 := by rw [← p1.wf.2, p1.fc, hs.fc]
    have := length_actList b1.st
    rw [p1.act, hs.act, h0] at this
    simpa using this.symm
  have hrange : ∀ (j q : Nat), (List.range N)[j]? = some q → j = q := by
    intro j q h
    rw [List.getElem?_eq_some_iff] at h
    obtain ⟨_, h⟩ := h
    simpa using h
  refine ⟨b1, e1, hs1, ?_, ?_⟩
  · intro q hq
    apply (hm q).2
    rintro ⟨e, i, ap, hi, h1, _⟩
    have := hrange _ _ h1
    omega
  · intro i hi
    have hlt : c + i < N := by omega
    cases ha : acks[i]? with
    | none => rw [List.getElem?_eq_none_iff] at ha; omega
    | some a =>
      obtain ⟨ap, ae⟩ := a
      cases ae with
      | some e =>
        have : b1.st[c + i]? = some { flag := .nack, err := some e } :=
          (hm (c + i)).1 e ⟨i, ap, hi, by rw [List.getElem?_eq_getElem (by simpa using hlt)]; simp, ha⟩
        rw [this]; rfl
      | none =>
        have hun : b1.st[c + i]? = b.st[c + i]? := by
          apply (hm (c + i)).2
          rintro ⟨e, i', ap', hi', h1, h2⟩
          have := hrange _ _ h1
          have : i' = i := by omega
          subst this
          rw [ha] at h2; cases h2
        rw [hun]
        have hlt' : c + i < b.st.length := by rw [hs.len]; exact hlt
        rw [List.getElem?_eq_getElem hlt']
        have := hack (c + i) _ (by omega) (List.getElem?_eq_getElem hlt')
        simp [isAck, this]

theorem ackLoop_confirmed (positions : List PosV) {N : Nat} (hN : positions.length = N) :
    ∀ (fuel : Nat) (b : Batch) (c : Nat) (resps : List AckResp) (acc : List Bool) (b' : Batch) (n : Nat),
      Simple N b → c ≤ N →
      (∀ (i : Nat) (st : Status), c ≤ i → b.st[i]? = some st → st.flag = .ack) →
      destAckLoop positions fuel b c resps = .ok (b', n) → N ≤ n →
      Simple N b' ∧ (∀ q : Nat, q < c → b'.st[q]? = b.st[q]?) ∧
        Mon.confirmedLoop positions fuel c resps acc = acc ++ (b'.st.drop c).map isAck := by
  intro fuel
  induction fuel with
  | zero =>
    intro b c resps acc b' n hs hc _ hr hn
    unfold destAckLoop at hr
    cases hr
    have : c = N := by omega
    subst this
    refine ⟨hs, fun _ _ => rfl, ?_⟩
    unfold Mon.confirmedLoop
    rw [List.drop_eq_nil_of_le (by rw [hs.len]; exact Nat.le_refl _)]
    simp
  | succ fuel ih =>
    intro b c resps acc b' n hs hc hack hr hn
    unfold destAckLoop at hr
    cases resps with
    | nil => cases hr
    | cons r rest =>
      cases r with
      | err e => cases hr
      | acks acks =>
        simp only at hr
        by_cases hv : validateAcks acks (positions.drop c) = true
        · simp only [hv, Bool.not_true, Bool.false_eq_true, if_false] at hr
          obtain ⟨hv1, _⟩ := validateAcks_spec _ _ hv
          have hlen : c + acks.length ≤ N := by simp at hv1; omega
          obtain ⟨b1, e1, hs1, hout, hin⟩ := mark_simple hs c acks hlen hack
          simp only [e1, bind, Except.bind] at hr
          have hcl : Mon.confirmedLoop positions (fuel + 1) c (AckResp.acks acks :: rest) acc =
              if c + acks.length ≥ positions.length then acc ++ acks.map (·.2.isNone)
              else Mon.confirmedLoop positions fuel (c + acks.length) rest (acc ++ acks.map (·.2.isNone)) := by
            rw [Mon.confirmedLoop]
            simp only [hv, Bool.not_true, Bool.false_eq_true, if_false]
          rw [hcl]
          by_cases hge : c + acks.length ≥ positions.length
          · simp only [hge, if_true] at hr ⊢
            cases hr
            refine ⟨hs1, fun q hq => hout q (Or.inl hq), ?_⟩
            congr 1
            apply List.ext_getElem?
            intro i
            rw [List.getElem?_map, List.getElem?_map, List.getElem?_drop]
            by_cases hi : i < acks.length
            · exact (hin i hi).symm
            · rw [List.getElem?_eq_none_iff.mpr (by omega), List.getElem?_eq_none_iff.mpr (by rw [hs1.len]; omega)]
              rfl
          · simp only [hge, if_false] at hr ⊢
            have hack1 : ∀ (i : Nat) (st : Status), c + acks.length ≤ i → b1.st[i]? = some st → st.flag = .ack := by
              intro i st hi hst
              rw [hout i (Or.inr hi)] at hst
              exact hack i st (by omega) hst
            obtain ⟨hs', hlow, hconf⟩ := ih b1 (c + acks.length) rest (acc ++ acks.map (·.2.isNone)) b' n hs1 hlen hack1 hr hn
            refine ⟨hs', fun q hq => (hlow q (by omega)).trans (hout q (Or.inl hq)), ?_⟩
            rw [hconf, List.append_assoc]
            congr 1
            have hsplit : b'.st.drop c = (b'.st.drop c).take acks.length ++ b'.st.drop (c + acks.length) := by
              rw [← List.drop_drop]
              exact (List.take_append_drop _ _).symm
            rw [hsplit, List.map_append]
            congr 1
            · apply List.ext_getElem?
              intro i
              rw [List.getElem?_map, List.getElem?_map, List.getElem?_take]
              by_cases hi : i < acks.length
              · simp only [hi, if_true, List.getElem?_drop]
                rw [hlow (c + i) (by omega)]
                exact (hin i hi).symm
              · simp only [hi, if_false]
                rw [List.getElem?_eq_none_iff.mpr (by omega)]
                rfl
        · simp only [hv, Bool.not_false, if_true] at hr
          cases hr

theorem new_simple (recs : List Rec) : Simple recs.length (Batch.new recs) :=
  ⟨new_WF #[] recs, rfl, rfl, by simp [Batch.new]⟩

theorem new_active (recs : List Rec) : (Batch.new recs).active = recs := by
  unfold Batch.active; rfl

/-- `DestinationTask.Do` on a fresh (`NewBatch`) batch: when it returns `.ok db` the write error is
nil and the flags of `db` are exactly the monitor's `confirmedLoop` verdicts — record `j` is `.ack`
iff it was covered by a validated ack without error. -/
theorem destDoP_new_confirmed (recs : List Rec) (werr : Option Err) (resps : List AckResp) (db : Batch)
    (h : destDoP (Batch.new recs) werr resps = .ok db) :
    werr = none ∧ db.st.length = recs.length ∧
    db.st.map isAck = Mon.confirmedLoop (recs.map (·.pos)) (recs.map (·.pos)).length 0 resps [] := by
  unfold destDoP at h
  rw [new_active] at h
  cases werr with
  | some e => cases h
  | none =>
    simp only at h
    cases hl : destAckLoop (recs.map (·.pos)) (recs.map (·.pos)).length (Batch.new recs) 0 resps with
    | error e => rw [hl] at h; cases h
    | ok x =>
      obtain ⟨b', n⟩ := x
      rw [hl] at h
      simp only [bind, Except.bind] at h
      by_cases hlt : n < (recs.map (·.pos)).length
      · simp only [hlt, if_true] at h; cases h
      · simp only [hlt, if_false] at h
        cases h
        have hN : (recs.map (·.pos)).length = recs.length := by simp
        obtain ⟨hs', _, hconf⟩ := ackLoop_confirmed (recs.map (·.pos)) hN (recs.map (·.pos)).length (Batch.new recs) 0
          resps [] db n (new_simple recs) (Nat.zero_le _)
          (by intro i st _ hst
              simp only [Batch.new, List.getElem?_map] at hst
              cases hr : recs[i]? with
              | none => rw [hr] at hst; cases hst
              | some r => rw [hr] at hst; cases hst; rfl)
          hl (by omega)
        refine ⟨rfl, hs'.len, ?_⟩
        rw [hconf]; simp

def leadTrue (l : List Bool) : Nat := (l.takeWhile id).length

theorem leadAcks_eq_leadTrue (st : List Status) : leadAcks st = leadTrue (st.map isAck) := by
  unfold leadAcks leadTrue
  induction st with
  | nil => rfl
  | cons a st ih =>
    simp only [List.map_cons, List.takeWhile_cons]
    by_cases ha : a.flag = .ack
    · simp [ha, isAck, ih]
    · simp [ha, isAck]

theorem nextReply_eq_replyOfCall (scripts : List (Nat × List Reply)) (task : Nat) :
    nextReply scripts task = Mon.replyOfCall scripts task 0 := by
  unfold nextReply Mon.replyOfCall
  cases scripts.find? (·.1 == task) with
  | none => rfl
  | some x =>
    obtain ⟨t, l⟩ := x
    cases l <;> rfl

theorem replyOf_none {s : PS} (h : (replyOf s).1 = none) :
    Mon.replyOfCall s.scripts s.dlqTask 0 = some (.dest none (replyOf s).2) := by
  rw [← nextReply_eq_replyOfCall]
  unfold replyOf at h ⊢
  cases hn : nextReply s.scripts s.dlqTask with
  | none => rw [hn] at h; cases h
  | some r =>
    rw [hn] at h
    cases r with
    | proc o => cases h
    | dest w a =>
      simp only [destReply] at h ⊢
      rw [h]

end Conduit.Funnel
