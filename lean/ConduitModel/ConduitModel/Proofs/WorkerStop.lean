import ConduitModel.Model.WorkerStop

/-!
Invariant of the worker stop protocol (Model/WorkerStop.lean) and its preservation by every step.
-/
namespace Conduit.WorkerStop

/-- the reading goroutine is between `acquireProcessingLock` and its deferred `release()` -/
def RPc.holds : RPc → Bool
  | .locked | .inPass | .releasing _ => true
  | _ => false

/-- Stop is between `acquireProcessingLock` and its deferred `release()` -/
def SPc.holds : SPc → Bool
  | .haveLock | .flagSet | .tdDone => true
  | _ => false

structure Inv (s : St) : Prop where
  lockR : s.lock = some .reader ↔ s.rpc.holds = true
  lockS : s.lock = some .stopper ↔ s.spc.holds = true
  tornStop : s.torn = true → s.stop = true ∨ s.rpc = .closed
  passClean : s.rpc = .inPass → s.stop = false
  td : s.teardowns = if s.torn then 1 else 0
  late : s.lateAck = false
  spcFlag : (s.spc = .flagSet ∨ s.spc = .tdDone ∨ s.spc = .released ∨ s.spc = .returned) → s.stop = true
  spcTorn : (s.spc = .tdDone ∨ s.spc = .released ∨ s.spc = .returned) → s.torn = true
  eofTd : s.rpc = .eofTd → s.stop = true
  exitOk : (s.rpc = .exiting true ∨ s.rpc = .done true) → s.stop = true
  histOk : ∀ d ∈ s.hist, d.res = .ok → d.acked = d.size ∧ d.beforeTd = true
  histDisc : ∀ d ∈ s.hist, d.res = .discarded → d.acked = 0 ∧ d.wrote = false
  cur : (s.rpc = .gotBatch ∨ s.rpc = .locked) → s.ackedB = 0 ∧ s.wroteB = false
  closedTorn : s.rpc = .closed → s.torn = true

theorem inv_init : Inv init := by
  constructor <;> simp [init, RPc.holds, SPc.holds]

/-- in a pass the source is not torn down -/
theorem Inv.pass_not_torn {s : St} (h : Inv s) (hp : s.rpc = .inPass) : s.torn = false := by
  have h1 := h.passClean hp
  cases ht : s.torn with
  | false => rfl
  | true =>
    rcases h.tornStop ht with h2 | h2
    · rw [h1] at h2; cases h2
    · rw [hp] at h2; cases h2

set_option linter.unusedSimpArgs false in
/-- every step preserves the invariant -/
theorem step_inv {s s' : St} {e : Ev} (h : Inv s) (hs : step s e = some s') : Inv s' := by
  have hpt := h.pass_not_torn
  obtain ⟨h1, h2, h3, h4, h5, h6, h7, h8, h9, h10, h11, h12, h13, h14⟩ := h
  cases e with
  | teardownSource b =>
    cases b <;> simp only [step] at hs <;> (repeat' split at hs) <;> (try cases hs) <;>
      (constructor <;> (try simp only [finish, tearDown, List.mem_append, List.mem_singleton]) <;>
        grind [RPc.holds, SPc.holds])
  | _ =>
    simp only [step] at hs <;> (repeat' split at hs) <;> (try cases hs) <;>
      (constructor <;> (try simp only [finish, tearDown, List.mem_append, List.mem_singleton]) <;>
        grind [RPc.holds, SPc.holds])

theorem run_nil (s : St) : run s [] = some s := rfl

theorem run_cons (s : St) (e : Ev) (es : List Ev) : run s (e :: es) = (step s e).bind fun s' => run s' es := rfl

theorem run_append (s : St) (a b : List Ev) : run s (a ++ b) = (run s a).bind fun s' => run s' b := by
  induction a generalizing s with
  | nil => simp [run]
  | cons e es ih =>
    simp only [List.cons_append, run_cons]
    cases step s e with
    | none => rfl
    | some s1 => simpa using ih s1

theorem run_inv {s s' : St} (evs : List Ev) (h : Inv s) (hr : run s evs = some s') : Inv s' := by
  induction evs generalizing s with
  | nil => cases hr; exact h
  | cons e es ih =>
    rw [run_cons] at hr
    cases hs : step s e with
    | none => rw [hs] at hr; cases hr
    | some s1 => rw [hs] at hr; exact ih (step_inv h hs) hr

theorem reach_inv {s : St} (h : Reach s) : Inv s := by
  obtain ⟨evs, he⟩ := h
  exact run_inv evs inv_init he

theorem Reach.after {s s' : St} (h : Reach s) (evs : List Ev) (hr : run s evs = some s') : Reach s' := by
  obtain ⟨e0, he⟩ := h
  exact ⟨e0 ++ evs, by rw [run_append, he]; exact hr⟩

theorem Reach.step {s s' : St} {e : Ev} (h : Reach s) (hs : step s e = some s') : Reach s' :=
  h.after [e] (by rw [run_cons, hs]; rfl)

/-- `Stop` has returned is stable -/
theorem step_returned {s s' : St} {e : Ev} (hd : s.spc = .returned) (hs : step s e = some s') :
    s'.spc = .returned := by
  cases e with
  | teardownSource b =>
    cases b <;> simp only [step] at hs <;> (repeat' split at hs) <;> (try cases hs) <;>
      simp_all [tearDown] <;> (split <;> simp_all)
  | _ =>
    simp only [step] at hs <;> (repeat' split at hs) <;> (try cases hs) <;>
      simp_all [tearDown, finish] <;> (split <;> simp_all)

/-! ## the variant of a pending stop -/

theorem variant_le (s : St) : variant s ≤ 23 := by
  unfold variant
  have h1 : spcRank s.spc ≤ 5 := by cases s.spc <;> simp [spcRank]
  have h2 : rpcRank s.rpc ≤ 3 := by cases s.rpc <;> simp [rpcRank]
  omega

theorem variant_le_of {s s' : St} (h1 : s'.spc = s.spc) (h2 : rpcRank s'.rpc = 0) : variant s' ≤ variant s := by
  simp [variant, h1, h2]

/-- every stop-progress event strictly decreases the variant -/
theorem progress_decreases {s s' : St} {e : Ev} (_hi : Inv s) (he : e.stopProgress = true)
    (hs : step s e = some s') : variant s' < variant s := by
  cases e with
  | teardownSource b =>
    cases b
    · simp only [step] at hs
      split at hs
      · rename_i hc; cases hs
        simp [variant, tearDown, hc, spcRank]; split <;> simp <;> omega
      · cases hs
    · simp [Ev.stopProgress] at he
  | stopLockAcquire =>
    simp only [step] at hs
    split at hs
    · rename_i hc; cases hs
      simp [variant, hc.1, spcRank]
    · cases hs
  | setStopFlag =>
    simp only [step] at hs
    split at hs
    · rename_i hc; cases hs; simp [variant, hc, spcRank]
    · cases hs
  | stopRelease =>
    simp only [step] at hs
    split at hs
    · rename_i hc; cases hs; simp [variant, hc, spcRank]
    · cases hs
  | stopReturn =>
    simp only [step] at hs
    split at hs
    · rename_i hc; cases hs; simp [variant, hc, spcRank]
    · cases hs
  | stopCheck =>
    simp only [step] at hs
    split at hs
    · rename_i hc
      split at hs <;> cases hs <;> simp [variant, hc, rpcRank, finish]
    · cases hs
  | passEnd ok =>
    simp only [step] at hs
    split at hs
    · rename_i hc; cases hs; simp [variant, hc.1, rpcRank, finish]
    · cases hs
  | lockRelease =>
    simp only [step] at hs
    split at hs
    · rename_i ok hc; cases hs
      simp only [variant, hc, rpcRank]
      cases ok <;> simp
    · cases hs
  | _ => simp [Ev.stopProgress] at he

end Conduit.WorkerStop
