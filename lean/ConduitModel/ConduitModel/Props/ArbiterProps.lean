import ConduitModel.Proofs.Arbiter

/-!
# The two ack arbiters of the arch-v2 engine: property theorems

`multiAckNacker` (worker.go) arbitrates the votes of the `M` destination branches of a fan-out;
`runAckNacker`/`splitRun` (run_ledger.go) withholds the original position of a split record until
all its pieces are terminal. The theorems are about the pure step functions of
`Spec/Arbiter.lean` (proved equal to the monadic model `Model/Funnel.lean` in
`Proofs/Arbiter.lean`), for EVERY number of branches, batch size, vote sequence and vote order.

A vote sequence `vs : List Vote` is any serialisation (the mutex serialises the calls) of the
`Ack`/`Nack` calls of the branches; `maRun m₀ vs` is the final tally and the parent calls made,
`releasedOf` flattens the parent calls into (position index, acked?) pairs.
-/
namespace Conduit.Funnel

/-- C01 ("A source connector is told that a record is acknowledged only after every destination
of the pipeline has positively confirmed every record derived from it"), fan-out arbiter:
for every vote sequence in which each of the `M` branches votes each position at most once,
a position handed to the parent as ACKED was voted ack by every one of the `M` branches. -/
theorem C01_ma_ack_unanimous (m₀ : MA) (hf : m₀.Fresh) (vs : List Vote)
    (wv : WellVoted m₀.branches vs) (i : Nat) (h : (i, true) ∈ releasedOf (maRun m₀ vs).2) :
    ∀ b : Nat, b < m₀.branches → ∃ v ∈ vs, v.branch = b ∧ v.isAck = true ∧ i ∈ v.idxs := by
  have inv := maRun_inv vs m₀ hf.inv
  obtain ⟨ht, ha⟩ := maRun_released_final (i, true) vs m₀ h
  have hfull := inv.full i ht ha
  have hcnt := maRun_count i vs m₀
  have hz : m₀.votes i = 0 := by
    rw [MA.votes, hf.2.1]; simp [List.getElem?_replicate]; split <;> rfl
  rw [hfull, (maRun_frame vs m₀).2, hz, Nat.zero_add] at hcnt
  exact ackCount_unanimous m₀.branches vs wv i hcnt

/-- C04 ("The sequence of positions acknowledged to a source connector is always a prefix of the
sequence of records that source produced: in the same order, with nothing skipped and nothing
repeated, no matter in which order destinations … finish"), fan-out arbiter: after ANY vote
sequence (well-formed or not) the positions handed to the parent, in call order and with the
acked runs expanded, are exactly `0, 1, …, released-1`; `released` never exceeds the batch and
never moves backwards. -/
theorem C04_ma_release_prefix (m₀ : MA) (hf : m₀.Fresh) (vs : List Vote) :
    (releasedOf (maRun m₀ vs).2).map (·.1) = List.range (maRun m₀ vs).1.released ∧
    (maRun m₀ vs).1.released ≤ m₀.positions.length ∧
    ∀ ws : List Vote, (maRun m₀ vs).1.released ≤ (maRun m₀ (vs ++ ws)).1.released := by
  obtain ⟨_, h2, h3⟩ := maRun_prefix vs m₀
  rw [hf.1] at h2 h3
  refine ⟨?_, h2 (Nat.zero_le _), ?_⟩
  · rw [h3, List.range_eq_range']; simp
  · intro ws
    rw [maRun_append]
    exact (maRun_prefix ws _).1

/-- C04, from any reachable tally (not only a fresh one): one more sequence of calls releases
exactly the next positions `released, released+1, …` in order. -/
theorem C04_ma_release_next (m : MA) (vs : List Vote) :
    (releasedOf (maRun m vs).2).map (·.1) =
      List.range' m.released ((maRun m vs).1.released - m.released) ∧
    m.released ≤ (maRun m vs).1.released :=
  ⟨(maRun_prefix vs m).2.2, (maRun_prefix vs m).1⟩

/-- C07 ("A record rejected by a destination … is … written exactly once to the DLQ"; worker.go:
"if ANY branch nacks a position, it is routed to the parent's DLQ exactly once, regardless of how
the other branches voted"), fan-out arbiter: for every vote sequence and order
(1) every position is handed to the parent at most once overall — acked XOR nacked, never twice;
(2) if each branch votes each position at most once, a position that received a nack vote is
    never handed to the parent as acked. -/
theorem C07_ma_nack_once (m₀ : MA) (hf : m₀.Fresh) (vs : List Vote) :
    ((releasedOf (maRun m₀ vs).2).map (·.1)).Nodup ∧
    (WellVoted m₀.branches vs → ∀ v ∈ vs, v.isAck = false → ∀ i ∈ v.idxs,
      (i, true) ∉ releasedOf (maRun m₀ vs).2) := by
  constructor
  · rw [(C04_ma_release_prefix m₀ hf vs).1]; exact List.nodup_range
  · intro wv v hv hnack i hi hrel
    obtain ⟨w, hw, hb, hack, hiw⟩ := C01_ma_ack_unanimous m₀ hf vs wv i hrel v.branch (wv.2 v hv)
    have hne : v ≠ w := by intro e; rw [e, hack] at hnack; cases hnack
    exact votePairs_two vs wv.1 v w hv hw hne (v.branch, i)
      (List.mem_map.mpr ⟨i, hi, rfl⟩) (List.mem_map.mpr ⟨i, hiw, by rw [hb]⟩)

/-- C07, nack wins, with NO assumption on the votes: a nack vote for a position that is not yet
terminal when the vote arrives decides it — whatever is voted before or after, in whatever
order, the position is never handed to the parent as acked (and by `C07_ma_nack_once` at most
once as nacked). -/
theorem C07_ma_nack_wins (m₀ : MA) (hf : m₀.Fresh) (pre post : List Vote) (v : Vote)
    (hnack : v.isAck = false) (i : Nat) (hi : i ∈ v.idxs) (hlt : i < m₀.positions.length)
    (hopen : (maRun m₀ pre).1.term i = false) :
    (i, true) ∉ releasedOf (maRun m₀ (pre ++ v :: post)).2 := by
  intro hrel
  have hfin := (maRun_released_final (i, true) _ m₀ hrel).2
  rw [maRun_append, maRun_cons] at hfin
  dsimp only at hfin
  have inv := maRun_inv pre m₀ hf.inv
  have hpos := (maRun_frame pre m₀).1
  have hn := maVote_nack v.task i v.items (maRun m₀ pre).1 inv.toWF (by rw [hpos]; exact hlt) hi
  obtain ⟨e1, e2, _⟩ := maStep_fields (maRun m₀ pre).1 v i
  rw [hnack] at e1 e2
  rw [← e1, ← e2] at hn
  have hfz := maRun_frozen i post _ hn.1
  rw [hfz.2.1, hn.2 hopen] at hfin
  cases hfin

/-- C01/C04 ("no matter in which order destinations … finish"), fan-out arbiter: two serialisations
of the same multiset of ack calls (any permutation, e.g. the branches finishing in a different
order) end in the same vote counts, the same terminal and acked positions and the same released
prefix — and hence release exactly the same positions as acked. -/
theorem C01_ma_release_order_independent (m₀ : MA) (hf : m₀.Fresh) (vs₁ vs₂ : List Vote)
    (hp : vs₁.Perm vs₂) (hack : ∀ v ∈ vs₁, v.isAck = true) :
    (maRun m₀ vs₁).1.ackVotes = (maRun m₀ vs₂).1.ackVotes ∧
    (maRun m₀ vs₁).1.terminal = (maRun m₀ vs₂).1.terminal ∧
    (maRun m₀ vs₁).1.acked = (maRun m₀ vs₂).1.acked ∧
    (maRun m₀ vs₁).1.released = (maRun m₀ vs₂).1.released ∧
    ∀ i : Nat, (i, true) ∈ releasedOf (maRun m₀ vs₁).2 ↔ (i, true) ∈ releasedOf (maRun m₀ vs₂).2 := by
  have hack₂ : ∀ v ∈ vs₂, v.isAck = true := fun v hv => hack v (hp.mem_iff.mpr hv)
  have hcore : (maRun m₀ vs₁).1.core = (maRun m₀ vs₂).1.core := by
    rw [core_maRun vs₁ m₀ hack, core_maRun vs₂ m₀ hack₂]
    exact foldl_perm tAck tAck_comm (hp.flatMap_right _) _
  have hv : (maRun m₀ vs₁).1.ackVotes = (maRun m₀ vs₂).1.ackVotes := congrArg Tally.ackVotes hcore
  have ht : (maRun m₀ vs₁).1.terminal = (maRun m₀ vs₂).1.terminal := congrArg Tally.terminal hcore
  have ha : (maRun m₀ vs₁).1.acked = (maRun m₀ vs₂).1.acked := congrArg Tally.acked hcore
  have hr : (maRun m₀ vs₁).1.released = (maRun m₀ vs₂).1.released :=
    stable_released_eq _ _ (maRun_stable vs₁ m₀ hf.stable) (maRun_stable vs₂ m₀ hf.stable)
      (by rw [(maRun_frame vs₁ m₀).1, (maRun_frame vs₂ m₀).1]) ht
  refine ⟨hv, ht, ha, hr, ?_⟩
  -- the acked released positions are determined by `released` and the final `acked` flags
  have char : ∀ (vs : List Vote) (i : Nat), (i, true) ∈ releasedOf (maRun m₀ vs).2 ↔
      i < (maRun m₀ vs).1.released ∧ (maRun m₀ vs).1.ack i = true := by
    intro vs i
    have hpre := (C04_ma_release_prefix m₀ hf vs).1
    constructor
    · intro h
      have hmem : i ∈ (releasedOf (maRun m₀ vs).2).map (·.1) := List.mem_map.mpr ⟨(i, true), h, rfl⟩
      rw [hpre, List.mem_range] at hmem
      exact ⟨hmem, (maRun_released_final (i, true) vs m₀ h).2⟩
    · intro ⟨h1, h2⟩
      have hmem : i ∈ (releasedOf (maRun m₀ vs).2).map (·.1) := by rw [hpre, List.mem_range]; exact h1
      obtain ⟨⟨j, b⟩, hjb, hj⟩ := List.mem_map.mp hmem
      simp only at hj; subst hj
      have := (maRun_released_final (j, b) vs m₀ hjb).2
      simp only at this
      rw [h2] at this; rw [this]; exact hjb
  intro i
  rw [char vs₁ i, char vs₂ i, hr, MA.ack, MA.ack, ha]

/-! Non-vacuity: concrete vote sequences (tests of the hypotheses, not the unbounded claims). -/

/-- three branches, four positions; branch 1 nacks position 2; branch 2 votes out of order. -/
def exVotes : List Vote :=
  [ { branch := 2, isAck := true, items := [{ ix := 3 }, { ix := 1 }] },
    { branch := 0, isAck := true, items := [{ ix := 0 }, { ix := 1 }, { ix := 2 }, { ix := 3 }] },
    { branch := 1, isAck := true, items := [{ ix := 0 }, { ix := 1 }] },
    { branch := 1, isAck := false, task := 7, items := [{ ix := 2 }] },
    { branch := 2, isAck := true, items := [{ ix := 0 }, { ix := 2 }] },
    { branch := 1, isAck := true, items := [{ ix := 3 }] } ]

example : (MA.init 3 4).Fresh := by decide
example : WellVoted 3 exVotes := by decide
example : (maRun (MA.init 3 4) exVotes).2 = [.ackRun 0 2, .nackOne 2, .ackRun 3 4] := by decide
example : (maRun (MA.init 3 4) exVotes).1.released = 4 := by decide
example : (1, true) ∈ releasedOf (maRun (MA.init 3 4) exVotes).2 := by decide
example : ((maRun (MA.init 3 4) (exVotes.take 3)).1.term 2 = false) := by decide
example : (maRun (MA.init 3 4) (exVotes.take 4)).2 = [] := by decide

/-- an all-ack sequence and a permutation of it (branch 1 finishes first instead of last). -/
def exAcks : List Vote :=
  [ { branch := 0, isAck := true, items := [{ ix := 0 }, { ix := 1 }, { ix := 2 }] },
    { branch := 1, isAck := true, items := [{ ix := 1 }, { ix := 0 }] },
    { branch := 1, isAck := true, items := [{ ix := 2 }] } ]
def exAcks' : List Vote :=
  [ { branch := 1, isAck := true, items := [{ ix := 2 }] },
    { branch := 0, isAck := true, items := [{ ix := 0 }, { ix := 1 }, { ix := 2 }] },
    { branch := 1, isAck := true, items := [{ ix := 1 }, { ix := 0 }] } ]
example : exAcks.Perm exAcks' := by decide
example : ∀ v ∈ exAcks, v.isAck = true := by decide
example : (maRun (MA.init 2 3) exAcks).2 = [.ackRun 0 2, .ackRun 2 3] := by decide
example : (maRun (MA.init 2 3) exAcks').2 = [.ackRun 0 3] := by decide


/-! ## split-run ledger (`runAckNacker.vote`) -/

/-- C08 ("every source record ends with exactly one outcome … a failure of any piece
dead-letters the original record once"), split-run ledger with a fixed number `total` of pieces:
for EVERY sequence of group votes (non-empty groups), the vote that follows the votes `pre`
is answered with
 * nothing (`hold`) while fewer than `total` members were voted,
 * the single forward of the original record exactly when the count reaches `total` — an Ack if
   no vote so far was a nack, a Nack (DLQ) if some vote was,
 * a `(bug)` error when more than `total` members were voted (which includes every vote
   arriving after the release);
and over the whole sequence the original record is forwarded at most once. -/
theorem C08_run_released_once (r₀ : SplitRun) (hf : r₀.Fresh) (pre post : List RVote) (v : RVote)
    (hk : 0 < v.k) :
    (runVotes r₀ (pre ++ v :: post)).2[pre.length]? =
      some (runVerdict r₀.total ((pre.map (·.k)).sum + v.k) ((pre ++ [v]).all (·.isAck))) ∧
    (runVotes r₀ (pre ++ v :: post)).2.countP RunOut.isRelease ≤ 1 := by
  obtain ⟨hf1, hf2, hf3⟩ := hf
  constructor
  · have e : (pre ++ v :: post).map RunOp.vote = (pre.map .vote ++ [.vote v]) ++ post.map .vote := by simp
    have hlen : (runOps r₀ (pre.map .vote ++ [.vote v])).2.length = pre.length + 1 := by
      have := runVotes_length (pre ++ [v]) r₀
      simpa [runVotes] using this
    have hlen' : (runOps r₀ (pre.map .vote)).2.length = pre.length := runVotes_length pre r₀
    rw [runVotes, e, runOps_append]
    dsimp only
    rw [List.getElem?_append_left (by omega), runOps_snoc, List.getElem?_append_right (by omega), hlen']
    simp only [Nat.sub_self, List.getElem?_cons_zero, Option.some.injEq]
    obtain ⟨s1, s2, s3⟩ := runOps_state (pre.map .vote) r₀
    rw [opsGrow_votes] at s1
    rw [opsSum_votes, opsAllAck_votes, hf1, hf2] at s3
    obtain ⟨v1, v2⟩ := runVote_spec (runOps r₀ (pre.map .vote)).1 v.k v.isAck v.task v.err
    cases hr : (runOps r₀ (pre.map .vote)).1.released with
    | true =>
      rw [v1 hr]
      have := runVotes_released_sum pre r₀ hr
      rw [hf3, hf1] at this
      have hge : r₀.total ≤ (pre.map (·.k)).sum := by
        rcases this with h | h
        · cases h
        · omega
      simp only [runVerdict]
      rw [if_neg (by omega), if_neg (by omega)]
    | false =>
      obtain ⟨g1, g2⟩ := s3 hr
      rw [runVote_verdict _ _ _ _ _ hr, g1, g2, s1]
      simp only [List.all_append, List.all_cons, List.all_nil, Bool.and_true, Nat.zero_add,
        Nat.add_zero, Bool.false_or, Bool.not_not]
  · have := (runOps_once ((pre ++ v :: post).map .vote) r₀).2 hf3
    rw [runVotes, this]
    split <;> omega

/-- C08, the headline case "votes for no more members than the run has": never an error, and the
original record is forwarded exactly once exactly when the voted count reaches `total`, never
before (it stays withheld while a piece is outstanding). -/
theorem C08_run_within_total (r₀ : SplitRun) (hf : r₀.Fresh) (vs : List RVote)
    (hk : ∀ v ∈ vs, 0 < v.k) (hs : (vs.map (·.k)).sum ≤ r₀.total) :
    RunOut.err ∉ (runVotes r₀ vs).2 ∧
    (runVotes r₀ vs).2.countP RunOut.isRelease = (if vs ≠ [] ∧ (vs.map (·.k)).sum = r₀.total then 1 else 0) := by
  obtain ⟨hf1, hf2, hf3⟩ := hf
  obtain ⟨h1, h2⟩ := runVotes_within vs r₀ hf3 hk (by rw [hf1]; omega)
  refine ⟨h1, ?_⟩
  have := (runOps_once (vs.map .vote) r₀).2 hf3
  rw [runVotes, this]
  rw [hf1, Nat.zero_add] at h2
  simp only [runVotes] at h2
  by_cases hc : vs ≠ [] ∧ (vs.map (·.k)).sum = r₀.total
  · rw [if_pos hc, if_pos (h2.mpr hc)]
  · rw [if_neg hc, if_neg (fun h => hc (h2.mp h))]

/-- C08 with a LIVE total (`Batch.SplitRecord` may split a member further between votes, `grow`):
for every interleaving `pre` of group votes and growth, the next vote is answered with an error if
the run was already forwarded, and otherwise by `runVerdict` on the CURRENT total
(`total₀ + growth so far`); the run was already forwarded iff an Ack/Nack was already issued;
and at most one Ack/Nack is ever issued. -/
theorem C08_run_released_once_live (r₀ : SplitRun) (hf : r₀.Fresh) (pre : List RunOp) (v : RVote) :
    (runOps r₀ (pre ++ [.vote v])).2.getLast? = some
      (if (runOps r₀ pre).1.released then .err
       else runVerdict (r₀.total + opsGrow pre) (opsSum pre + v.k) (opsAllAck pre && v.isAck)) ∧
    ((runOps r₀ pre).1.released = true ↔ ∃ o ∈ (runOps r₀ pre).2, o.isRelease = true) ∧
    ∀ ops : List RunOp, (runOps r₀ ops).2.countP RunOut.isRelease ≤ 1 := by
  obtain ⟨hf1, hf2, hf3⟩ := hf
  refine ⟨?_, ?_, ?_⟩
  · rw [runOps_snoc, List.getLast?_append]
    simp only [List.getLast?_singleton, Option.some_or]
    obtain ⟨s1, s2, s3⟩ := runOps_state pre r₀
    obtain ⟨v1, v2⟩ := runVote_spec (runOps r₀ pre).1 v.k v.isAck v.task v.err
    cases hr : (runOps r₀ pre).1.released with
    | true => rw [v1 hr]; rfl
    | false =>
      obtain ⟨g1, g2⟩ := s3 hr
      rw [runVote_verdict _ _ _ _ _ hr, g1, g2, s1, hf1, hf2]
      simp only [Nat.zero_add, Bool.false_or, Bool.not_not, Bool.false_eq_true, if_false]
  · have := (runOps_once pre r₀).2 hf3
    constructor
    · intro h
      rw [h] at this
      have hpos : 0 < (runOps r₀ pre).2.countP RunOut.isRelease := by rw [this]; decide
      exact List.countP_pos_iff.mp hpos
    · intro h
      have hpos := List.countP_pos_iff.mpr h
      cases hr : (runOps r₀ pre).1.released with
      | true => rfl
      | false => rw [hr] at this; simp only [Bool.false_eq_true, if_false] at this; omega
  · intro ops
    have := (runOps_once ops r₀).2 hf3
    rw [this]; split <;> omega

/-- C08 ("All pieces of a split record are delivered before the original is acknowledged"):
the original position of a run is acked to the parent only by a vote at which every one of the
run's currently live `total` pieces has been voted (none outstanding, none counted twice) and
every vote so far was an ack. -/
theorem C08_split_all_before_ack (r₀ : SplitRun) (hf : r₀.Fresh) (pre : List RunOp) (v : RVote)
    (h : (runOps r₀ (pre ++ [.vote v])).2.getLast? = some .ack) :
    opsSum (pre ++ [.vote v]) = r₀.total + opsGrow (pre ++ [.vote v]) ∧
    opsAllAck (pre ++ [.vote v]) = true := by
  rw [(C08_run_released_once_live r₀ hf pre v).1] at h
  rw [opsSum_append, opsGrow_append, opsAllAck_append]
  simp only [opsSum, opsGrow, opsAllAck, Nat.add_zero, Bool.and_true]
  cases hr : (runOps r₀ pre).1.released with
  | true => rw [hr] at h; simp at h
  | false =>
    rw [hr] at h
    simp only [runVerdict, Bool.false_eq_true, if_false, Option.some.injEq] at h
    by_cases h1 : opsSum pre + v.k < r₀.total + opsGrow pre
    · rw [if_pos h1] at h; cases h
    · rw [if_neg h1] at h
      by_cases h2 : opsSum pre + v.k = r₀.total + opsGrow pre
      · rw [if_pos h2] at h
        refine ⟨h2, ?_⟩
        cases hb : (opsAllAck pre && v.isAck) with
        | true => rfl
        | false => rw [hb] at h; simp at h
      · rw [if_neg h2] at h; cases h

/-- C08 ("a failure of any piece dead-letters the original record once"): the run is nacked to
the parent only when all live pieces were voted and some vote was a nack. -/
theorem C08_split_nack_only_after_failure (r₀ : SplitRun) (hf : r₀.Fresh) (pre : List RunOp) (v : RVote)
    (h : (runOps r₀ (pre ++ [.vote v])).2.getLast? = some .nack) :
    opsSum (pre ++ [.vote v]) = r₀.total + opsGrow (pre ++ [.vote v]) ∧
    opsAllAck (pre ++ [.vote v]) = false := by
  rw [(C08_run_released_once_live r₀ hf pre v).1] at h
  rw [opsSum_append, opsGrow_append, opsAllAck_append]
  simp only [opsSum, opsGrow, opsAllAck, Nat.add_zero, Bool.and_true]
  cases hr : (runOps r₀ pre).1.released with
  | true => rw [hr] at h; simp at h
  | false =>
    rw [hr] at h
    simp only [runVerdict, Bool.false_eq_true, if_false, Option.some.injEq] at h
    by_cases h1 : opsSum pre + v.k < r₀.total + opsGrow pre
    · rw [if_pos h1] at h; cases h
    · rw [if_neg h1] at h
      by_cases h2 : opsSum pre + v.k = r₀.total + opsGrow pre
      · rw [if_pos h2] at h
        refine ⟨h2, ?_⟩
        cases hb : (opsAllAck pre && v.isAck) with
        | false => rfl
        | true => rw [hb] at h; simp at h
      · rw [if_neg h2] at h; cases h

/-! Non-vacuity for the ledger. -/

def exRun : SplitRun := { origPos := some 5, origRec := { tag := 1, pos := some 5 }, total := 6 }

example : exRun.Fresh := by decide
example : (runVotes exRun [{ k := 2, isAck := true }, { k := 1, isAck := false, task := 3 }, { k := 3, isAck := true }]).2
    = [.hold, .hold, .nack] := by decide
example : (runVotes exRun [{ k := 2, isAck := true }, { k := 4, isAck := true }, { k := 1, isAck := true }]).2
    = [.hold, .ack, .err] := by decide
example : (runVotes exRun [{ k := 4, isAck := true }, { k := 3, isAck := true }]).2 = [.hold, .err] := by decide
/-- a member is split further (+2) after the first vote: the release waits for the new pieces. -/
example : (runOps exRun [.vote { k := 5, isAck := true }, .grow 2, .vote { k := 1, isAck := true },
    .vote { k := 2, isAck := true }]).2 = [.hold, .hold, .ack] := by decide

end Conduit.Funnel
