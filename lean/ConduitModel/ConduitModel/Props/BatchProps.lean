import ConduitModel.Proofs.BatchWF

/-!
# C08 / C09 — the batch bookkeeping of the funnel engine: property theorems

C08 (properties.jsonl): "For any combination of processor results over a batch … every source
record ends with exactly one outcome and no other record's outcome is affected." — here: the
data-structure part, `aligned` (the parallel slices of `Batch` stay in lockstep through every
mutator, `filterCount` stays exact) and `mark_hits_right_record` (a mutator addressed by ACTIVE
index touches exactly the physical record that `ActiveRecords()` shows at that index; filtered
records are never touched).

C09: "Whatever a plugin returns - fewer, more or zero results, any mix of result kinds, …
unexpected or out-of-order destination acknowledgments, an error from any call - the engine
neither panics nor hangs: it either applies the documented handling or stops that pipeline with
an error" — here: totality of every `Batch` mutator under the invariant ("no index out of
range"), of `ProcessorTask.Do` for ANY reply list, of `DestinationTask.Do` for ANY ack replies,
and the bound on the retry recursion.

All theorems are for every batch (any size, any mix of filtered / split records), every heap of
split runs, every index and every reply: no bounds. `b.WF h` is `Spec/BatchWF.lean`.
Model: `Model/Funnel.lean` (validated against /repo/pkg/lifecycle-poc/funnel by the harness).
-/
namespace Conduit.Funnel

/-! ## C08 `aligned`: every mutator keeps the invariant -/

/-- C08.aligned — `NewBatch` establishes the invariant ("the four lists … the same length"). -/
theorem C08_aligned_new (h : Heap) (recs : List Rec) : (Batch.new recs).WF h := new_WF h recs

/-- C08.aligned — `setFlagNoErr(f, i)` for `f ∈ {ack, nack, retry}` keeps the invariant whenever it
returns (for `f = filter` the caller `Filter` also bumps `filterCount`: see `C08_aligned_filter1`). -/
theorem C08_aligned_setFlag1 {h : Heap} {b b' : Batch} (hwf : b.WF h) {f : Flag} (hf : f ≠ .filter) {i : Nat}
    (hr : b.setFlag1 f i = .ok b') : b'.WF h := by
  have hi := setFlag1_inrange hwf hr
  rw [setFlag1_ok hwf f hi] at hr
  cases hr
  exact WF_flagged hwf hf _ _ _

/-- C08.aligned — `setFlagNoErr(f, i, j)` (`Ack(i, j)`), `f ≠ filter`. -/
theorem C08_aligned_setFlagRange {h : Heap} {b b' : Batch} (hwf : b.WF h) {f : Flag} (hf : f ≠ .filter) {i j : Nat}
    (hr : b.setFlagRange f i j = .ok b') : b'.WF h := by
  obtain ⟨hij, hj⟩ := setFlagRange_inrange hwf hr
  rw [setFlagRange_ok hwf f hij hj] at hr
  cases hr
  exact WF_flagged hwf hf _ _ _

/-- C08.aligned — `Retry(i, j)`. -/
theorem C08_aligned_retry {h : Heap} {b b' : Batch} (hwf : b.WF h) {i j : Nat} (hr : b.retry i j = .ok b') :
    b'.WF h := by
  obtain ⟨hij, hj⟩ := retry_inrange hwf hr
  rw [retry_ok hwf hij hj] at hr
  cases hr
  exact WF_flagged hwf (by decide) _ _ _

/-- C08.aligned — `Filter(i)`: the flag and `filterCount` move together. -/
theorem C08_aligned_filter1 {h : Heap} {b b' : Batch} (hwf : b.WF h) {i : Nat} (hr : b.filter1 i = .ok b') :
    b'.WF h := by
  have hi := filter1_inrange hwf hr
  rw [filter1_ok hwf hi] at hr
  cases hr
  have := WF_filtered hwf (i := i) (j := i + 1) hi
  simpa using this

/-- C08.aligned — `Filter(i, j)`. -/
theorem C08_aligned_filterRange {h : Heap} {b b' : Batch} (hwf : b.WF h) {i j : Nat}
    (hr : b.filterRange i j = .ok b') : b'.WF h := by
  obtain ⟨hij, hj⟩ := filterRange_inrange hwf hr
  rw [filterRange_ok hwf hij hj] at hr
  cases hr
  exact WF_filtered hwf hj

/-- C08.aligned — `Nack(i, errs...)` keeps the invariant whenever it returns, including
`filterCount = #filter flags` (the split-extent loop skips filtered pieces). -/
theorem C08_aligned_nack {h : Heap} {b b' : Batch} (hwf : b.WF h) {i : Nat} {errs : List (Option Err)}
    (hr : b.nack i errs = .ok b') : b'.WF h := nack_WF_of_ok hwf hr

/-- C08.aligned — `SetRecords(i, recs)` only rewrites `records`, in place: whenever it returns,
`len(records)` is unchanged and so is everything else. -/
theorem C08_aligned_setRecords {h : Heap} {b b' : Batch} (hwf : b.WF h) {i : Nat} {recs : List Rec}
    (hr : b.setRecords i recs = .ok b') :
    b'.WF h ∧ b'.st = b.st ∧ b'.pos = b.pos ∧ b'.runs = b.runs ∧ b'.recs.length = b.recs.length :=
  setRecords_WF_of_ok hwf hr

/-- C08.aligned — `SplitRecord(i, recs)` (`len(recs) ≥ 1`; the engine calls it with ≥ 2): the four
parallel slices grow by `len(recs) - 1` at the same place, the new run is allocated. -/
theorem C08_aligned_splitRecord {h h' : Heap} {b b' : Batch} (hwf : b.WF h) {i : Nat} {recs : List Rec}
    (hrec : 1 ≤ recs.length) (hr : b.splitRecord h i recs = .ok (h', b')) :
    b'.WF h' ∧ h.size ≤ h'.size ∧ b'.recs.length = b.recs.length + (recs.length - 1) := by
  have hi := splitRecord_inrange hwf hr
  by_cases hs : b.splittableAt ((actList b.st)[i]'hi) = true
  · obtain ⟨h'', b'', g1, g2, g3, g4, _⟩ := splitRecord_ok hwf hi hs hrec
    rw [g1] at hr; cases hr
    refine ⟨g2, g3, ?_⟩
    have hp : (actList b.st)[i]'hi < b.recs.length := by rw [← hwf.1.st_len]; exact actList_lt hi
    rw [g4]; simp; omega
  · obtain ⟨m, g⟩ := splitRecord_panics_of_not_splittable hwf hi (recs := recs) (by simpa using hs)
    rw [g] at hr; cases hr

/-- C08.aligned — `sub(from, to)`: the slice of a well-formed batch is well-formed (`filterCount`
and `splitRecords` are recomputed for the slice). -/
theorem C08_aligned_sub {h : Heap} {b b' : Batch} (hwf : b.WF h) {from_ to : Nat} (hr : b.sub from_ to = .ok b') :
    b'.WF h := by
  by_cases hbad : from_ > to ∨ to > b.recs.length
  · obtain ⟨m, g⟩ := sub_panics hbad
    rw [g] at hr; cases hr
  · obtain ⟨b'', g1, g2, _⟩ := sub_ok hwf (from_ := from_) (to := to) (by omega) (by omega)
    rw [g1] at hr; cases hr; exact g2

/-- C08.aligned — `clone()` with `cloneRuns`: the copy is well-formed in the extended heap, same
records / statuses / positions, a record has a run in the copy iff it had one. -/
theorem C08_aligned_clone {h : Heap} {b : Batch} (hwf : b.WF h) :
    (b.clone h).2.WF (b.clone h).1 ∧ h.size ≤ (b.clone h).1.size ∧
      (b.clone h).2.recs = b.recs ∧ (b.clone h).2.st = b.st ∧ (b.clone h).2.pos = b.pos ∧
      (∀ p : Nat, ((b.clone h).2.runAt p).isSome = (b.runAt p).isSome) := by
  obtain ⟨g1, g2, g3, g4, g5, _, _, _, g9⟩ := clone_WF hwf
  exact ⟨g1, g2, g3, g4, g5, g9⟩

/-- `cloneRuns`: the clone's runs are fresh copies and "every member of one run keeps pointing at
the SAME cloned splitRun" (sharing is preserved exactly). -/
theorem C08_clone_runs_copied {h : Heap} {b : Batch} (hwf : b.WF h) :
    (∀ i : Nat, i < h.size → (b.clone h).1[i]! = h[i]!) ∧
    (∀ k id : Nat, b.runAt k = some id → ∃ nid, (b.clone h).2.runAt k = some nid ∧ h.size ≤ nid ∧
        nid < (b.clone h).1.size ∧ (b.clone h).1[nid]! = h[id]!) ∧
    (∀ k l id id' nid nid' : Nat, b.runAt k = some id → b.runAt l = some id' →
        (b.clone h).2.runAt k = some nid → (b.clone h).2.runAt l = some nid' → (id = id' ↔ nid = nid')) :=
  clone_copy hwf

/-- C08.aligned — `originalBatch()`. -/
theorem C08_aligned_original {h : Heap} {b : Batch} (hwf : b.WF h) : b.original.WF h := original_WF hwf

/-! ## C09 `mutators_total`: no index out of range -/

/-- C09.mutators_total — "no index out of range": for a well-formed batch every mutator called
with in-range ACTIVE indices (`i < len(ActiveRecords())`, `i < j ≤ len(ActiveRecords())`, …)
returns — it never panics. `SplitRecord` returns whenever the `splittable` guard holds for the
target (non-nil original position or an existing run); `SetRecords` with filtered records
present stays in range (`findTo` included); `sub` needs `from ≤ to ≤ len(records)`. -/
theorem C09_mutators_total {h : Heap} {b : Batch} (hwf : b.WF h) :
    (∀ (f : Flag) (i : Nat), i < b.active.length → ∃ b', b.setFlag1 f i = .ok b') ∧
    (∀ (f : Flag) (i j : Nat), i < j → j ≤ b.active.length → ∃ b', b.setFlagRange f i j = .ok b') ∧
    (∀ (i : Nat) (errs : List (Option Err)), i + errs.length ≤ b.active.length → ∃ b', b.nack i errs = .ok b') ∧
    (∀ i j : Nat, i < j → j ≤ b.active.length → ∃ b', b.retry i j = .ok b') ∧
    (∀ i : Nat, i < b.active.length → ∃ b', b.filter1 i = .ok b') ∧
    (∀ i j : Nat, i < j → j ≤ b.active.length → ∃ b', b.filterRange i j = .ok b') ∧
    (∀ (i : Nat) (recs : List Rec), i + recs.length ≤ b.active.length → ∃ b', b.setRecords i recs = .ok b') ∧
    (∀ (i p : Nat) (recs : List Rec), i < b.active.length → 1 ≤ recs.length → b.phys i = .ok p →
        b.splittableAt p = true → ∃ hb, b.splitRecord h i recs = .ok hb) ∧
    (∀ from_ to : Nat, from_ ≤ to → to ≤ b.recs.length → ∃ b', b.sub from_ to = .ok b') := by
  have hact := active_length hwf.1.st_len hwf.2
  rw [hact]
  refine ⟨?_, ?_, ?_, ?_, ?_, ?_, ?_, ?_, ?_⟩
  · intro f i hi; exact ⟨_, setFlag1_ok hwf f hi⟩
  · intro f i j hij hj; exact ⟨_, setFlagRange_ok hwf f hij hj⟩
  · intro i errs hi
    obtain ⟨b', g, _⟩ := nack_WF hwf hi
    exact ⟨b', g⟩
  · intro i j hij hj; exact ⟨_, retry_ok hwf hij hj⟩
  · intro i hi; exact ⟨_, filter1_ok hwf hi⟩
  · intro i j hij hj; exact ⟨_, filterRange_ok hwf hij hj⟩
  · intro i recs hi
    obtain ⟨b', g, _⟩ := setRecords_WF hwf hi
    exact ⟨b', g⟩
  · intro i p recs hi hrec hp hs
    have hp' := phys_ok hwf.2 hi
    rw [hp] at hp'
    have hpe : p = (actList b.st)[i]'hi := Except.ok.inj hp'
    obtain ⟨h', b', g, _⟩ := splitRecord_ok hwf hi (recs := recs) (by rw [← hpe]; exact hs) hrec
    exact ⟨(h', b'), g⟩
  · intro from_ to hft hto
    obtain ⟨b', g, _⟩ := sub_ok hwf hft hto
    exact ⟨b', g⟩

/-- the guards are necessary: `SplitRecord` on a record without position and run panics ("(bug)
SplitRecord: record has a nil position but no known split run"), `sub` out of bounds panics. -/
theorem C09_guards_necessary {h : Heap} {b : Batch} (hwf : b.WF h) :
    (∀ (i p : Nat) (recs : List Rec), i < b.active.length → b.phys i = .ok p → b.splittableAt p = false →
        ∃ m, b.splitRecord h i recs = .error (.panic m)) ∧
    (∀ from_ to : Nat, (from_ > to ∨ to > b.recs.length) → ∃ m, b.sub from_ to = .error (.panic m)) := by
  refine ⟨?_, fun _ _ hbad => sub_panics hbad⟩
  intro i p recs hi hp hs
  rw [active_length hwf.1.st_len hwf.2] at hi
  have hp' := phys_ok hwf.2 hi
  rw [hp] at hp'
  have hpe : p = (actList b.st)[i]'hi := Except.ok.inj hp'
  exact splitRecord_panics_of_not_splittable hwf hi (by rw [← hpe]; exact hs)

/-- C09.mutators_total (the `findTo` clause) — the bisection of `SetRecords` only probes indices
strictly inside `(l, r)`, and for a monotone check that holds at `l` it returns the END of the
block on which the check holds (with `r - l` fuel; `SetRecords` gives it `len(recs) + 1`). -/
theorem C09_findTo_returns_block_end (check : Nat → R Bool) (P : Nat → Bool) (fuel lo hi : Nat)
    (hc : ∀ t : Nat, lo < t → t < hi → check t = .ok (P t)) (hfuel : hi - lo ≤ fuel)
    (hmono : ∀ t t' : Nat, lo ≤ t → t ≤ t' → t' < hi → P t' = true → P t = true) (hlo : P lo = true) :
    ∃ t : Nat, findToLoop check fuel lo hi = .ok t ∧ lo ≤ t ∧ (lo < hi → t < hi) ∧
      ∀ s : Nat, lo ≤ s → s < hi → (P s = true ↔ s ≤ t) :=
  findToLoop_block check P fuel lo hi hc hfuel hmono hlo

/-! ## C08 `mark_hits_right_record` -/

/-- the `k`-th record of `ActiveRecords()` is the record at the physical index that the mutators
resolve the active index `k` to (`activeRecordIndices()[k]`, or `k` itself when nothing is filtered). -/
theorem C08_active_index_is_phys {h : Heap} {b : Batch} (hwf : b.WF h) {k p : Nat} (hk : k < b.active.length)
    (hp : b.phys k = .ok p) : b.active[k]? = b.recs[p]? ∧ p < b.recs.length ∧
      ∃ s, b.st[p]? = some s ∧ s.flag ≠ .filter := by
  rw [active_length hwf.1.st_len hwf.2] at hk
  have hk' : k < b.st.length := by have := b.nAct_eq; omega
  have h1 := (phys_iff hwf hk').mp hp
  obtain ⟨h2, h3, _⟩ := actList_getElem?_iff.mp h1
  exact ⟨active_getElem? hwf h1, by rw [← hwf.1.st_len]; exact h2, b.st[p], by simp [h2], (notFilt_iff h2).mp h3⟩

/-- C08.mark_hits_right_record — `setFlagNoErr(f, i, j)` (`Ack`/`Retry`/`Filter` ranges) changes
exactly the flag of the statuses at the physical indices of the active records `i … j-1`;
everything else in the batch — records, positions, runs, every other status, and in particular
every filtered record — is unchanged. -/
theorem C08_mark_hits_right_record {h : Heap} {b b' : Batch} (hwf : b.WF h) {f : Flag} {i j : Nat}
    (hr : b.setFlagRange f i j = .ok b') :
    b'.recs = b.recs ∧ b'.pos = b.pos ∧ b'.runs = b.runs ∧ b'.split = b.split ∧ b'.st.length = b.st.length ∧
    (∀ k p : Nat, i ≤ k → k < j → b.phys k = .ok p → b'.st[p]? = (b.st[p]?).map (setFlagP f)) ∧
    (∀ q : Nat, (¬ ∃ k : Nat, i ≤ k ∧ k < j ∧ b.phys k = .ok q) → b'.st[q]? = b.st[q]?) ∧
    (∀ (q : Nat) (s : Status), b.st[q]? = some s → s.flag = .filter → b'.st[q]? = some s) := by
  obtain ⟨hij, hj⟩ := setFlagRange_inrange hwf hr
  rw [setFlagRange_ok hwf f hij hj] at hr
  cases hr
  have hlen : b.nAct ≤ b.st.length := by have := b.nAct_eq; omega
  refine ⟨rfl, rfl, rfl, rfl, by simp [Batch.flagged], ?_, ?_, fun q s hq hs => filtered_untouched b f i j q s hq hs⟩
  · intro k p hik hkj hp
    exact (getElem?_flagged b f i j p).1 ⟨k, hik, hkj, (phys_iff hwf (by omega)).mp hp⟩
  · intro q hn
    apply (getElem?_flagged b f i j q).2
    rintro ⟨k, hik, hkj, hk⟩
    exact hn ⟨k, hik, hkj, (phys_iff hwf (by omega)).mpr hk⟩

/-- C08.mark_hits_right_record — single index form `setFlagNoErr(f, i)`. -/
theorem C08_mark_hits_right_record_single {h : Heap} {b b' : Batch} (hwf : b.WF h) {f : Flag} {i : Nat}
    (hr : b.setFlag1 f i = .ok b') :
    b'.recs = b.recs ∧ b'.pos = b.pos ∧ b'.runs = b.runs ∧ b'.split = b.split ∧
    ∃ p : Nat, b.phys i = .ok p ∧ b'.st = b.st.modify p (setFlagP f) ∧
      ∃ s, b.st[p]? = some s ∧ s.flag ≠ .filter := by
  have hi := setFlag1_inrange hwf hr
  rw [setFlag1_ok hwf f hi] at hr
  cases hr
  refine ⟨rfl, rfl, rfl, rfl, (actList b.st)[i]'hi, phys_ok hwf.2 hi, ?_, _, List.getElem?_eq_getElem (actList_lt hi),
    actList_flag hi⟩
  show b.flagged f i (i+1) = _
  rw [Batch.flagged, physRange_single hi]; rfl

/-- C08.mark_hits_right_record — `Filter(i, j)` makes `activeRecordIndices` skip exactly the
active records `i … j-1`: the new index map is the old one with that block removed. -/
theorem C08_filter_skips_exactly {h : Heap} {b b' : Batch} (hwf : b.WF h) {i j : Nat}
    (hr : b.filterRange i j = .ok b') :
    b'.activeIdx = some ((actList b.st).take i ++ (actList b.st).drop j) ∧
    b'.active.length = b.active.length - (j - i) ∧ b'.recs = b.recs ∧ b'.pos = b.pos ∧ b'.runs = b.runs := by
  obtain ⟨hij, hj⟩ := filterRange_inrange hwf hr
  have hwf' := C08_aligned_filterRange hwf hr
  have hl' := active_length hwf'.1.st_len hwf'.2
  rw [filterRange_ok hwf hij hj] at hr
  cases hr
  refine ⟨?_, ?_, rfl, rfl, rfl⟩
  · unfold Batch.activeIdx
    have : ¬ b.filterCount + (j - i) = 0 := by omega
    simp only [this, if_false]
    exact congrArg some (actList_flagged_filter b (by omega))
  · rw [hl', active_length hwf.1.st_len hwf.2]
    exact nAct_filtered b (by omega) hj _

/-- C08.mark_hits_right_record — `Nack(i, errs...)`: every target (the physical record of active
index `i+k`) ends flagged nack; a status that changed became a nack carrying one of the given
errors and lies in the split extent of a target; filtered records are never touched (flag and
error kept, so the active-index map is unchanged); records, positions, runs are unchanged.
Without split records in the batch the effect is exact: target `i+k` gets `(nack, errs[k])`,
every other status is unchanged. -/
theorem C08_mark_hits_right_record_nack {h : Heap} {b b' : Batch} (hwf : b.WF h) {i : Nat} {errs : List (Option Err)}
    (hi : i + errs.length ≤ b.active.length) (hr : b.nack i errs = .ok b') :
    b'.recs = b.recs ∧ b'.pos = b.pos ∧ b'.runs = b.runs ∧ b'.split = b.split ∧ b'.filterCount = b.filterCount ∧
    actList b'.st = actList b.st ∧
    (∀ (q : Nat) (s : Status), b.st[q]? = some s → s.flag = .filter → b'.st[q]? = some s) ∧
    (∀ k : Nat, k < errs.length → ∃ p s, b.phys (i+k) = .ok p ∧ b'.st[p]? = some s ∧ s.flag = .nack) ∧
    (∀ q : Nat, b'.st[q]? ≠ b.st[q]? → ∃ k p : Nat, k < errs.length ∧ b.phys (i+k) = .ok p ∧
        findSplitFrom b.pos p ≤ q ∧ q ≤ findSplitTo b.pos (p+1) b.pos.length - 1 ∧
        b'.st[q]? = some { flag := .nack, err := (errs[k]?).join }) ∧
    (b.split = [] → ∀ q : Nat,
        (∀ k : Nat, k < errs.length → b.phys (i+k) = .ok q → b'.st[q]? = some { flag := .nack, err := (errs[k]?).join }) ∧
        ((¬ ∃ k : Nat, k < errs.length ∧ b.phys (i+k) = .ok q) → b'.st[q]? = b.st[q]?)) := by
  rw [active_length hwf.1.st_len hwf.2] at hi
  have hlen : b.nAct ≤ b.st.length := by have := b.nAct_eq; omega
  obtain ⟨b'', g1, _, g3, _, g4, g5, g6, g7, g8, _⟩ := nack_WF hwf hi
  obtain ⟨st', k1, _, _, k4, k5, _, k7⟩ := nack_ok hwf hi
  have hb : b'' = b' := by rw [g1] at hr; exact Except.ok.inj hr
  subst hb
  have hst : b''.st = st' := by rw [g1] at k1; exact congrArg Batch.st (Except.ok.inj k1)
  refine ⟨g4, g5, g6, g7, g8, g3, by rw [hst]; exact k4, ?_, ?_, ?_⟩
  · intro k hk
    obtain ⟨p, s, h1, h2, h3⟩ := k5 k hk
    exact ⟨p, s, (phys_iff hwf (by omega)).mpr h1, by rw [hst]; exact h2, h3⟩
  · intro q hq
    rw [hst] at hq ⊢
    obtain ⟨k, p, h1, h2, h3, h4, h5⟩ := nack_changed_extent hwf hi k1 hq
    exact ⟨k, p, h1, (phys_iff hwf (by omega)).mpr h2, h3, h4, h5⟩
  · intro hsp q
    obtain ⟨m1, m2⟩ := k7 hsp q
    rw [hst]
    constructor
    · intro k hk hp
      exact m1 k hk ((phys_iff hwf (by omega)).mp hp)
    · intro hn
      apply m2
      rintro ⟨k, hk, hq⟩
      exact hn ⟨k, hk, (phys_iff hwf (by omega)).mpr hq⟩

/-- C08.mark_hits_right_record — `SetRecords(i, recs)` writes `recs[k]` at the physical index of
active record `i+k` and nowhere else. -/
theorem C08_setRecords_hits_right_record {h : Heap} {b b' : Batch} (hwf : b.WF h) {i : Nat} {recs : List Rec}
    (hi : i + recs.length ≤ b.active.length) (hr : b.setRecords i recs = .ok b') :
    (∀ k : Nat, k < recs.length → ∃ p : Nat, b.phys (i+k) = .ok p ∧ b'.recs[p]? = recs[k]?) ∧
    (∀ q : Nat, (¬ ∃ k : Nat, k < recs.length ∧ b.phys (i+k) = .ok q) → b'.recs[q]? = b.recs[q]?) := by
  rw [active_length hwf.1.st_len hwf.2] at hi
  have hlen : b.nAct ≤ b.st.length := by have := b.nAct_eq; omega
  obtain ⟨out, g1, _, g3, g4⟩ := setRecords_effect hwf hi
  rw [g1] at hr; cases hr
  constructor
  · intro k hk
    obtain ⟨p, h1, h2⟩ := g3 k hk
    exact ⟨p, (phys_iff hwf (by omega)).mpr h1, h2⟩
  · intro q hn
    apply g4
    rintro ⟨k, hk, hq⟩
    exact hn ⟨k, hk, (phys_iff hwf (by omega)).mpr hq⟩

/-! ## C09 `procDo_total`: `ProcessorTask.Do` for any reply -/

/-- C09.procDo_total — "Whatever a plugin returns - fewer, more or zero results, any mix of result
kinds": for a well-formed batch and ANY processor reply `out` (any length, any mix of
Single/Filter/Error/Multi{0,1,n}/nil), `ProcessorTask.Do` returns either `.ok` with a
well-formed batch (in a heap that only grew) or a returned error — never a panic. -/
theorem C09_procDo_total {h : Heap} {b : Batch} (hwf : b.WF h) (out : List PR) :
    (∃ (h' : Heap) (b' : Batch), procDoP h b out = .ok (h', b') ∧ b'.WF h' ∧ h.size ≤ h'.size) ∨
    (∃ e : Err, procDoP h b out = .error (.err e)) :=
  procDoP_total hwf out

/-- C09.procDo_total, as an inequation: no reply makes `ProcessorTask.Do` panic. -/
theorem C09_procDo_never_panics {h : Heap} {b : Batch} (hwf : b.WF h) (out : List PR) (m : String) :
    procDoP h b out ≠ .error (.panic m) := by
  rcases procDoP_total hwf out with ⟨h', b', g, _⟩ | ⟨e, g⟩ <;> rw [g] <;> intro hc <;> cases hc

/-- C09.procDo_total — zero results ("processor didn't return any records") and more results than
records are returned errors. -/
theorem C09_procDo_bad_length (h : Heap) (b : Batch) (out : List PR)
    (hl : out.length = 0 ∨ out.length > b.active.length) : procDoP h b out = .error (.err plainErr) := by
  rcases hl with hl | hl
  · have : out = [] := List.length_eq_zero_iff.mp hl
    subst this; rfl
  · exact procDoP_too_many h b out hl

/-- C09.procDo_total — "returned short so the rest is retried": a reply with fewer results than
records is padded with nil results, and a group of nil results is marked `Retry` as a whole. -/
theorem C09_procDo_short_reply_retries (h : Heap) (b : Batch) (out : List PR) (h0 : out.length ≠ 0)
    (hl : out.length < b.active.length) :
    (padOut b.active.length out).length = b.active.length ∧
    (∀ k : Nat, out.length ≤ k → k < b.active.length → (padOut b.active.length out)[k]? = some PR.nil) ∧
    (∀ k : Nat, k < out.length → (padOut b.active.length out)[k]? = out[k]?) ∧
    procDoP h b out = (do
      (List.range out.length).forM (procCheckStep b out)
      let s ← (List.range (padOut b.active.length out).length).reverse.foldlM
        (procGroupStep (padOut b.active.length out)) ((h, b), (padOut b.active.length out).length)
      pure s.1) ∧
    (∀ (hb : Heap × Batch) (from_ : Nat) (rest : List PR),
      procMarkP hb from_ (PR.nil :: rest) = (do let b' ← hb.2.retry from_ (from_ + (rest.length + 1)); pure (hb.1, b'))) := by
  refine ⟨length_padOut (by omega), ?_, ?_, procDoP_eq h b out h0 (by omega), fun _ _ _ => rfl⟩
  · intro k h1 h2
    unfold padOut
    have : b.active.length > out.length := hl
    simp only [this, if_true]
    rw [List.getElem?_append_right h1]
    have : k - out.length < b.active.length - out.length := by omega
    simp [this]
  · intro k hk
    unfold padOut
    have : b.active.length > out.length := hl
    simp only [this, if_true]
    exact List.getElem?_append_left hk

/-! ## C09 `destDo_total` and C08 `dest_marks_right_record` -/

/-- C09.destDo_total — "unexpected or out-of-order destination acknowledgments, an error from any
call": for a well-formed batch and ANY destination reply (write error or not, any list of ack
responses with any positions / errors / lengths) `DestinationTask.Do` (ack loop +
`markBatchRecords`) never panics: it returns a returned error, or `.ok b'` — and `.ok` only if the
write succeeded and the consumed responses were all ack lists whose concatenation `all` covers
every written (active) record exactly once, in order, each ack matching the position of the
record it is counted for (`validateAcks`). `b'` is well-formed, same records and index map. -/
theorem C09_destDo_total {h : Heap} {b : Batch} (hwf : b.WF h) (werr : Option Err) (resps : List AckResp) :
    (∃ (b' : Batch) (all : List (PosV × Option Err)), destDoP b werr resps = .ok b' ∧ werr = none ∧
        b'.WF h ∧ b'.recs = b.recs ∧ actList b'.st = actList b.st ∧
        all.length = b.active.length ∧
        (∃ k : Nat, (∀ r ∈ resps.take k, ∃ l, r = AckResp.acks l) ∧ all = (resps.take k).flatMap ackList) ∧
        (∀ i : Nat, i < all.length → ∃ a r, all[i]? = some a ∧ b.active[i]? = some r ∧ keyOf a.1 = keyOf r.pos)) ∨
    (∃ e : Err, destDoP b werr resps = .error (.err e)) := by
  rcases destDoP_total hwf werr resps with ⟨b', all, g1, g2, g3, post⟩ | ⟨e, g⟩
  · left
    refine ⟨b', all, g1, g2, post.mark.wf, post.mark.recs, post.mark.act,
      by rw [g3, active_length hwf.1.st_len hwf.2], post.consumed, ?_⟩
    intro i hi
    obtain ⟨a, p, h1, h2, h3⟩ := post.valid i hi
    simp only [Nat.zero_add, List.getElem?_map] at h2
    cases hr : b.active[i]? with
    | none => simp [hr] at h2
    | some r => simp [hr] at h2; exact ⟨a, r, h1, rfl, by rw [h3, ← h2]⟩
  · right; exact ⟨e, g⟩

/-- C09.destDo_total, as an inequation. -/
theorem C09_destDo_never_panics {h : Heap} {b : Batch} (hwf : b.WF h) (werr : Option Err) (resps : List AckResp)
    (m : String) : destDoP b werr resps ≠ .error (.panic m) := by
  rcases destDoP_total hwf werr resps with ⟨b', all, g, _⟩ | ⟨e, g⟩ <;> rw [g] <;> intro hc <;> cases hc

/-- the ack loop alone (`destAckLoop` from any `ackCount ≤ len(positions)`, any fuel) never panics. -/
theorem C09_destAckLoop_never_panics {h : Heap} {b : Batch} (hwf : b.WF h) (positions : List PosV) (fuel : Nat)
    (hpos : positions.length ≤ b.active.length) (ackCount : Nat) (hac : ackCount ≤ positions.length)
    (resps : List AckResp) (m : String) : destAckLoop positions fuel b ackCount resps ≠ .error (.panic m) := by
  rw [active_length hwf.1.st_len hwf.2] at hpos
  rcases destAckLoop_total positions fuel hwf hpos ackCount hac resps with ⟨b', n, all, g, _⟩ | ⟨e, g⟩ <;>
    rw [g] <;> intro hc <;> cases hc

/-- C08.dest_marks_right_record — when `DestinationTask.Do` returns `.ok b'` with consumed acks
`all` (one per active record, see `C09_destDo_total`): every record whose ack carried an error is
flagged nack in `b'`; a status only ever changes into a nack; filtered records are untouched.
If the batch holds no split records the marking is exact: the record of active index `i` gets
`(nack, e)` iff `all[i]` carried the error `e`, every other status is unchanged. -/
theorem C08_dest_marks_right_record {h : Heap} {b b' : Batch} (hwf : b.WF h) {werr : Option Err} {resps : List AckResp}
    (hr : destDoP b werr resps = .ok b') :
    ∃ all : List (PosV × Option Err), all.length = b.active.length ∧
      (∃ k : Nat, all = (resps.take k).flatMap ackList) ∧
      (∀ (i : Nat) (ap : PosV) (e : Err) (p : Nat), all[i]? = some (ap, some e) → b.phys i = .ok p →
          ∃ s, b'.st[p]? = some s ∧ s.flag = .nack) ∧
      (∀ q : Nat, b'.st[q]? ≠ b.st[q]? → ∃ s, b'.st[q]? = some s ∧ s.flag = .nack) ∧
      (∀ (q : Nat) (s : Status), b.st[q]? = some s → s.flag = .filter → b'.st[q]? = some s) ∧
      (b.split = [] → ∀ q : Nat,
          (∀ (i : Nat) (ap : PosV) (e : Err), all[i]? = some (ap, some e) → b.phys i = .ok q →
              b'.st[q]? = some { flag := .nack, err := some e }) ∧
          ((¬ ∃ (i : Nat) (ap : PosV) (e : Err), all[i]? = some (ap, some e) ∧ b.phys i = .ok q) →
              b'.st[q]? = b.st[q]?)) := by
  have hlen : b.nAct ≤ b.st.length := by have := b.nAct_eq; omega
  rcases destDoP_total hwf werr resps with ⟨b'', all, g1, _, g3, post⟩ | ⟨e, g⟩
  · rw [g1] at hr; cases hr
    have hphys : ∀ {i p : Nat}, i < all.length → (b.phys i = .ok p ↔ (actList b.st)[0 + i]? = some p) := by
      intro i p hi; rw [Nat.zero_add]; exact phys_iff hwf (by omega)
    have hlt : ∀ {i : Nat} {a : PosV × Option Err}, all[i]? = some a → i < all.length :=
      fun hi => (List.getElem?_eq_some_iff.mp hi).1
    refine ⟨all, by rw [g3, active_length hwf.1.st_len hwf.2], ?_, ?_, post.mark.weak.2.1, post.mark.weak.2.2, ?_⟩
    · obtain ⟨k, _, hk⟩ := post.consumed; exact ⟨k, hk⟩
    · intro i ap e p hi hp
      exact post.mark.weak.1 p e ⟨i, ap, hlt hi, (hphys (hlt hi)).mp hp, hi⟩
    · intro hsp q
      obtain ⟨m1, m2⟩ := post.mark.marked hsp q
      constructor
      · intro i ap e hi hp
        exact m1 e ⟨i, ap, hlt hi, (hphys (hlt hi)).mp hp, hi⟩
      · intro hn
        apply m2
        rintro ⟨e, i, ap, hi, hq, ha⟩
        exact hn ⟨i, ap, e, ha, (hphys hi).mpr hq⟩
  · rw [g] at hr; cases hr

/-! ## the same, for the monadic model functions (script + event log + heap state) -/

theorem popReplyP_heap (s : PS) (task : Nat) : (popReplyP s task).2.heap = s.heap := by
  unfold popReplyP
  split <;> rfl

/-- C09.procDo_total for the model's `procDo` itself (`M = ExceptT Stop (StateM PS)`): whatever
reply the script holds for the task (including none), running `ProcessorTask.Do` on a batch that
is well-formed in the current heap ends in `.ok` with a batch well-formed in the new heap, or in
a returned error — never in a panic. -/
theorem C09_procDo_model_total (task : Nat) (b : Batch) (s : PS) (hwf : b.WF s.heap) :
    (∃ (b' : Batch) (s' : PS), (procDo task b).run.run s = (.ok b', s') ∧ b'.WF s'.heap ∧
        s.heap.size ≤ s'.heap.size) ∨
    (∃ (e : Err) (s' : PS), (procDo task b).run.run s = (.error (.err e), s')) := by
  obtain ⟨hp, h1, h2⟩ := procDo_eq_model task b s
  simp only at h1 h2
  have hheap := popReplyP_heap { s with log := s.log.push (.pcall task b.active) } task
  have hwf' : b.WF (popReplyP { s with log := s.log.push (.pcall task b.active) } task).2.heap := by
    rw [hheap]; exact hwf
  rcases procDoP_total hwf' (procOut (popReplyP { s with log := s.log.push (.pcall task b.active) } task).1) with
    ⟨h', b', g1, g2, g3⟩ | ⟨e, g1⟩
  · left
    have := h2 h' b' g1
    subst this
    rw [g1] at h1
    exact ⟨b', _, h1, g2, by rw [hheap] at g3; exact g3⟩
  · right
    rw [g1] at h1
    exact ⟨e, _, h1⟩

/-- C09.destDo_total for the model's `destDo` itself (regular destination or the DLQ
destination): `.ok` with a well-formed batch (heap untouched) or a returned error, never a panic. -/
theorem C09_destDo_model_total (task : Nat) (b : Batch) (info : Option (List (Rec × Option Err × Nat))) (s : PS)
    (hwf : b.WF s.heap) :
    (∃ (b' : Batch) (s' : PS), (destDo task b info).run.run s = (.ok b', s') ∧ b'.WF s'.heap ∧ s'.heap = s.heap) ∨
    (∃ (e : Err) (s' : PS), (destDo task b info).run.run s = (.error (.err e), s')) := by
  rw [destDo_eq_model]
  simp only
  generalize hs0 : ({ s with log := s.log.push (match info with | none => Ev.write task b.active | some i => Ev.dlqw task i) } : PS) = s0
  have hheap : (popReplyP s0 task).2.heap = s.heap := by rw [popReplyP_heap, ← hs0]
  rcases C09_destDo_total hwf (destReply (popReplyP s0 task).1).1 (destReply (popReplyP s0 task).1).2 with
    ⟨b', all, g1, _, g2, _⟩ | ⟨e, g1⟩
  · left; exact ⟨b', _, by rw [g1], by rw [hheap]; exact g2, hheap⟩
  · right; exact ⟨e, _, by rw [g1]⟩

/-! ## C09 `retry_terminates` -/

/-- C09.retry_terminates — one accepted retry round (`nextRetry` mirrors the `RecordFlagRetry`
branch of `doTaskAttempt`): the count strictly increases and stays `≤ maxRetryAttempts`, the
stall counter stays `< maxRetryStall`, it is incremented on a non-shrinking round and reset
ONLY by a strictly smaller sub-batch. -/
theorem C09_retry_round {r n : RetryAttempt} {size : Nat} (hn : nextRetry (some r) size = .ok n) :
    n.count = r.count + 1 ∧ n.size = size ∧ n.count ≤ maxRetryAttempts ∧ n.stall < maxRetryStall ∧
      (r.size ≤ size → n.stall = r.stall + 1) ∧ (size < r.size → n.stall = 0) :=
  nextRetry_some_ok hn

/-- C09.retry_terminates — "bounded retry (CodeRetryNotConverging)": any chain of nested retries
(each round accepted by `nextRetry` from the attempt record of the round before) has at most
`maxRetryAttempts` rounds — `maxRetryAttempts + 1` attempts counting the first, non-retry one —
and never contains `maxRetryStall` consecutive non-shrinking rounds. So the retry recursion of
`doTaskAttempt` terminates: the measure `maxRetryAttempts - count` strictly decreases. -/
theorem C09_retry_terminates (sizes : List Nat) (hc : retryChain none sizes = true) :
    sizes.length ≤ maxRetryAttempts ∧
    ∀ t : Nat, t + maxRetryStall < sizes.length →
      ∃ u : Nat, u < maxRetryStall ∧ (sizes[t+u+1]?.getD 0) < (sizes[t+u]?.getD 0) := by
  constructor
  · rcases retryChain_length hc with h | h
    · simpa using h
    · subst h; simp [maxRetryAttempts]
  · intro t ht
    obtain ⟨r', h1, h2, h3⟩ := retryChain_drop hc t (by omega)
    -- otherwise `maxRetryStall` consecutive non-shrinking rounds follow round `t`
    apply Classical.byContradiction
    intro hcon
    have hall : ∀ u : Nat, u < maxRetryStall → (sizes[t+u]?.getD 0) ≤ (sizes[t+u+1]?.getD 0) := by
      intro u hu
      apply Classical.byContradiction
      intro hlt
      exact hcon ⟨u, hu, by omega⟩
    have := retryChain_stall h3 maxRetryStall (by simp; omega) (by
      intro u hu
      have hu' := hall u hu
      by_cases h0 : u = 0
      · subst h0
        simp only [if_true, List.getElem?_drop]
        have e1 : sizes[t]?.getD 0 = sizes[t] := by simp [show t < sizes.length by omega]
        simp only [Nat.add_zero] at hu'
        rw [h1, ← e1]; simpa [Nat.add_comm, Nat.add_assoc] using hu'
      · simp only [h0, if_false, List.getElem?_drop]
        have e2 : t + 1 + (u - 1) = t + u := by omega
        have e3 : t + 1 + u = t + u + 1 := by omega
        rw [e2, e3]; exact hu')
    simp [maxRetryStall] at this
    omega

/-! ## non-vacuity: concrete batches satisfying the hypotheses -/
namespace Ex

def sA : Status := {}
def sF : Status := { flag := .filter }
def e1 : Err := { script := some 1 }
def e2 : Err := { script := some 2 }

/-- run 0: the record at position 5 was split into three pieces -/
def h0 : Heap := #[{ origPos := some 5, origRec := ⟨1, some 5⟩, total := 3 }]

/-- `x1 x2 x3` are the pieces of run 0 (`x2` filtered by a later processor), `y` and `z` are
ordinary records, `z` filtered: 5 physical records, 3 active (`x1`, `x3`, `y`). -/
def b0 : Batch where
  recs := [⟨10, some 5⟩, ⟨11, some 5⟩, ⟨12, some 5⟩, ⟨2, some 9⟩, ⟨3, some 7⟩]
  st := [sA, sF, sA, sA, sF]
  pos := [some 5, none, none, some 9, some 7]
  runs := some [some 0, some 0, some 0, none, none]
  filterCount := 2
  split := [(5, ⟨1, some 5⟩)]

example : b0.WF h0 := by decide
example : b0.active = [⟨10, some 5⟩, ⟨12, some 5⟩, ⟨2, some 9⟩] := by decide
example : actList b0.st = [0, 2, 3] := by decide
example : (Batch.new [⟨1, some 5⟩, ⟨2, none⟩]).WF #[] := by decide
-- `SetRecords` across a filtered record: two contiguous blocks `[0]`, `[2,3]`
example : (b0.setRecords 0 [⟨20, none⟩, ⟨21, none⟩, ⟨22, none⟩]).toOption.map (·.recs) =
    some [⟨20, none⟩, ⟨11, some 5⟩, ⟨21, none⟩, ⟨22, none⟩, ⟨3, some 7⟩] := by decide
-- `Nack` of `x3` (active 1) spreads over the run but leaves the filtered piece `x2` filtered
example : (b0.nack 1 [some e1]).toOption.map (fun b => (b.st.map (·.flag), b.filterCount)) =
    some ([.nack, .filter, .nack, .ack, .filter], 2) := by decide
-- a tail piece (nil position) is splittable through its run; `y` through its position
example : b0.splittableAt 2 = true ∧ b0.splittableAt 3 = true := by decide
example : ((b0.splitRecord h0 1 [⟨30, none⟩, ⟨31, none⟩]).toOption.map fun hb => (hb.2.pos, hb.2.runs, hb.1.size)) =
    some ([some 5, none, none, none, some 9, some 7], some [some 0, some 0, some 0, some 0, none, none], 1) := by decide
example : ((b0.splitRecord h0 1 [⟨30, none⟩, ⟨31, none⟩]).toOption.map fun hb => decide (hb.2.WF hb.1)) = some true := by
  decide
-- a processor reply shorter than the batch (split `x1`, error on `x3`, `y` not returned ⇒ retry):
-- ok, well-formed, tainted; the new piece is inserted after `x1` with the default flag
example : ((procDoP h0 b0 [.multi [⟨40, none⟩, ⟨41, none⟩], .error none]).toOption.map fun hb =>
    (decide (hb.2.WF hb.1), hb.2.tainted, hb.2.st.map (·.flag))) =
    some (true, true, [.nack, .ack, .filter, .nack, .retry, .filter]) := by decide
-- the destination answers in two responses; the second nack lands on `y` (physical 3)
example : ((destDoP b0 none [.acks [(some 5, some e1)], .acks [(some 5, none), (some 9, some e2)]]).toOption.map
    fun b => b.st.map (fun s => (s.flag, s.err.bind (·.script)))) =
    some [(.nack, some 1), (.filter, none), (.nack, some 1), (.nack, some 2), (.filter, none)] := by decide
-- an ack for a wrong position / too many acks / an exhausted stream are returned errors
example : (destDoP b0 none [.acks [(some 6, none)]]).toOption.isNone = true := by decide
example : (destDoP b0 none []).toOption.isNone = true := by decide
-- retry chains: shrinking sizes are accepted, three non-shrinking rounds in a row are refused
example : retryChain none [5, 4, 4, 4, 3, 3, 3] = true := by decide
example : retryChain none [5, 5, 5, 5] = false := by decide

end Ex

end Conduit.Funnel
