import ConduitModel.Proofs.StreamPipe
import ConduitModel.Proofs.StreamMonitor

/-
C01 (default engine) — property theorems.

"A source connector is told that a record is acknowledged only after every destination of the
pipeline has positively confirmed every record derived from it, or the record was confirmed
written to the dead-letter queue, or a processor filtered it out … for any number of sources,
destinations and processors, and whether or not the pipeline later fails or is stopped."
-/
namespace Conduit.Props
open Conduit.Stream

/-- C01 for the v1 engine: for EVERY topology (any number of sources, destinations, processor
chains and parallel workers), EVERY plugin reply script and EVERY interleaving — i.e. every event
list the pipeline model can perform, of any length; a stop or failure is just a shorter list —
the C01 monitor holds of the trace of observable events: each `Source.Ack` call for `(s,i)` is
preceded, for every destination `d`, by a positive acknowledgment of `(s,i)` from `d` or by a
FilterRecord for `(s,i)` on the way to `d`, or it is preceded by the DLQ plugin's confirmation of
`(s,i)`. The trace of the model is exactly what the fake plugins of the harness record
(`C01_v1_log_is_trace`), and the same function `monC01` is evaluated on every recorded trace. -/
theorem C01_v1_source_ack_justified (τ : Topo) (size thr : Nat) (evs : List Ev) (p : Pipe)
    (h : Pipe.run τ (Pipe.init τ size thr) evs = some p) : monC01 τ.nDst p.ack.log = true := by
  have ha := (pipe_run_proj evs h).2
  have hI := ainv_reach τ.nDst size thr evs p.ack ha
  have hm := hI.2.2.2.2.2.2.2.2.2.2.2.2.2.2
  have hM := run_M evs ha
  simpa [hM, Ack.init, Pipe.init] using hm

/-- the same, for the Ack component alone (more behaviours than the product: it holds whatever
the data path does). -/
theorem C01_v1_ack_component (M size thr : Nat) (evs : List Ev) (a : Ack)
    (h : Ack.run (Ack.init M size thr) evs = some a) : monC01 M a.log = true := by
  have hI := ainv_reach M size thr evs a h
  have hm := hI.2.2.2.2.2.2.2.2.2.2.2.2.2.2
  have hM := run_M evs h
  simpa [hM, Ack.init] using hm

/-- the log the monitors judge is the list of observable events of the run, newest first. -/
theorem C01_v1_log_is_trace (τ : Topo) (size thr : Nat) (evs : List Ev) (p : Pipe)
    (h : Pipe.run τ (Pipe.init τ size thr) evs = some p) :
    p.ack.log = (evs.filter Ev.observable).reverse := by
  have := run_log evs (pipe_run_proj evs h).2
  simpa [Pipe.init, Ack.init] using this

/-- C01 spelled out: at the moment of ANY source ack (`pre` = everything observed before it),
every destination has confirmed the record or a processor filtered it out on the way there — or
the DLQ has confirmed it. -/
theorem C01_v1_every_ack_event (τ : Topo) (size thr : Nat) (evs : List Ev) (p : Pipe)
    (h : Pipe.run τ (Pipe.init τ size thr) evs = some p)
    (post pre : List Ev) (s i : Nat) (r : SRes) (hl : p.ack.log = post ++ Ev.sack s i r :: pre) :
    (∀ d, d < τ.nDst → dackOkIn pre d s i = true ∨ filtIn pre d s i = true) ∨ dlqaOkIn pre s i = true := by
  have hm := C01_v1_source_ack_justified τ size thr evs p h
  rw [hl] at hm
  have := monC01_suffix _ _ _ hm
  simp only [monC01, Bool.and_eq_true] at this
  have hj := this.2
  unfold justified at hj
  rcases Bool.or_eq_true_iff.mp hj with hj | hj
  · left
    intro d hd
    rw [List.all_eq_true] at hj
    have := hj d (by simpa using hd)
    simpa using this
  · exact Or.inr hj

/-- C01, the fan-out arbiter: the original message is acked (its ack handler may run) only when
every destination branch acked its clone — for every vote order and every number of branches. -/
theorem C01_v1_fanout_unanimous (M size thr : Nat) (evs : List Ev) (a : Ack)
    (h : Ack.run (Ack.init M size thr) evs = some a) (s i : Nat) (ho : a.ost s i = .acked) :
    a.fanned s i = true ∧ a.rem s i = 0 ∧ ∀ d, d < M → (a.cl s i)[d]? = some .acked := by
  have hI := ainv_reach M size thr evs a h
  have hM : a.M = M := by simpa [Ack.init] using run_M evs h
  obtain ⟨j0, j1, j2, _⟩ := hI.2.2.2.2
  obtain ⟨hf, hr⟩ := j2 s i ho
  refine ⟨hf, hr, ?_⟩
  have hlen := j0 s i hf
  have hcnt := j1 s i hf
  have hall := List.count_eq_length.mp (by omega : (a.cl s i).count .acked = (a.cl s i).length)
  intro d hd
  rw [List.getElem?_eq_getElem (by omega)]
  have := hall ((a.cl s i)[d]'(by omega)) (List.getElem_mem _)
  simp [← this]

/-! non-vacuity: a run with two destinations in which the source is acked, and one in which a
nack from one destination sends the record to the DLQ first -/

def exTopo : Topo := { nDst := 2, srcLen := fun _ => 2, plLen := 1, dstLen := fun _ => 2, jobs := fun _ _ => false }

def exRunAck : List Ev :=
  [.read 0, .enq 0 0, .mv (.src 0) 1 0 0, .fan 0 0, .fdeliver 1, .fdeliver 0,
   .mv (.dst 0) 0 0 0, .mv (.dst 1) 0 0 0, .write 1 0 0 true, .write 0 0 0 true,
   .dreply 0 [(some (0, 0), true)], .dreply 1 [(some (0, 0), true)], .sack 0 0 .ok, .winAck 0]

def exRunDlq : List Ev :=
  [.read 0, .enq 0 0, .mv (.src 0) 1 0 0, .fan 0 0, .fdeliver 1, .fdeliver 0,
   .mv (.dst 0) 0 0 0, .mv (.dst 1) 0 0 0, .write 1 0 0 true, .write 0 0 0 true,
   .dreply 0 [(some (0, 0), false)], .dlqw 0 0 true, .dlqa 0 0 true, .sack 0 0 .ok]

example : ((Pipe.run exTopo (Pipe.init exTopo 0 0) exRunAck).map fun p => sackIn p.ack.log 0 0) = some true := by
  decide
example : ((Pipe.run exTopo (Pipe.init exTopo 0 0) exRunDlq).map fun p => sackIn p.ack.log 0 0) = some true := by
  decide
/-- the model refuses the unjustified ack: one destination has not confirmed yet. -/
example : (Pipe.run exTopo (Pipe.init exTopo 0 0) (exRunAck.take 11 ++ [.sack 0 0 .ok])).isNone = true := by
  decide

end Conduit.Props
