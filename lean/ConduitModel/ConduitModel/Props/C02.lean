import ConduitModel.Proofs.SrcAckStep
import ConduitModel.Proofs.SrcAckMon

/-!
# C02 — source position durable before the connector is told, and only moves forward

Statement (properties.jsonl C02): "A source connector plugin receives the acknowledgment for a
position only after a store commit that contains that position (or a later one of the same
source) has succeeded; if the store write or commit fails, no acknowledgment covered only by
that write is ever sent. The position stored for a source only ever advances in read order - it
never goes backwards or becomes empty - and at every commit all records at or before the stored
position have been handled downstream."

Quantifier: every event list of M3 (`Reach c s` = ∃ event list from `init`), i.e. every sequence of
engine acks, every timing of debounce / bundle / forced flushes and of commit completion, every
order of flush callbacks and delivery-goroutine steps, every transient send failure, every store
Set / Commit / NewTransaction failure, teardown anywhere, crashes and restarts anywhere; every
configuration `c` (retry bound, bundle threshold, both code shapes of F11/F12).

`a.seq` is the (ghost, global) number of the `Source.Ack` call; `Stored.seq` the number of the
call whose state a store value holds. `s.commits` is the history of successful commits.
-/
namespace Conduit.SrcAck

/-- C02(i) — "receives the acknowledgment for a position only after a store commit that contains
that position (or a later one of the same source) has succeeded": in every reachable state every
ack the plugin has received is covered by the committed store. -/
theorem C02_delivered_implies_durable (c : Cfg) (s : St) (h : Reach c s) :
    ∀ a ∈ s.delivered, a.seq ≤ s.store.seq :=
  fun a ha => (inv_reach h).outLe a (Or.inr ha)

/-- C02(i), happened-before form: the successful commit covering a delivered ack is in the commit
history of the very state in which the delivery took place (histories are append-only,
`step_commits` / `step_delivered`): the commit precedes the delivery. -/
theorem C02_delivered_after_commit (c : Cfg) (s : St) (h : Reach c s) :
    ∀ a ∈ s.delivered, ∃ x ∈ s.commits, a.seq ≤ x.seq := by
  intro a ha
  have hi := inv_reach h
  have hle := hi.outLe a (Or.inr ha)
  have hpos := (hi.allLe a (Or.inl ha)).2
  rcases hi.commitsLast with hn | hs
  · have : s.commits = [] := by simpa using hn
    have := hi.commitsNone this
    omega
  · exact ⟨s.store, List.mem_of_getLast? hs, hle⟩

/-- C02(i) for what is merely queued for delivery: an ack is handed to the delivery goroutine
only when it is already durable. -/
theorem C02_queued_implies_durable (c : Cfg) (s : St) (h : Reach c s) :
    ∀ a ∈ s.deferred, a.seq ≤ s.store.seq :=
  fun a ha => (inv_reach h).outLe a (Or.inl ha)

/-- C02(iii) — "if the store write or commit fails, no acknowledgment covered only by that write is
ever sent": whatever flushes failed, an ack not covered by a *successful* commit is neither
delivered nor queued for delivery. -/
theorem C02_failed_flush_never_acks (c : Cfg) (s : St) (h : Reach c s) (a : AckRec)
    (hcov : s.store.seq < a.seq) : a ∉ s.delivered ∧ a ∉ s.deferred := by
  have hi := inv_reach h
  constructor
  · intro ha; have := hi.outLe a (Or.inr ha); omega
  · intro ha; have := hi.outLe a (Or.inl ha); omega

/-- C02(iii), step form: a failed flush (NewTransaction, Set or Commit) changes neither the store
nor what is delivered / queued / considered durable. -/
theorem C02_failed_flush_changes_nothing (c : Cfg) (s s' : St) (r : FlushRes) (hr : r ≠ .ok)
    (h : step c s (.flushRes r) = some s') :
    s'.store = s.store ∧ s'.delivered = s.delivered ∧ s'.deferred = s.deferred ∧
    s'.durable = s.durable ∧ s'.pending = s.pending ∧ s'.commits = s.commits := by
  simp only [step] at h
  split at h
  · split at h
    · cases r with
      | ok => exact absurd rfl hr
      | setFail => simp only at h; injection h with h; subst h; exact ⟨rfl, rfl, rfl, rfl, rfl, rfl⟩
      | commitFail => simp only at h; injection h with h; subst h; exact ⟨rfl, rfl, rfl, rfl, rfl, rfl⟩
      | txFail => simp only at h; injection h with h; subst h; exact ⟨rfl, rfl, rfl, rfl, rfl, rfl⟩
    · simp at h
  · simp at h

/-- C02(iii): the callback of a failed generation (`onPersistFlushed(seq, err)`) releases nothing. -/
theorem C02_failed_callback_releases_nothing (c : Cfg) (s s' : St) (i : Nat) (g : Gen)
    (hg : s.gens[i]? = some g) (hf : g.stat = .failed) (h : step c s (.callback i) = some s') :
    s'.deferred = s.deferred ∧ s'.durable = s.durable ∧ s'.pending = s.pending ∧ s'.delivered = s.delivered := by
  simp only [step, hg] at h
  split at h
  · simp only [hf] at h
    injection h with h; subst h; exact ⟨rfl, rfl, rfl, rfl⟩
  · simp at h

/-- C02(ii) — "never goes backwards or becomes empty": one step never lowers the sequence number
held by the committed store and never turns a stored position into none. -/
theorem C02_store_monotone (c : Cfg) (s s' : St) (e : Ev) (h : Reach c s) (hs : step c s e = some s') :
    s.store.seq ≤ s'.store.seq ∧ (s.store.pos.isSome = true → s'.store.pos.isSome = true) := by
  have hi := inv_reach h
  rcases step_store hs with heq | ⟨g, hg, hw, heq, _⟩
  · rw [heq]; exact ⟨Nat.le_refl _, id⟩
  · rw [heq]
    rw [getLast?_eq_idx] at hg
    have hle := (hi.gensWr _ g hg hw).1
    refine ⟨hle, fun hp => ?_⟩
    have h0 : 0 < s.store.seq := hi.psStore.mp hp
    exact (hi.psGens _ g hg).mpr (by omega)

/-- C02(ii) over whole runs: the history of successful commits is non-decreasing. -/
theorem C02_commit_history_monotone (c : Cfg) (s : St) (h : Reach c s) :
    s.commits.Pairwise (fun x y => x.seq ≤ y.seq) :=
  (inv_reach h).commitsSorted

/-- C02(iv) (shared with C04) — FIFO, no repeat: the acks the plugin received are strictly
increasing in Ack-call order. -/
theorem C02_delivered_fifo (c : Cfg) (s : St) (h : Reach c s) :
    s.delivered.Pairwise (fun a b => a.seq < b.seq) :=
  (List.pairwise_append.mp (inv_reach h).chain).1

/-- C02(iv) — no gap: as long as the delivery goroutine did not have to drop an ack (retries
exhausted / stream torn down), what the plugin received in this incarnation followed by what is
queued (for delivery, dropped at close, awaiting durability) is exactly the sequence of Ack calls:
the delivered acks are a gap-free prefix. -/
theorem C02_delivered_prefix (c : Cfg) (s : St) (h : Reach c s) (hnd : s.droppedG = []) :
    s.deliveredI ++ (s.deferred ++ (s.dropped ++ s.pending)) = s.ackedI :=
  (inv_reach h).prefixI hnd

/-- C02(v) — "at every commit all records at or before the stored position have been handled
downstream", given the engine-side hypothesis (C01/C04: what the engine acks is justified and in
read order, `ReachO`): every record at or before the committed position — and at or before every
position ever committed — has been handed to `Source.Ack`. -/
theorem C02_stored_position_handled (c : Cfg) (s : St) (h : ReachO c s) :
    (∀ r : Nat, 1 ≤ r → r ≤ s.store.posN → r ∈ s.handled) ∧
    (∀ x ∈ s.commits, ∀ r : Nat, 1 ≤ r → r ≤ x.posN → r ∈ s.handled) := by
  have hi := (invO_reach h).1
  exact ⟨hi.covStore, fun x hx r h1 h2 => hi.covStore r h1 (Nat.le_trans h2 (hi.commitsPos x hx))⟩

/-- C02(ii) in read order: under the same hypothesis the committed *position* (read index) never
decreases, over single steps and over the whole commit history. -/
theorem C02_stored_position_monotone (c : Cfg) (s s' : St) (e : Ev) (h : ReachO c s)
    (hs : step c s e = some s') : s.store.posN ≤ s'.store.posN := by
  have ⟨hi, hv⟩ := invO_reach h
  rcases step_store hs with heq | ⟨g, hg, hw, heq, _⟩
  · rw [heq]; exact Nat.le_refl _
  · rw [heq]
    rw [getLast?_eq_idx] at hg
    exact hi.gensWrPos _ g hg hw

theorem C02_commit_positions_monotone (c : Cfg) (s : St) (h : ReachO c s) :
    s.commits.Pairwise (fun x y => x.posN ≤ y.posN) :=
  (invO_reach h).1.commitsPosSorted

/-- C02(i) in positions: under the hypothesis, no position the plugin was told is past the
committed position. -/
theorem C02_delivered_positions_durable (c : Cfg) (s : St) (h : ReachO c s) :
    ∀ a ∈ s.delivered, ∀ p : Nat, p ∈ a.ps → p ≤ s.store.posN :=
  fun a ha => (invO_reach h).1.outPos a (Or.inr ha)

/-- The monitor evaluated on implementation traces (`Spec/SrcAck.lean`, `holds`) is sound for the
model — PARTIAL: for the durability clauses. Along every hypothesis-respecting run of M3 (any event
list: faults, crashes, restarts, teardown anywhere), the monitor fed with the observations the run
emits (`traceO`: Ack calls, commits with their stored position, delivered ack messages, reopen
positions, …) never raises `C02:ack-delivered-before-durable`, `C02:store-went-backwards`,
`C02:store-became-empty`, `C03:stored-position-past-unhandled-record`,
`C03:snapshot-reopens-at-other-position` or `C03:reopened-at-other-than-stored-position`.
So a trace of the implementation that the model accepts cannot trip these clauses.

Full goal (not proved as one statement): `holds strict (traceO c init evs) = true`, i.e. also the
ordering / prefix clauses (`C02:ack-repeated-or-out-of-order`, `C04:ack-sequence-gap`, which hold
when `c.stopAfterDrop` or nothing was dropped: `C02_delivered_fifo`, `C02_delivered_prefix`) and the
C06 clauses (healthy runs: `C06_stop_drained`, `C06_teardown_exactly_once`). What is missing is the
simulation between the monitor's per-incarnation lists and `deliveredI`/`ackedI`. -/
theorem C02_monitor_sound_partial (c : Cfg) (strict : Bool) (evs : List Ev) :
    ∀ w, (monRun strict (traceO c init evs)).bad = some w → coreBad w = false :=
  mon_run strict evs init {} invO_init inv_init
    ⟨rfl, by intro r hr; simp [init] at hr⟩ (by intro w hw; simp at hw)

/-! ### Non-vacuity: the hypotheses are satisfiable and the interesting paths are reachable -/

def cfg0 : Cfg := { maxRetries := 3, bundleThr := 0, txFailCallbacks := false, stopAfterDrop := false }

/-- ack, flush, commit, callback, deliver: the plugin is told position 2 after commit of 2. -/
example : (run cfg0 init [.ack [1, 2], .trigger, .flushRes .ok, .callback 0, .deliver true]).map
    (fun s => (s.delivered.map (·.ps), s.store.pos, s.commits.length)) = some ([[1, 2]], some 2, 1) := by decide

/-- a failed Set: nothing is delivered, the store stays empty, the ack stays pending. -/
example : (run cfg0 init [.ack [1], .trigger, .flushRes .setFail, .callback 0]).map
    (fun s => (s.delivered.length, s.deferred.length, s.pending.length, s.store.pos)) = some (0, 0, 1, none) := by decide

/-- … and a later successful flush covers it (out-of-order callbacks included). -/
example : (run cfg0 init [.ack [1], .trigger, .flushRes .commitFail, .ack [2], .trigger, .flushRes .ok,
    .callback 1, .callback 0, .deliver true, .deliver true]).map
    (fun s => (s.delivered.map (·.ps), s.store.pos)) = some ([[1], [2]], some 2) := by decide

/-- the monitor does fire on a trace that violates the clause (it is not vacuously quiet) -/
example : (monRun false [.ack [1], .sack [1]]).bad = some "C02:ack-delivered-before-durable" := by decide

/-- … and stays quiet on the observations of a correct run -/
example : holds false (traceO cfg0 init [.ack [1, 2], .trigger, .flushRes .ok, .callback 0, .deliver true]) = true := by
  decide

/-- the read-order hypothesis is satisfiable (and is what the harness generates) -/
example : (runO cfg0 init [.ack [1, 2], .ack [3], .trigger, .flushRes .ok]).isSome = true := by decide

end Conduit.SrcAck
