import ConduitModel.Model.FlushBatch

/-!
# C02 for a batch of several connectors sharing one persister flush

"if the store write or commit fails, no acknowledgment covered only by that write is ever sent": the
persister flushes the states of ALL connectors that changed in ONE transaction and hands every
connector's callback the same error. For every batch (any number of connectors), every iteration
order (the batch is a Go map) and every per-key store outcome, with the loop shape of the code
(`Shape.keep`, regenerated fact `flushNowLoopKeepsFailure`, Facts/C02):
-/
namespace Conduit.FlushBatch

theorem loop_keep_err : ∀ (b : List Entry) (err : Bool) (w : List Nat),
    (loop .keep err w b).1 = (err || b.any (fun e => !e.2))
  | [], err, w => by simp [loop]
  | (id, ok) :: rest, err, w => by
    simp only [loop, List.any_cons]
    rw [loop_keep_err rest]
    cases err <;> cases ok <;> simp

theorem loop_written : ∀ (sh : Shape) (b : List Entry) (err : Bool) (w : List Nat),
    (loop sh err w b).2 = w ++ (b.filter (·.2)).map (·.1)
  | _, [], err, w => by simp [loop]
  | sh, (id, ok) :: rest, err, w => by
    cases sh <;> cases ok <;> simp [loop, loop_written _ rest]

/-- C02 `batch_commit_only_if_every_store_ok`: the transaction is committed only if the store write
of EVERY connector of the batch succeeded (and the commit itself did). -/
theorem C02_batch_commit_only_if_every_store_ok (batch : List Entry) (commitOk : Bool)
    (h : (flushNow .keep batch commitOk).committed = true) :
    (∀ e ∈ batch, e.2 = true) ∧ commitOk = true := by
  simp only [flushNow, loop_keep_err, Bool.false_or, Bool.and_eq_true, Bool.not_eq_true',
    List.any_eq_false] at h
  exact ⟨fun e he => by simpa using h.1 e he, h.2⟩

/-- … and then it contains the state of every connector of the batch. -/
theorem C02_batch_commit_contains_every_connector (batch : List Entry) (commitOk : Bool)
    (h : (flushNow .keep batch commitOk).committed = true) :
    ∀ e ∈ batch, e.1 ∈ (flushNow .keep batch commitOk).contents := by
  have hall := (C02_batch_commit_only_if_every_store_ok batch commitOk h).1
  intro e he
  have hc : (flushNow .keep batch commitOk).contents = (loop .keep false [] batch).2 := by
    simp only [flushNow] at h ⊢
    simp [h]
  rw [hc, loop_written]
  simp only [List.nil_append, List.mem_map, List.mem_filter]
  exact ⟨e, ⟨he, hall e he⟩, rfl⟩

/-- C02 `batch_callbacks_nil_iff_committed`: the callbacks are told "durable" (nil) exactly when the
transaction was committed. -/
theorem C02_batch_callbacks_nil_iff_committed (sh : Shape) (batch : List Entry) (commitOk : Bool) :
    (flushNow sh batch commitOk).cbNil = true ↔ (flushNow sh batch commitOk).committed = true := by
  simp [flushNow]

/-- C02 `batch_failed_connector_never_acked`: if the store write of any connector of the batch fails,
NO callback of the batch gets nil — so no source of the batch (in particular not the failed one)
releases an ack for this flush (`Source.onPersistFlushed(seq, err)` returns without touching its
queues, M3 `C02_failed_callback_releases_nothing`), whatever the iteration order. -/
theorem C02_batch_failed_connector_never_acked (batch : List Entry) (commitOk : Bool) (id : Nat)
    (h : (id, false) ∈ batch) :
    (flushNow .keep batch commitOk).cbNil = false ∧ (flushNow .keep batch commitOk).committed = false := by
  have : (flushNow .keep batch commitOk).committed = false := by
    cases hc : (flushNow .keep batch commitOk).committed with
    | false => rfl
    | true => have := (C02_batch_commit_only_if_every_store_ok batch commitOk hc).1 _ h; simp at this
  exact ⟨by simpa [flushNow] using this, this⟩

/-- the outcome does not depend on the iteration order (the batch is a Go map) -/
theorem C02_batch_outcome_order_independent (b1 b2 : List Entry) (commitOk : Bool) (hp : b1.Perm b2) :
    (flushNow .keep b1 commitOk).committed = (flushNow .keep b2 commitOk).committed := by
  simp only [flushNow, loop_keep_err, Bool.false_or]
  congr 2
  exact hp.any_eq

/-- every callback that is told nil belongs to a connector whose state is in the committed transaction:
what M3 calls `flushRes .ok` for one connector is a commit containing that connector's snapshot. -/
theorem C02_batch_nil_implies_durable (batch : List Entry) (commitOk : Bool)
    (h : (flushNow .keep batch commitOk).cbNil = true) :
    ∀ e ∈ batch, e.1 ∈ (flushNow .keep batch commitOk).contents :=
  C02_batch_commit_contains_every_connector batch commitOk
    ((C02_batch_callbacks_nil_iff_committed .keep batch commitOk).mp h)

/-- Counterexample for the `overwrite` shape: connector 1's write fails, connector 2 (iterated later)
succeeds: the transaction commits WITHOUT connector 1 and every callback — connector 1's too — gets
nil: its source acks the plugin for a position no commit contains. -/
theorem C02_batch_overwrite_counterexample :
    (flushNow .overwrite [(1, false), (2, true)] true).cbNil = true ∧
    1 ∉ (flushNow .overwrite [(1, false), (2, true)] true).contents ∧
    (flushNow .keep [(1, false), (2, true)] true).cbNil = false := by decide

/-- non-vacuity: a clean batch of three commits and is acked; the same batch in the other order too -/
example : flushNow .keep [(1, true), (2, true), (3, true)] true = ⟨true, [1, 2, 3], true⟩ := by decide
example : (flushNow .keep [(3, true), (1, false), (2, true)] true).committed = false := by decide

end Conduit.FlushBatch
