import ConduitModel.Proofs.SrcAckStep

/-!
# C03 — a crash at any instant loses no record (at-least-once across restart)

Statement (properties.jsonl C03): "If the process dies at any instant, then on restart every
record that had not yet been confirmed by all destinations (or dead-lettered, or filtered) is read
again: the position a source is reopened with is never past an unhandled record, and the upstream
system was never told to discard a record beyond what the store durably holds. Records may be
delivered twice; they are never skipped."

Every reachable state of M3 is a crash point (`crash` is enabled in every live state,
`C03_every_state_is_a_crash_point`), and the event lists quantified over contain any number of
crashes and restarts at any position. Records are identified by their read index at the source
(`Pos = Nat`, first record 1, `none`/0 = "from the beginning"). The engine enters through the
explicit hypothesis `ReachO` (= what C01/C04 prove of the engine): a position is handed to
`Source.Ack` only when its record was handled (confirmed by every destination, dead-lettered or
filtered), and acks continue the read order of the incarnation. `s.handled` is the set of positions
ever handed to `Source.Ack`; a pruning upstream discards up to the last ack it received
(`s.delivered`), a non-pruning upstream discards nothing.
-/
namespace Conduit.SrcAck

/-- the process can die in every live state: every reachable state is a crash point -/
theorem C03_every_state_is_a_crash_point (c : Cfg) (s : St) (h : s.alive = true) :
    step c s .crash = some { s with alive := false } := by
  simp [step, h]

/-- … and a dead process does nothing but restart: what a restart sees is exactly the store as it
was at the crash instant. -/
theorem C03_dead_process_only_restarts (c : Cfg) (s s' : St) (e : Ev) (h : s.alive = false)
    (hs : step c s e = some s') : e = .restart := by
  cases e <;> simp only [step] at hs <;> (repeat' split at hs) <;> simp_all

/-- C03 `crash_safe` — in every reachable state (= at every crash instant):
(1) "the position a source is reopened with is never past an unhandled record": every record at or
    before the durably stored position has been handled;
(2) "the upstream system was never told to discard a record beyond what the store durably holds":
    every position in every ack message the plugin ever received is at or before the stored one. -/
theorem C03_crash_safe (c : Cfg) (s : St) (h : ReachO c s) :
    (∀ r : Nat, 1 ≤ r → r ≤ s.store.posN → r ∈ s.handled) ∧
    (∀ a ∈ s.delivered, ∀ p : Nat, p ∈ a.ps → p ≤ s.store.posN) := by
  have hi := (invO_reach h).1
  exact ⟨hi.covStore, fun a ha => hi.outPos a (Or.inr ha)⟩

/-- what a pruning upstream has discarded: everything up to the largest position it was acked -/
def pruned (s : St) : Nat := (s.delivered.flatMap (·.ps)).foldl max 0

theorem foldl_max_le {l : List Nat} {b m : Nat} (hb : b ≤ m) (h : ∀ x ∈ l, x ≤ m) : l.foldl max b ≤ m := by
  induction l generalizing b with
  | nil => simpa using hb
  | cons x xs ih =>
    simp only [List.foldl_cons]
    apply ih
    · exact Nat.max_le.mpr ⟨hb, h x (List.mem_cons_self ..)⟩
    · intro y hy; exact h y (List.mem_cons_of_mem _ hy)

/-- C03 `upstream_never_over_pruned`: pruned ≤ store ≤ handled prefix, for pruning upstreams (for a
non-pruning upstream `pruned = 0` and the first inequality is trivial). -/
theorem C03_upstream_never_over_pruned (c : Cfg) (s : St) (h : ReachO c s) :
    pruned s ≤ s.store.posN ∧ ∀ r : Nat, 1 ≤ r → r ≤ s.store.posN → r ∈ s.handled := by
  have hc := C03_crash_safe c s h
  refine ⟨?_, hc.1⟩
  apply foldl_max_le (Nat.zero_le _)
  intro p hp
  simp only [List.mem_flatMap] at hp
  obtain ⟨a, ha, hp⟩ := hp
  exact hc.2 a ha p hp

/-- C03 `restart_no_skip`: crash anywhere, restart: the plugin is reopened exactly with the stored
position, the new incarnation's state is that position, and every record that was not handled lies
strictly after it — it is read again. -/
theorem C03_restart_no_skip (c : Cfg) (s s1 s2 : St) (h : ReachO c s)
    (hc : step c s .crash = some s1) (hr : step c s1 .restart = some s2) :
    s2.opened.getLast? = some s.store.pos ∧ s2.inst = s.store ∧ s2.store = s.store ∧
    (∀ r : Nat, 1 ≤ r → r ∉ s2.handled → s.store.posN < r) ∧
    (∀ a ∈ s2.delivered, ∀ p : Nat, p ∈ a.ps → p ≤ s.store.posN) := by
  have hsafe := C03_crash_safe c s h
  simp only [step] at hc
  split at hc
  · injection hc with hc; subst hc
    simp only [step] at hr
    split at hr
    · injection hr with hr; subst hr
      refine ⟨by simp, rfl, rfl, ?_, hsafe.2⟩
      intro r h1 hn
      rcases Nat.lt_or_ge s.store.posN r with hlt | hge
      · exact hlt
      · exact absurd (hsafe.1 r h1 hge) hn
    · simp at hr
  · simp at hc

/-- the new incarnation acks from the record right after the reopen position (so re-reading
starts there): the read-order hypothesis of the restarted process is anchored at the store. -/
theorem C03_restart_rereads_from_store (c : Cfg) (s1 s2 : St) (hr : step c s1 .restart = some s2)
    (ps : List Pos) : ackOk s2 ps = (ps != [] && ps == List.range' (s1.store.posN + 1) ps.length) := by
  simp only [step] at hr
  split at hr
  · injection hr with hr; subst hr; rfl
  · simp at hr

/-- every position the plugin was ever (re)opened with, over any number of crashes, is covered by
handled records -/
theorem C03_every_reopen_position_covered (c : Cfg) (s : St) (h : ReachO c s) :
    ∀ o ∈ s.opened, ∀ r : Nat, 1 ≤ r → r ≤ o.getD 0 → r ∈ s.handled :=
  (invO_reach h).1.covOpened

/-- without the engine-side hypothesis the sequence-number form still holds for every event list:
at every crash instant the plugin has been told nothing beyond the committed store. -/
theorem C03_crash_safe_seq (c : Cfg) (s : St) (h : Reach c s) :
    (∀ a ∈ s.delivered, a.seq ≤ s.store.seq) ∧ s.store.seq ≤ s.nextSeq := by
  have hi := inv_reach h
  exact ⟨fun a ha => hi.outLe a (Or.inr ha), Nat.le_trans hi.storeLe hi.instLe⟩

/-! ### Non-vacuity -/

def cfg3 : Cfg := { maxRetries := 3, bundleThr := 0, txFailCallbacks := false, stopAfterDrop := false }

/-- acks 1..3, only 1..2 committed and delivered, crash, restart: reopened at 2, record 3 is acked
again by the new incarnation (delivered twice to the engine, never skipped). -/
example : (runO cfg3 init [.ack [1, 2], .trigger, .ack [3], .flushRes .ok, .callback 0, .deliver true,
    .crash, .restart, .ack [3], .trigger, .flushRes .ok]).map
    (fun s => (s.opened, s.store.pos, s.delivered.map (·.ps), s.handled)) =
    some ([none, some 2], some 3, [[1, 2]], [1, 2, 3, 3]) := by decide

/-- a crash between commit and delivery: the store is ahead of the plugin, never behind it -/
example : (runO cfg3 init [.ack [1], .trigger, .flushRes .ok, .crash, .restart]).map
    (fun s => (s.opened, pruned s)) = some ([none, some 1], 0) := by decide

end Conduit.SrcAck
