import ConduitModel.Props.C05
import ConduitModel.Props.ArbiterProps

/-!
# C04 (arch-v2) — acks reach the source in read order

The two places where the arch-v2 engine decides the *order* of source acks:

* the tainted loop of `doTaskAttempt` hands out sub-batches strictly left to right, each once
  (`C04_groups_in_read_order`, from the partition law of Props/C05.lean), and acks are produced
  per sub-batch as it completes;
* under fan-out the `multiAckNacker` releases positions only as the in-order prefix
  `0,1,…,released-1`, whatever the order in which the branches vote
  (`C04_ma_release_prefix`, `C04_ma_release_next` in Props/ArbiterProps.lean).

Pass-level composition (these two with the task recursion, the split-run ledger and
`Source.Ack`) is decided by the C04 monitor on every implementation trace and by equality with
the executable model; it is not proved (see cfg/C04.py level_note).
-/
namespace Conduit.Funnel

/-- C04.groups_in_read_order — "in the same order, with nothing skipped and nothing repeated":
the position lists of the sub-batches the worker processes one after the other concatenate to
exactly the batch's positions. -/
theorem C04_groups_in_read_order (st : List Status) (pos : List PosV) (h : pos.length = st.length) :
    ((cutsFrom st st.length 0).map fun (a, b) => (pos.take b).drop a).flatten = pos :=
  C05_subbatches_cover st pos h

/-- C04.groups_strictly_advance — the loop cursor strictly increases and stays inside the batch,
so no span is handed out twice and the loop ends. -/
theorem C04_groups_strictly_advance (st : List Status) (i : Nat) (h : i < st.length) :
    i < groupEnd st i ∧ groupEnd st i ≤ st.length :=
  C05_groups_progress st i h

end Conduit.Funnel
