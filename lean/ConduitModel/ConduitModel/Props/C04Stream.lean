import ConduitModel.Proofs.StreamPipe
import ConduitModel.Proofs.StreamMonitor
import ConduitModel.Props.C01Stream

/-
C04 (default engine) — property theorems.

"The sequence of positions acknowledged to a source connector is always a prefix of the sequence
of records that source produced: in the same order, with nothing skipped and nothing repeated, no
matter in which order destinations, parallel processor workers or dead-letter writes finish.
Filtered and dead-lettered records take their turn in the same sequence."
-/
namespace Conduit.Props
open Conduit.Stream

theorem range_prefix {m n : Nat} (h : m ≤ n) : List.range m <+: List.range n := by
  refine ⟨(List.range' m (n - m)), ?_⟩
  rw [List.range_eq_range', List.range_eq_range']
  have := List.range'_append (s := 0) (m := m) (n := n - m) (step := 1)
  simp at this
  rw [this]
  congr 1; omega

/-- C04 for the v1 engine, monitor form: in every run (every topology, reply script and
interleaving) the k-th `Source.Ack` a source sees is for its k-th record and that record was
already read — the ticket invariant of `SourceAckerNode` (`sem.Enqueue` / `sem.Acquire` order, the
`fail` latch), whatever the completion order of destination branches, parallel workers and DLQ
writes. -/
theorem C04_v1_acks_in_read_order (τ : Topo) (size thr : Nat) (evs : List Ev) (p : Pipe)
    (h : Pipe.run τ (Pipe.init τ size thr) evs = some p) : monC04 p.ack.log = true :=
  (ainv_reach τ.nDst size thr evs p.ack (pipe_run_proj evs h).2).2.1.2.2.2

theorem C04_v1_ack_component (M size thr : Nat) (evs : List Ev) (a : Ack)
    (h : Ack.run (Ack.init M size thr) evs = some a) : monC04 a.log = true :=
  (ainv_reach M size thr evs a h).2.1.2.2.2

/-- C04 spelled out: at every instant the list of positions acked to source `s` (acks, filtered
records and dead-lettered records alike) is `0, 1, …, k-1` — a prefix of what `s` produced
(`0, …, reads s - 1`): same order, no gap, no repeat. -/
theorem C04_v1_ack_sequence_is_prefix (τ : Topo) (size thr : Nat) (evs : List Ev) (p : Pipe)
    (h : Pipe.run τ (Pipe.init τ size thr) evs = some p) (s : Nat) :
    sackSeq s p.ack.log = List.range (sackCount p.ack.log s) ∧
    sackCount p.ack.log s ≤ p.ack.reads s ∧
    sackSeq s p.ack.log <+: List.range (p.ack.reads s) := by
  have ha := (pipe_run_proj evs h).2
  have hI := ainv_reach τ.nDst size thr evs p.ack ha
  obtain ⟨h1, h2⟩ := sackSeq_of_monC04 s p.ack.log hI.2.1.2.2.2
  have hr : readCount p.ack.log s = p.ack.reads s := hI.2.1.1 s
  rw [hr] at h2
  refine ⟨h1, h2, ?_⟩
  rw [h1]
  exact range_prefix h2

/-- once a handler of source `s` failed (`fail` latch), `s` is never acked again. -/
theorem C04_v1_fail_latch (M size thr : Nat) (evs : List Ev) (a : Ack)
    (h : Ack.run (Ack.init M size thr) evs = some a) (s i : Nat) (r : SRes) (hf : a.fail s = true) :
    a.step (.sack s i r) = none := by
  have hI := ainv_reach M size thr evs a h
  cases hs : a.step (.sack s i r) with
  | none => rfl
  | some a' =>
    exfalso
    rcases step_sack hs with ⟨_, _, _, hf', _⟩ | ⟨hh, _⟩
    · simp [hf] at hf'
    · have := hI.1.2.2.2.2 s (by simp [hh]); simp [hf] at this

/-! non-vacuity: the example run of C01Stream acks position 0 -/
example : ((Pipe.run exTopo (Pipe.init exTopo 0 0) exRunAck).map fun p => sackSeq 0 p.ack.log) = some [0] := by
  decide

end Conduit.Props
