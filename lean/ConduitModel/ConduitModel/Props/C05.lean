import ConduitModel.Model.Funnel

/-!
# C05 / C04 (arch-v2) — the tainted loop hands out the batch left to right, once

`Worker.doTaskAttempt` splits a tainted batch with `subBatchByFlag` (model: `groupEnd`) and
processes the groups strictly in index order (`idx += span`). These theorems state, for every
status vector, that the groups are non-empty, contiguous, in order and cover the batch exactly
once — so records reach the next task (and finally each destination) in batch order with no
record skipped or handed out twice, and acks are produced group by group in read order.

(pass-level composition with the task recursion is validated by the `funnel` correspondence
and the C04/C05 monitors, not proved; see cfg/C05.py level_note.)
-/
namespace Conduit.Funnel

/-- the cut points of the tainted loop: `[0 = c₀ < c₁ < … < c_k = len]`, by fuel. -/
def cutsFrom (st : List Status) : Nat → Nat → List (Nat × Nat)
  | 0, _ => []
  | fuel+1, i => if i ≥ st.length then [] else (i, groupEnd st i) :: cutsFrom st fuel (groupEnd st i)

def sameGroup (f0 f : Flag) : Bool :=
  match f0 with
  | .filter | .ack => f == .ack || f == .filter
  | x => f == x

theorem groupEnd_eq (st : List Status) (i : Nat) :
    groupEnd st i = match st[i]? with
      | none => i
      | some s0 => i + ((st.drop i).takeWhile fun s => sameGroup s0.flag s.flag).length := by
  unfold groupEnd
  cases st[i]? with
  | none => rfl
  | some s0 => rfl

theorem sameGroup_self (f : Flag) : sameGroup f f = true := by cases f <;> rfl

theorem takeWhile_length_le {α} (p : α → Bool) (l : List α) : (l.takeWhile p).length ≤ l.length := by
  induction l with
  | nil => simp
  | cons a t ih => rw [List.takeWhile_cons]; split <;> simp <;> omega

theorem groupEnd_gt (st : List Status) (i : Nat) (h : i < st.length) : i < groupEnd st i := by
  rw [groupEnd_eq]
  have hs : st[i]? = some st[i] := List.getElem?_eq_getElem h
  rw [hs]
  simp only
  have hd : st.drop i = st[i] :: st.drop (i+1) := List.drop_eq_getElem_cons h
  rw [hd, List.takeWhile_cons, sameGroup_self]
  simp

theorem groupEnd_le (st : List Status) (i : Nat) (h : i ≤ st.length) : groupEnd st i ≤ st.length := by
  rw [groupEnd_eq]
  cases hs : st[i]? with
  | none => simpa using h
  | some s0 =>
    simp only
    have := takeWhile_length_le (fun s => sameGroup s0.flag s.flag) (st.drop i)
    simp only [List.length_drop] at this
    omega

/-- C05.subbatches_partition — the groups handed out by the tainted loop, concatenated in the
order they are processed, are exactly the batch (every record once, in batch order). -/
theorem C05_subbatches_partition {α} (st : List Status) (xs : List α) (hx : xs.length = st.length) :
    ∀ (fuel i : Nat), i ≤ st.length → st.length - i ≤ fuel →
      ((cutsFrom st fuel i).map fun (a, b) => (xs.take b).drop a).flatten = xs.drop i := by
  intro fuel
  induction fuel with
  | zero =>
    intro i hi hf
    have : i = st.length := by omega
    simp [cutsFrom, this, ← hx]
  | succ fuel ih =>
    intro i hi hf
    unfold cutsFrom
    by_cases hge : i ≥ st.length
    · have : i = st.length := by omega
      simp [this, ← hx]
    · have hlt : i < st.length := by omega
      simp only [hge, if_false, List.map_cons, List.flatten_cons]
      have h1 := groupEnd_gt st i hlt
      have h2 := groupEnd_le st i hi
      rw [ih (groupEnd st i) h2 (by omega)]
      -- (xs.take e).drop i ++ xs.drop e = xs.drop i   for i ≤ e
      have : xs.drop i = (xs.take (groupEnd st i)).drop i ++ xs.drop (groupEnd st i) := by
        conv => lhs; rw [← List.take_append_drop (groupEnd st i) xs]
        rw [List.drop_append_of_le_length (by simp; omega)]
      rw [this]

/-- C05.groups_progress — every group is non-empty and inside the batch: the loop terminates
after at most `len` groups and never re-reads a handed-out span. -/
theorem C05_groups_progress (st : List Status) (i : Nat) (h : i < st.length) :
    i < groupEnd st i ∧ groupEnd st i ≤ st.length :=
  ⟨groupEnd_gt st i h, groupEnd_le st i (Nat.le_of_lt h)⟩

/-- whole-batch instance: starting at 0 with enough fuel the groups rebuild the batch. -/
theorem C05_subbatches_cover {α} (st : List Status) (xs : List α) (hx : xs.length = st.length) :
    ((cutsFrom st st.length 0).map fun (a, b) => (xs.take b).drop a).flatten = xs := by
  have := C05_subbatches_partition st xs hx st.length 0 (Nat.zero_le _) (by omega)
  simpa using this

/-! non-vacuity -/
example : cutsFrom [{flag := .ack}, {flag := .filter}, {flag := .nack}, {flag := .nack}, {flag := .retry}, {flag := .ack}] 6 0
    = [(0,2), (2,4), (4,5), (5,6)] := by decide

end Conduit.Funnel
