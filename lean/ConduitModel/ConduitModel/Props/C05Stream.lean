import ConduitModel.Proofs.StreamLink
import ConduitModel.Props.C01Stream

/-
C05 (default engine) — property theorems.

"For each destination and each source, the records written to that destination appear in the
order the source produced them (filtered or dead-lettered records simply absent), including when
processors run with several parallel workers, when several sources are merged and when the stream
is fanned out to several destinations. Within one uninterrupted run no record is written twice to
the same destination."
-/
namespace Conduit.Props
open Conduit.Stream

/-- C05 for the v1 engine, on the node protocols themselves (Flow component): for EVERY topology
(any number of sources and destinations, processor chains of any length, ParallelNodes with any
number of workers), EVERY interleaving of hand-offs, worker completions (`pdone`, in any order),
fan-in choices, fan-out deliveries (in any order) and nacks: what destination `d` is given of
source `s` is strictly increasing in the emit index — the order `s` produced the records, nothing
twice. `ParallelNode`: the coordinator takes the oldest job only; `FanoutNode`: the next message
is taken only when every branch accepted the previous one; `FaninNode`: per input FIFO. -/
theorem C05_v1_node_protocols_preserve_order (τ : Topo) (evs : List Ev) (f : Flow)
    (h : Flow.run τ (Flow.init τ) evs = some f) (d s : Nat) :
    List.Pairwise (· < ·) (idxOf s (f.wlog d)) :=
  flow_writes_sorted τ evs f h d s

/-- … only records that were read are written, and a record for which a processor on its way to
`d` returned FilterRecord is never written to `d` (after fix_F13.diff: `Message.Clone` keeps the
filtered flag through the fan-out). -/
theorem C05_v1_filtered_absent (τ : Topo) (evs : List Ev) (f : Flow)
    (h : Flow.run τ (Flow.init τ) evs = some f) (d : Nat) :
    ∀ m ∈ f.wlog d, m.i < f.reads m.s ∧ (none, m.s, m.i) ∉ f.flt ∧ (some d, m.s, m.i) ∉ f.flt := by
  intro m hm
  exact ⟨flow_writes_read τ evs f h d m hm, flow_filtered_absent τ evs f h d m hm⟩

/-- C05 for the whole v1 pipeline, monitor form: in every run of the product system the trace of
observable events satisfies `monC05`: each `Write` call of destination `d` for `(s,i)` comes after
every earlier `Write` of `d` for a record of `s` with a smaller index only, the record was read,
and no processor on the way to `d` had filtered it. -/
theorem C05_v1_writes_in_read_order (τ : Topo) (size thr : Nat) (evs : List Ev) (p : Pipe)
    (h : Pipe.run τ (Pipe.init τ size thr) evs = some p) : monC05 p.ack.log = true :=
  (link_run τ size thr evs [] (Pipe.init τ size thr) p rfl (link_init τ size thr)
    (by simp [Pipe.init, Ack.init, monC05]) h).2

/-- C05 spelled out on the trace: per destination and source the sequence of written indices is
strictly increasing (read order, no duplicate write in a run). -/
theorem C05_v1_write_sequence_sorted (τ : Topo) (size thr : Nat) (evs : List Ev) (p : Pipe)
    (h : Pipe.run τ (Pipe.init τ size thr) evs = some p) (d s : Nat) :
    List.Pairwise (· < ·) (writeSeq d s p.ack.log) :=
  writeSeq_of_monC05 d s _ (C05_v1_writes_in_read_order τ size thr evs p h)

/-! non-vacuity: two workers finishing out of order, the destination still gets 0 then 1 -/

def exTopoPar : Topo :=
  { nDst := 1, srcLen := fun _ => 2, plLen := 3, dstLen := fun _ => 2,
    jobs := fun g k => match g with | .pl => k == 1 | _ => false }

def exRunPar : List Ev :=
  [.read 0, .enq 0 0, .read 0, .enq 0 1, .mv (.src 0) 1 0 0, .mv (.src 0) 1 0 1,
   .mv .pl 0 0 0, .mv .pl 0 0 1,            -- both jobs dispatched
   .pdone .pl 1 0 1, .proc none 0 1 .pass,   -- the second finishes first
   .pdone .pl 1 0 0, .proc none 0 0 .pass,
   .mv .pl 1 0 0, .mv .pl 1 0 1,            -- the coordinator emits in dispatch order
   .fan 0 0, .fdeliver 0, .fan 0 1, .fdeliver 0,
   .mv (.dst 0) 0 0 0, .write 0 0 0 true, .mv (.dst 0) 0 0 1, .write 0 0 1 true]

example : ((Pipe.run exTopoPar (Pipe.init exTopoPar 0 0) exRunPar).map fun p => writeSeq 0 0 p.ack.log) = some [0, 1] := by
  decide
/-- the coordinator cannot emit the second job while the first is unfinished. -/
example : (Pipe.run exTopoPar (Pipe.init exTopoPar 0 0) (exRunPar.take 10 ++ [.mv .pl 1 0 1])).isNone = true := by
  decide

end Conduit.Props
