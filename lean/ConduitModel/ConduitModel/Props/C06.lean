import ConduitModel.Proofs.SrcAckProgress

/-!
# C06 — graceful stop drains (source side: `Source.Teardown` / `WaitPersisted`)

Statement (properties.jsonl C06): "After a graceful stop of a healthy pipeline completes, no record
is left half-handled: every record that reached a destination or the dead-letter queue has its
final outcome and was acknowledged to its source connector before that connector was torn down, the
acknowledged records form a prefix of the records read, and the stored position is exactly the last
acknowledged record. When stop-and-wait returns without error all of this is already true and every
connector and processor that was opened has been torn down exactly once; the stop always completes
while plugins and store respond."

This file decides the clauses that live in M3 (source connector, persister, plugin ack stream).
"Healthy … while plugins and store respond" is the explicit hypothesis `ReachH` (`evHealthy`): every
flush succeeds, Send failures are transient, no bounded wait expires, no crash, and the engine does
not call `Source.Ack` once it has called `Source.Teardown`. The safety clauses that need no such
hypothesis are stated for every event list (`Reach`).
-/
namespace Conduit.SrcAck

/-- C06 `stop_drained` — in every state of a healthy run in which `Source.Teardown` has returned nil:
nothing is pending or queued, every Ack call of this incarnation was delivered to the plugin (in
order, no gap), nothing was dropped, the committed store is exactly the instance state = the last
acknowledged position, the plugin was torn down exactly once, and no further delivery is possible
(so every delivery preceded the plugin teardown). -/
theorem C06_stop_drained (c : Cfg) (s : St) (h : ReachH c s) (hd : s.td = .done true) :
    s.pending = [] ∧ s.deferred = [] ∧ s.batch = none ∧
    s.deliveredI = s.ackedI ∧ s.dropped = [] ∧ s.droppedG = [] ∧
    s.store = s.inst ∧ (∀ a, s.ackedI.getLast? = some a → s.store = ⟨a.seq, a.ps.getLast?⟩) ∧
    s.teardowns = 1 ∧ s.pluginUp = false ∧
    (∀ ok, step c s (.deliver ok) = none) := by
  obtain ⟨hv, ht, hb, hh⟩ := invAll_reach h
  have hr0 : s.td.rank = 0 := by rw [hd]; rfl
  have hpend := (hh.waitedP (by omega)).1
  have hlast := (hh.waitedP (by omega)).2
  have hbn := hh.flushedB (by omega)
  have hdg : s.dgDone = true := ht.jnd (by omega)
  have hdef := (ht.dgd hdg).1
  have hstore : s.store = s.inst := by
    cases hg : s.gens.getLast? with
    | none =>
      have : s.gens = [] := by simpa using hg
      exact ((hb.bnone hbn).1 this).symm
    | some g =>
      rw [hb.lastOk g hg (hlast g hg).1]
      exact (hb.bnone hbn).2 g hg
  have hpre := hv.prefixI hh.noDrop.2
  rw [hdef, hh.noDrop.1, hpend] at hpre
  have hup : s.pluginUp = false := by rw [ht.pup, hd]; rfl
  refine ⟨hpend, hdef, hbn, by simpa using hpre, hh.noDrop.1, hh.noDrop.2, hstore, ?_, ?_, hup, ?_⟩
  · intro a ha; rw [hstore]; exact hb.lastAck a ha
  · rw [ht.tdn, hd]; rfl
  · intro ok; simp [step, hdef]

/-- C06 — "torn down exactly once", for every event list: the plugin of an incarnation is torn
down at most once, exactly once iff Teardown has completed, and a completed Teardown cannot tear it
down again. -/
theorem C06_teardown_exactly_once (c : Cfg) (s : St) (h : Reach c s) :
    s.teardowns ≤ 1 ∧ (s.teardowns = 1 ↔ s.td.isDone = true) ∧
    (s.td.isDone = true → ∀ ok, step c s (.pluginTeardown ok) = none) := by
  have ht := invTd_reach h
  refine ⟨?_, ?_, ?_⟩
  · rw [ht.tdn]; split <;> omega
  · rw [ht.tdn]; split <;> simp_all
  · intro hd ok
    cases htd : s.td <;> simp_all [step, Td.isDone]

/-- C06 — "acknowledged to its source connector before that connector was torn down", for every
event list: once the plugin is down no ack can be delivered any more, and the plugin goes down only
after the delivery goroutine has exited with an empty queue. -/
theorem C06_no_delivery_after_plugin_teardown (c : Cfg) (s : St) (h : Reach c s) (hup : s.pluginUp = false) :
    (∀ ok, step c s (.deliver ok) = none) ∧ s.dgDone = true ∧ s.deferred = [] := by
  have ht := invTd_reach h
  have hdone : s.td.isDone = true := by
    have := ht.pup; rw [hup] at this; simpa using this.symm
  have hr : s.td.rank ≤ 2 := by
    cases htd : s.td <;> simp_all [Td.isDone, Td.rank]
  have hdg := ht.jnd hr
  have hdef := (ht.dgd hdg).1
  exact ⟨fun ok => by simp [step, hdef], hdg, hdef⟩

/-- C06 `stop_no_deadlock` — "the stop always completes while plugins and store respond": in every
state of a healthy run in which `Source.Teardown` has been called and has not returned, some event
allowed by the C06 hypotheses (the store commits, a Send succeeds, a callback or the delivery
goroutine runs, the next statement of Teardown executes — never a timeout, never a failure) is
enabled, and taking it strictly lowers the variant `V` (remaining Teardown statements, batch to flush,
write in flight, outstanding callback, queued acks, delivery goroutine). `V` is a natural number, so
under weak fairness of the internal steps Teardown returns after at most `V s` of them; by
`C06_stop_drained` it then returns drained. -/
theorem C06_stop_no_deadlock (c : Cfg) (s : St) (h : ReachH c s) (hmid : 1 ≤ s.td.rank ∧ s.td.rank ≤ 9) :
    ∃ e s', evHealthy c s e = true ∧ step c s e = some s' ∧ V s' < V s :=
  teardown_progress (invAll_reach h) (invC_reachH h) hmid

/-- … and the state reached is again a state of a healthy run (so the argument iterates). -/
theorem C06_progress_stays_healthy (c : Cfg) (s s' : St) (e : Ev) (h : ReachH c s)
    (he : evHealthy c s e = true) (hs : step c s e = some s') : ReachH c s' := by
  obtain ⟨evs, hr⟩ := h
  refine ⟨evs ++ [e], ?_⟩
  have : ∀ (evs : List Ev) (a b : St), runH c a evs = some b → runH c a (evs ++ [e]) = runH c b [e] := by
    intro evs
    induction evs with
    | nil => intro a b hab; simp only [runH, Option.some.injEq] at hab; subst hab; rfl
    | cons x xs ih =>
      intro a b hab
      cases hx : evHealthy c a x with
      | false => simp [runH, hx] at hab
      | true =>
        cases hst : step c a x with
        | none => simp [runH, hx, hst] at hab
        | some a1 =>
          have hab' : runH c a1 xs = some b := by simpa [runH, hx, hst] using hab
          have : runH c a (x :: xs ++ [e]) = runH c a1 (xs ++ [e]) := by simp [runH, hx, hst]
          rw [this]; exact ih a1 b hab'
  rw [this evs init s hr]
  simp [runH, he, hs]

/-- after Teardown has returned in a healthy run, `StopAndWait`'s final `WaitPersisted` is enabled:
the stop-and-wait completes. -/
theorem C06_wait_persisted_enabled (c : Cfg) (s : St) (h : ReachH c s) (hd : s.td = .done true)
    (hsw : s.swDone = false) : ∃ s', step c s .waitPersisted = some s' ∧ s'.swDone = true := by
  obtain ⟨hv, ht, hb, hh⟩ := invAll_reach h
  have hlast := (hh.waitedP (by rw [hd]; simp [Td.rank])).2
  cases hg : s.gens.getLast? with
  | none => exact ⟨{ s with swDone := true }, by simp [step, hh.alive, hd, Td.isDone, hsw, hg], rfl⟩
  | some g =>
    have := hlast g hg
    exact ⟨{ s with swDone := true },
      by simp [step, hh.alive, hd, Td.isDone, hsw, hg, Gen.writeDone, Gen.callbacksDone, this.1, this.2], rfl⟩

/-! ### Non-vacuity -/

def cfg6 : Cfg := { maxRetries := 3, bundleThr := 0, txFailCallbacks := false, stopAfterDrop := false }

/-- a healthy stop with an ack still in the debounce batch: Teardown's forced flush, the wait, the
drain (with one transient Send failure) and the plugin teardown; the hypothesis `ReachH` is
satisfiable and the post-condition is reached. -/
def healthyStop : List Ev :=
  [.ack [1], .ack [2, 3], .tdBegin, .tdFlush, .tdSnap, .flushRes .ok, .callback 0, .tdWaited false,
   .closeQueue, .deliver false, .deliver true, .deliver true, .dgExit, .tdDrained false, .stopStream, .join,
   .pluginTeardown true, .waitPersisted]

example : (runH cfg6 init healthyStop).map
    (fun s => (s.td, s.swDone, s.deliveredI.map (·.ps), s.store.pos, s.teardowns)) =
    some (.done true, true, [[1], [2, 3]], some 3, 1) := by decide

/-! ### F11 — what happens outside the hypothesis: a failed final flush

`flushNow` returns before spawning the callbacks when `NewTransaction` fails
(`Cfg.txFailCallbacks = false`, the code at the pinned commit, tied by `Facts/C06.lean`), so that
generation's `callbacksDone` is never closed. `Source.Teardown` still completes (its wait is bounded),
but `StopAndWait`'s final `WaitPersisted` (no timeout) then waits forever: in the state reached by
the run below *no event but a crash is enabled*. Confirmed on the real code by `h_srcack`
(corpus/C06/srcstop_F11_…: trace `a:1 A T FT P1 R1 WH`). The same happens for a failed Commit (the
callback blocks on `errs`, which nobody reads during teardown). Both are outside `evHealthy`
("store responds" is read as "answers successfully"); under the stricter reading "answers at all"
this is a liveness defect of the stop. -/

/-- Teardown whose forced final flush fails at `NewTransaction`; the bounded wait expires -/
def f11Run : List Ev :=
  [.ack [1], .tdBegin, .tdFlush, .tdSnap, .flushRes .txFail, .tdWaited true, .closeQueue, .dgExit,
   .tdDrained false, .stopStream, .join, .pluginTeardown true]

def f11State : St := (run cfg6 init f11Run).getD init

/-- the run is a run of the model; Teardown returned nil, the ack is still pending, nothing is stored -/
theorem C06_F11_reached : (run cfg6 init f11Run).isSome = true ∧ f11State.td = .done true ∧
    f11State.pending.length = 1 ∧ f11State.store.pos = none ∧
    step cfg6 f11State .waitPersisted = none := by decide

/-- … and from there nothing but a crash can ever happen: `WaitPersisted` is disabled for good. -/
theorem C06_F11_stop_and_wait_hangs (e : Ev) (s' : St) (h : step cfg6 f11State e = some s') : e = .crash := by
  cases e with
  | crash => rfl
  | callback i =>
    exfalso; revert h
    cases i <;> simp [step, f11State, f11Run, run, cfg6, init, persist, doTrigger, setGen, noWriting]
  | errReadP i =>
    exfalso; revert h
    cases i <;> simp [step, f11State, f11Run, run, cfg6, init, persist, doTrigger, setGen, noWriting]
  | _ =>
    exfalso; revert h
    simp [step, f11State, f11Run, run, cfg6, init, persist, doTrigger, setGen, noWriting, Td.isDone,
      Gen.writeDone, Gen.callbacksDone]

end Conduit.SrcAck
