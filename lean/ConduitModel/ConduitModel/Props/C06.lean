import ConduitModel.Proofs.SrcAckProgress
import ConduitModel.Proofs.SrcAckRead

/-!
# C06 — graceful stop drains (source side: `Source.Teardown` / `WaitPersisted`)

Statement (properties.jsonl C06): "After a graceful stop of a healthy pipeline completes, no record
is left half-handled: every record that reached a destination or the dead-letter queue has its
final outcome and was acknowledged to its source connector before that connector was torn down, the
acknowledged records form a prefix of the records read, and the stored position is exactly the last
acknowledged record. When stop-and-wait returns without error all of this is already true and every
connector and processor that was opened has been torn down exactly once; the stop always completes
while plugins and store respond."

This file decides the clauses that live in M3 (source connector, persister, plugin ack stream).
"Healthy … while plugins and store respond" is the explicit hypothesis `ReachH` (`evHealthy`): every
flush succeeds, Send failures are transient, no bounded wait expires, no crash, and the engine does
not call `Source.Ack` once it has called `Source.Teardown`. The safety clauses that need no such
hypothesis are stated for every event list (`Reach`).
-/
namespace Conduit.SrcAck

/-- C06 `stop_drained` — in every state of a healthy run in which `Source.Teardown` has returned nil:
nothing is pending or queued, every Ack call of this incarnation was delivered to the plugin (in
order, no gap), nothing was dropped, the committed store is exactly the instance state = the last
acknowledged position, the plugin was torn down exactly once, and no further delivery is possible
(so every delivery preceded the plugin teardown). -/
theorem C06_stop_drained (c : Cfg) (s : St) (h : ReachH c s) (hd : s.td = .done true) :
    s.pending = [] ∧ s.deferred = [] ∧ s.batch = none ∧
    s.deliveredI = s.ackedI ∧ s.dropped = [] ∧ s.droppedG = [] ∧
    s.store = s.inst ∧ (∀ a, s.ackedI.getLast? = some a → s.store = ⟨a.seq, a.ps.getLast?⟩) ∧
    s.teardowns = 1 ∧ s.pluginUp = false ∧
    (∀ ok, step c s (.deliver ok) = none) := by
  obtain ⟨hv, ht, hb, hh⟩ := invAll_reach h
  have hr0 : s.td.rank = 0 := by rw [hd]; rfl
  have hpend := (hh.waitedP (by omega)).1
  have hlast := (hh.waitedP (by omega)).2
  have hbn := hh.flushedB (by omega)
  have hdg : s.dgDone = true := ht.jnd (by omega)
  have hdef := (ht.dgd hdg).1
  have hstore : s.store = s.inst := by
    cases hg : s.gens.getLast? with
    | none =>
      have : s.gens = [] := by simpa using hg
      exact ((hb.bnone hbn).1 this).symm
    | some g =>
      rw [hb.lastOk g hg (hlast g hg).1]
      exact (hb.bnone hbn).2 g hg
  have hpre := hv.prefixI hh.noDrop.2
  rw [hdef, hh.noDrop.1, hpend] at hpre
  have hup : s.pluginUp = false := by rw [ht.pup, hd]; rfl
  refine ⟨hpend, hdef, hbn, by simpa using hpre, hh.noDrop.1, hh.noDrop.2, hstore, ?_, ?_, hup, ?_⟩
  · intro a ha; rw [hstore]; exact hb.lastAck a ha
  · rw [ht.tdn, hd]; rfl
  · intro ok; simp [step, hdef]

/-- C06 — "torn down exactly once", for every event list: the plugin of an incarnation is torn
down at most once, exactly once iff Teardown has completed, and a completed Teardown cannot tear it
down again. -/
theorem C06_teardown_exactly_once (c : Cfg) (s : St) (h : Reach c s) :
    s.teardowns ≤ 1 ∧ (s.teardowns = 1 ↔ s.td.isDone = true) ∧
    (s.td.isDone = true → ∀ ok, step c s (.pluginTeardown ok) = none) := by
  have ht := invTd_reach h
  refine ⟨?_, ?_, ?_⟩
  · rw [ht.tdn]; split <;> omega
  · rw [ht.tdn]; split <;> simp_all
  · intro hd ok
    cases htd : s.td <;> simp_all [step, Td.isDone]

/-- C06 — "acknowledged to its source connector before that connector was torn down", for every
event list: once the plugin is down no ack can be delivered any more, and the plugin goes down only
after the delivery goroutine has exited with an empty queue. -/
theorem C06_no_delivery_after_plugin_teardown (c : Cfg) (s : St) (h : Reach c s) (hup : s.pluginUp = false) :
    (∀ ok, step c s (.deliver ok) = none) ∧ s.dgDone = true ∧ s.deferred = [] := by
  have ht := invTd_reach h
  have hdone : s.td.isDone = true := by
    have := ht.pup; rw [hup] at this; simpa using this.symm
  have hr : s.td.rank ≤ 2 := by
    cases htd : s.td <;> simp_all [Td.isDone, Td.rank]
  have hdg := ht.jnd hr
  have hdef := (ht.dgd hdg).1
  exact ⟨fun ok => by simp [step, hdef], hdg, hdef⟩

/-- C06 `stop_no_deadlock` — "the stop always completes while plugins and store respond": in every
state of a healthy run in which `Source.Teardown` has been called and has not returned, some event
allowed by the C06 hypotheses (the store commits, a Send succeeds, a callback or the delivery
goroutine runs, the next statement of Teardown executes — never a timeout, never a failure) is
enabled, and taking it strictly lowers the variant `V` (remaining Teardown statements, batch to flush,
write in flight, outstanding callback, queued acks, delivery goroutine). `V` is a natural number, so
under weak fairness of the internal steps Teardown returns after at most `V s` of them; by
`C06_stop_drained` it then returns drained. -/
theorem C06_stop_no_deadlock (c : Cfg) (s : St) (h : ReachH c s) (hmid : 1 ≤ s.td.rank ∧ s.td.rank ≤ 9) :
    ∃ e s', evHealthy c s e = true ∧ step c s e = some s' ∧ V s' < V s :=
  teardown_progress (invAll_reach h) (invC_reachH h) hmid

/-- … and the state reached is again a state of a healthy run (so the argument iterates). -/
theorem C06_progress_stays_healthy (c : Cfg) (s s' : St) (e : Ev) (h : ReachH c s)
    (he : evHealthy c s e = true) (hs : step c s e = some s') : ReachH c s' := by
  obtain ⟨evs, hr⟩ := h
  refine ⟨evs ++ [e], ?_⟩
  have : ∀ (evs : List Ev) (a b : St), runH c a evs = some b → runH c a (evs ++ [e]) = runH c b [e] := by
    intro evs
    induction evs with
    | nil => intro a b hab; simp only [runH, Option.some.injEq] at hab; subst hab; rfl
    | cons x xs ih =>
      intro a b hab
      cases hx : evHealthy c a x with
      | false => simp [runH, hx] at hab
      | true =>
        cases hst : step c a x with
        | none => simp [runH, hx, hst] at hab
        | some a1 =>
          have hab' : runH c a1 xs = some b := by simpa [runH, hx, hst] using hab
          have : runH c a (x :: xs ++ [e]) = runH c a1 (xs ++ [e]) := by simp [runH, hx, hst]
          rw [this]; exact ih a1 b hab'
  rw [this evs init s hr]
  simp [runH, he, hs]

/-- after Teardown has returned in a healthy run, `StopAndWait`'s final `WaitPersisted` is enabled:
the stop-and-wait completes. -/
theorem C06_wait_persisted_enabled (c : Cfg) (s : St) (h : ReachH c s) (hd : s.td = .done true)
    (hsw : s.swDone = false) : ∃ s', step c s .waitPersisted = some s' ∧ s'.swDone = true := by
  obtain ⟨hv, ht, hb, hh⟩ := invAll_reach h
  have hlast := (hh.waitedP (by rw [hd]; simp [Td.rank])).2
  cases hg : s.gens.getLast? with
  | none => exact ⟨{ s with swDone := true }, by simp [step, hh.alive, hd, Td.isDone, hsw, hg], rfl⟩
  | some g =>
    have := hlast g hg
    exact ⟨{ s with swDone := true },
      by simp [step, hh.alive, hd, Td.isDone, hsw, hg, Gen.writeDone, Gen.callbacksDone, this.1, this.2], rfl⟩

/-! ### The stop position (`Source.Stop`) and the v1 `SourceNode` stop protocol

"the stop always completes … every connector that was opened has been torn down": in the v1 engine a
graceful stop asks the source plugin for the position of the last record it handed out
(`Source.Stop`), sends it to the `SourceNode` loop as a control message, and the loop ends — so that
the deferred `Source.Teardown` (M3's `tdBegin`) can run — once the record it processed last carries
exactly that position. Read-side layer `rstep` over M3 (`Model/SrcAck.lean`), code shape
`fallback = false` = `Source.Stop` returns exactly the plugin's reply (regenerated fact
`sourceStopReturnsPluginReply`, `Facts/C06.lean`). All event lists: any number of runs (crash /
restart with a stored position), records, acks, flushes, stop at any instant. -/

/-- C06 `stop_position_is_last_read` — the position `Source.Stop` returns in a run is the position
of the last record the plugin handed out in THIS run, or empty if it handed out none — never a
position from an earlier run or the stored state (every position of this run lies strictly after
the position the plugin was opened with). -/
theorem C06_stop_position_is_last_read (c : Cfg) (s : RSt) (h : RReach c false s) (r : Option Pos)
    (hf : s.r.fetched = some r) : r = s.r.out ∧ ∀ p, r = some p → openPos s.m < p := by
  have hi := rinv_reach h
  have := hi.fet r hf
  exact ⟨this, fun p hp => hi.outGt p (by rw [← this]; exact hp)⟩

/-- … so once the stop control message has been processed and every record the plugin handed out
has been processed too, the node has left its loop (and `Source.Teardown` may begin): with an empty
stop position (idle run, also one resumed from a stored position) that is immediately, with the
last-read position right after that record. -/
theorem C06_v1_source_node_ends (c : Cfg) (s : RSt) (h : RReach c false s)
    (hctl : s.r.ctl = true) (hq : s.r.q = []) : s.r.ended = true := by
  have hi := rinv_reach h
  cases hen : s.r.ended with
  | true => rfl
  | false =>
    obtain ⟨r, hr, hne⟩ := hi.ctlNE hctl hen
    have := hi.fet r hr
    rw [hi.qNil hq] at hne
    exact absurd this hne

/-- progress of the stop protocol: after `Source.Stop`, as long as the node has not left its loop,
processing the control message or the next already-handed-out record is enabled, and each lowers
`|q| + [control message outstanding]` (the plugin hands out nothing after Stop). -/
theorem C06_v1_stop_no_deadlock (c : Cfg) (s : RSt) (h : RReach c false s) (hal : s.m.alive = true)
    (r : Option Pos) (hf : s.r.fetched = some r) (hen : s.r.ended = false) :
    (∃ s', rstep c false s .ctl = some s' ∧ s'.r.q.length + (if s'.r.ctl then 0 else 1) < s.r.q.length + (if s.r.ctl then 0 else 1)) ∨
    (∃ s', rstep c false s .nodeRead = some s' ∧ s'.r.q.length + (if s'.r.ctl then 0 else 1) < s.r.q.length + (if s.r.ctl then 0 else 1)) := by
  cases hc : s.r.ctl with
  | false =>
    left
    exact ⟨{ s with r := { s.r with ctl := true, ended := r == s.r.nlast } }, by simp [rstep, hf, hal, hc, hen], by simp [hc]⟩
  | true =>
    right
    cases hq : s.r.q with
    | nil => rw [C06_v1_source_node_ends c s h hc hq] at hen; simp at hen
    | cons p rest =>
      exact ⟨{ s with r := { s.r with q := rest, nlast := some p, ended := s.r.ctl && s.r.fetched == some (some p) } },
        by simp [rstep, hq, hal, hen], by simp [hc, hq]⟩

/-- the seeded scenario, for every reachable state and every stored position: restart (the run
resumes from the stored position), no record, graceful stop: `Source.Stop` returns the empty position
and the node ends as soon as it sees the control message. -/
theorem C06_v1_restart_idle_stop_ends (c : Cfg) (s s1 s2 s3 : RSt)
    (h1 : rstep c false s (.m .restart) = some s1) (h2 : rstep c false s1 .stopRpc = some s2)
    (h3 : rstep c false s2 .ctl = some s3) : s2.r.fetched = some none ∧ s3.r.ended = true := by
  simp only [rstep, Option.map_eq_some_iff] at h1
  obtain ⟨m1, _, rfl⟩ := h1
  simp only [rstep] at h2
  split at h2
  · injection h2 with h2; subst h2
    simp only [rstep, stopResult] at h3
    split at h3
    · injection h3 with h3; subst h3; simp [stopResult]
    · simp at h3
  · simp at h2

/-- the other code shape (`fallback = true`: an empty plugin reply is replaced by the stored position)
breaks exactly this: resumed from a stored position `x`, stopped idle, the node is told to stop at `x`,
a record it will never read — it stays in its loop, nothing on the read side is enabled any more and
`Source.Teardown` cannot begin. -/
theorem C06_v1_stop_fallback_hangs (c : Cfg) (s s1 s2 s3 : RSt) (x : Pos)
    (h1 : rstep c true s (.m .restart) = some s1) (hx : s.m.store.pos = some x)
    (h2 : rstep c true s1 .stopRpc = some s2) (h3 : rstep c true s2 .ctl = some s3) :
    s2.r.fetched = some (some x) ∧ s3.r.ended = false ∧
    rstep c true s3 .nodeRead = none ∧ rstep c true s3 .ctl = none ∧ rstep c true s3 .stopRpc = none ∧
    (∀ p, rstep c true s3 (.emit p) = none) ∧ rstep c true s3 (.m .tdBegin) = none := by
  simp only [rstep, Option.map_eq_some_iff] at h1
  obtain ⟨m1, hm1, rfl⟩ := h1
  have hinst : m1.inst.pos = some x := by
    simp only [step] at hm1
    split at hm1
    · injection hm1 with hm1; subst hm1; exact hx
    · simp at hm1
  simp only [rstep] at h2
  split at h2
  · injection h2 with h2; subst h2
    simp only [rstep, stopResult, hinst] at h3
    split at h3
    · injection h3 with h3; subst h3
      simp [rstep, stopResult, hinst]
    · simp at h3
  · simp at h2

/-! ### Non-vacuity -/

def cfg6 : Cfg := { maxRetries := 3, bundleThr := 0, txFailCallbacks := false, stopAfterDrop := false }

/-- a healthy stop with an ack still in the debounce batch: Teardown's forced flush, the wait, the
drain (with one transient Send failure) and the plugin teardown; the hypothesis `ReachH` is
satisfiable and the post-condition is reached. -/
def healthyStop : List Ev :=
  [.ack [1], .ack [2, 3], .tdBegin, .tdFlush, .tdSnap, .flushRes .ok, .callback 0, .tdWaited false,
   .closeQueue, .deliver false, .deliver true, .deliver true, .dgExit, .tdDrained false, .stopStream, .join,
   .pluginTeardown true, .waitPersisted]

example : (runH cfg6 init healthyStop).map
    (fun s => (s.td, s.swDone, s.deliveredI.map (·.ps), s.store.pos, s.teardowns)) =
    some (.done true, true, [[1], [2, 3]], some 3, 1) := by decide

/-! ### F11 — what happens outside the hypothesis: a failed final flush

`flushNow` returns before spawning the callbacks when `NewTransaction` fails
(`Cfg.txFailCallbacks = false`, the code at the pinned commit, tied by `Facts/C06.lean`), so that
generation's `callbacksDone` is never closed. `Source.Teardown` still completes (its wait is bounded),
but `StopAndWait`'s final `WaitPersisted` (no timeout) then waits forever: in the state reached by
the run below *no event but a crash is enabled*. Confirmed on the real code by `h_srcack`
(corpus/C06/srcstop_F11_…: trace `a:1 A T FT P1 R1 WH`). The same happens for a failed Commit (the
callback blocks on `errs`, which nobody reads during teardown). Both are outside `evHealthy`
("store responds" is read as "answers successfully"); under the stricter reading "answers at all"
this is a liveness defect of the stop. -/

/-- Teardown whose forced final flush fails at `NewTransaction`; the bounded wait expires -/
def f11Run : List Ev :=
  [.ack [1], .tdBegin, .tdFlush, .tdSnap, .flushRes .txFail, .tdWaited true, .closeQueue, .dgExit,
   .tdDrained false, .stopStream, .join, .pluginTeardown true]

def f11State : St := (run cfg6 init f11Run).getD init

/-- the run is a run of the model; Teardown returned nil, the ack is still pending, nothing is stored -/
theorem C06_F11_reached : (run cfg6 init f11Run).isSome = true ∧ f11State.td = .done true ∧
    f11State.pending.length = 1 ∧ f11State.store.pos = none ∧
    step cfg6 f11State .waitPersisted = none := by decide

/-- … and from there nothing but a crash can ever happen: `WaitPersisted` is disabled for good. -/
theorem C06_F11_stop_and_wait_hangs (e : Ev) (s' : St) (h : step cfg6 f11State e = some s') : e = .crash := by
  cases e with
  | crash => rfl
  | callback i =>
    exfalso; revert h
    cases i <;> simp [step, f11State, f11Run, run, cfg6, init, persist, doTrigger, setGen, noWriting]
  | errReadP i =>
    exfalso; revert h
    cases i <;> simp [step, f11State, f11Run, run, cfg6, init, persist, doTrigger, setGen, noWriting]
  | _ =>
    exfalso; revert h
    simp [step, f11State, f11Run, run, cfg6, init, persist, doTrigger, setGen, noWriting, Td.isDone,
      Gen.writeDone, Gen.callbacksDone]

/-- run, ack, restart from the stored position 2, one more record, stop: Stop returns 3 and the node
ends after processing record 3 -/
example : (rrun cfg6 false rinit [.emit 1, .emit 2, .nodeRead, .nodeRead, .m (.ack [1, 2]), .m .trigger, .m (.flushRes .ok),
    .m .crash, .m .restart, .emit 3, .stopRpc, .ctl, .nodeRead]).map
    (fun s => (s.r.fetched, s.r.ended, openPos s.m)) = some (some (some 3), true, 2) := by decide

end Conduit.SrcAck
