import ConduitModel.Proofs.WorkerStop
import ConduitModel.Props.PassC04

/-!
# C06 (arch-v2 worker) — a graceful `Worker.Stop` drains

C06 (properties.jsonl): "After a graceful stop of a healthy pipeline completes, no record is left
half-handled: every record that reached a destination or the dead-letter queue has its final
outcome and was acknowledged to its source connector before that connector was torn down … every
connector … that was opened has been torn down exactly once; the stop always completes while
plugins and store respond." — "for every … instant at which the stop request arrives relative to
reads, in-flight batches …". Mechanism named by the property: "Worker.Stop acquires processingLock
then tears the source down".

Model: `Model/WorkerStop.lean` — the reading goroutine (`Worker.Do`: loop test, `Source.Read`,
`acquireProcessingLock`, `if w.stop.Load()` discard, the pass, deferred release, the io.EOF branch,
`Close`) interleaved at statement granularity with the stopping goroutine (`Worker.Stop`: lock,
`stop.Store(true)`, `tearDownSource`, release). All theorems quantify over EVERY accepted event
list (`Reach`), i.e. every instant at which `Stop` and each of its statements is scheduled
relative to the reader, every number and size of batches, every Read outcome (batch, EOF,
ErrPluginNotRunning, error) and every pass behaviour allowed by the C04 pass theorems.
The statement order the model assumes is tied to the source by `Facts/C06Worker.lean`, the model
to the implementation by trace acceptance (driver component `workerstop`).
-/
namespace Conduit.WorkerStop

/-- C06 "torn down exactly once": `Source.Teardown` is never called twice — for every event list,
whoever races (`Stop`, the EOF branch, `Close`) — and it HAS been called exactly once when `Stop`
has returned or `Close` has run. -/
theorem C06_v2_teardown_exactly_once (s : St) (h : Reach s) :
    s.teardowns ≤ 1 ∧ (s.spc = .returned ∨ s.rpc = .closed → s.teardowns = 1) := by
  have hi := reach_inv h
  have htd := hi.td
  refine ⟨by rw [htd]; split <;> omega, fun hc => ?_⟩
  have ht : s.torn = true := by
    rcases hc with hc | hc
    · exact hi.spcTorn (Or.inr (Or.inr hc))
    · exact hi.closedTorn hc
  rw [htd, ht]; rfl

/-- C06 "acknowledged to its source connector BEFORE that connector was torn down": in every
accepted event list, every `Source.Ack` attempt happens in a state where the source has not been
torn down (so none is lost: `late = false`), and it happens inside a pass. -/
theorem C06_v2_no_ack_after_teardown (pre post : List Ev) (n : Nat) (late : Bool) (s : St)
    (h : run init (pre ++ .passAck n late :: post) = some s) :
    late = false ∧ ∃ s₁, run init pre = some s₁ ∧ s₁.torn = false ∧ s₁.rpc = .inPass := by
  rw [run_append] at h
  cases h1 : run init pre with
  | none => rw [h1] at h; cases h
  | some s₁ =>
    rw [h1] at h
    have hi : Inv s₁ := run_inv pre inv_init h1
    simp only [Option.bind_some, run_cons] at h
    cases h2 : step s₁ (.passAck n late) with
    | none => rw [h2] at h; cases h
    | some s₂ =>
      simp only [step] at h2
      split at h2
      · rename_i hc
        have ht := hi.pass_not_torn hc.1
        exact ⟨by rw [hc.2.1, ht], s₁, rfl, ht, hc.1⟩
      · cases h2

/-- state form: the flag "an ack was attempted after the teardown" is never set -/
theorem C06_v2_no_late_ack (s : St) (h : Reach s) : s.lateAck = false := (reach_inv h).late

/-- The mechanism: `Stop`'s `tearDownSource` (and its `stop.Store(true)`) is only ever executed
while the reading goroutine is outside the lock-protected region — no batch is between
`acquireProcessingLock` and its deferred `release()`, in particular no pass is running. -/
theorem C06_v2_stop_teardown_outside_pass (s s' : St) (h : Reach s)
    (hs : step s (.teardownSource .stopper) = some s' ∨ step s .setStopFlag = some s') :
    s.lock = some .stopper ∧ s.rpc ≠ .locked ∧ s.rpc ≠ .inPass ∧ ∀ ok, s.rpc ≠ .releasing ok := by
  have hi := reach_inv h
  have hl : s.lock = some .stopper := by
    rcases hs with hs | hs <;> simp only [step] at hs <;> split at hs <;> try cases hs
    all_goals rename_i hc; exact hi.lockS.mpr (by rw [hc]; rfl)
  have hn : ¬ s.lock = some .reader := by rw [hl]; simp
  have hh := mt hi.lockR.mpr hn
  refine ⟨hl, ?_, ?_, ?_⟩ <;> intros <;> intro hc <;> rw [hc] at hh <;> exact hh rfl

/-- C06, worker level, at the return of a graceful `Stop` (and in every later state): "no record
is left half-handled": no pass is in flight, `Stop` has released the lock, the source was torn
down exactly once, no ack was attempted after the teardown, every batch whose pass ran to
completion without error was acknowledged completely and BEFORE the teardown, a batch read
concurrently with the stop was either processed before the teardown or discarded without any
write or ack (never half: written but unacknowledged — outside a pass that itself failed), and a
batch still waiting for the lock is untouched (it will be discarded:
`C06_v2_after_stop_only_discards`). -/
theorem C06_v2_stop_drained (s : St) (h : Reach s) (hd : s.spc = .returned) : Drained s := by
  have hi := reach_inv h
  have ht : s.torn = true := hi.spcTorn (Or.inr (Or.inr hd))
  have hst : s.stop = true := hi.spcFlag (Or.inr (Or.inr (Or.inr hd)))
  refine ⟨?_, ?_, hst, ht, ?_, hi.late, hi.histOk, hi.histDisc, ?_, hi.cur⟩
  · intro hp; have := hi.passClean hp; rw [hst] at this; cases this
  · intro hl; have := hi.lockS.mp hl; rw [hd] at this; cases this
  · rw [hi.td, ht]; rfl
  · intro d hm hne
    cases hr : d.res with
    | ok => have := (hi.histOk d hm hr).1; simp [Done.half, this]
    | err => exact absurd hr hne
    | discarded => have := (hi.histDisc d hm hr).2; simp [Done.half, this]

/-- … and it stays true: whatever the worker does after `Stop` has returned, the state is still
drained (in particular no pass ever starts again). -/
theorem C06_v2_stop_stays_drained (s s' : St) (evs : List Ev) (h : Reach s) (hd : s.spc = .returned)
    (hr : run s evs = some s') : Drained s' := by
  have hd' : s'.spc = .returned := by
    induction evs generalizing s with
    | nil => cases hr; exact hd
    | cons e es ih =>
      rw [run_cons] at hr
      cases hs : step s e with
      | none => rw [hs] at hr; cases hr
      | some s1 => rw [hs] at hr; exact ih s1 (h.step hs) (step_returned hd hs) hr
  exact C06_v2_stop_drained s' (h.after evs hr) hd'

/-- After `Stop` has returned the only thing that can still happen to a batch is the discard of
one that was read concurrently with the stop: a step leaves the ledger unchanged or appends ONE
entry, and that entry is `discarded`, unwritten and unacknowledged. -/
theorem C06_v2_after_stop_only_discards (s s' : St) (e : Ev) (h : Reach s) (hd : s.spc = .returned)
    (hs : step s e = some s') :
    s'.hist = s.hist ∨ ∃ d, s'.hist = s.hist ++ [d] ∧ d.res = .discarded ∧ d.acked = 0 ∧ d.wrote = false := by
  have hD := C06_v2_stop_drained s h hd
  have hi := reach_inv h
  cases e with
  | teardownSource b =>
    left
    cases b <;> simp only [step] at hs <;> (repeat' split at hs) <;> (try cases hs) <;>
      simp [tearDown] <;> (split <;> rfl)
  | stopCheck =>
    simp only [step] at hs
    split at hs
    · rename_i hc
      have hcur := hi.cur (Or.inr hc)
      split at hs
      · cases hs; right
        exact ⟨_, rfl, rfl, hcur.1, hcur.2⟩
      · cases hs; left; rfl
    · cases hs
  | passEnd ok =>
    simp only [step] at hs
    split at hs
    · rename_i hc; exact absurd hc.1 hD.1
    · cases hs
  | close =>
    left
    simp only [step] at hs
    split at hs
    · cases hs; simp [tearDown]; split <;> rfl
    · cases hs
  | _ =>
    left
    simp only [step] at hs <;> (repeat' split at hs) <;> (try cases hs) <;> rfl

/-! ## the stop completes -/

/-- C06 "the stop always completes while plugins … respond", progress: in every reachable state
in which a stop was requested and has not returned, a stop-progress step is enabled — `Stop`'s
next statement, or, while the reading goroutine holds the lock, that goroutine's next step
towards its `release()` (the only assumption on the environment: a running pass eventually ends,
i.e. the enabled `passEnd` is eventually taken) — and it strictly decreases `variant` (≤ 23).
A `Source.Read` that blocks forever does not block `Stop`: it is outside the lock. -/
theorem C06_v2_stop_no_deadlock (s : St) (h : Reach s) (hp : StopPending s) :
    ∃ e s', e.stopProgress = true ∧ step s e = some s' ∧ variant s' < variant s := by
  have hi := reach_inv h
  suffices hex : ∃ e, e.stopProgress = true ∧ ∃ s', step s e = some s' by
    obtain ⟨e, he, s', hs⟩ := hex
    exact ⟨e, s', he, hs, progress_decreases hi he hs⟩
  obtain ⟨hp1, hp2⟩ := hp
  cases hspc : s.spc with
  | idle => exact absurd hspc hp1
  | returned => exact absurd hspc hp2
  | haveLock => exact ⟨.setStopFlag, rfl, by simp [step, hspc]⟩
  | flagSet => exact ⟨.teardownSource .stopper, rfl, by simp [step, hspc]⟩
  | tdDone => exact ⟨.stopRelease, rfl, by simp [step, hspc]⟩
  | released => exact ⟨.stopReturn, rfl, by simp [step, hspc]⟩
  | wantLock =>
    cases hl : s.lock with
    | none => exact ⟨.stopLockAcquire, rfl, by simp [step, hspc, hl]⟩
    | some w =>
      cases w with
      | stopper => have := hi.lockS.mp hl; rw [hspc] at this; cases this
      | reader =>
        have hh := hi.lockR.mp hl
        cases hr : s.rpc with
        | locked =>
          cases hst : s.stop with
          | true => exact ⟨.stopCheck, rfl, by simp [step, hr, hst]⟩
          | false => exact ⟨.stopCheck, rfl, by simp [step, hr, hst]⟩
        | inPass => exact ⟨.passEnd false, rfl, by simp [step, hr]⟩
        | releasing ok => exact ⟨.lockRelease, rfl, by simp [step, hr]⟩
        | _ => rw [hr] at hh; cases hh

/-- … and nothing but the reader re-taking the free lock ahead of the waiting `Stop` ever
increases the variant of a pending stop (Go hands a released channel slot to the blocked sender,
so that overtaking cannot repeat; lock fairness itself is not modelled). -/
theorem C06_v2_stop_variant_mono (s s' : St) (e : Ev) (h : Reach s) (hp : StopPending s)
    (hs : step s e = some s') (he : e ≠ .lockAcquire) : variant s' ≤ variant s := by
  have hi := reach_inv h
  by_cases hpr : e.stopProgress = true
  · exact Nat.le_of_lt (progress_decreases hi hpr hs)
  · obtain ⟨hp1, hp2⟩ := hp
    cases e with
    | teardownSource b =>
      cases b
      · simp [Ev.stopProgress] at hpr
      · simp only [step] at hs
        split at hs
        · rename_i hc; cases hs; simp [variant, tearDown, hc, rpcRank]; split <;> exact Nat.le_refl _
        · cases hs
    | lockAcquire => exact absurd rfl he
    | stopRequest =>
      simp only [step] at hs
      split at hs
      · rename_i hc; exact absurd hc hp1
      · cases hs
    | readReturn r =>
      simp only [step] at hs
      split at hs
      · rename_i hc
        split at hs <;> cases hs <;> refine variant_le_of rfl ?_ <;> (try split) <;> rfl
      · cases hs
    | loopTest =>
      simp only [step] at hs
      split at hs
      · rename_i hc; cases hs; refine variant_le_of rfl ?_ <;> (try split) <;> rfl
      · cases hs
    | close =>
      simp only [step] at hs
      split at hs
      · rename_i hc; cases hs; simp [variant, tearDown, hc, rpcRank]; split <;> exact Nat.le_refl _
      · cases hs
    | doReturn =>
      simp only [step] at hs
      split at hs
      · rename_i hc; cases hs; simp [variant, hc, rpcRank]
      · cases hs
    | passAck n late =>
      simp only [step] at hs
      split at hs
      · rename_i hc; split at hs <;> cases hs <;> simp [variant]
      · cases hs
    | readBegin | eofSetStop | passStep | passWrite =>
      simp only [step] at hs
      split at hs
      · rename_i hc; cases hs; simp [variant, hc, rpcRank]
      · cases hs
    | _ => simp [Ev.stopProgress] at hpr

/-- … so a pending stop can always be completed: from every reachable state with a pending stop
there is a run of at most `variant s` (≤ 23) stop-progress steps after which `Stop` has returned —
and (`progress_decreases`) no run of stop-progress steps is longer than that. -/
theorem C06_v2_stop_completes (s : St) (h : Reach s) (hp : StopPending s) :
    ∃ evs s', (∀ e ∈ evs, Ev.stopProgress e = true) ∧ run s evs = some s' ∧ s'.spc = .returned ∧
      evs.length ≤ variant s := by
  generalize hn : variant s = n
  induction n using Nat.strongRecOn generalizing s with
  | _ n ih =>
    obtain ⟨e, s1, he, hs, hlt⟩ := C06_v2_stop_no_deadlock s h hp
    have h1 : Reach s1 := h.step hs
    by_cases hp1 : StopPending s1
    · obtain ⟨evs, s', hall, hr, hd, hlen⟩ := ih (variant s1) (by omega) s1 h1 hp1 rfl
      refine ⟨e :: evs, s', ?_, ?_, hd, ?_⟩
      · intro x hx
        rcases List.mem_cons.mp hx with hx | hx
        · rw [hx]; exact he
        · exact hall x hx
      · rw [run_cons, hs]; exact hr
      · simp only [List.length_cons]; omega
    · -- the stopper pc never goes back to idle
      have hd : s1.spc = .returned := by
        have hne : s1.spc ≠ .idle := by
          intro hc
          obtain ⟨hp1', _⟩ := hp
          cases e with
          | teardownSource b =>
            cases b <;> simp only [step] at hs <;> (repeat' split at hs) <;> (try cases hs) <;>
              simp_all [tearDown] <;> (split at hc <;> simp_all)
          | _ =>
            simp only [step] at hs <;> (repeat' split at hs) <;> (try cases hs) <;>
              simp_all [tearDown, finish] <;> (split at hc <;> simp_all)
        unfold StopPending at hp1
        by_cases hr : s1.spc = .returned
        · exact hr
        · exact absurd ⟨hne, hr⟩ hp1
      exact ⟨[e], s1, by simpa using he, by rw [run_cons, hs]; rfl, hd, by simp only [List.length_singleton]; omega⟩

/-! ## the pass abstraction is the one the C04 pass theorems prove of the engine model -/

open Conduit.Funnel in
/-- One pass of the engine model (`runPass`, any task tree / scripts / fan-out order / outcome)
over a batch without nil positions acknowledges `k ≤ |batch|` further positions (a prefix of the
batch: `C04_v2_pass_acks_next`), and all of them when it returns without error
(`C04_v2_pass_ok_acks_all`): exactly the guards of `passAck` / `passEnd true`, so the pass is a run
of the stop model from the state in which the pass started. -/
theorem C06_v2_pass_abstraction (fuel : Nat) (tree : TaskNode) (recs : List Rec) (s₀ : PS)
    (hpos : ∀ r ∈ recs, r.pos ≠ none) :
    ∃ k, (ackedKeys ((runPass fuel tree recs).run.run s₀).2.log).length = (ackedKeys s₀.log).length + k ∧
      k ≤ recs.length ∧
      (((runPass fuel tree recs).run.run s₀).1 = .ok () → k = recs.length) ∧
      ∀ (s : St) (ok : Bool), s.rpc = .inPass → s.torn = false → s.batch = recs.length → s.ackedB = 0 →
        (ok = true → ((runPass fuel tree recs).run.run s₀).1 = .ok ()) →
        ∃ s', run s [.passAck k false, .passEnd ok] = some s' ∧ s'.rpc = .releasing ok := by
  obtain ⟨ks, h1, h2⟩ := C04_v2_pass_acks_next fuel tree recs s₀ hpos
  have hk : ks.length ≤ recs.length := by
    have := h2.length_le; simpa using this
  have hall : ((runPass fuel tree recs).run.run s₀).1 = .ok () → ks.length = recs.length := by
    intro hok
    have h3 := C04_v2_pass_ok_acks_all fuel tree recs s₀ hpos hok
    rw [h1] at h3
    have := List.append_cancel_left h3
    rw [this]; simp
  refine ⟨ks.length, by rw [h1]; simp, hk, hall, ?_⟩
  intro s ok hr ht hb ha hok
  have hb' : s.ackedB + ks.length ≤ s.batch := by omega
  have hok' : ok = true → s.ackedB + ks.length = s.batch := fun h => by have := hall (hok h); omega
  have e1 : step s (.passAck ks.length false) = some { s with ackedB := s.ackedB + ks.length } := by
    simp [step, hr, ht, hb']
  have e2 : step { s with ackedB := s.ackedB + ks.length } (.passEnd ok) =
      some { finish { s with ackedB := s.ackedB + ks.length } (if ok then .ok else .err) with rpc := .releasing ok } := by
    simp only [step]
    rw [if_pos ⟨hr, hok'⟩]
  exact ⟨_, by rw [run_cons, e1, Option.bind_some, run_cons, e2]; rfl, rfl⟩

/-! ## non-vacuity -/

/-- a stop arriving while a batch of 2 is in its pass: Stop waits for the lock, the pass completes
and acks both records, the reader releases, Stop arms the flag and tears the source down, and the
NEXT batch (read concurrently) is discarded untouched — `Stop` returns in a reachable state. -/
def exStopDuringPass : List Ev :=
  [.loopTest, .readBegin, .readReturn (.batch 2), .lockAcquire, .stopCheck, .passStep, .stopRequest, .passWrite,
   .passAck 2 false, .passEnd true, .lockRelease, .loopTest, .readBegin, .stopLockAcquire, .readReturn (.batch 3),
   .setStopFlag, .teardownSource .stopper, .stopRelease, .stopReturn, .lockAcquire, .stopCheck, .lockRelease, .loopTest, .doReturn, .close]

example : ∃ s, run init exStopDuringPass = some s ∧ s.spc = .returned ∧ s.rpc = .closed ∧ s.teardowns = 1 ∧
    s.hist = [⟨2, 2, true, .ok, true⟩, ⟨3, 0, false, .discarded, false⟩] := by
  refine ⟨_, rfl, ?_⟩; decide

/-- the hypotheses of `C06_v2_stop_drained` are satisfiable, also in the middle of the run -/
example : ∃ s, Reach s ∧ s.spc = .returned ∧ s.rpc = .gotBatch :=
  ⟨_, ⟨exStopDuringPass.take 19, rfl⟩, by decide⟩

/-- a pending stop that is blocked by a running pass (hypotheses of `C06_v2_stop_no_deadlock`) -/
example : ∃ s, Reach s ∧ StopPending s ∧ s.rpc = .inPass ∧ s.lock = some .reader :=
  ⟨_, ⟨exStopDuringPass.take 8, rfl⟩, by decide⟩

/-- the source exhausts itself (EOF branch) while Stop is on its way: one teardown -/
example : ∃ s, run init [.loopTest, .readBegin, .stopRequest, .readReturn .eof, .stopLockAcquire, .eofSetStop, .setStopFlag,
      .teardownSource .reader, .teardownSource .stopper, .stopRelease, .stopReturn, .loopTest, .doReturn, .close] = some s ∧
    s.teardowns = 1 ∧ s.spc = .returned ∧ s.rpc = .closed := by
  refine ⟨_, rfl, ?_⟩; decide

/-- the model does NOT accept a pass that starts after the teardown (what the seeded change
"stop check before the lock" produces): after `Stop` has returned, a freshly read batch can only
be discarded -/
example : run init [.loopTest, .readBegin, .readReturn (.batch 1), .stopRequest, .stopLockAcquire, .setStopFlag,
    .teardownSource .stopper, .stopRelease, .stopReturn, .lockAcquire, .stopCheck, .passWrite] = none := by decide

end Conduit.WorkerStop
