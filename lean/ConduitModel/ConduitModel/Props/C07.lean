import ConduitModel.Proofs.DlqWindow

/-!
# C07 — DLQ nack window: property theorems (window part)

Statement (properties.jsonl C07, window clause): "A rejection is tolerated only while the
rejections among the most recent window-size outcomes, counting it, do not exceed the
threshold (a window size of zero removes the limit, a threshold of zero tolerates none) …
and both engines take identical decisions for identical outcome sequences."

All theorems are for every `size`, `thr`, every outcome history and every batch partition.
-/
namespace Conduit.Dlq

/-- C07.window_refines — the v1 ring buffer gives, for every configuration and every history,
exactly the verdicts of the abstract "last `size` outcomes" specification. -/
theorem C07_window_refines (size thr : Nat) (h : List Bool) :
    (runV1 (Win.new size thr) h).2 = (Spec.run size thr Spec.init h).2 :=
  (v1_run h _ _ (rel_init size thr)).2

/-- spec run over batches: accepted count per batch. -/
def Spec.runBatches (size thr : Nat) : Spec → List (Bool × Nat) → Spec × List Nat
  | s, [] => (s, [])
  | s, (x, n) :: bs =>
    let r := Spec.run size thr s (List.replicate n x)
    let r' := Spec.runBatches size thr r.1 bs
    (r'.1, r.2.count true :: r'.2)

theorem v2_runBatches {size thr : Nat} : ∀ (bs : List (Bool × Nat)) (w : Win) (s : Spec), Rel size thr w s →
    (runV2 w bs).2 = (Spec.runBatches size thr s bs).2 := by
  intro bs
  induction bs with
  | nil => intro _ _ _; rfl
  | cons b bs ih =>
    intro w s r
    obtain ⟨x, n⟩ := b
    cases x with
    | false =>
      simp only [runV2, Spec.runBatches]
      rw [ih _ _ (v2_ackN r n), run_acks_all_true]
      simp [List.count_replicate]
    | true =>
      have h := v2_storeN r true n
      simp only [runV2, Win.nackN, Spec.runBatches]
      rw [ih _ _ h.1, h.2 rfl]

theorem v1_runBatches {size thr : Nat} : ∀ (bs : List (Bool × Nat)) (w : Win) (s : Spec), Rel size thr w s →
    (runV1Batches w bs).2 = (Spec.runBatches size thr s bs).2 := by
  intro bs
  induction bs with
  | nil => intro _ _ _; rfl
  | cons b bs ih =>
    intro w s r
    obtain ⟨x, n⟩ := b
    have h := v1_run (List.replicate n x) w s r
    simp only [runV1Batches, Spec.runBatches]
    rw [ih _ _ h.1, h.2]

/-- C07.v1_v2_same_decisions — for every configuration and every sequence of batches (i.e.
every outcome sequence and every partition of it into same-kind batches), the arch-v2 window
accepts exactly as many nacks of each batch as the v1 window does when fed record by record. -/
theorem C07_v1_v2_same_decisions (size thr : Nat) (bs : List (Bool × Nat)) :
    (runV2 (Win.new size thr) bs).2 = (runV1Batches (Win.new size thr) bs).2 := by
  rw [v2_runBatches bs _ _ (rel_init size thr), v1_runBatches bs _ _ (rel_init size thr)]

/-- C07.size_zero_no_limit — "a window size of zero removes the limit". -/
theorem C07_size_zero_no_limit (thr : Nat) (h : List Bool) :
    ∀ v ∈ (runV1 (Win.new 0 thr) h).2, v = true := by
  rw [C07_window_refines, run_size_zero]
  intro v hv; exact (List.mem_replicate.mp hv).2

/-- the spec characterisation, stated outright: a nack arriving in a non-frozen state is
tolerated iff the nacks among the most recent `size` outcomes, counting it, do not exceed `thr`. -/
theorem C07_tolerated_iff (size thr : Nat) (s : Spec) (hs : size ≠ 0) (hnf : s.frozen = false) :
    (Spec.step size thr s true).2 = true ↔ recentNacks size (s.hist ++ [true]) ≤ thr := by
  unfold Spec.step
  simp only [hs, if_false, hnf, Bool.false_eq_true]
  by_cases h : thr < recentNacks size (s.hist ++ [true])
  · simp [h]
  · simp [h]; omega

/-- C07.frozen_sticky — once a rejection was refused, every later rejection is refused. -/
theorem C07_frozen_sticky (size thr : Nat) (s : Spec) (hs : size ≠ 0) (hf : s.frozen = true) (os : List Bool) :
    (Spec.run size thr s os).1 = s ∧ ∀ i : Nat, os[i]? = some true → (Spec.run size thr s os).2[i]? = some false := by
  induction os with
  | nil => exact ⟨rfl, by intro i h; simp at h⟩
  | cons o os ih =>
    have hstep : Spec.step size thr s o = (s, !o) := by simp [Spec.step, hs, hf]
    simp only [Spec.run, hstep]
    refine ⟨ih.1, ?_⟩
    intro i h
    cases i with
    | zero => simp at h; subst h; simp
    | succ i => simp at h ⊢; exact ih.2 i h

/-- a refused nack freezes the spec. -/
theorem C07_refusal_freezes (size thr : Nat) (s : Spec) (h : (Spec.step size thr s true).2 = false) :
    (Spec.step size thr s true).1.frozen = true := by
  unfold Spec.step at h ⊢
  by_cases hs : size = 0
  · simp [hs] at h
  · by_cases hf : s.frozen = true
    · simp [hs, hf]
    · have hnf : s.frozen = false := by simpa using hf
      simp only [hs, if_false, hnf, Bool.false_eq_true] at h ⊢
      by_cases hc : thr < recentNacks size (s.hist ++ [true])
      · simp [hc]
      · simp [hc] at h

/-- C07.thr_zero_none — "a threshold of zero tolerates none" (for a non-zero window). -/
theorem C07_thr_zero_none (size : Nat) (hs : 0 < size) (h : List Bool) :
    ∀ i : Nat, h[i]? = some true → (runV1 (Win.new size 0) h).2[i]? = some false := by
  rw [C07_window_refines]
  -- generalise over the (reachable) spec state: any state works because one nack always exceeds 0
  suffices H : ∀ (s : Spec) (i : Nat), h[i]? = some true → (Spec.run size 0 s h).2[i]? = some false from H _
  induction h with
  | nil => intro s i hi; simp at hi
  | cons o os ih =>
    intro s i hi
    cases i with
    | zero =>
      simp at hi; subst hi
      have hne : size ≠ 0 := by omega
      simp only [Spec.run, List.getElem?_cons_zero, Option.some.injEq]
      unfold Spec.step
      simp only [hne, if_false]
      split
      · rfl
      · have : 0 < recentNacks size (s.hist ++ [true]) := by
          unfold recentNacks
          rw [lastN_snoc _ _ _ hs]
          simp [List.count_append]
        simp [this]
    | succ i =>
      simp only [Spec.run, List.getElem?_cons_succ] at hi ⊢
      exact ih _ i hi

/-! Non-vacuity: concrete runs (these are tests, not the unbounded claims above). -/
example : (runV1 (Win.new 3 1) [true, false, true, false, false, true]).2 = [true, true, false, true, true, false] := by decide
example : (runV2 (Win.new 3 1) [(true, 1), (false, 1), (true, 2)]).2 = [1, 1, 0] := by decide
example : (runV2 (Win.new 4 2) [(true, 2), (false, 3), (true, 3)]).2 = [2, 3, 2] := by decide
example : (Spec.run 3 1 Spec.init [true, false, true]).2 = [true, true, false] := by decide

end Conduit.Dlq
