import ConduitModel.Proofs.StreamPipe
import ConduitModel.Proofs.StreamMonitor
import ConduitModel.Props.C01Stream

/-
C07 (default engine, pipeline-level clauses) — property theorems. The window clause (ring buffer
≡ "last size outcomes" specification, v1 ≡ v2 verdicts) is Props/C07.lean; the pipeline model
reuses that very window (`Conduit.Dlq.Win`) for its verdicts.

"A record rejected by a destination or a processor is … written exactly once to the DLQ … and
only then acknowledged to its source; otherwise the pipeline stops with an error and that record
stays unacknowledged. … a failed DLQ write never results in an ack, dead-lettered records of one
source reach the DLQ in source order …"
-/
namespace Conduit.Props
open Conduit.Stream

/-- C07 for the v1 engine, monitor form, every run of every topology: see `monC07`. -/
theorem C07_v1_dlq_monitor (τ : Topo) (size thr : Nat) (evs : List Ev) (p : Pipe)
    (h : Pipe.run τ (Pipe.init τ size thr) evs = some p) : monC07 p.ack.log = true :=
  (ainv_reach τ.nDst size thr evs p.ack (pipe_run_proj evs h).2).2.2.1.2.2.2.2.2.2.2

theorem C07_v1_ack_component (M size thr : Nat) (evs : List Ev) (a : Ack)
    (h : Ack.run (Ack.init M size thr) evs = some a) : monC07 a.log = true :=
  (ainv_reach M size thr evs a h).2.2.1.2.2.2.2.2.2.2

/-- `dlq_exactly_once` + `dlq_in_source_order`: the DLQ records of a source are strictly
increasing in the emit index — a record is dead-lettered at most once (also when several
destinations of a fan-out reject it, in any vote order), and in source order. -/
theorem C07_v1_dlq_once_in_source_order (τ : Topo) (size thr : Nat) (evs : List Ev) (p : Pipe)
    (h : Pipe.run τ (Pipe.init τ size thr) evs = some p) (s : Nat) :
    List.Pairwise (· < ·) (dlqSeq s p.ack.log) :=
  dlqSeq_of_monC07 s _ (C07_v1_dlq_monitor τ size thr evs p h)

/-- `dlq_then_ack`: a record that went to the DLQ is acked to its source only after the DLQ
plugin confirmed it; and a record is never handed to the DLQ after it was acked. -/
theorem C07_v1_dlq_then_ack (τ : Topo) (size thr : Nat) (evs : List Ev) (p : Pipe)
    (h : Pipe.run τ (Pipe.init τ size thr) evs = some p) (post pre : List Ev) (s i : Nat) :
    (∀ r, p.ack.log = post ++ Ev.sack s i r :: pre → dlqwIn pre s i = true → dlqaOkIn pre s i = true) ∧
    (∀ ok, p.ack.log = post ++ Ev.dlqw s i ok :: pre → sackIn pre s i = false) := by
  have hm := C07_v1_dlq_monitor τ size thr evs p h
  constructor
  · intro r hl hw
    rw [hl] at hm
    have := monC07_suffix _ _ hm
    simp only [monC07, Bool.and_eq_true] at this
    have h2 := this.2.1
    simpa [hw] using h2
  · intro ok hl
    rw [hl] at hm
    have := monC07_suffix _ _ hm
    simp only [monC07, Bool.and_eq_true] at this
    have h2 := this.2.1.2
    simpa using h2

/-- `failed_dlq_write_never_acks`: after a DLQ write (or its acknowledgment) failed for a record
of source `s`, no record of `s` — in particular not that one — is acked any more, and nothing of
`s` is handed to the DLQ any more (`fail` latch of its SourceAckerNode). -/
theorem C07_v1_failed_dlq_write_never_acks (τ : Topo) (size thr : Nat) (evs : List Ev) (p : Pipe)
    (h : Pipe.run τ (Pipe.init τ size thr) evs = some p) (post pre : List Ev) (s i : Nat) :
    (∀ r, p.ack.log = post ++ Ev.sack s i r :: pre → dlqFailOf pre s = false) ∧
    (∀ ok, p.ack.log = post ++ Ev.dlqw s i ok :: pre → dlqFailOf pre s = false) := by
  have hm := C07_v1_dlq_monitor τ size thr evs p h
  constructor
  · intro r hl
    rw [hl] at hm
    have := monC07_suffix _ _ hm
    simp only [monC07, Bool.and_eq_true] at this
    simpa using this.2.2
  · intro ok hl
    rw [hl] at hm
    have := monC07_suffix _ _ hm
    simp only [monC07, Bool.and_eq_true] at this
    simpa using this.2.2

/-- `rejected_unacked_and_fatal`: when the DLQ refuses a nacked record (window verdict, not
running, broken) the handler returns an error (`hfail`), which latches `fail`: the record and
everything after it of that source stay unacknowledged (`C04_v1_fail_latch`), and the caller of
`Nack` gets the error, which stops the run. -/
theorem C07_v1_rejected_unacked (M size thr : Nat) (evs : List Ev) (a a' : Ack)
    (h : Ack.run (Ack.init M size thr) evs = some a) (s i : Nat) (hs : a.step (.hfail s i) = some a') :
    a'.fail s = true ∧ sackIn a'.log s i = false := by
  have hI := ainv_reach M size thr evs a h
  obtain ⟨⟨hh, hti, _⟩, hres⟩ := step_hfail hs
  have hi := ticket_eq_released hI.1 hti
  have hns : sackIn a.log s i = false := bool_false_of_imp (hI.2.2.1.2.1 s i) (by
    intro hc; rcases hc with hc | ⟨_, hc⟩
    · omega
    · simp [hh] at hc)
  rcases hres with ⟨_, rfl⟩ | ⟨_, _, _, rfl⟩
  · simp [release_fail, hns]
  · simp [release_fail, hns]

/-! non-vacuity -/
example : ((Pipe.run exTopo (Pipe.init exTopo 0 0) exRunDlq).map fun p => dlqSeq 0 p.ack.log) = some [0] := by
  decide
/-- a failed DLQ write: the source ack is refused by the model. -/
example : (Pipe.run exTopo (Pipe.init exTopo 0 0)
    (exRunDlq.take 12 ++ [.dlqa 0 0 false, .sack 0 0 .ok])).isNone = true := by decide
/-- window size 1 / threshold 0 tolerates no nack: the DLQ write is refused by the model. -/
example : (Pipe.run exTopo (Pipe.init exTopo 1 0) (exRunDlq.take 12)).isNone = true := by decide

end Conduit.Props
