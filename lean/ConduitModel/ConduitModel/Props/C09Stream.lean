import ConduitModel.Proofs.StreamCondMerge
import ConduitModel.Proofs.StreamPipe
import ConduitModel.Props.C01Stream

/-
C09 (default engine + processor package) — property theorems.

"Whatever a plugin returns - fewer, more or zero results, … - the engine neither panics nor
hangs: it either applies the documented handling or stops that pipeline with an error … For a
processor with a condition, records that do not match pass through unchanged in their original
place and every result stays aligned with the record it belongs to."
-/
namespace Conduit.Props
open Conduit.Stream.CondMerge
open Conduit.Stream

/-- C09, last sentence, for `RunnableProcessor.Process` (pkg/processor/runnable_processor.go,
after fix_F4.diff): for EVERY match pattern (`conds`: keep / pass / evaluation error per
record), EVERY batch and EVERY plugin (any output length, any content):
the call never panics, and the result is either the coded error "processor returned more
records than input", or a list in which every element sits at the index of the record it
belongs to — a non-matching record is `SingleRecord(records[j])` unchanged at `j`, the result
at a matching position `j` is the plugin's result for that record (`raw[rank conds j]`), a
failed condition evaluation yields the error record at the failing record's index — and which
has the length of the input whenever the plugin answered every kept record and no evaluation
failed. (A shorter plugin reply yields an aligned *prefix*: the documented "short result"
handling of the callers applies.) -/
theorem C09_v1_cond_merge_aligned {ρ τ : Type} (conds : List Cond) (recs : List ρ)
    (plugin : List ρ → List τ) (hlen : conds.length = recs.length) :
    ∃ res, condMerge conds recs plugin = .ok res ∧
      ((keptCount conds < (rawOf conds recs plugin).length ∧ res = [Out.moreErr]) ∨
       ((rawOf conds recs plugin).length ≤ keptCount conds ∧
        Aligned conds recs (rawOf conds recs plugin) res ∧
        ((rawOf conds recs plugin).length = keptCount conds → hasErr conds = false →
          res.length = conds.length))) := by
  rw [condMerge_eq conds recs plugin hlen]
  by_cases h : keptCount conds < (rawOf conds recs plugin).length
  · exact ⟨_, rfl, Or.inl ⟨h, by simp [h]⟩⟩
  · refine ⟨_, rfl, Or.inr ⟨by omega, ?_, ?_⟩⟩
    · rw [if_neg h]; exact spec_aligned _ _ _
    · intro hk he; rw [if_neg h]; exact spec_full_length _ _ _ hlen hk he

/-- C09 "neither panics": no slice access of the merge is out of range, whatever the plugin
returns. -/
theorem C09_v1_cond_merge_never_panics {ρ τ : Type} (conds : List Cond) (recs : List ρ)
    (plugin : List ρ → List τ) (hlen : conds.length = recs.length) (e : Panic) :
    condMerge conds recs plugin ≠ .error e := by
  rw [condMerge_eq conds recs plugin hlen]; intro h; cases h

/-- Non-matching records pass through unchanged in their original place (stated on its own). -/
theorem C09_v1_cond_merge_passthrough_in_place {ρ τ : Type} (conds : List Cond) (recs : List ρ)
    (plugin : List ρ → List τ) (hlen : conds.length = recs.length)
    (hk : (rawOf conds recs plugin).length ≤ keptCount conds)
    (res : List (Out ρ τ)) (hres : condMerge conds recs plugin = .ok res)
    (j : Nat) (x : Out ρ τ) (hx : res[j]? = some x) (hj : conds[j]? = some Cond.pass) :
    ∃ r, recs[j]? = some r ∧ x = Out.single r := by
  obtain ⟨res', h1, h2⟩ := C09_v1_cond_merge_aligned conds recs plugin hlen
  rw [hres] at h1
  cases h1
  rcases h2 with ⟨h, _⟩ | ⟨_, ha, _⟩
  · omega
  · exact (ha.2 j x hx).1 hj

/-- The pinned code (before fix_F4.diff) does panic: pattern keep/keep/pass with a plugin that
answers only the first kept record (DESIGN §9 F4) — the witness kept in corpus/C09. -/
theorem C09_v1_cond_merge_pinned_code_panics :
    condMergeOld [Cond.keep, Cond.keep, Cond.pass] [0, 1, 2] (fun k => k.take 1)
      = (.error .indexOutOfRange : Except Panic (List (Option (Out Nat Nat)))) := by
  rfl

theorem C09_v1_cond_merge_pinned_code_panics_kpkp :
    condMergeOld [Cond.keep, Cond.pass, Cond.keep, Cond.pass] [0, 1, 2, 3] (fun k => k.take 1)
      = (.error .indexOutOfRange : Except Panic (List (Option (Out Nat Nat)))) := by
  rfl

/-! non-vacuity: the hypotheses are satisfiable and every outcome class occurs -/

example : condMerge [Cond.keep, Cond.keep, Cond.pass] [0, 1, 2] (fun k => k.take 1)
    = (.ok [Out.res 0] : Except Panic (List (Out Nat Nat))) := by rfl
example : condMerge [Cond.pass, Cond.keep, Cond.pass, Cond.keep] [0, 1, 2, 3] (fun k => k.map (· + 10))
    = (.ok [Out.single 0, Out.res 11, Out.single 2, Out.res 13] : Except Panic (List (Out Nat Nat))) := by rfl
example : condMerge [Cond.pass, Cond.keep, Cond.err, Cond.keep] [0, 1, 2, 3] (fun k => k)
    = (.ok [Out.single 0, Out.res 1, Out.condErr] : Except Panic (List (Out Nat Nat))) := by rfl
example : condMerge [Cond.keep, Cond.pass] [0, 1] (fun k => k ++ k)
    = (.ok [Out.moreErr] : Except Panic (List (Out Nat Nat))) := by rfl
example : condMerge [Cond.pass, Cond.pass] [0, 1] (fun k => k)
    = (.ok [Out.single 0, Out.single 1] : Except Panic (List (Out Nat Nat))) := by rfl

/-! ### the v1 node graph: no reply shape reaches a panic, every reply has a defined outcome -/

/-- C09 "neither panics": in EVERY run of the v1 pipeline model — every topology, every
interleaving, every destination reply script (any lengths incl. EMPTY, any positions incl. unknown,
repeated, out of order), every processor result shape, every DLQ / source-ack failure — none of the
panics of the code is reached: not the `acks[0]` of `DestinationAckerNode.worker` (after
fix_F3.diff an empty reply is an error), and not the "BUG: message … ack/nack failed" panics of
message.go (a message is never acked after it was nacked or vice versa: the fan-out arbiter acks
the original only when every clone was acked, and a nacked clone is never acked). -/
theorem C09_v1_no_panic (τ : Topo) (size thr : Nat) (evs : List Ev) (p : Pipe)
    (h : Pipe.run τ (Pipe.init τ size thr) evs = some p) : p.ack.panicked = false :=
  (ainv_reach τ.nDst size thr evs p.ack (pipe_run_proj evs h).2).2.2.2.2.2.2.2.2.2.2.2.2.2.1

theorem C09_v1_no_panic_ack_component (M size thr : Nat) (evs : List Ev) (a : Ack)
    (h : Ack.run (Ack.init M size thr) evs = some a) : a.panicked = false :=
  (ainv_reach M size thr evs a h).2.2.2.2.2.2.2.2.2.2.2.2.2.1

/-- C09 "whatever a connector returns … applies the documented handling or stops with an error":
whenever destination d's acker worker is waiting for a reply (a written message at the head of its
queue, no buffered ack), EVERY reply `acks` — any length, any content — is handled: the step is
defined, and it either matches the head (ack / nack it), or stops the worker (`wdead`) leaving the
message unacknowledged; an empty reply stops the worker. -/
theorem C09_v1_every_destination_reply_handled (a : Ack) (d s i : Nat) (acks : List DAck)
    (hq : (a.aq d)[0]? = some (s, i)) (hw : a.wdead d = false) (hb : a.buf d = [])
    (hf : a.clFilt s i d = false) (hc : a.clone s i d = .open) :
    ∃ a', a.step (.dreply d acks) = some a' ∧
      (acks = [] → a'.wdead d = true ∧ a'.clone s i d = .open) ∧
      (∀ x rest, acks = x :: rest → x.1 ≠ some (s, i) → a'.wdead d = true ∧ a'.clone s i d = .open) := by
  cases acks with
  | nil =>
    refine ⟨_, by simp [Ack.step, hq, hw, hb, hf, hc]; rfl, ?_, ?_⟩
    · intro _; simp [Ack.clone] at hc ⊢; exact hc
    · intro x rest hx; cases hx
  | cons y rest =>
    refine ⟨_, by simp [Ack.step, hq, hw, hb, hf, hc, firstAck]; rfl, ?_, ?_⟩
    · intro hx; cases hx
    · intro x rest' hx hne
      injection hx with h1 h2
      subst h1
      simp [Ack.dproc, hne, Ack.clone] at hc ⊢
      exact hc

/-- C09 for processors in the v1 engine: every reply shape of a processor plugin (one unchanged
record, a changed position, filter, error, multi, nil / unknown, zero or several results) has a
defined handling, and everything but an unchanged single record or a filter leaves the record
un-acked: it is nacked (`Ack.procO … .fail` sets the status to nacked; it can then only reach the
source through the DLQ, C01). -/
theorem C09_v1_every_processor_reply_handled (r : ProcReply) :
    (procKind r = .pass ↔ r = .single true) ∧ (procKind r = .filter ↔ r = .filter) ∧
    (procKind r = .fail ↔ r ≠ .single true ∧ r ≠ .filter) := by
  cases r with
  | single b => cases b <;> simp [procKind]
  | _ => simp [procKind]

theorem C09_v1_failed_processor_reply_nacks (a : Ack) (s i : Nat) : (a.procO s i .fail).ost s i = .nacked := by
  simp [Ack.procO]

/-! non-vacuity: an empty reply, an unknown position and a repeated ack are accepted by the model and
stop the worker; the run goes on (teardown nack → DLQ → source ack) -/
example : ((Pipe.run exTopo (Pipe.init exTopo 0 0) (exRunAck.take 10 ++ [.dreply 0 []])).map
    fun p => (p.ack.wdead 0, p.ack.panicked)) = some (true, false) := by decide
example : ((Pipe.run exTopo (Pipe.init exTopo 0 0) (exRunAck.take 10 ++ [.dreply 0 [(none, true)]])).map
    fun p => (p.ack.wdead 0, p.ack.panicked)) = some (true, false) := by decide
example : ((Pipe.run exTopo (Pipe.init exTopo 0 0)
    (exRunAck.take 10 ++ [.dreply 0 [], .nackB 0 0 0, .dlqw 0 0 true, .dlqa 0 0 true, .sack 0 0 .ok])).map
    fun p => sackIn p.ack.log 0 0) = some true := by decide

end Conduit.Props
