import ConduitModel.Proofs.LifecycleStop
import ConduitModel.Proofs.LifecycleTomb

/-!
# C10 — fatal failures degrade, transient ones recover (bounded), stopped stays stopped

Statement (properties.jsonl C10): "When a running pipeline fails, a fatal cause … leaves it degraded
with the cause recorded and it is never restarted automatically, while a transient cause leads to
automatic restarts …, each after a back-off delay within the configured bounds and no more than the
configured number of attempts within the configured window. A pipeline that a user stopped, or that
stopped because the server is shutting down, is never restarted by recovery and ends in the matching
stopped status."

All theorems are over M5 (`Model/Lifecycle.lean`): every event list = every interleaving of control
calls, run start-up, node failures, cleanup goroutines, recovery timers and store failures, for both
engines and every configuration.  `Fixes` are four source facts regenerated from the Go code
(`Generated.Lifecycle`); the unchanged tree has all four `false`.
-/
namespace Conduit.Lifecycle

/-! ## fatal ⇒ Degraded with the cause, never restarted -/

/-- C10.fatal_degrades_never_restarts (classification) — "a fatal cause leaves it degraded with the
cause recorded": whenever a cleanup goroutine classifies a run whose tomb reason `c` is fatal, it
takes the Degraded arm with exactly `c`, in both engines and regardless of the graceful-shutdown /
intentional-stop flags or a sink close error. -/
theorem C10_fatal_degrades {s s' : State} {n : Nat} {sink : Option Cause} {c : Cause}
    (h : step s (.cleanupWake n sink) = some s') (ht : (s.runs n).tomb = some c) (hf : c.isFatal = true) :
    (s'.runs n).cpc = .decided (.degrade c) ∧ (s'.runs n).cerr = some c := by
  simp only [step, stepCleanupWake] at h
  repeat' split at h
  all_goals first
    | (cases h; done)
    | (cases h
       simp only [setRun_runs, if_true, ht, classify]
       cases s.eng <;> simp [hf, HOrElse.hOrElse, OrElse.orElse, Option.orElse])

/-- … and the status write of that arm stores `Degraded`, the terminal error is `c`. -/
theorem C10_degraded_written {s s' : State} {n : Nat} {c : Cause}
    (h : step s (.writeStatus n true) = some s') (hc : (s.runs n).cpc = .decided (.degrade c)) :
    s'.status = .degraded ∧ (s'.runs n).cpc = .tail1 (some c) := by
  simp only [step, stepWriteStatus, hc] at h
  split at h
  · cases h
  · simp at h; subst h; simp [Action.status, Action.err]

/-- C10.fatal_degrades_never_restarts (no restart) — "it is never restarted automatically": in every
reachable state, a cleanup goroutine that is on the recovery path (decided to recover, sleeping in
the back-off, or inside the nested Start) classified a NON-fatal error. -/
theorem C10_fatal_never_restarts {eng cfg fx} {s : State} (hr : Reach eng cfg fx s) (i : Nat)
    (hrec : recoverish (s.runs i).cpc = true) : ∃ c, (s.runs i).cerr = some c ∧ c.isFatal = false :=
  (reach_inv hr).recoverNonFatal i hrec

/-- … in particular the step that performs a restart (`backoffElapsed` entering the nested Start,
recognisable by a new run id) is taken only by a run that classified a non-fatal error. -/
theorem C10_restart_only_after_transient {eng cfg fx} {s s' : State} {n : Nat} (hr : Reach eng cfg fx s)
    (h : step s (.backoffElapsed n) = some s') (_hnew : s'.next ≠ s.next) :
    ∃ c, (s.runs n).cerr = some c ∧ c.isFatal = false := by
  apply (reach_inv hr).recoverNonFatal n
  simp only [step, stepBackoffElapsed] at h
  split at h
  · rename_i w t hb; rw [hb]; rfl
  · cases h

/-- The error a failing node reports IS the tomb reason (so the two theorems above are about the
failure that happened) in engine v2, and in v1 once the node goroutine records it before
`nodesWg.Done()` (fix flag `v1KillBeforeDone`). -/
theorem C10_failure_is_recorded {s s' : State} {n : Nat} {c : Cause}
    (hfix : s.eng = .v2 ∨ s.fx.v1KillBeforeDone = true)
    (h : step s (.nodeExit n c) = some s') (ht : (s.runs n).tomb = none) : (s'.runs n).tomb = some c := by
  simp only [step, stepNodeExit] at h
  repeat' split at h
  all_goals first
    | (cases h; done)
    | (cases h; rcases hfix with hf | hf <;> simp_all <;> rfl)

/-- FINDING (v1, unchanged tree): the node goroutine only *returns* its error; `nodesWg.Done()` is
deferred and fires before tomb.v2 records the returned error, so the cleanup goroutine can read
`tomb.ErrStillAlive` for a pipeline that died with a FATAL error and finalize it as UserStopped with
a nil error. Full-strength `C10_failure_is_recorded` is false for v1 without the fix: -/
theorem C10_fatal_degrades_v1_counterexample :
    ((runFrom (init .v1 ⟨some 3, 1, 2, 5⟩ {})
      [.startUser, .buildOk 0, .publish 0, .writeRunning 0 true, .startReturn, .openOk 0,
       .nodeExit 0 .nodeFatal, .cleanupWake 0 none, .writeStatus 0 true, .setTerminalErr 0]).map
        fun s => (s.status, s.terminalErr)) = some (.userStopped, some none) := by decide

/-- with the fix the same history degrades with the cause recorded. -/
example :
    ((runFrom (init .v1 ⟨some 3, 1, 2, 5⟩ { v1KillBeforeDone := true })
      [.startUser, .buildOk 0, .publish 0, .writeRunning 0 true, .startReturn, .openOk 0,
       .nodeExit 0 .nodeFatal, .cleanupWake 0 none, .writeStatus 0 true, .setTerminalErr 0]).map
        fun s => (s.status, s.terminalErr)) = some (.degraded, some (some .nodeFatal)) := by decide

/-! ## transient ⇒ bounded restarts -/

/-- C10.transient_restart_bounds (attempts) — "no more than the configured number of attempts within
the configured window": every recovery that is granted a restart arms one decrement timer that stays
pending until `MaxRetriesWindow` after the restart's scheduled time; in every reachable state the
pending timers of one pipeline (attempt chain) number at most `MaxRetries`, and never more than the
attempt counter. -/
theorem C10_transient_restart_bounds {eng cfg fx} {s : State} (hr : Reach eng cfg fx s) (ch : Nat) :
    (timersOf s ch).length ≤ s.cnt ch ∧ ∀ m, s.cfg.maxRetries = some m → (timersOf s ch).length ≤ m :=
  ⟨(reach_inv hr).timersLeCnt ch, (reach_inv hr).timersLeMax ch⟩

/-- … a restart is only granted while the attempt counter does not exceed `MaxRetries`; beyond it
the recovery takes the Degraded arm with ErrPipelineCannotRecover (fatal). -/
theorem C10_retries_exhausted_degrades {s s' : State} {n d m : Nat}
    (h : step s (.recoverBegin n d true) = some s') (hm : s.cfg.maxRetries = some m)
    (hex : m < s.cnt (s.runs n).chain + 1) :
    (s'.runs n).cpc = .decided (.degrade .cannotRecover) ∧ s'.timers = s.timers := by
  simp only [step, stepRecoverBegin] at h
  have he : exceeded s.cfg (s.cnt (s.runs n).chain + 1) = true := by simp [exceeded, hm, hex]
  repeat' split at h
  all_goals first
    | (cases h; done)
    | (cases h; simp_all)

/-- C10.transient_restart_bounds (delay) — "each after a back-off delay within the configured
bounds": a sleeping recovery was scheduled between MinDelay and MaxDelay after StatusRecovering was
written … -/
theorem C10_backoff_delay_bounds {eng cfg fx} {s : State} (hr : Reach eng cfg fx s) (i w t : Nat)
    (hb : (s.runs i).cpc = .backoff w t) :
    (s.runs i).recAt + s.cfg.minDelay ≤ w ∧ w ≤ (s.runs i).recAt + s.cfg.maxDelay :=
  ⟨((reach_inv hr).delayBounds i w t hb).1, ((reach_inv hr).delayBounds i w t hb).2.1⟩

/-- … and the restart itself happens no earlier than MinDelay after it. -/
theorem C10_restart_not_before_min_delay {eng cfg fx} {s s' : State} {n : Nat} (hr : Reach eng cfg fx s)
    (h : step s (.backoffElapsed n) = some s') : (s.runs n).recAt + s.cfg.minDelay ≤ s.now := by
  simp only [step, stepBackoffElapsed] at h
  split at h
  · rename_i w t hb
    have := ((reach_inv hr).delayBounds n w t hb).1
    split at h
    · cases h
    · omega
  · cases h

/-! ## stopped stays stopped -/

/-- C10.user_or_shutdown_stop_never_restarted — FULL STATEMENT (the goal):
`∀ evs s, runFrom (init eng cfg fx) evs = some s → s.badRestarts = 0`
("no recovery restart is performed while a user stop / shutdown request accepted since the last user
Start is in force").  It is FALSE on the unchanged tree (counterexamples below) and is proved here
for engine v2 with the two stop fixes, for every event list in which no Stop/StopAll call overlaps a
Start that has passed its status check but not yet published its run (`hypStop`). -/
theorem C10_user_or_shutdown_stop_never_restarted_partial (cfg : Cfg) (fx : Fixes)
    (h1 : fx.v2RecheckStop = true) (h2 : fx.v2KeepIntent = true) (evs : List Event) (s : State)
    (h : runFromH hypStop (init .v2 cfg fx) evs = some s) : s.badRestarts = 0 :=
  (runFromH_invStop evs (inv_init _ _ _) (invStop_init cfg fx h1 h2) h).noBad

/-- FINDING F9 (v2, unchanged tree, graceful): Stop while StatusRecovering resolves the dead run,
returns nil, and the recovery restarts the pipeline after the back-off. -/
theorem C10_stop_during_backoff_v2_counterexample :
    ((runFrom (init .v2 ⟨some 3, 1, 2, 5⟩ {})
      [.startUser, .buildOk 0, .publish 0, .writeRunning 0 true, .startReturn,
       .nodeExit 0 .nodeTransient, .cleanupWake 0 none, .recoverBegin 0 1 true,
       .stop false, .tick 1, .backoffElapsed 0]).map fun s => (stopRes s false, s.badRestarts, s.stopIntent)) =
      some (.ok, 1, true) := by decide

/-- FINDING F9 (both engines, unchanged tree, force): a force stop during the back-off kills an
already dead tomb, returns nil, and the pipeline is restarted. -/
theorem C10_force_stop_during_backoff_counterexample (eng : Engine) :
    ((runFrom (init eng ⟨some 3, 1, 2, 5⟩ {})
      [.startUser, .buildOk 0, .publish 0, .writeRunning 0 true, .startReturn,
       .nodeExit 0 .nodeTransient, .tombRecord 0, .cleanupWake 0 none, .recoverBegin 0 1 true,
       .stop true, .tick 1, .backoffElapsed 0]).map fun s => s.badRestarts) = some 1 ∨
    ((runFrom (init eng ⟨some 3, 1, 2, 5⟩ {})
      [.startUser, .buildOk 0, .publish 0, .writeRunning 0 true, .startReturn,
       .nodeExit 0 .nodeTransient, .cleanupWake 0 none, .recoverBegin 0 1 true,
       .stop true, .tick 1, .backoffElapsed 0]).map fun s => s.badRestarts) = some 1 := by
  cases eng
  · left; decide
  · right; decide

/-- FINDING (v2, unchanged tree): a repeated graceful Stop finds every worker already stopping,
so `armedSources` is empty and `intentionalStop` is reset to false; a transient error of the drain
(here: the shared sink's close error) then takes the recovery arm. -/
theorem C10_repeated_stop_v2_counterexample :
    ((runFrom (init .v2 ⟨some 3, 1, 2, 5⟩ {})
      [.startUser, .buildOk 0, .publish 0, .writeRunning 0 true, .startReturn,
       .stop false, .nodeExitClean 0, .stop false, .cleanupWake 0 (some .nodeTransient),
       .recoverBegin 0 1 true, .tick 1, .backoffElapsed 0]).map fun s => s.badRestarts) = some 1 := by decide

/-- with the fixes the three v2 histories end stopped: the recovery wake-up takes the Degraded
(force) / UserStopped (graceful) arm and performs no restart. -/
example :
    ((runFrom (init .v2 ⟨some 3, 1, 2, 5⟩ Fixes.allOn)
      [.startUser, .buildOk 0, .publish 0, .writeRunning 0 true, .startReturn,
       .nodeExit 0 .nodeTransient, .cleanupWake 0 none, .recoverBegin 0 1 true,
       .stop false, .tick 1, .backoffElapsed 0, .writeStatus 0 true]).map fun s => (s.status, s.restarts)) =
      some (.userStopped, 0) := by decide
example :
    ((runFrom (init .v2 ⟨some 3, 1, 2, 5⟩ Fixes.allOn)
      [.startUser, .buildOk 0, .publish 0, .writeRunning 0 true, .startReturn,
       .nodeExit 0 .nodeTransient, .cleanupWake 0 none, .recoverBegin 0 1 true,
       .stop true, .tick 1, .backoffElapsed 0, .writeStatus 0 true]).map fun s => (s.status, s.restarts)) =
      some (.degraded, 0) := by decide
example :
    ((runFrom (init .v2 ⟨some 3, 1, 2, 5⟩ Fixes.allOn)
      [.startUser, .buildOk 0, .publish 0, .writeRunning 0 true, .startReturn,
       .stop false, .nodeExitClean 0, .stop false, .cleanupWake 0 (some .nodeTransient),
       .writeStatus 0 true]).map fun s => (s.status, s.restarts)) = some (.userStopped, 0) := by decide

/-- FINDING (v1, unchanged tree, by design of v1 — no intentional-stop marker, no shutdown gate): a
transient error of the drain after a graceful user Stop / StopAll takes the recovery arm. -/
theorem C10_stop_then_transient_v1_counterexample :
    ((runFrom (init .v1 ⟨some 3, 1, 2, 5⟩ Fixes.allOn)
      [.startUser, .buildOk 0, .publish 0, .writeRunning 0 true, .startReturn, .openOk 0,
       .stop false, .nodeExit 0 .nodeTransient, .cleanupWake 0 none, .recoverBegin 0 1 true,
       .tick 1, .backoffElapsed 0]).map fun s => s.badRestarts) = some 1 := by decide

theorem C10_shutdown_then_transient_v1_counterexample :
    ((runFrom (init .v1 ⟨some 3, 1, 2, 5⟩ Fixes.allOn)
      [.startUser, .buildOk 0, .publish 0, .writeRunning 0 true, .startReturn, .openOk 0,
       .stopAll false, .nodeExit 0 .nodeTransient, .cleanupWake 0 none, .recoverBegin 0 1 true,
       .tick 1, .backoffElapsed 0]).map fun s => s.badRestarts) = some 1 := by decide

/-- even with the fixes, a Stop that lands while the nested Start of a recovery is between its
status check and its publication is absorbed by the dead run (hypothesis `hypStop` is necessary). -/
theorem C10_stop_during_nested_start_counterexample :
    ((runFrom (init .v2 ⟨some 3, 1, 2, 5⟩ Fixes.allOn)
      [.startUser, .buildOk 0, .publish 0, .writeRunning 0 true, .startReturn,
       .nodeExit 0 .nodeTransient, .cleanupWake 0 none, .recoverBegin 0 1 true, .tick 1,
       .backoffElapsed 0, .stop false, .buildOk 1, .publish 1, .writeRunning 1 true]).map
        fun s => (s.stopIntent, s.status, (s.runs 1).nodesAlive)) = some (true, .running, true) := by decide

/-! ## terminal status matches the cause -/

/-- C10.terminal_status_matches_cause — the arm the cleanup switch takes, as a function of the
engine, the error it sees (`isFatal` is a predicate on causes, tied to `cerrors.IsFatalError` by
C20) and the flags. -/
theorem C10_terminal_status_matches_cause (s : State) (r : Run) :
    (∀ c, c.isFatal = true → classify s r (some c) = .degrade c) ∧
    (s.eng = .v1 → classify s r none = (if r.gracefulNode then .stopSystem else .stopUser)) ∧
    (s.eng = .v1 → ∀ c, c.isFatal = false → classify s r (some c) = .recover) ∧
    (s.eng = .v2 → classify s r none = (if s.shutdown then .stopSystem else .stopUser)) ∧
    (s.eng = .v2 → ∀ c, c.isFatal = false → classify s r (some c) =
        (if s.shutdown then .stopSystem else if r.intentional then .stopUser else .recover)) := by
  refine ⟨?_, ?_, ?_, ?_, ?_⟩
  · intro c hc; cases h : s.eng <;> simp [classify, h, hc]
  · intro h; simp [classify, h]
  · intro h c hc; simp [classify, h, hc]
  · intro h; simp [classify, h]
  · intro h c hc; simp [classify, h, hc]

/-- the status that an arm stores. -/
theorem C10_status_written_matches {s s' : State} {n : Nat} {ok : Bool}
    (h : step s (.writeStatus n ok) = some s') :
    ∃ a, (s.runs n).cpc = .decided a ∧ a ≠ .recover ∧ s'.status = a.status := by
  simp only [step, stepWriteStatus] at h
  split at h
  · rename_i a ha
    refine ⟨a, ha, ?_⟩
    repeat' split at h
    all_goals first
      | (cases h; done)
      | (cases h; simp_all)
  · cases h

end Conduit.Lifecycle
