import ConduitModel.Proofs.LifecycleRun
import ConduitModel.Proofs.LifecycleOpen

/-!
# C11 — start, stop and wait act on the one live run and report its true result

Statement (properties.jsonl C11): "At most one run of a pipeline exists at any time; whenever a
pipeline is reported as running, stop, wait and stop-and-wait act on that run rather than on an
earlier one, and wait returns the terminal result of the run it waited for. The stored status always
ends up agreeing with how the last run actually ended, no sequence of control calls and failures can
wedge a pipeline …, and once a run has ended its connectors and processors are released so the
pipeline can be started again."

Over M5, for every event list (= every history of one-at-a-time control calls interleaved in every
way with start-up, failure, recovery restarts and cleanup, at model-step granularity), both engines.
-/
namespace Conduit.Lifecycle

/-- C11.at_most_one_live_run — "at most one run of a pipeline exists at any time": in every
reachable state at most one run holds the connectors' `Instance.connector` guards (has its plugins
open). The guard that enforces it is `Connector()` / `Open` refusing while `connector != nil`
(`anyHolds` in the model), for user Starts racing recovery restarts alike. -/
theorem C11_at_most_one_live_run {eng cfg fx} {s : State} (hr : Reach eng cfg fx s) (i j : Nat)
    (hi : (s.runs i).holds = true) (hj : (s.runs j).holds = true) : i = j :=
  (reach_inv hr).oneHolder i j hi hj

/-- C11.resources_released — "once a run has ended its connectors and processors are released": a
run whose node / worker goroutines have all returned holds no connector guard … -/
theorem C11_resources_released {eng cfg fx} {s : State} (hr : Reach eng cfg fx s) (i : Nat)
    (hdead : (s.runs i).nodesAlive = false) : (s.runs i).holds = false := by
  cases h : (s.runs i).holds with
  | false => rfl
  | true => have := (reach_inv hr).holdsAlive i h; simp [hdead] at this

/-- … "so the pipeline can be started again": when no run has live nodes, the build of the next
Start is enabled (the `connector is running` refusal cannot fire). -/
theorem C11_restartable {eng cfg fx} {s : State} (hr : Reach eng cfg fx s) (n : Nat)
    (hall : ∀ i, (s.runs i).nodesAlive = false) (hn : n < s.next) (hp : (s.runs n).phase = .building) :
    (step s (.buildOk n)).isSome = true := by
  have hno : anyHolds s = false := by
    unfold anyHolds
    rw [List.any_eq_false]
    intro i _
    simp [C11_resources_released hr i (hall i)]
  simp only [step, stepBuildOk, hp, hno]
  have : ¬ n ≥ s.next := by omega
  simp [this]

/-- C11.wait_returns_own_result — "wait returns the terminal result of the run it waited for":
WaitPipeline binds, at its lookup, to the run published in the map (or to the recorded terminal
error when there is none) … -/
theorem C11_wait_binds {s s' : State} {w : Nat} (h : step s (.waitBegin w) = some s') :
    s'.waits w = some (match s.entry with
      | some m => .run m
      | none => .value (s.terminalErr.getD none)) := by
  simp only [step, stepWaitBegin] at h
  split at h
  · cases h
  · cases h
    simp only [if_true]
    cases s.entry <;> rfl

/-- … and returns only when every goroutine of THAT run has returned, with THAT run's tomb reason. -/
theorem C11_wait_returns_own_result {s s' : State} {w : Nat} {r : Option Cause}
    (h : step s (.waitReturn w r) = some s') :
    (∃ m, s.waits w = some (.run m) ∧ tombDead (s.runs m) = true ∧ r = (s.runs m).tomb) ∨
    (∃ v, s.waits w = some (.value v) ∧ r = v) := by
  simp only [step, stepWaitReturn] at h
  split at h
  · cases h
  · rename_i m hm
    split at h
    · rename_i hc; exact Or.inl ⟨m, hm, hc.1, hc.2⟩
    · cases h
  · rename_i v hv
    split at h
    · rename_i hc; exact Or.inr ⟨v, hv, hc⟩
    · cases h

/-- the terminal error is recorded before the map entry is removed (WaitPipeline's fallback sees
it): the delete step is only enabled after `terminalErrors.Set`. -/
theorem C11_terminal_error_before_delete {s s' : State} {n : Nat}
    (h : step s (.setTerminalErr n) = some s') :
    ∃ e, (s.runs n).cpc = .tail1 e ∧ s'.terminalErr = some e ∧ (s'.runs n).cpc = .tail2 e ∧ s'.entry = s.entry := by
  simp only [step, stepSetTerminalErr] at h
  split at h
  · rename_i e he; cases h; exact ⟨e, he, rfl, by simp, rfl⟩
  · cases h

/-- C11.published_when_running — FULL STATEMENT (the goal):
`Reach s → s.status = .running → ∃ m, s.entry = some m ∧ s.lastWriter = some m`
("whenever the pipeline is reported as running, the map resolves the run whose Start reported it").
It is FALSE on the unchanged tree; the publication ORDER it rests on is proved (publish strictly
before the StatusRunning write, in both engines; tied to the source by Facts/C11) … -/
theorem C11_publish_before_running_partial {s s' : State} {n : Nat} {ok : Bool}
    (h : step s (.writeRunning n ok) = some s') : (s.runs n).phase = .published := by
  simp only [step, stepWriteRunning] at h
  split at h
  · cases h
  · rename_i hp; simpa using hp

theorem C11_publish_sets_entry {s s' : State} {n : Nat} (h : step s (.publish n) = some s') :
    s'.entry = some n ∧ (s'.runs n).phase = .published := by
  simp only [step, stepPublish] at h
  split at h
  · cases h
  · cases h; simp

/-- FINDING (v2, unchanged tree): the cleanup tail removes the map entry by key (blind
`runningPipelines.Delete`). A terminal status (UserStopped / Degraded) written by a finishing run
already admits a new Start; if that Start publishes before the old run's Delete, the LIVE run's entry
is erased: status Running, plugins open, but Stop / StopAndWait answer "not running" and
WaitPipeline returns nil — the pipeline cannot be stopped. (v1 closed this with a compare-and-delete,
#2806.) -/
theorem C11_blind_delete_v2_counterexample :
    ((runFrom (init .v2 ⟨some 3, 1, 2, 5⟩ {})
      [.startUser, .buildOk 0, .publish 0, .writeRunning 0 true, .startReturn,
       .stop false, .nodeExitClean 0, .cleanupWake 0 none, .writeStatus 0 true,
       .startUser, .setTerminalErr 0, .buildOk 1, .publish 1, .deleteEntry 0, .writeRunning 1 true,
       .startReturn]).map fun s => (s.status, s.entry, (s.runs 1).holds, stopRes s false)) =
      some (.running, none, true, .notRunning) := by decide

/-- with the compare-and-delete fix the same history keeps the live run reachable. -/
example :
    ((runFrom (init .v2 ⟨some 3, 1, 2, 5⟩ { v2CompareDelete := true })
      [.startUser, .buildOk 0, .publish 0, .writeRunning 0 true, .startReturn,
       .stop false, .nodeExitClean 0, .cleanupWake 0 none, .writeStatus 0 true,
       .startUser, .setTerminalErr 0, .buildOk 1, .publish 1, .deleteEntry 0, .writeRunning 1 true,
       .startReturn]).map fun s => (s.status, s.entry, (s.runs 1).holds, stopRes s false)) =
      some (.running, some 1, true, .ok) := by decide

/-- FINDING (both engines, with or without the fixes): a user Start that overlaps the nested Start
of a recovery (both passed the `status != Running` check) — one of them loses the connector guard,
fails, and its caller writes Degraded over the winner's Running: a live, published run under a
Degraded status, which `Stop` refuses ("can't stop pipeline with status degraded"). -/
theorem C11_overlapping_starts_counterexample (eng : Engine) :
    ((runFrom (init eng ⟨some 3, 1, 2, 5⟩ Fixes.allOn)
      [.startUser, .buildOk 0, .publish 0, .writeRunning 0 true, .startReturn,
       .nodeExit 0 .nodeTransient, .cleanupWake 0 none, .recoverBegin 0 1 true, .tick 1,
       .backoffElapsed 0, .startUser, .buildOk 2, .publish 2, .writeRunning 2 true, .startReturn,
       .buildFail 1 false, .writeStatus 0 true]).map
        fun s => (s.status, s.entry, (s.runs 2).nodesAlive, stopRes s true)) =
      some (.degraded, some 2, true, .notRunning) := by
  cases eng <;> decide

/-- C11.no_wedge — FULL STATEMENT (the goal): from every reachable state in which some run has not
finished, some non-call step is enabled until quiescence, and every control call returns.
Proved here: the cleanup goroutine of a run never blocks on anything but its own run's nodes, the
start-up barrier and the back-off timer (local progress); the global statement is NOT proved, and
two wedges of the unchanged tree are recorded as findings (`C11_blind_delete_v2_counterexample`,
`C11_overlapping_starts_counterexample`; v1 graceful-Stop/InjectControlMessage deadlock, see
known_findings.json). -/
theorem C11_no_wedge_partial (s : State) (n : Nat) :
    ((s.runs n).nodesAlive = true → (step s (.nodeExit n .nodeTransient)).isSome = true) ∧
    ((s.runs n).cpc = .waiting → (s.runs n).nodesAlive = false →
        (s.eng = .v1 ∨ (s.runs n).phase = .started ∨ (s.runs n).phase = .failedLive) →
        (step s (.cleanupWake n none)).isSome = true) ∧
    (∀ a, (s.runs n).cpc = .decided a → a ≠ .recover → (step s (.writeStatus n true)).isSome = true) ∧
    ((s.runs n).cpc = .decided .recover → s.cfg.minDelay ≤ s.cfg.maxDelay →
        (step s (.recoverBegin n s.cfg.minDelay true)).isSome = true) ∧
    (∀ w t, (s.runs n).cpc = .backoff w t → w ≤ s.now → (step s (.backoffElapsed n)).isSome = true) ∧
    (∀ e, (s.runs n).cpc = .tail1 e → (step s (.setTerminalErr n)).isSome = true) ∧
    (∀ e, (s.runs n).cpc = .tail2 e → (step s (.deleteEntry n)).isSome = true) := by
  refine ⟨?_, ?_, ?_, ?_, ?_, ?_, ?_⟩
  · intro h
    simp only [step, stepNodeExit, h]
    have : ¬((!true) = true ∨ Cause.nodeTransient ≠ Cause.nodeFatal ∧ Cause.nodeTransient ≠ Cause.nodeTransient) := by
      simp
    simp only [this, if_false]
    split <;> simp
  · intro hc hn hp
    simp only [step, stepCleanupWake, hc, hn]
    rcases hp with hp | hp | hp <;> simp [hp]
  · intro a ha hne
    simp only [step, stepWriteStatus, ha]
    simp [hne]
  · intro hc hle
    simp only [step, stepRecoverBegin, hc]
    have : ¬ s.cfg.maxDelay < s.cfg.minDelay := by omega
    simp [this]
    split <;> simp
  · intro w t hb hw
    simp only [step, stepBackoffElapsed, hb]
    have : ¬ s.now < w := by omega
    simp only [this, if_false]
    repeat' split
    all_goals simp
  · intro e he; simp [step, stepSetTerminalErr, he]
  · intro e he; simp [step, stepDeleteEntry, he]

/-- non-vacuity: a plain start / graceful stop / restart history reaches states with a live run. -/
example : ((runFrom (init .v1 ⟨some 3, 1, 2, 5⟩)
    [.startUser, .buildOk 0, .publish 0, .writeRunning 0 true, .startReturn, .openOk 0, .waitBegin 0,
     .stop false, .nodeExitClean 0, .cleanupWake 0 none, .writeStatus 0 true, .setTerminalErr 0,
     .deleteEntry 0, .waitReturn 0 none, .startUser, .buildOk 1]).map
      fun s => (s.status, s.entry, (s.runs 1).nodesAlive)) = some (.userStopped, none, true) := by decide

end Conduit.Lifecycle

/-! ### the open phase of one Start, per connector (M5 un-folded, `Model/LifecycleOpen.lean`) -/
namespace Conduit.LifecycleOpen

/-- C11.failed_start_releases_all — "once a run has ended its connectors … are released so the pipeline
can be started again", for the run that never got past its open phase: for every number of sources `n`,
every place the open phase can fail (the shared sink, the source of worker k, the DLQ of worker k — any
k), with the rollback loop closing the whole `opened` slice (`lo = 0`) and a worker that releases its own
source when its DLQ fails, a failed Start leaves NO connector guard set … -/
theorem C11_failed_start_releases_all (sh : Shape) (hlo : sh.lo = 0) (hw : sh.workerRollsBackSource = true)
    (n : Nat) (g : Guards) (hfree : g.anyHeld n = false) (fault : Fault)
    (hfail : (startAttempt sh n g fault).2 = false) : (startAttempt sh n g fault).1.anyHeld n = false := by
  obtain ⟨hs, hsrc⟩ := (anyHeld_false_iff g n).mp hfree
  rw [anyHeld_false_iff]
  simp only [startAttempt, hfree] at hfail ⊢
  cases fault with
  | none => simp at hfail
  | sink => exact ⟨hs, hsrc⟩
  | source k =>
    by_cases hk : k < n
    · simp only [hk, if_true, Bool.false_eq_true, if_false]
      refine ⟨trivial, fun j hj => ?_⟩
      rw [closeDownTo_apply, openUpTo_apply, hsrc j hj, hlo]
      by_cases hjk : j < k <;> simp [hjk]
    · simp [hk] at hfail
  | dlq k =>
    by_cases hk : k < n
    · simp only [hk, if_true, hw, Bool.false_eq_true, if_false]
      refine ⟨trivial, fun j hj => ?_⟩
      rw [closeDownTo_apply, openUpTo_apply, hsrc j hj, hlo]
      by_cases hjk : j < k <;> simp [hjk]
    · simp [hk] at hfail

/-- … so the next Start is not refused by a guard: with the fault gone it acquires everything. -/
theorem C11_start_after_failed_start_enabled (sh : Shape) (hlo : sh.lo = 0) (hw : sh.workerRollsBackSource = true)
    (n : Nat) (g : Guards) (hfree : g.anyHeld n = false) (fault : Fault)
    (hfail : (startAttempt sh n g fault).2 = false) :
    (startAttempt sh n (startAttempt sh n g fault).1 .none).2 = true := by
  have h := C11_failed_start_releases_all sh hlo hw n g hfree fault hfail
  generalize (startAttempt sh n g fault).1 = g' at h
  simp [startAttempt, h]

/-- all or nothing: a Start that succeeds holds the sink and every source (what M5's `buildOk` folds into
one guard; `C11_at_most_one_live_run` is about that folded guard — a second Start is refused as long as
ANY of them is set, `startAttempt`'s first line). -/
theorem C11_open_phase_all_or_nothing (sh : Shape) (n : Nat) (g : Guards) (hfree : g.anyHeld n = false)
    (fault : Fault) (hok : (startAttempt sh n g fault).2 = true) :
    (startAttempt sh n g fault).1.sink = true ∧ ∀ j, j < n → (startAttempt sh n g fault).1.src j = true := by
  simp only [startAttempt, hfree] at hok ⊢
  cases fault with
  | none => simp only [Bool.false_eq_true, if_false]; exact ⟨trivial, fun j hj => by simp [openUpTo_apply, hj]⟩
  | sink => simp at hok
  | source k =>
    by_cases hk : k < n
    · simp [hk] at hok
    · simp only [hk, if_false, Bool.false_eq_true]; exact ⟨trivial, fun j hj => by simp [openUpTo_apply, hj]⟩
  | dlq k =>
    by_cases hk : k < n
    · simp [hk] at hok
    · simp only [hk, if_false, Bool.false_eq_true]; exact ⟨trivial, fun j hj => by simp [openUpTo_apply, hj]⟩

theorem C11_second_start_refused_while_any_guard_set (sh : Shape) (n : Nat) (g : Guards) (h : g.anyHeld n = true)
    (fault : Fault) : startAttempt sh n g fault = (g, false) := by simp [startAttempt, h]

/-- Why `lo = 0` matters (seeded change C11: the rollback loop rewritten as `for j := i-1; j > 0; j--`
over `rp.workers`): worker 0 is never closed when a non-first source fails; the next Start is refused. -/
theorem C11_rollback_skips_first_worker_counterexample :
    let r := startAttempt { lo := 1, workerRollsBackSource := true } 3 Guards.free (.source 1)
    (r.2, r.1.src 0, (startAttempt { lo := 1, workerRollsBackSource := true } 3 r.1 .none).2) = (false, true, false) := by
  decide

/-- Regression witness (defect fixed in /repo, commit f3d54b7; the tree now has
`v2WorkerRollsBackSource = true`, `Facts/C11.lean: worker_open_rolls_back_source`): with the flag false —
`funnel.Worker.Open` rolling back with `task.Close` only, `SourceTask.Close` being a no-op, and
`runPipeline` closing only the workers opened BEFORE the failing one — a worker whose DLQ fails to open
leaves its already opened source plugin open: the connector guard stays set and every later Start is
refused ("connector is running"). Trace witness: corpus/C11/lifev2_dlq_open_failure_releases_source.ops. -/
theorem C11_dlq_open_failure_leaks_source_counterexample :
    let sh : Shape := { lo := 0, workerRollsBackSource := false }
    let r := startAttempt sh 2 Guards.free (.dlq 0)
    (r.2, r.1.src 0, (startAttempt sh 2 r.1 .none).2) = (false, true, false) := by
  decide

/-- non-vacuity. -/
example : (startAttempt Shape.asIs 3 Guards.free (.source 2)).2 = false := by decide
example : (startAttempt Shape.asIs 3 Guards.free .none).2 = true := by decide

end Conduit.LifecycleOpen
