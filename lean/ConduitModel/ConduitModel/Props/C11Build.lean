import ConduitModel.Proofs.Rebuild

/-!
# C11 on the build step: processor reservations over build attempts, run ends and repairs

Property C11: "… once a run has ended its connectors and processors are released so the pipeline can
be started again". `Model/Rebuild.lean` follows the processor reservations (`Instance.running`, taken
by `MakeRunnableProcessor`, cleared by `RunnableProcessor.Teardown`) through a sequence of
`buildRunnablePipeline` calls, run ends and configuration edits, for both engines, AS THE CODE IS; it
is compared with the real services on every check run (`rebuild`, trace acceptance) and
`Facts/C11Build.lean` pins the statements it mirrors.

Proved:
* `C11_build_ok_reserves_exactly_its_processors` — a successful build reserves exactly the processors
  of the configuration (each once, none of them reserved before), in the engine's build order;
* `C11_teardown_releases_all` — the end of the live runs releases every processor those runs
  reserved, and leaves nothing reserved when every reservation belonged to a live run;
* `C11_no_failed_build_no_leak` — over any history without a failed build attempt, every run end
  leaves nothing reserved (so the restart is enabled: `C11_rebuild_after_teardown`);
* `C11_failed_build_adds_a_prefix` — what a FAILED attempt leaves reserved: the processors it reserved
  before the failing step (never more);
* `C11_failed_build_leaks_reservation_counterexample` — and that can be non-empty, in BOTH engines,
  after which the repaired configuration does not build ("processor already running") although no run
  exists, a run end releases nothing, and the monitor `noLeakAfterFailedBuild` fails.

NOT holding of the current code (the full-strength statement; it is the goal of the proposed fix —
release the runnables already made on the error exits of the builders):

    theorem C11_failed_build_releases_all (eng : Eng) (held : List Nat) (cfg : PipeCfg) (e : BuildErr) (h : List Nat)
        (hfail : attempt eng held cfg = (.err e, h)) : h = held

  and with it `∀ cfg steps, noLeakAfterFailedBuild eng cfg steps = .ok`. Refuted by the
  counterexample below and by the `rebuild` traces of the real services (known finding F-build-leak).
-/
namespace Conduit.Rebuild
open Conduit.Funnel

/-- the processors a build of `cfg` reserves, in the order the engine reserves them -/
def reservedBy : Eng → PipeCfg → List Nat
  | .v2, cfg => srcProcIds cfg.conns ++ dstProcIds cfg.conns ++ procIds cfg.procs
  | .v1, cfg => srcProcIds cfg.conns ++ procIds cfg.procs ++ dstProcIds cfg.conns

theorem reservedBy_v2 (cfg : PipeCfg) : reservedBy .v2 cfg = allProcIds cfg := rfl

/-- A successful build attempt reserves exactly the processors of the configuration: the new
reservation state is those processors on top of what was held, they are pairwise distinct, and none
of them was reserved before. -/
theorem C11_build_ok_reserves_exactly_its_processors (eng : Eng) (held : List Nat) (cfg : PipeCfg) (h : List Nat)
    (hok : attempt eng held cfg = (.ok, h)) :
    h = (reservedBy eng cfg).reverse ++ held ∧ (reservedBy eng cfg).Nodup ∧
      (∀ x ∈ reservedBy eng cfg, x ∉ held) ∧ added held h = (reservedBy eng cfg).reverse := by
  have key : h = (reservedBy eng cfg).reverse ++ held ∧ (reservedBy eng cfg).Nodup ∧ (∀ x ∈ reservedBy eng cfg, x ∉ held) := by
    cases eng with
    | v2 =>
      simp only [attempt, attemptV2] at hok
      rcases hs : reserveConns .source held cfg.conns with ⟨eo, h1⟩
      rw [hs] at hok
      cases eo with
      | some e => simp at hok
      | none =>
        simp only at hok
        split at hok
        · simp at hok
        · rcases hd : reserveConns .dest h1 cfg.conns with ⟨eo, h2⟩
          rw [hd] at hok
          cases eo with
          | some e => simp at hok
          | none =>
            simp only at hok
            split at hok
            · simp at hok
            · rcases hp : reserve h2 cfg.procs with ⟨eo, h3⟩
              rw [hp] at hok
              cases eo with
              | some e => simp at hok
              | none =>
                simp only at hok
                have e3 : h3 = h := by
                  cases hb : buildWorkers cfg with
                  | ok t => rw [hb] at hok; simp only [Prod.mk.injEq] at hok; exact hok.2
                  | error e => rw [hb] at hok; simp at hok
                subst e3
                obtain ⟨s1, s2, s3⟩ := reserveConns_ok .source (by decide) cfg.conns held h1 hs
                obtain ⟨d1, d2, d3⟩ := reserveConns_ok .dest (by decide) cfg.conns h1 h2 hd
                obtain ⟨p1, p2, p3⟩ := reserve_ok cfg.procs h2 h3 hp
                rw [kindProcIds_source] at s1 s2 s3
                rw [kindProcIds_dest] at d1 d2 d3
                refine ⟨by rw [p1, d1, s1]; simp [reservedBy], ?_, ?_⟩
                · refine nodup_append_disj (nodup_append_disj s2 d2 (fun x hx hm => d3 x hx ?_)) p2 (fun x hx hm => p3 x hx ?_)
                  · rw [s1]; exact List.mem_append_left _ (List.mem_reverse.mpr hm)
                  · rw [d1, s1]
                    rcases List.mem_append.mp hm with hm | hm
                    · exact List.mem_append_right _ (List.mem_append_left _ (List.mem_reverse.mpr hm))
                    · exact List.mem_append_left _ (List.mem_reverse.mpr hm)
                · intro x hx hm
                  simp only [reservedBy, List.mem_append] at hx
                  rcases hx with (hx | hx) | hx
                  · exact s3 x hx hm
                  · exact d3 x hx (by rw [s1]; exact List.mem_append_right _ hm)
                  · exact p3 x hx (by rw [d1, s1]; exact List.mem_append_right _ (List.mem_append_right _ hm))
    | v1 =>
      simp only [attempt, attemptV1] at hok
      rcases hs : reserveConns .source held cfg.conns with ⟨eo, h1⟩
      rw [hs] at hok
      cases eo with
      | some e => simp at hok
      | none =>
        simp only at hok
        split at hok
        · simp at hok
        · rcases hp : reserve h1 cfg.procs with ⟨eo, h2⟩
          rw [hp] at hok
          cases eo with
          | some e => simp at hok
          | none =>
            simp only at hok
            rcases hd : reserveConns .dest h2 cfg.conns with ⟨eo, h3⟩
            rw [hd] at hok
            cases eo with
            | some e => simp at hok
            | none =>
              simp only at hok
              split at hok
              · simp at hok
              · simp only [Prod.mk.injEq, true_and] at hok
                subst hok
                obtain ⟨s1, s2, s3⟩ := reserveConns_ok .source (by decide) cfg.conns held h1 hs
                obtain ⟨p1, p2, p3⟩ := reserve_ok cfg.procs h1 h2 hp
                obtain ⟨d1, d2, d3⟩ := reserveConns_ok .dest (by decide) cfg.conns h2 h3 hd
                rw [kindProcIds_source] at s1 s2 s3
                rw [kindProcIds_dest] at d1 d2 d3
                refine ⟨by rw [d1, p1, s1]; simp [reservedBy], ?_, ?_⟩
                · refine nodup_append_disj (nodup_append_disj s2 p2 (fun x hx hm => p3 x hx ?_)) d2 (fun x hx hm => d3 x hx ?_)
                  · rw [s1]; exact List.mem_append_left _ (List.mem_reverse.mpr hm)
                  · rw [p1, s1]
                    rcases List.mem_append.mp hm with hm | hm
                    · exact List.mem_append_right _ (List.mem_append_left _ (List.mem_reverse.mpr hm))
                    · exact List.mem_append_left _ (List.mem_reverse.mpr hm)
                · intro x hx hm
                  simp only [reservedBy, List.mem_append] at hx
                  rcases hx with (hx | hx) | hx
                  · exact s3 x hx hm
                  · exact p3 x hx (by rw [s1]; exact List.mem_append_right _ hm)
                  · exact d3 x hx (by rw [p1, s1]; exact List.mem_append_right _ (List.mem_append_right _ hm))
  refine ⟨key.1, key.2.1, key.2.2, ?_⟩
  rw [key.1, added_append]

/-- every reservation belongs to a run that has been built and has not ended -/
def AllLive (s : St) : Prop := ∀ x ∈ s.held, x ∈ s.live.flatten

/-- The end of the live runs (`Worker.Close` / `Sink.Close` closing every task, v1: every
`ProcessorNode.Run` returning; each calls `RunnableProcessor.Teardown`, which clears the
reservation): exactly the processors reserved by those runs are released, no run stays live — and
when every reservation belonged to a live run, NOTHING stays reserved. -/
theorem C11_teardown_releases_all (eng : Eng) (s : St) :
    (∀ x, x ∈ (step eng s .teardown).1.held ↔ x ∈ s.held ∧ x ∉ s.live.flatten) ∧
    (step eng s .teardown).1.live = [] ∧
    (AllLive s → (step eng s .teardown).1.held = []) := by
  refine ⟨fun x => by simp [step, release], rfl, fun hall => ?_⟩
  simp only [step, release]
  exact List.filter_eq_nil_iff.mpr (fun x hx => by simpa using hall x hx)

theorem allLive_step_ok (eng : Eng) (s : St) (e : Step) (hs : AllLive s)
    (hok : ∀ o h, (step eng s e).2 = .built o h → o = .ok) : AllLive (step eng s e).1 := by
  cases e with
  | build =>
    rcases ha : attempt eng s.held s.cfg with ⟨o, h⟩
    have ho : o = .ok := hok o h (by simp [step, ha])
    subst ho
    obtain ⟨h1, _, _, h4⟩ := C11_build_ok_reserves_exactly_its_processors eng s.held s.cfg h ha
    intro x hx
    simp only [step, ha, if_true] at hx ⊢
    simp only [List.flatten_append, List.flatten_cons, List.flatten_nil, List.append_nil, List.mem_append]
    rw [h1] at hx
    rcases List.mem_append.mp hx with hx | hx
    · right; rw [h4]; exact hx
    · left; exact hs x hx
  | teardown =>
    intro x hx
    rw [(C11_teardown_releases_all eng s).2.2 hs] at hx
    cases hx
  | mk id => exact hs
  | rmp id => exact hs
  | rmc id => exact hs
  | addc k id => exact hs

/-- Over any history of build attempts, run ends and configuration edits in which NO build attempt
failed, every reservation belongs to a live run at every point — so every run end leaves nothing
reserved. (A failed attempt is the only way to break this: see the counterexample.) -/
theorem C11_no_failed_build_no_leak (eng : Eng) (steps : List Step) : ∀ (s : St), AllLive s →
    (∀ t ∈ run eng s steps, ∀ o h, t.2.2.2 = .built o h → o = .ok) →
    ∀ t ∈ run eng s steps, AllLive t.2.2.1 ∧ (t.2.1 = .teardown → t.2.2.1.held = []) := by
  induction steps with
  | nil => intro s _ _ t ht; simp [run] at ht
  | cons e es ih =>
    intro s hs hok t ht
    simp only [run] at ht hok
    have hstep : AllLive (step eng s e).1 :=
      allLive_step_ok eng s e hs (fun o h heq => hok _ (List.mem_cons_self ..) o h heq)
    rcases List.mem_cons.mp ht with rfl | ht
    · refine ⟨hstep, fun he => ?_⟩
      simp only at he
      subst he
      exact (C11_teardown_releases_all eng s).2.2 hs
    · exact ih (step eng s e).1 hstep (fun t' ht' => hok t' (List.mem_cons_of_mem _ ht')) t ht

/-- After a run end that left nothing reserved the same configuration builds again iff it builds from
scratch: the result of the attempt is the result with no reservation in place. -/
theorem C11_rebuild_after_teardown (eng : Eng) (s : St) (hs : AllLive s) :
    attempt eng (step eng s .teardown).1.held (step eng s .teardown).1.cfg = attempt eng [] s.cfg := by
  rw [(C11_teardown_releases_all eng s).2.2 hs]
  rfl

theorem reserveConns_suffix (k : ConnKind) (cs : List ConnCfg) : ∀ held, ∃ a, (reserveConns k held cs).2 = a ++ held := by
  induction cs with
  | nil => intro held; exact ⟨[], rfl⟩
  | cons c cs ih =>
    intro held
    rw [reserveConns]
    by_cases hm : c.kind = .missing
    · rw [if_pos hm]; exact ⟨[], rfl⟩
    · rw [if_neg hm]
      by_cases hk : c.kind = k
      · rw [if_neg (fun h : c.kind ≠ k => h hk)]
        obtain ⟨a, ha⟩ := reserve_suffix c.procs held
        rcases hr : reserve held c.procs with ⟨eo, h1⟩
        rw [hr] at ha
        simp only at ha
        cases eo with
        | some e => exact ⟨a, ha⟩
        | none =>
          obtain ⟨b, hb⟩ := ih h1
          refine ⟨b ++ a, ?_⟩
          show (reserveConns k h1 cs).2 = _
          rw [hb, ha]; simp
      · rw [if_pos hk]
        exact ih held

/-- What ANY attempt (failed or not) does to the reservations: it only adds, in front of what was
held. In particular a failed attempt never releases anything it or an earlier attempt reserved. -/
theorem C11_failed_build_adds_a_prefix (eng : Eng) (held : List Nat) (cfg : PipeCfg) :
    ∃ a, (attempt eng held cfg).2 = a ++ held := by
  have hr := fun h ps => reserve_suffix ps h
  have hc := fun k h cs => reserveConns_suffix k cs h
  cases eng with
  | v2 =>
    simp only [attempt, attemptV2]
    obtain ⟨a1, e1⟩ := hc .source held cfg.conns
    rcases hs : reserveConns .source held cfg.conns with ⟨eo, h1⟩
    rw [hs] at e1; simp only at e1
    cases eo with
    | some e => exact ⟨a1, e1⟩
    | none =>
      simp only
      split
      · exact ⟨a1, e1⟩
      · obtain ⟨a2, e2⟩ := hc .dest h1 cfg.conns
        rcases hd : reserveConns .dest h1 cfg.conns with ⟨eo, h2⟩
        rw [hd] at e2; simp only at e2
        cases eo with
        | some e => exact ⟨a2 ++ a1, by simp only; rw [e2, e1]; simp⟩
        | none =>
          simp only
          split
          · exact ⟨a2 ++ a1, by simp only; rw [e2, e1]; simp⟩
          · obtain ⟨a3, e3⟩ := hr h2 cfg.procs
            rcases hp : reserve h2 cfg.procs with ⟨eo, h3⟩
            rw [hp] at e3; simp only at e3
            cases eo with
            | some e => exact ⟨a3 ++ a2 ++ a1, by simp only; rw [e3, e2, e1]; simp⟩
            | none =>
              simp only
              cases buildWorkers cfg <;> exact ⟨a3 ++ a2 ++ a1, by simp only; rw [e3, e2, e1]; simp⟩
  | v1 =>
    simp only [attempt, attemptV1]
    obtain ⟨a1, e1⟩ := hc .source held cfg.conns
    rcases hs : reserveConns .source held cfg.conns with ⟨eo, h1⟩
    rw [hs] at e1; simp only at e1
    cases eo with
    | some e => exact ⟨a1, e1⟩
    | none =>
      simp only
      split
      · exact ⟨a1, e1⟩
      · obtain ⟨a2, e2⟩ := hr h1 cfg.procs
        rcases hp : reserve h1 cfg.procs with ⟨eo, h2⟩
        rw [hp] at e2; simp only at e2
        cases eo with
        | some e => exact ⟨a2 ++ a1, by simp only; rw [e2, e1]; simp⟩
        | none =>
          simp only
          obtain ⟨a3, e3⟩ := hc .dest h2 cfg.conns
          rcases hd : reserveConns .dest h2 cfg.conns with ⟨eo, h3⟩
          rw [hd] at e3; simp only at e3
          cases eo with
          | some e => exact ⟨a3 ++ a2 ++ a1, by simp only; rw [e3, e2, e1]; simp⟩
          | none =>
            simp only
            split <;> exact ⟨a3 ++ a2 ++ a1, by simp only; rw [e3, e2, e1]; simp⟩

/-! ## the counterexample: a failed build leaks its reservations (both engines) -/
namespace ExLeak

/-- source 1 with processor 2, destination 6; the pipeline lists a processor 7 that does not exist -/
def cfg : PipeCfg := { conns := [⟨.source, 1, [(2, true)]⟩, ⟨.dest, 6, []⟩], procs := [(7, false)] }

/-- the operator's history: Start (fails: unknown processor 7) — remove 7 from the pipeline — Start
again — (nothing runs, but end whatever might) — Start again -/
def history : List Step := [.build, .rmp 7, .build, .teardown, .build]

def obs (eng : Eng) : List Obs := (run eng { cfg } history).map (·.2.2.2)

end ExLeak

/-- **Counterexample (both engines).** The first attempt fails with "could not fetch processor" and
keeps the reservation of processor 2 it made before; the repaired configuration — which builds from
scratch — is then refused with "processor already running" although no run exists; a run end
releases nothing (no run holds the reservation); the refusal is permanent. The monitor
`noLeakAfterFailedBuild` reports the leak at step 0. -/
theorem C11_failed_build_leaks_reservation_counterexample :
    (∀ eng : Eng,
      ExLeak.obs eng = [.built (.err .processor) [2], .none, .built (.err .running) [2], .torn [2], .built (.err .running) [2]] ∧
      (attempt eng [] (editCfg ExLeak.cfg (.rmp 7))).1 = .ok ∧
      noLeakAfterFailedBuild eng ExLeak.cfg ExLeak.history = .failedBuildKeepsReservations 0 [2]) ∧
    -- hence the full-strength statement is false:
    ¬ (∀ (eng : Eng) (held : List Nat) (cfg : PipeCfg) (e : BuildErr) (h : List Nat),
        attempt eng held cfg = (.err e, h) → h = held) := by
  refine ⟨fun eng => by cases eng <;> decide, fun hall => ?_⟩
  have := hall .v2 [] ExLeak.cfg .processor [2] (by decide)
  cases this

/-! ## non-vacuity of the positive theorems -/
namespace ExOk
def cfg : PipeCfg :=
  { conns := [⟨.source, 1, [(2, true)]⟩, ⟨.dest, 6, [(5, true)]⟩], procs := [(3, true)] }
example : attempt .v2 [] cfg = (.ok, [3, 5, 2]) := by decide
example : attempt .v1 [] cfg = (.ok, [5, 3, 2]) := by decide
example : reservedBy .v2 cfg = [2, 5, 3] ∧ reservedBy .v1 cfg = [2, 3, 5] := by decide
/-- run, end, run again, end: nothing is ever left reserved and the monitor holds -/
example : (run .v2 { cfg } [.build, .teardown, .build, .teardown]).map (·.2.2.2) =
    [.built .ok [3, 5, 2], .torn [], .built .ok [3, 5, 2], .torn []] := by decide
example : noLeakAfterFailedBuild .v2 cfg [.build, .teardown, .build, .teardown] = .ok := by decide
example : noLeakAfterFailedBuild .v1 cfg [.build, .teardown, .build, .teardown] = .ok := by decide
/-- a failed attempt that had reserved nothing yet is harmless (the unknown connector comes first) -/
example : noLeakAfterFailedBuild .v2 { cfg with conns := ⟨.missing, 9, []⟩ :: cfg.conns } [.build, .rmc 9, .build, .teardown] = .ok := by
  decide
end ExOk

end Conduit.Rebuild
