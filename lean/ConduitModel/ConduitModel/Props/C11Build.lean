import ConduitModel.Proofs.Rebuild

/-!
# C11 on the build step: processor reservations over build attempts, run ends and repairs

Property C11: "… once a run has ended its connectors and processors are released so the pipeline can
be started again". `Model/Rebuild.lean` follows the processor reservations (`Instance.running`, taken
by `MakeRunnableProcessor`, cleared by `RunnableProcessor.Teardown`) through a sequence of
`buildRunnablePipeline` calls, run ends and configuration edits, for both engines, AS THE CODE IS; it
is compared with the real services on every check run (`rebuild`, trace acceptance) and
`Facts/C11Build.lean` pins the statements it mirrors.

Proved:
* `C11_build_ok_reserves_exactly_its_processors` — a successful build reserves exactly the processors
  of the configuration (each once, none of them reserved before), in the engine's build order;
* `C11_teardown_releases_all` — the end of the live runs releases every processor those runs
  reserved, and leaves nothing reserved when every reservation belonged to a live run;
* `C11_no_failed_build_no_leak` — over any history without a failed build attempt, every run end
  leaves nothing reserved (so the restart is enabled: `C11_rebuild_after_teardown`);
* `C11_failed_build_adds_a_prefix` — what a FAILED attempt leaves reserved: the processors it reserved
  before the failing step (never more);
* `C11_failed_build_leaks_reservation_counterexample` — and that can be non-empty, in BOTH engines,
  after which the repaired configuration does not build ("processor already running") although no run
  exists, a run end releases nothing, and the monitor `noLeakAfterFailedBuild` fails.

The open phase of `Start` (arch-v2 `runPipeline`: `sink.Open`, every `worker.Open`, with the rollback
performed on a failure; v1: every node opens inside its own `Run`):
* `C11_open_failure_releases_opened` — what a failed open phase releases: only processors whose `Open`
  had succeeded, and the WHOLE shared sink when the failure is in a worker; no run becomes live;
* `C11_v1_start_releases_all` — v1 releases everything whichever `Open` fails;
* `C11_failed_open_leaks_unopened_processor_reservations_counterexample` — arch-v2 keeps the
  reservations of the processors it never opened and of the one whose `Open` failed (known finding
  `failed-open-leaks-unopened-processor-reservations-v2`); NOT holding: "after a failed `Start` the
  reservations are those before it" (`(step .v2 s .start).2 = .started .openFailed h' → h' = s.held`).

NOT holding of the current code (the full-strength statement; it is the goal of the proposed fix —
release the runnables already made on the error exits of the builders):

    theorem C11_failed_build_releases_all (eng : Eng) (held : List Nat) (cfg : PipeCfg) (e : BuildErr) (h : List Nat)
        (hfail : attempt eng held cfg = (.err e, h)) : h = held

  and with it `∀ cfg steps, noLeakAfterFailedBuild eng cfg steps = .ok`. Refuted by the
  counterexample below and by the `rebuild` traces of the real services (known finding F-build-leak).
-/
namespace Conduit.Rebuild
open Conduit.Funnel

/-- the processors a build of `cfg` reserves, in the order the engine reserves them -/
def reservedBy : Eng → PipeCfg → List Nat
  | .v2, cfg => srcProcIds cfg.conns ++ dstProcIds cfg.conns ++ procIds cfg.procs
  | .v1, cfg => srcProcIds cfg.conns ++ procIds cfg.procs ++ dstProcIds cfg.conns

theorem reservedBy_v2 (cfg : PipeCfg) : reservedBy .v2 cfg = allProcIds cfg := rfl

/-- A successful build attempt reserves exactly the processors of the configuration: the new
reservation state is those processors on top of what was held, they are pairwise distinct, and none
of them was reserved before. -/
theorem C11_build_ok_reserves_exactly_its_processors (eng : Eng) (openC held : List Nat) (cfg : PipeCfg) (h : List Nat)
    (hok : attempt eng openC held cfg = (.ok, h)) :
    h = (reservedBy eng cfg).reverse ++ held ∧ (reservedBy eng cfg).Nodup ∧
      (∀ x ∈ reservedBy eng cfg, x ∉ held) ∧ added held h = (reservedBy eng cfg).reverse := by
  have key : h = (reservedBy eng cfg).reverse ++ held ∧ (reservedBy eng cfg).Nodup ∧ (∀ x ∈ reservedBy eng cfg, x ∉ held) := by
    cases eng with
    | v2 =>
      simp only [attempt, attemptV2] at hok
      rcases hs : reserveConns .source openC held cfg.conns with ⟨eo, h1⟩
      rw [hs] at hok
      cases eo with
      | some e => simp at hok
      | none =>
        simp only at hok
        split at hok
        · simp at hok
        · rcases hd : reserveConns .dest openC h1 cfg.conns with ⟨eo, h2⟩
          rw [hd] at hok
          cases eo with
          | some e => simp at hok
          | none =>
            simp only at hok
            split at hok
            · simp at hok
            · rcases hp : reserve h2 cfg.procs with ⟨eo, h3⟩
              rw [hp] at hok
              cases eo with
              | some e => simp at hok
              | none =>
                simp only at hok
                have e3 : h3 = h := by
                  cases hb : buildWorkers cfg with
                  | ok t => rw [hb] at hok; simp only [Prod.mk.injEq] at hok; exact hok.2
                  | error e => rw [hb] at hok; simp at hok
                subst e3
                obtain ⟨s1, s2, s3⟩ := reserveConns_ok .source (by decide) openC cfg.conns held h1 hs
                obtain ⟨d1, d2, d3⟩ := reserveConns_ok .dest (by decide) openC cfg.conns h1 h2 hd
                obtain ⟨p1, p2, p3⟩ := reserve_ok cfg.procs h2 h3 hp
                rw [kindProcIds_source] at s1 s2 s3
                rw [kindProcIds_dest] at d1 d2 d3
                refine ⟨by rw [p1, d1, s1]; simp [reservedBy], ?_, ?_⟩
                · refine nodup_append_disj (nodup_append_disj s2 d2 (fun x hx hm => d3 x hx ?_)) p2 (fun x hx hm => p3 x hx ?_)
                  · rw [s1]; exact List.mem_append_left _ (List.mem_reverse.mpr hm)
                  · rw [d1, s1]
                    rcases List.mem_append.mp hm with hm | hm
                    · exact List.mem_append_right _ (List.mem_append_left _ (List.mem_reverse.mpr hm))
                    · exact List.mem_append_left _ (List.mem_reverse.mpr hm)
                · intro x hx hm
                  simp only [reservedBy, List.mem_append] at hx
                  rcases hx with (hx | hx) | hx
                  · exact s3 x hx hm
                  · exact d3 x hx (by rw [s1]; exact List.mem_append_right _ hm)
                  · exact p3 x hx (by rw [d1, s1]; exact List.mem_append_right _ (List.mem_append_right _ hm))
    | v1 =>
      simp only [attempt, attemptV1] at hok
      rcases hs : reserveConns .source openC held cfg.conns with ⟨eo, h1⟩
      rw [hs] at hok
      cases eo with
      | some e => simp at hok
      | none =>
        simp only at hok
        split at hok
        · simp at hok
        · rcases hp : reserve h1 cfg.procs with ⟨eo, h2⟩
          rw [hp] at hok
          cases eo with
          | some e => simp at hok
          | none =>
            simp only at hok
            rcases hd : reserveConns .dest openC h2 cfg.conns with ⟨eo, h3⟩
            rw [hd] at hok
            cases eo with
            | some e => simp at hok
            | none =>
              simp only at hok
              split at hok
              · simp at hok
              · simp only [Prod.mk.injEq, true_and] at hok
                subst hok
                obtain ⟨s1, s2, s3⟩ := reserveConns_ok .source (by decide) openC cfg.conns held h1 hs
                obtain ⟨p1, p2, p3⟩ := reserve_ok cfg.procs h1 h2 hp
                obtain ⟨d1, d2, d3⟩ := reserveConns_ok .dest (by decide) openC cfg.conns h2 h3 hd
                rw [kindProcIds_source] at s1 s2 s3
                rw [kindProcIds_dest] at d1 d2 d3
                refine ⟨by rw [d1, p1, s1]; simp [reservedBy], ?_, ?_⟩
                · refine nodup_append_disj (nodup_append_disj s2 p2 (fun x hx hm => p3 x hx ?_)) d2 (fun x hx hm => d3 x hx ?_)
                  · rw [s1]; exact List.mem_append_left _ (List.mem_reverse.mpr hm)
                  · rw [p1, s1]
                    rcases List.mem_append.mp hm with hm | hm
                    · exact List.mem_append_right _ (List.mem_append_left _ (List.mem_reverse.mpr hm))
                    · exact List.mem_append_left _ (List.mem_reverse.mpr hm)
                · intro x hx hm
                  simp only [reservedBy, List.mem_append] at hx
                  rcases hx with (hx | hx) | hx
                  · exact s3 x hx hm
                  · exact p3 x hx (by rw [s1]; exact List.mem_append_right _ hm)
                  · exact d3 x hx (by rw [p1, s1]; exact List.mem_append_right _ (List.mem_append_right _ hm))
  refine ⟨key.1, key.2.1, key.2.2, ?_⟩
  rw [key.1, added_append]

/-- every reservation belongs to a run that has been built and has not ended -/
def AllLive (s : St) : Prop := ∀ x ∈ s.held, x ∈ s.live.flatten

/-- The end of the live runs (`Worker.Close` / `Sink.Close` closing every task, v1: every
`ProcessorNode.Run` returning; each calls `RunnableProcessor.Teardown`, which clears the
reservation): exactly the processors reserved by those runs are released, no run stays live — and
when every reservation belonged to a live run, NOTHING stays reserved. -/
theorem C11_teardown_releases_all (eng : Eng) (s : St) :
    (∀ x, x ∈ (step eng s .teardown).1.held ↔ x ∈ s.held ∧ x ∉ s.live.flatten) ∧
    (step eng s .teardown).1.live = [] ∧ (step eng s .teardown).1.openC = [] ∧
    (AllLive s → (step eng s .teardown).1.held = []) := by
  refine ⟨fun x => by simp [step, release], rfl, rfl, fun hall => ?_⟩
  simp only [step, release]
  exact List.filter_eq_nil_iff.mpr (fun x hx => by simpa using hall x hx)

/-- an observation that is not a failure of a build attempt or of a `Start` -/
def Good : Obs → Prop
  | .built o _ => o = .ok
  | .started o _ => o = .ok ∨ o = .ran ∨ o = .plRunning
  | _ => True

theorem allLive_of_ok {eng : Eng} {s : St} {h : List Nat} (hs : AllLive s)
    (ha : attempt eng s.openC s.held s.cfg = (.ok, h)) :
    ∀ x ∈ h, x ∈ (s.live ++ [added s.held h]).flatten := by
  obtain ⟨h1, _, _, h4⟩ := C11_build_ok_reserves_exactly_its_processors eng s.openC s.held s.cfg h ha
  intro x hx
  simp only [List.flatten_append, List.flatten_cons, List.flatten_nil, List.append_nil, List.mem_append]
  rw [h1] at hx
  rcases List.mem_append.mp hx with hx | hx
  · right; rw [h4]; exact hx
  · left; exact hs x hx

theorem allLive_step_ok (eng : Eng) (s : St) (e : Step) (hs : AllLive s)
    (hok : Good (step eng s e).2) : AllLive (step eng s e).1 := by
  cases e with
  | build =>
    rcases ha : attempt eng s.openC s.held s.cfg with ⟨o, h⟩
    have ho : o = .ok := by simpa [step, ha, Good] using hok
    subst ho
    intro x hx
    simp only [step, ha, if_true] at hx ⊢
    exact allLive_of_ok hs ha x hx
  | teardown =>
    intro x hx
    rw [(C11_teardown_releases_all eng s).2.2.2 hs] at hx
    cases hx
  | start =>
    cases eng with
    | v1 =>
      rcases ha : attempt .v1 s.openC s.held s.cfg with ⟨o, h⟩
      cases o with
      | ok => simp only [step, ha]; exact hs
      | err e => simp [step, ha, Good] at hok
    | v2 =>
      by_cases hst : s.started = true
      · simp only [step, hst, if_true]; exact hs
      · rcases ha : attempt .v2 s.openC s.held s.cfg with ⟨o, h⟩
        cases o with
        | err e => simp [step, hst, ha, Good] at hok
        | ok =>
          cases hop : openPhaseV2 s.cfg s.failP s.failC with
          | some rel => simp [step, hst, ha, hop, Good] at hok
          | none =>
            intro x hx
            simp only [step, hst, ha, hop, Bool.false_eq_true, if_false] at hx ⊢
            exact allLive_of_ok hs ha x hx
  | mk id => exact hs
  | rmp id => exact hs
  | rmc id => exact hs
  | addc k id => exact hs
  | failp id => exact hs
  | failc id => exact hs
  | failclear => exact hs

/-- Over any history of build attempts, `Start`s, run ends, injected `Open` failures and
configuration edits in which NO build attempt and NO `Start` failed, every reservation belongs to a
live run at every point — so every run end leaves nothing reserved. (A failed build or a failed open
phase is the only way to break this: see the counterexamples.) -/
theorem C11_no_failed_build_no_leak (eng : Eng) (steps : List Step) : ∀ (s : St), AllLive s →
    (∀ t ∈ run eng s steps, Good t.2.2.2) →
    ∀ t ∈ run eng s steps, AllLive t.2.2.1 ∧ (t.2.1 = .teardown → t.2.2.1.held = []) := by
  induction steps with
  | nil => intro s _ _ t ht; simp [run] at ht
  | cons e es ih =>
    intro s hs hok t ht
    simp only [run] at ht hok
    have hstep : AllLive (step eng s e).1 := allLive_step_ok eng s e hs (hok _ (List.mem_cons_self ..))
    rcases List.mem_cons.mp ht with rfl | ht
    · refine ⟨hstep, fun he => ?_⟩
      simp only at he
      subst he
      exact (C11_teardown_releases_all eng s).2.2.2 hs
    · exact ih (step eng s e).1 hstep (fun t' ht' => hok t' (List.mem_cons_of_mem _ ht')) t ht

/-- After a run end that left nothing reserved the same configuration builds again iff it builds from
scratch: the result of the attempt is the result with nothing reserved and no connector open. -/
theorem C11_rebuild_after_teardown (eng : Eng) (s : St) (hs : AllLive s) :
    attempt eng (step eng s .teardown).1.openC (step eng s .teardown).1.held (step eng s .teardown).1.cfg =
      attempt eng [] [] s.cfg := by
  rw [(C11_teardown_releases_all eng s).2.2.2 hs]
  rfl

theorem reserveConns_suffix (k : ConnKind) (openC : List Nat) (cs : List ConnCfg) :
    ∀ held, ∃ a, (reserveConns k openC held cs).2 = a ++ held := by
  induction cs with
  | nil => intro held; exact ⟨[], rfl⟩
  | cons c cs ih =>
    intro held
    rw [reserveConns]
    by_cases hm : c.kind = .missing
    · rw [if_pos hm]; exact ⟨[], rfl⟩
    · rw [if_neg hm]
      by_cases hk : c.kind = k
      · rw [if_neg (fun h : c.kind ≠ k => h hk)]
        cases ho : openC.contains c.id with
        | true => exact ⟨[], by simp⟩
        | false =>
          simp only [Bool.false_eq_true, if_false]
          obtain ⟨a, ha⟩ := reserve_suffix c.procs held
          rcases hr : reserve held c.procs with ⟨eo, h1⟩
          rw [hr] at ha
          simp only at ha
          cases eo with
          | some e => exact ⟨a, ha⟩
          | none =>
            obtain ⟨b, hb⟩ := ih h1
            refine ⟨b ++ a, ?_⟩
            show (reserveConns k openC h1 cs).2 = _
            rw [hb, ha]; simp
      · rw [if_pos hk]
        exact ih held

/-- What ANY attempt (failed or not) does to the reservations: it only adds, in front of what was
held. In particular a failed attempt never releases anything it or an earlier attempt reserved. -/
theorem C11_failed_build_adds_a_prefix (eng : Eng) (openC held : List Nat) (cfg : PipeCfg) :
    ∃ a, (attempt eng openC held cfg).2 = a ++ held := by
  have hr := fun h ps => reserve_suffix ps h
  have hc := fun k h cs => reserveConns_suffix k openC cs h
  cases eng with
  | v2 =>
    simp only [attempt, attemptV2]
    obtain ⟨a1, e1⟩ := hc .source held cfg.conns
    rcases hs : reserveConns .source openC held cfg.conns with ⟨eo, h1⟩
    rw [hs] at e1; simp only at e1
    cases eo with
    | some e => exact ⟨a1, e1⟩
    | none =>
      simp only
      split
      · exact ⟨a1, e1⟩
      · obtain ⟨a2, e2⟩ := hc .dest h1 cfg.conns
        rcases hd : reserveConns .dest openC h1 cfg.conns with ⟨eo, h2⟩
        rw [hd] at e2; simp only at e2
        cases eo with
        | some e => exact ⟨a2 ++ a1, by simp only; rw [e2, e1]; simp⟩
        | none =>
          simp only
          split
          · exact ⟨a2 ++ a1, by simp only; rw [e2, e1]; simp⟩
          · obtain ⟨a3, e3⟩ := hr h2 cfg.procs
            rcases hp : reserve h2 cfg.procs with ⟨eo, h3⟩
            rw [hp] at e3; simp only at e3
            cases eo with
            | some e => exact ⟨a3 ++ a2 ++ a1, by simp only; rw [e3, e2, e1]; simp⟩
            | none =>
              simp only
              cases buildWorkers cfg <;> exact ⟨a3 ++ a2 ++ a1, by simp only; rw [e3, e2, e1]; simp⟩
  | v1 =>
    simp only [attempt, attemptV1]
    obtain ⟨a1, e1⟩ := hc .source held cfg.conns
    rcases hs : reserveConns .source openC held cfg.conns with ⟨eo, h1⟩
    rw [hs] at e1; simp only at e1
    cases eo with
    | some e => exact ⟨a1, e1⟩
    | none =>
      simp only
      split
      · exact ⟨a1, e1⟩
      · obtain ⟨a2, e2⟩ := hr h1 cfg.procs
        rcases hp : reserve h1 cfg.procs with ⟨eo, h2⟩
        rw [hp] at e2; simp only at e2
        cases eo with
        | some e => exact ⟨a2 ++ a1, by simp only; rw [e2, e1]; simp⟩
        | none =>
          simp only
          obtain ⟨a3, e3⟩ := hc .dest h2 cfg.conns
          rcases hd : reserveConns .dest openC h2 cfg.conns with ⟨eo, h3⟩
          rw [hd] at e3; simp only at e3
          cases eo with
          | some e => exact ⟨a3 ++ a2 ++ a1, by simp only; rw [e3, e2, e1]; simp⟩
          | none =>
            simp only
            split <;> exact ⟨a3 ++ a2 ++ a1, by simp only; rw [e3, e2, e1]; simp⟩

/-! ## the open phase of `Start` (arch-v2 `runPipeline`: `sink.Open`, every `worker.Open`, rollback) -/

theorem openSeq_procs (failP failC : List Nat) (ts : List OpenTask) : ∀ (oc : List Nat),
    (∀ x ∈ (openSeq failP failC oc ts).1, x ∈ procsOf ts ∧ x ∉ failP) := by
  induction ts with
  | nil => intro oc x hx; simp [openSeq] at hx
  | cons t ts ih =>
    intro oc x hx
    rw [openSeq] at hx
    by_cases hf : taskFails failP failC oc t = true
    · simp [hf] at hx
    · simp only [hf, Bool.false_eq_true, if_false] at hx
      rcases hr : openSeq failP failC (if t.1 then oc else t.2 :: oc) ts with ⟨ps, oc', f⟩
      rw [hr] at hx
      simp only [List.mem_append] at hx
      obtain ⟨b, id⟩ := t
      rcases hx with hx | hx
      · cases b with
        | false => simp at hx
        | true =>
          simp only [if_true, List.mem_singleton] at hx
          subst hx
          refine ⟨by simp [procsOf], ?_⟩
          simpa [taskFails] using hf
      · have := ih (if b then oc else id :: oc) x (by rw [hr]; exact hx)
        refine ⟨?_, this.2⟩
        cases b with
        | false => simp [procsOf] at this ⊢; exact this.1
        | true => simp [procsOf] at this ⊢; exact Or.inr this.1

theorem workersOpen_released (failP failC sinkProcs : List Nat) (cs : List ConnCfg) :
    ∀ (oc closed rel : List Nat), workersOpen failP failC sinkProcs oc closed cs = some rel →
      (∀ x ∈ sinkProcs, x ∈ rel) ∧ (∀ x ∈ closed, x ∈ rel) ∧
      (∀ x ∈ rel, x ∈ sinkProcs ∨ x ∈ closed ∨ (x ∉ failP ∧ ∃ c ∈ cs, x ∈ procsOf (workerTasks c))) := by
  induction cs with
  | nil => intro oc closed rel h; simp [workersOpen] at h
  | cons c cs ih =>
    intro oc closed rel h
    rw [workersOpen] at h
    rcases hr : openSeq failP failC oc (workerTasks c) with ⟨ps, oc', f⟩
    have hps := openSeq_procs failP failC (workerTasks c) oc
    rw [hr] at h hps
    simp only at hps
    cases f with
    | true =>
      simp only [Option.some.injEq] at h
      subst h
      refine ⟨fun x hx => by simp [hx], fun x hx => by simp [hx], fun x hx => ?_⟩
      simp only [List.mem_append] at hx
      rcases hx with (hx | hx) | hx
      · exact Or.inr (Or.inr ⟨(hps x hx).2, c, List.mem_cons_self .., (hps x hx).1⟩)
      · exact Or.inr (Or.inl hx)
      · exact Or.inl hx
    | false =>
      simp only at h
      obtain ⟨h1, h2, h3⟩ := ih oc' (closed ++ ps) rel h
      refine ⟨h1, fun x hx => h2 x (List.mem_append_left _ hx), fun x hx => ?_⟩
      rcases h3 x hx with h | h | ⟨hnf, d, hd, hx'⟩
      · exact Or.inl h
      · rcases List.mem_append.mp h with h | h
        · exact Or.inr (Or.inl h)
        · exact Or.inr (Or.inr ⟨(hps x h).2, c, List.mem_cons_self .., (hps x h).1⟩)
      · exact Or.inr (Or.inr ⟨hnf, d, List.mem_cons_of_mem _ hd, hx'⟩)

/-- **What a failed open phase DOES release (arch-v2).** When `Start`'s open phase fails, the
reservations afterwards are those of the successful build minus `released`, where `released` holds
only processors whose `Open` had succeeded (none of the failing ones); and when the failure is in a
worker (the sink had opened completely), EVERY processor of the shared sink is among them
(`rp.sink.Close` closes every shared task). No run becomes live, no connector stays open. -/
theorem C11_open_failure_releases_opened (s : St) (h' : List Nat)
    (hstep : (step .v2 s .start).2 = .started .openFailed h') :
    ∃ h released, attempt .v2 s.openC s.held s.cfg = (.ok, h) ∧
      openPhaseV2 s.cfg s.failP s.failC = some released ∧
      (step .v2 s .start).1.held = h' ∧ (∀ x, x ∈ h' ↔ x ∈ h ∧ x ∉ released) ∧
      (∀ x ∈ released, x ∉ s.failP) ∧
      ((openSeq s.failP s.failC [] (sinkTasks s.cfg)).2.2 = false → ∀ x ∈ procsOf (sinkTasks s.cfg), x ∈ released) ∧
      (step .v2 s .start).1.live = s.live ∧ (step .v2 s .start).1.started = s.started ∧
      (step .v2 s .start).1.openC = s.openC := by
  by_cases hst : s.started = true
  · simp [step, hst] at hstep
  · rcases ha : attempt .v2 s.openC s.held s.cfg with ⟨o, h⟩
    cases o with
    | err e => simp [step, hst, ha] at hstep
    | ok =>
      cases hop : openPhaseV2 s.cfg s.failP s.failC with
      | none => simp [step, hst, ha, hop] at hstep
      | some rel =>
        have hs : step .v2 s .start =
            ({ s with held := h.filter fun x => !rel.contains x }, .started .openFailed (h.filter fun x => !rel.contains x)) := by
          simp only [step, hst, ha, hop, Bool.false_eq_true, if_false]
        rw [hs] at hstep ⊢
        have hh : (h.filter fun x => !rel.contains x) = h' := by
          simp only [Obs.started.injEq, true_and] at hstep; exact hstep
        refine ⟨h, rel, rfl, rfl, hh, fun x => by rw [← hh]; simp, ?_, ?_, rfl, rfl, rfl⟩
        · intro x hx
          rw [openPhaseV2] at hop
          rcases hr : openSeq s.failP s.failC [] (sinkTasks s.cfg) with ⟨ps, oc, f⟩
          have hps := openSeq_procs s.failP s.failC (sinkTasks s.cfg) []
          rw [hr] at hop hps
          cases f with
          | true =>
            simp only [Option.some.injEq] at hop
            subst hop
            exact (hps x hx).2
          | false =>
            simp only at hop
            rcases (workersOpen_released _ _ _ _ _ _ _ hop).2.2 x hx with h1 | h1 | ⟨h1, _⟩
            · -- a processor of the sink, all of which opened
              exact sink_opened_not_failing s.failP s.failC (sinkTasks s.cfg) [] (by rw [hr]) x h1
            · cases h1
            · exact h1
        · intro hf x hx
          rw [openPhaseV2] at hop
          rcases hr : openSeq s.failP s.failC [] (sinkTasks s.cfg) with ⟨ps, oc, f⟩
          rw [hr] at hop hf
          simp only at hf
          subst hf
          simp only at hop
          exact (workersOpen_released _ _ _ _ _ _ _ hop).1 x hx
where
  sink_opened_not_failing (failP failC : List Nat) (ts : List OpenTask) : ∀ (oc : List Nat),
      (openSeq failP failC oc ts).2.2 = false → ∀ x ∈ procsOf ts, x ∉ failP := by
    induction ts with
    | nil => intro oc _ x hx; simp [procsOf] at hx
    | cons t ts ih =>
      intro oc hf x hx
      rw [openSeq] at hf
      by_cases hfail : taskFails failP failC oc t = true
      · simp [hfail] at hf
      · simp only [hfail, Bool.false_eq_true, if_false] at hf
        rcases hr : openSeq failP failC (if t.1 then oc else t.2 :: oc) ts with ⟨ps, oc', f⟩
        rw [hr] at hf
        simp only at hf
        obtain ⟨b, id⟩ := t
        cases b with
        | false => exact ih _ (by rw [hr]; exact hf) x (by simpa [procsOf] using hx)
        | true =>
          simp only [procsOf, List.filter_cons, if_true, List.map_cons, List.mem_cons] at hx
          rcases hx with rfl | hx
          · simpa [taskFails] using hfail
          · exact ih _ (by rw [hr]; exact hf) x (by simpa [procsOf] using hx)

/-- v1: a `Start` whose build succeeds leaves the reservations exactly as they were once its run has
ended, whichever `Open` failed: every node is run, and every `ProcessorNode.Run` tears its processor
down on every exit (the teardown is deferred before `Open`). -/
theorem C11_v1_start_releases_all (s : St) (h : List Nat) (hb : attempt .v1 s.openC s.held s.cfg = (.ok, h)) :
    step .v1 s .start = (s, .started .ran s.held) := by
  simp [step, hb]

/-! ## the counterexamples: a failed build / a failed open phase leaks reservations -/
namespace ExLeak

/-- source 1 with processor 2, destination 6; the pipeline lists a processor 7 that does not exist -/
def cfg : PipeCfg := { conns := [⟨.source, 1, [(2, true)]⟩, ⟨.dest, 6, []⟩], procs := [(7, false)] }

/-- the operator's history: Start (fails: unknown processor 7) — remove 7 from the pipeline — Start
again — (nothing runs, but end whatever might) — Start again -/
def history : List Step := [.build, .rmp 7, .build, .teardown, .build]

def obs (eng : Eng) : List Obs := (run eng { cfg } history).map (·.2.2.2)

end ExLeak

/-- **Counterexample (both engines).** The first attempt fails with "could not fetch processor" and
keeps the reservation of processor 2 it made before; the repaired configuration — which builds from
scratch — is then refused with "processor already running" although no run exists; a run end
releases nothing (no run holds the reservation); the refusal is permanent. The monitor
`noLeakAfterFailedBuild` reports the leak at step 0. -/
theorem C11_failed_build_leaks_reservation_counterexample :
    (∀ eng : Eng,
      ExLeak.obs eng = [.built (.err .processor) [2], .none, .built (.err .running) [2], .torn [2], .built (.err .running) [2]] ∧
      (attempt eng [] [] (editCfg ExLeak.cfg (.rmp 7))).1 = .ok ∧
      noLeakAfterFailedBuild eng ExLeak.cfg ExLeak.history = .failedBuildKeepsReservations 0 [2]) ∧
    -- hence the full-strength statement is false:
    ¬ (∀ (eng : Eng) (held : List Nat) (cfg : PipeCfg) (e : BuildErr) (h : List Nat),
        attempt eng [] held cfg = (.err e, h) → h = held) := by
  refine ⟨fun eng => by cases eng <;> decide, fun hall => ?_⟩
  have := hall .v2 [] ExLeak.cfg .processor [2] (by decide)
  cases this

namespace ExOpenLeak

/-- sources 1 (processor 2) and 7 (processor 8), shared processor 3, destination 6 behind its processor 5 -/
def cfg : PipeCfg :=
  { conns := [⟨.source, 1, [(2, true)]⟩, ⟨.source, 7, [(8, true)]⟩, ⟨.dest, 6, [(5, true)]⟩], procs := [(3, true)] }

/-- processor 5's `Open` fails on the first Start; the fault is lifted; Start again; a run end; Start again -/
def sinkFault : List Step := [.failp 5, .start, .failclear, .start, .teardown, .start]
/-- the same with the SECOND source's processor 8 failing (the sink and the first worker had opened) -/
def workerFault : List Step := [.failp 8, .start, .failclear, .start, .teardown, .start]

def obs (eng : Eng) (h : List Step) : List Obs := ((run eng { cfg } h).map (·.2.2.2)).filter (· ≠ .none)

end ExOpenLeak

/-- **Counterexample (arch-v2 only).** A `Start` whose open phase fails keeps the reservations of the
processors it never got to open — and of the one whose `Open` failed:
* processor 5 (destination 6's) fails in `sink.Open`: the rollback closes processor 3 (opened before
  it); 5 itself and the processors 2 and 8 of the two workers (never opened, never closed) stay
  reserved;
* processor 8 (second source's) fails in the second `worker.Open`: the first worker and the sink are
  closed (2, 3, 5 released); 8 stays reserved.
Every later Start is refused "processor already running" (and, being a failed build, reserves more on
the way), a run end releases nothing. The monitor reports the leak at the failed Start.
v1 on the same histories releases everything: the monitor holds. -/
theorem C11_failed_open_leaks_unopened_processor_reservations_counterexample :
    ExOpenLeak.obs .v2 ExOpenLeak.sinkFault =
      [.started .openFailed [5, 8, 2], .started (.buildErr .running) [5, 8, 2], .torn [5, 8, 2],
       .started (.buildErr .running) [5, 8, 2]] ∧
    noLeakAfterFailedBuild .v2 ExOpenLeak.cfg ExOpenLeak.sinkFault = .failedOpenKeepsReservations 1 [5, 8, 2] ∧
    ExOpenLeak.obs .v2 ExOpenLeak.workerFault =
      [.started .openFailed [8], .started (.buildErr .running) [2, 8], .torn [2, 8], .started (.buildErr .running) [2, 8]] ∧
    noLeakAfterFailedBuild .v2 ExOpenLeak.cfg ExOpenLeak.workerFault = .failedOpenKeepsReservations 1 [8] ∧
    (attempt .v2 [] [] ExOpenLeak.cfg).1 = .ok ∧
    ExOpenLeak.obs .v1 ExOpenLeak.sinkFault = [.started .ran [], .started .ran [], .torn [], .started .ran []] ∧
    noLeakAfterFailedBuild .v1 ExOpenLeak.cfg ExOpenLeak.sinkFault = .ok ∧
    noLeakAfterFailedBuild .v1 ExOpenLeak.cfg ExOpenLeak.workerFault = .ok := by decide

/-! ## non-vacuity of the positive theorems -/
namespace ExOk
def cfg : PipeCfg :=
  { conns := [⟨.source, 1, [(2, true)]⟩, ⟨.dest, 6, [(5, true)]⟩], procs := [(3, true)] }
example : attempt .v2 [] [] cfg = (.ok, [3, 5, 2]) := by decide
example : attempt .v1 [] [] cfg = (.ok, [5, 3, 2]) := by decide
example : reservedBy .v2 cfg = [2, 5, 3] ∧ reservedBy .v1 cfg = [2, 3, 5] := by decide
/-- run, end, run again, end: nothing is ever left reserved and the monitor holds -/
example : (run .v2 { cfg } [.build, .teardown, .build, .teardown]).map (·.2.2.2) =
    [.built .ok [3, 5, 2], .torn [], .built .ok [3, 5, 2], .torn []] := by decide
example : noLeakAfterFailedBuild .v2 cfg [.build, .teardown, .build, .teardown] = .ok := by decide
example : noLeakAfterFailedBuild .v1 cfg [.build, .teardown, .build, .teardown] = .ok := by decide
/-- the same through `Start`; a second Start while the run is live is refused without any effect; a bare
build during the live run stops at the connector guard -/
example : (run .v2 { cfg } [.start, .start, .build, .teardown, .start, .teardown]).map (·.2.2.2) =
    [.started .ok [3, 5, 2], .started .plRunning [3, 5, 2], .built (.err .connRunning) [3, 5, 2], .torn [],
     .started .ok [3, 5, 2], .torn []] := by decide
example : noLeakAfterFailedBuild .v2 cfg [.start, .start, .build, .teardown, .start, .teardown] = .ok := by decide
/-- an open failure that hits the very first shared task leaks everything the build reserved; one that hits
the first worker's source releases the whole sink -/
example : openPhaseV2 cfg [3] [] = some [] ∧ openPhaseV2 cfg [] [1] = some [3, 5] ∧ openPhaseV2 cfg [] [] = none := by decide
/-- a failed attempt that had reserved nothing yet is harmless (the unknown connector comes first) -/
example : noLeakAfterFailedBuild .v2 { cfg with conns := ⟨.missing, 9, []⟩ :: cfg.conns } [.build, .rmc 9, .build, .teardown] = .ok := by
  decide
end ExOk

end Conduit.Rebuild
