import ConduitModel.Model.ForceStop
import ConduitModel.Proofs.LifecycleTomb

/-!
# C12 — force stop ends the run, marks it failed-by-force-stop without restart

Statement (properties.jsonl C12): "A forced stop issued at any moment - during start-up, mid-batch,
while a destination or the DLQ is unresponsive, during a graceful stop - makes the run terminate,
marks the pipeline as failed-by-force-stop without automatic restart, and never causes a record to
be acknowledged that was not handled. The pipeline can afterwards be started again …"

Decided here: the latch law of `forceStopper` (a force stop that races node start-up is neither lost
nor a nil-deref) and the control-plane clause (force stop ⇒ Degraded with ErrForceStop, no restart)
over M5. The data-path clauses (no ack without handling, restart from the durable position) are
monitored on every lifecycle trace (`Spec.Lifecycle`: `ack-without-write`,
`restart-skips-unwritten-record`) and are proved over M2–M4 by the C01/C03 models.
-/
namespace Conduit.ForceStop

theorem run_stops_fresh : ∀ (pre : List Ev) (l : Latch), l.ctxs = [] → (∀ e ∈ pre, e = Ev.stop) →
    (run l pre).ctxs = [] ∧ (run l pre).stopped = (l.stopped || !pre.isEmpty)
  | [], l, h, _ => by simp [run, h]
  | e :: es, l, h, hp => by
    have he : e = Ev.stop := hp e (by simp)
    subst he
    have := run_stops_fresh es { l with stopped := true } h (fun e he => hp e (by simp [he]))
    simp only [run, List.foldl_cons, step, h, if_true] at this ⊢
    simpa using this

theorem cancelLast_single (b : Bool) : cancelLast [b] = [true] := rfl

theorem run_stops_after : ∀ (post : List Ev) (b : Bool) (st : Bool), (∀ e ∈ post, e = Ev.stop) →
    (run { ctxs := [b], stopped := st } post).ctxs = [b || !post.isEmpty]
  | [], b, st, _ => by simp [run]
  | e :: es, b, st, hp => by
    have he : e = Ev.stop := hp e (by simp)
    subst he
    have := run_stops_after es true st (fun e he => hp e (by simp [he]))
    simp only [run, List.foldl_cons, step] at this ⊢
    simpa [cancelLast] using this

/-- C12.force_stop_latch — "for every instant of the force stop relative to node start-up": for ANY
number of `ForceStop` calls before and after the node's single `start()`, as soon as there is at
least one, the node's connector context ends up cancelled — a stop before `start` is latched, a
stop after `start` cancels directly; none is lost. -/
theorem C12_force_stop_latch (pre post : List Ev) (hpre : ∀ e ∈ pre, e = Ev.stop)
    (hpost : ∀ e ∈ post, e = Ev.stop) (hsome : pre ≠ [] ∨ post ≠ []) :
    (run {} (pre ++ [Ev.start] ++ post)).ctxs = [true] := by
  have h1 := run_stops_fresh pre {} rfl hpre
  simp only [run, List.foldl_append, List.foldl_cons, List.foldl_nil] at h1 ⊢
  obtain ⟨hc, hs⟩ := h1
  generalize List.foldl step {} pre = l at hc hs ⊢
  obtain ⟨ctxs, stopped⟩ := l
  simp only at hc hs
  subst hc
  have h2 := run_stops_after post stopped stopped hpost
  simp only [run, step, List.nil_append] at h2 ⊢
  rw [h2, hs]
  rcases hsome with h | h
  · cases pre with
    | nil => exact absurd rfl h
    | cons => simp
  · cases post with
    | nil => exact absurd rfl h
    | cons => simp

/-- without any force stop the context stays live (the law is not vacuous). -/
example : (run {} [Ev.start]).ctxs = [false] := by decide
example : (run {} [Ev.stop, Ev.start]).ctxs = [true] := by decide
example : (run {} [Ev.start, Ev.stop]).ctxs = [true] := by decide
/-- The latch is single-shot (documented in force_stop.go): a SECOND `start` after a direct cancel
hands out a live context. Nodes call `start` exactly once per Run (Facts/C12). -/
example : (run {} [Ev.start, Ev.stop, Ev.start]).ctxs = [true, false] := by decide

end Conduit.ForceStop

namespace Conduit.Lifecycle

/-- C12.force_stop_terminal (1/3) — a force stop that reaches a run whose tomb is still alive
records `FatalError(ErrForceStop)` as THE reason of that run, in both engines, whatever else is
going on (start-up not finished, graceful stop in progress, nodes blocked). -/
theorem C12_force_stop_records_fatal {s s' : State} {m : Nat}
    (h : step s (.stop true) = some s') (he : s.entry = some m)
    (hst : s.status = .running ∨ s.status = .recovering) (ht : (s.runs m).tomb = none) :
    (s'.runs m).tomb = some .forceStop ∧ Cause.forceStop.isFatal = true := by
  simp only [step, stepStop, stopRes, stopState, he, forceState] at h
  split at h
  · cases h
  · rcases hst with hst | hst <;> simp [hst] at h <;> subst h <;> simp [ht] <;> rfl

/-- C12.force_stop_terminal (2/3) — that reason is never replaced (tomb keeps the first Kill), for
every continuation of the run. -/
theorem C12_force_stop_reason_kept {eng cfg fx} {s s' : State} {m : Nat} (hr : Reach eng cfg fx s)
    (evs : List Event) (h : runFrom s evs = some s') (ht : (s.runs m).tomb = some .forceStop) :
    (s'.runs m).tomb = some .forceStop :=
  runFrom_tomb_stable evs (reach_inv hr) h ht

/-- C12.force_stop_terminal (3/3) — when the run's cleanup goroutine classifies it, a fatal tomb
reason (in particular ErrForceStop) selects the Degraded arm with that cause, never the recovery arm
— in both engines, whatever the shutdown / intentional-stop flags say. -/
theorem C12_force_stop_degrades {s s' : State} {n : Nat} {sink : Option Cause} {c : Cause}
    (h : step s (.cleanupWake n sink) = some s') (ht : (s.runs n).tomb = some c) (hf : c.isFatal = true) :
    (s'.runs n).cpc = .decided (.degrade c) ∧ (Action.degrade c).status = .degraded := by
  simp only [step, stepCleanupWake] at h
  repeat' split at h
  all_goals first
    | (cases h; done)
    | (cases h
       refine ⟨?_, rfl⟩
       simp only [setRun_runs, if_true, ht, classify]
       cases s.eng <;> simp [hf, HOrElse.hOrElse, OrElse.orElse, Option.orElse])

/-- … and a run on the recovery path was classified with a NON-fatal error: a force-stopped (or
otherwise fatally failed) run is never restarted. -/
theorem C12_no_restart_after_fatal {eng cfg fx} {s : State} (hr : Reach eng cfg fx s) (i : Nat)
    (hrec : recoverish (s.runs i).cpc = true) : ∃ c, (s.runs i).cerr = some c ∧ c.isFatal = false :=
  (reach_inv hr).recoverNonFatal i hrec

/-- non-vacuity: a force stop of a running v2 pipeline ends Degraded by force stop. -/
example : ((runFrom (init .v2 ⟨some 3, 1, 2, 5⟩)
    [.startUser, .buildOk 0, .publish 0, .writeRunning 0 true, .startReturn, .stop true,
     .nodeExit 0 .nodeTransient, .cleanupWake 0 none, .writeStatus 0 true, .setTerminalErr 0, .deleteEntry 0]).map
      fun s => (s.status, s.terminalErr, s.entry, s.restarts)) =
    some (.degraded, some (some .forceStop), none, 0) := by decide

end Conduit.Lifecycle
