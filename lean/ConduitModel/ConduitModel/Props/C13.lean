import ConduitModel.Proofs.ProcNodeC
import ConduitModel.Proofs.ProcNodeLog
import ConduitModel.Spec.ProcNode
import ConduitModel.Proofs.ProcSvc

/-!
# C13 — live processor reconfiguration: property theorems

Statement (properties.jsonl C13): "Changing a processor's configuration on a running pipeline without
restarting it takes effect at a record boundary: every record is processed by exactly one configuration,
all records before the switch by the old one and all after by the new one, with order, acknowledgments and
positions unaffected. If the new configuration cannot be opened the old one keeps running and the caller
gets the error." — for every instant of the reconfigure request relative to record flow (idle, mid-stream,
during stop), every outcome of opening the new processor, and concurrent or cancelled requests.

The model is the event system of `Model/ProcNode.lean` (`stream.ProcessorNode`: Run loop, `Reconfigure`,
`applyPendingSwap`). `Reachable s` quantifies over ALL event lists from `init`, i.e. every interleaving of
any number of `Reconfigure` callers (with cancellation at any point), the Run goroutine, every open
outcome, every `Process` result kind, and every way the loop ends. Theorems about reachable states are
corollaries of `reachable_inv` (induction over the event list, `Proofs/ProcNode{A,B,C}.lean`); the
step-level theorems hold for every state.
-/
namespace Conduit.Model.ProcNode

/-! ### records: one configuration per record, nothing dropped, duplicated or reordered -/

/-- C13 "every record is processed by exactly one configuration … never drops, duplicates or reorders
records": in every reachable state
* no record index occurs twice in the `Process` log, and two stamps of the same record are the same stamp
  (one processor, one configuration epoch);
* the outcomes given so far (forwarded or nacked, oldest first) are exactly records `0, 1, …, k-1` in
  arrival order, one outcome each, and every received record is either among them or the single record
  in flight;
* a record has a stamp iff it did not arrive already filtered (pass-through), and stamps only name
  received records. -/
theorem C13_one_generation_per_record {s : State} (h : Reachable s) :
    (s.log.map (·.idx)).Nodup ∧
    (∀ a ∈ s.log, ∀ b ∈ s.log, a.idx = b.idx → a = b) ∧
    (s.outc.map (·.idx)).reverse = List.range s.outc.length ∧
    s.nextIn = s.outc.length + (if s.pc.inflight.isSome then 1 else 0) ∧
    (∀ i, s.pc.inflight = some i → i = s.outc.length) ∧
    (∀ o ∈ s.outc, (o.fwd ≠ .passthrough ↔ ∃ st ∈ s.log, st.idx = o.idx)) ∧
    (∀ st ∈ s.log, st.idx < s.nextIn) := by
  have hb := (reachable_inv h).b
  refine ⟨?_, log_idx_inj hb.log_sorted, hb.outc_range, ?_, fun i hi => (hb.count_ok.1 i hi).1, hb.class_ok,
    fun st hst => (hb.log_ok st hst).2.1⟩
  · rw [List.Nodup, List.pairwise_map]
    exact hb.log_sorted.imp (fun hxy => by omega)
  · cases hfl : s.pc.inflight with
    | none => simp [hb.count_ok.2 hfl]
    | some i =>
      have := hb.count_ok.1 i hfl
      simp; omega

/-- C13 "all records before the switch by the old one and all after by the new one": in every reachable
state, for stamps `a`, `b` of the log
* configuration epochs are non-decreasing in record order,
* a stamp's processor is the one that was current in its epoch (`hist[ep]`), and no processor is current in
  two epochs,
* hence the records handled by one processor are contiguous: if `a.idx ≤ b.idx ≤ c.idx` and `a`, `c` were
  handled by the same processor, so was `b` — the log is `g₀…g₀ g₁…g₁ g₂…` with switch indices between. -/
theorem C13_generation_monotone_in_record_order {s : State} (h : Reachable s) :
    (∀ a ∈ s.log, ∀ b ∈ s.log, a.idx ≤ b.idx → a.ep ≤ b.ep) ∧
    (∀ a ∈ s.log, s.hist[a.ep]? = some a.gen) ∧
    s.hist.Nodup ∧
    (∀ a ∈ s.log, ∀ b ∈ s.log, ∀ c ∈ s.log, a.idx ≤ b.idx → b.idx ≤ c.idx → a.gen = c.gen → b.gen = a.gen) := by
  have hi := reachable_inv h
  have mono := log_epochs_mono hi.b.log_sorted
  refine ⟨mono, fun a ha => (hi.b.log_ok a ha).1, hi.a.hist_nodup, ?_⟩
  intro a ha b hb c hc hab hbc hg
  have ea := (hi.b.log_ok a ha).1
  have eb := (hi.b.log_ok b hb).1
  have ec := (hi.b.log_ok c hc).1
  have hac : a.ep = c.ep := getElem?_inj_of_nodup hi.a.hist_nodup ea (hg ▸ ec)
  have h1 := mono a ha b hb hab
  have h2 := mono b hb c hc hbc
  have hba : b.ep = a.ep := by omega
  rw [hba, ea] at eb
  exact (Option.some.inj eb).symm

/-- the record in flight inside `Process` was handed to the processor that is still current:
`n.Processor` does not change under a running `Process` call. -/
theorem C13_inflight_record_uses_current {s : State} (h : Reachable s) (i : Nat) (hp : s.pc = .processing i) :
    ∃ st ∈ s.log, st.idx = i ∧ st.gen = s.cur :=
  (reachable_inv h).b.processing_ok i hp

/-! ### the swap happens at a record boundary, in the Run goroutine only -/

/-- C13 "takes effect at a record boundary": in ANY state, a step that changes `n.Processor` is the
successful `Open` of a claimed request inside `applyPendingSwap` (`openNew g true` at pc `opening g`); the
node holds no record before or after that step. No caller-side event (stage, wake, cancel, result
delivery) and no other loop event changes it. -/
theorem C13_swap_only_at_record_boundary {s s' : State} {e : Event} (h : step s e = some s')
    (hc : s'.cur ≠ s.cur) :
    ∃ g, e = .openNew g true ∧ s.pc = .opening g ∧ s'.cur = g ∧ s.pc.inflight = none ∧ s'.pc.inflight = none := by
  cases e <;> (step_cases h; all_goals first
    | (cases h; done)
    | (cases h; simp_all [Pc.inflight]))

/-- … and while a record is in flight (`processing`, `sending`, `nacking`) no step changes `n.Processor`. -/
theorem C13_no_swap_while_record_in_flight {s s' : State} {e : Event} (h : step s e = some s')
    (i : Nat) (hf : s.pc.inflight = some i) : s'.cur = s.cur := by
  by_cases hc : s'.cur = s.cur
  · exact hc
  · obtain ⟨g, -, -, -, hn, -⟩ := C13_swap_only_at_record_boundary h hc
    rw [hn] at hf; cases hf

/-! ### open failure keeps the old processor and reports the error -/

/-- C13 "If the new configuration cannot be opened the old one keeps running": the failing-open step
leaves `n.Processor` and its history untouched and sends the loop to the teardown of the NEW processor. -/
theorem C13_open_fail_keeps_old {s s' : State} {g : Nat} (h : step s (.openNew g false) = some s') :
    s'.cur = s.cur ∧ s'.hist = s.hist ∧ s'.pc = .tearNew g ∧ s'.pending = s.pending := by
  step_cases h <;> first | (cases h; done) | (cases h; simp_all)

/-- the successful-open step switches to the new processor and sends the loop to the teardown of the OLD one. -/
theorem C13_open_ok_switches {s s' : State} {g : Nat} (h : step s (.openNew g true) = some s') :
    s'.cur = g ∧ s'.hist = s.hist ++ [g] ∧ s'.pc = .tearOld s.cur g := by
  step_cases h <;> first | (cases h; done) | (cases h; simp_all)

/-- the failure branch of `applyPendingSwap` is straight-line: from `tearNew r` the loop can only tear the
new processor down (reconfigure-teardown), from `delivering r res` it can only put `res` into r's `done`. -/
theorem C13_fail_branch_program {s s' : State} {e : Event} (h : step s e = some s') :
    (∀ r, s.pc = .tearNew r → s'.pc = .tearNew r ∨ (e = .teardownRc r ∧ s'.pc = .delivering r .openErr)) ∧
    (∀ r res, s.pc = .delivering r res → s'.pc = .delivering r res ∨ (e = .deliver ∧ s'.done r = some res)) := by
  cases e <;> (step_cases h; all_goals first
    | (cases h; done)
    | (cases h; simp_all))

/-- C13 "… and the caller gets the error" (and gets `nil` exactly for an applied swap): in every reachable
state, for every request `r`
* the value in its `done` channel, the value the loop is about to deliver and the value its caller returned
  with are `ok` only if processor `r` became current, `openErr` only if it never did (the old one was kept);
* a request answered `openErr` had been claimed by the loop (its `Open` was attempted and failed). -/
theorem C13_open_fail_keeps_old_and_reports {s : State} (h : Reachable s) :
    (∀ r res, s.done r = some res → (res = .ok ∧ r ∈ s.hist) ∨ (res = .openErr ∧ r ∉ s.hist)) ∧
    (∀ r res, s.pc = .delivering r res → (res = .ok ∧ r ∈ s.hist) ∨ (res = .openErr ∧ r ∉ s.hist)) ∧
    (∀ r, s.cst r = .returned .ok → r ∈ s.hist) ∧
    (∀ r, s.cst r = .returned .openErr → r ∉ s.hist ∧ r ∈ s.claimed ∧ r ∈ s.opened) := by
  have ha := (reachable_inv h).a
  refine ⟨ha.done_res, ha.deliv_ok, ha.ret_ok, fun r hr => ?_⟩
  obtain ⟨h1, h2, h3⟩ := ha.ret_err r hr
  refine ⟨h1, h2, ?_⟩
  rcases ha.claimed_opened r h2 with hp | ho
  · exact absurd (by rw [hp]; rfl) h3
  · exact ho

/-! ### concurrent requests -/

/-- C13 "concurrent … reconfigure requests": a `Reconfigure` that finds a request staged is answered
"already in progress" at once and changes nothing else — in particular not the staged request. -/
theorem C13_second_request_rejected {s s' : State} {r : Nat} (hp : s.pending ≠ none)
    (h : step s (.stage r) = some s') :
    s'.cst r = .returned .rejected ∧ s'.pending = s.pending ∧ s'.cur = s.cur ∧ s'.pc = s.pc ∧
    s'.claimed = s.claimed ∧ s'.done = s.done ∧ s'.wake = s.wake ∧ (∀ x, x ≠ r → s'.cst x = s.cst x) := by
  step_cases h <;> first | (cases h; done) | (cases h; simp_all [upd])

/-- … and with nothing staged the request is staged (it will be the next one claimed). -/
theorem C13_first_request_staged {s s' : State} {r : Nat} (hp : s.pending = none)
    (h : step s (.stage r) = some s') : s'.pending = some r ∧ s'.cst r = .staged := by
  step_cases h <;> first | (cases h; done) | (cases h; simp_all [upd])

/-- a rejected request is never applied: never claimed, its processor never opened, never current. -/
theorem C13_rejected_never_applied {s : State} (h : Reachable s) (r : Nat) (hr : s.cst r = .returned .rejected) :
    r ∉ s.claimed ∧ r ∉ s.hist ∧ r ∉ s.opened ∧ s.pending ≠ some r := by
  have ha := (reachable_inv h).a
  have hc := (ha.ret_rej r hr).1
  have h0 : r ≠ 0 := fun h0 => by rw [h0, ha.zero_idle] at hr; cases hr
  refine ⟨hc, fun hh => ?_, fun ho => ?_, fun hp => ?_⟩
  · rcases ha.hist_claimed r hh with h | h
    · exact h0 h
    · exact hc h
  · rcases ha.opened_claimed r ho with h | h
    · exact h0 h
    · exact hc h
  · rcases (ha.pend_ok r hp).2.2.2.1 with h | h <;> (rw [h] at hr; cases hr)

/-! ### cancelled requests -/

/-- C13 "cancelled reconfigure requests": a request whose caller returned `ctx.Err()` was either
* withdrawn — it is then never claimed: its processor is never opened and never becomes current, and it
  does not occupy `n.pending` (this holds in every later state, `withdrawn` only grows); or
* already claimed by the loop — then the swap is carried out exactly as for a live caller: once the loop
  is done with it, processor `r` either is in the history of current processors (open succeeded) or was
  opened and never became current (open failed, old one kept). -/
theorem C13_cancel_withdraws_or_completes {s : State} (h : Reachable s) (r : Nat)
    (hr : s.cst r = .returned .cancelled) :
    (r ∈ s.withdrawn ∧ r ∉ s.claimed ∧ r ∉ s.hist ∧ r ∉ s.opened ∧ s.pending ≠ some r) ∨
    (r ∈ s.claimed ∧ r ∉ s.withdrawn ∧ (s.pc.req ≠ some r → r ∈ s.opened)) := by
  have ha := (reachable_inv h).a
  have h0 : r ≠ 0 := fun h0 => by rw [h0, ha.zero_idle] at hr; cases hr
  rcases ha.ret_can r hr with hc | hw
  · right
    refine ⟨hc, fun hw => (ha.withdrawn_ok r hw).1 hc, fun hq => ?_⟩
    rcases ha.claimed_opened r hc with hp | ho
    · exact absurd (by rw [hp]; rfl) hq
    · exact ho
  · left
    have hc := (ha.withdrawn_ok r hw).1
    refine ⟨hw, hc, fun hh => ?_, fun ho => ?_, fun hp => ?_⟩
    · rcases ha.hist_claimed r hh with h | h
      · exact h0 h
      · exact hc h
    · rcases ha.opened_claimed r ho with h | h
      · exact h0 h
      · exact hc h
    · rcases (ha.pend_ok r hp).2.2.2.1 with h | h <;> (rw [h] at hr; cases hr)

/-- the withdrawal is by identity: cancelling `r` clears `n.pending` iff it still holds `r`, and never
touches another caller's request. -/
theorem C13_cancel_only_own_request {s s' : State} {r : Nat} (h : step s (.cancel r) = some s') :
    s'.cst r = .returned .cancelled ∧
    (s.pending = some r → s'.pending = none ∧ s'.withdrawn = r :: s.withdrawn) ∧
    (s.pending ≠ some r → s'.pending = s.pending ∧ s'.withdrawn = s.withdrawn) ∧
    s'.cur = s.cur ∧ s'.pc = s.pc ∧ s'.claimed = s.claimed := by
  step_cases h <;> first | (cases h; done) | (cases h; simp_all [upd])

/-- "a withdrawn request no longer blocks a later Stage". -/
theorem C13_withdraw_unblocks {s s1 s2 : State} {r r' : Nat} (hp : s.pending = some r)
    (h1 : step s (.cancel r) = some s1) (h2 : step s1 (.stage r') = some s2) :
    s2.pending = some r' ∧ s2.cst r' = .staged :=
  C13_first_request_staged ((C13_cancel_only_own_request h1).2.1 hp).1 h2

/-! ### Instance.running -/

/-- C13 (anchor `Instance.running`): the flag set when the runnable was made stays set for the whole life of
the Run loop — across any number of applied, failed, rejected or cancelled swaps — and is cleared exactly
when the loop has ended (by the deferred plain `Teardown`). -/
theorem C13_running_flag_stable {s : State} (h : Reachable s) : s.instRunning = true ↔ s.pc ≠ .exited :=
  (reachable_inv h).c.running

/-- only the loop's final plain `Teardown` writes the flag; `teardownForReconfigure` never does. -/
theorem C13_running_flag_only_final_teardown {s s' : State} {e : Event} (h : step s e = some s')
    (hc : s'.instRunning ≠ s.instRunning) : ∃ g, e = .finalTeardown g := by
  cases e <;> (step_cases h; all_goals first
    | (cases h; done)
    | (cases h; simp_all))

/-! ### every request is answered at most once; the loop never blocks on an answer -/

/-- a caller's result is final: no later event changes it. -/
theorem C13_each_request_answered_at_most_once {s s' : State} {e : Event} (h : step s e = some s')
    (r : Nat) (res : Res) (hr : s.cst r = .returned res) : s'.cst r = .returned res := by
  cases e <;> (step_cases h; all_goals first
    | (cases h; done)
    | (cases h; exact hr)
    | (cases h; dsimp only; rw [upd_other]; exact hr; intro hx; subst hx; simp_all))

/-- the Run goroutine never blocks delivering a result (`done` has capacity 1 and is written once): whenever
the loop is about to deliver, the step is enabled — also when the caller has already given up. -/
theorem C13_deliver_never_blocks {s : State} (h : Reachable s) (r : Nat) (res : Res)
    (hp : s.pc = .delivering r res) : ∃ s', step s .deliver = some s' := by
  have hd : s.done r = none := ((reachable_inv h).a.req_ok r (by rw [hp]; rfl)).2.1
  exact ⟨{ s with done := upd s.done r (some res), pc := .atSelect }, by simp [step, hp, hd]⟩

/-! ### processors: opened ⇒ torn down exactly once; nothing is leaked, nothing torn down twice -/

/-- every teardown is of an opened processor, no processor is torn down twice, the plain `Teardown` (the one
that clears `Instance.running`) happens only as the loop ends, and once the loop has exited every opened
processor has been torn down. A request that was never claimed (pending at exit, rejected, withdrawn) has a
processor that was never opened and needs no teardown (`C13_rejected_never_applied`,
`C13_cancel_withdraws_or_completes`). -/
theorem C13_no_processor_leak {s : State} (h : Reachable s) :
    (s.torn.map (·.1)).Nodup ∧
    (∀ t ∈ s.torn, t.1 ∈ s.opened) ∧
    (∀ t ∈ s.torn, t.2 = true → s.pc = .exited) ∧
    (s.pc = .exited → ∀ g ∈ s.opened, g ∈ s.torn.map (·.1)) := by
  have hc := (reachable_inv h).c
  refine ⟨hc.torn_nodup, hc.torn_opened, hc.torn_plain, fun he g hg => ?_⟩
  rcases hc.accounted g hg with h1 | h1 | h1
  · exact h1
  · exact absurd he h1.1
  · rw [he] at h1; cases h1

/-! ### the code as it is: a request that meets an ended loop is never answered -/

/-- After the Run loop has exited nothing claims, opens or swaps any more: the loop's variables are frozen.
So a request staged at that point (or left staged when the loop ended) is never claimed; its caller can
only return through its own context (`cancel`). `Reconfigure` has no "node stopped" answer. -/
theorem C13_after_exit_frozen {s s' : State} {e : Event} (h : step s e = some s') (he : s.pc = .exited) :
    s'.pc = .exited ∧ s'.claimed = s.claimed ∧ s'.cur = s.cur ∧ s'.hist = s.hist ∧ s'.opened = s.opened ∧
    (∀ r res, s'.done r = some res → s.done r = some res) := by
  cases e <;> (step_cases h; all_goals first
    | (cases h; done)
    | (cases h; simp_all; done)
    | (cases h; simp_all only [true_and]; intro r res; unfold upd; split <;> simp_all))

/-! ### the executable monitor holds in every reachable state -/

open C13 in
/-- The C13 state monitor that the driver evaluates on every candidate state of every accepted
implementation trace (`C13.monitor`, Spec/ProcNode.lean: one `Process` call per record, monotone epochs,
stamps name the configuration of their epoch, outcomes = arrival sequence, counting, processed-class,
current = last of history, running flag, caller results consistent with what the loop did, withdrawn
requests never applied, teardown bookkeeping) never fires on a reachable model state, whichever request
ids it is asked to look at. -/
theorem C13_monitor_holds {s : State} (h : Reachable s) (reqs : List Nat) : monitor reqs s = none := by
  have hi := reachable_inv h
  have ha := hi.a; have hb := hi.b; have hc := hi.c
  have h0 : ∀ r, (∃ res, s.cst r = .returned res) → r ≠ 0 := by
    intro r ⟨res, hr⟩ h0; rw [h0, ha.zero_idle] at hr; cases hr
  unfold monitor
  rw [List.findSome?_eq_none_iff]
  intro c hc'
  suffices hs : c.1 = true by simp [hs]
  simp only [checks, List.mem_cons, List.mem_nil_iff, or_false] at hc'
  rcases hc' with rfl | rfl | rfl | rfl | rfl | rfl | rfl | rfl | rfl | rfl | rfl | rfl | rfl | rfl <;> dsimp only
  · -- one Process call per record
    apply nodupB_of
    rw [List.Nodup, List.pairwise_map]
    exact hb.log_sorted.imp (fun hxy => by omega)
  · exact pairwiseB_of (fun a b hab => by simpa using hab) hb.log_sorted
  · simp only [List.all_eq_true, beq_iff_eq]
    exact fun st hst => (hb.log_ok st hst).1
  · exact nodupB_of ha.hist_nodup
  · have := hb.outc_range; unfold B.outc_range at this; simpa using this
  · cases hfl : s.pc.inflight with
    | none => simp [hb.count_ok.2 hfl]
    | some i => have := hb.count_ok.1 i hfl; simp; omega
  · simp only [List.all_eq_true, beq_iff_eq]
    intro o ho
    have := hb.class_ok o ho
    by_cases hp : o.fwd = .passthrough
    · have hn : ¬ ∃ st ∈ s.log, st.idx = o.idx := fun hx => (this.mpr hx) hp
      simp only [hp, bne_self_eq_false]
      symm
      simp only [List.any_eq_false, beq_iff_eq]
      exact fun st hst he => hn ⟨st, hst, he⟩
    · obtain ⟨st, hst, he⟩ := this.mp hp
      have h1 : (o.fwd != Fwd.passthrough) = true := by simpa using hp
      rw [h1]; symm
      simp only [List.any_eq_true, beq_iff_eq]
      exact ⟨st, hst, he⟩
  · have := ha.hist_last; unfold A.hist_last at this; simpa using this
  · have := hc.running
    unfold C.running at this
    cases hr : s.instRunning <;> simp_all
  · simp only [List.all_eq_true]
    intro r _
    split
    · rename_i hr; simpa using ha.ret_ok r hr
    · rename_i hr; have := ha.ret_err r hr; simp [this.1, this.2.1]
    · rename_i hr
      have hcl := (ha.ret_rej r hr).1
      have hno : r ∉ s.opened := fun ho => by
        rcases ha.opened_claimed r ho with h | h
        · exact h0 r ⟨_, hr⟩ h
        · exact hcl h
      simp [hcl, hno]
    · rfl
  · simp only [List.all_eq_true]
    intro r hr
    have hw := ha.withdrawn_ok r hr
    have hno : r ∉ s.opened := fun ho => by
      rcases ha.opened_claimed r ho with h | h
      · exact h0 r ⟨_, hw.2⟩ h
      · exact hw.1 h
    simp [hw.1, hno]
  · exact nodupB_of hc.torn_nodup
  · simp only [List.all_eq_true]
    intro t ht
    have := hc.torn_plain t ht
    cases h2 : t.2 <;> simp_all
  · by_cases he : s.pc = .exited
    · simp only [he, bne_self_eq_false, Bool.false_or, List.all_eq_true, List.contains_iff_mem]
      intro g hg
      rcases hc.accounted g hg with h1 | h1 | h1
      · exact h1
      · exact absurd he h1.1
      · rw [he] at h1; cases h1
    · simp [he]


/-! ### non-vacuity: concrete runs reaching each situation -/

/-- idle swap that succeeds: request 1 is staged, woken, claimed, opened, old processor 0 torn down with the
reconfigure-teardown, caller gets `ok`; the next record is stamped by processor 1. -/
example : (run init [.runOpen true, .claim, .stage 1, .wakeSend 1, .wakeRecv, .claim, .openNew 1 true,
      .teardownRc 0, .deliver, .doneRecv 1, .procCall 1 0, .procRet .single, .sendOk]).map
    (fun s => (s.cur, s.cst 1, s.log, s.torn, s.instRunning)) =
    some (1, .returned .ok, [⟨0, 1, 1⟩], [(0, false)], true) := by rfl

/-- mid-record request whose open fails: record 0 is inside processor 0 while request 1 is staged; after the
record the loop claims it, Open fails, processor 1 is torn down, the caller gets the open error, and record 1
is again stamped by processor 0. -/
example : (run init [.runOpen true, .claim, .procCall 0 0, .stage 1, .wakeSend 1, .procRet .single, .sendOk,
      .claim, .openNew 1 false, .teardownRc 1, .deliver, .doneRecv 1, .wakeRecv, .claim, .procCall 0 1]).map
    (fun s => (s.cur, s.cst 1, s.log.map (·.gen), s.hist)) =
    some (0, .returned .openErr, [0, 0], [0]) := by rfl

/-- second concurrent request is rejected while the first is staged. -/
example : (run init [.runOpen true, .claim, .procCall 0 0, .stage 1, .stage 2]).map
    (fun s => (s.pending, s.cst 1, s.cst 2)) = some (some 1, .staged, .returned .rejected) := by rfl

/-- cancel before the loop claimed it: withdrawn, and a later request is accepted. -/
example : (run init [.runOpen true, .claim, .procCall 0 0, .stage 1, .wakeSend 1, .cancel 1, .stage 2]).map
    (fun s => (s.pending, s.cst 1, s.withdrawn, s.claimed)) =
    some (some 2, .returned .cancelled, [1], []) := by rfl

/-- cancel after the loop claimed it: the caller gets `cancelled`, the swap still completes. -/
example : (run init [.runOpen true, .claim, .stage 1, .wakeSend 1, .wakeRecv, .claim, .cancel 1,
      .openNew 1 true, .teardownRc 0, .deliver]).map
    (fun s => (s.cur, s.cst 1, s.done 1, s.withdrawn)) =
    some (1, .returned .cancelled, some .ok, []) := by rfl

/-- a request staged during stop is left unanswered when the loop ends (code as it is). -/
example : (run init [.runOpen true, .claim, .stage 1, .ctxDone, .finalTeardown 0, .wakeSend 1]).map
    (fun s => (s.pc, s.pending, s.cst 1, s.instRunning)) =
    some (.exited, some 1, .waiting, false) := by rfl

end Conduit.Model.ProcNode

/-! ### the service wrapper `lifecycle.Service.ReconfigureProcessor`

The wrapper builds a fresh runnable, hands it to `node.Reconfigure` and returns that call's result; the
model `Model/ProcSvc.lean` adds the wrapper's own steps to the node's event system. `tdOnError` is
regenerated from reconfigure.go (`Facts/C13.lean: C13_fact_service_wrapper`): on the tree as it is the
wrapper never touches the runnable after `node.Reconfigure`. -/
namespace Conduit.Model.ProcSvc
open Conduit.Model.ProcNode

/-- C13 "every record is processed by exactly one configuration … the old one keeps running": while the
Run loop is up, the processor installed in the node is LIVE — opened, and torn down by nobody (neither the
node nor the service wrapper) — in every reachable state of the service-level system, i.e. for every
interleaving of any number of ReconfigureProcessor calls (successful, failed, rejected, cancelled before
or AFTER the loop claimed them) with the loop. Requires only the regenerated fact that the wrapper does
not tear the runnable down. -/
theorem C13_installed_processor_live {c : Cfg} (hc : c.tdOnError = false) {s : State} (h : Reachable c s)
    (hinit : s.n.pc ≠ .init) (hexit : s.n.pc ≠ .exited) : live s s.n.cur := by
  have hi := reachable_sinv h
  refine ⟨hi.node.a.cur_opened hinit, hi.node.c.cur_live hexit, ?_⟩
  rw [hi.noTd hc]; simp

/-- … hence every `Process` call — in particular every one after a reconfigure request, whatever became
of the request — is served by a live processor (the old one or the new one). -/
theorem C13_every_record_processed_by_live_processor {c : Cfg} (hc : c.tdOnError = false) {s s' : State}
    (h : Reachable c s) {g i : Nat} (hs : step c s (.node (.procCall g i)) = some s') : live s g := by
  simp only [step, Option.map_eq_some_iff] at hs
  obtain ⟨n', hn, _⟩ := hs
  simp only [ProcNode.step] at hn
  split at hn
  · rename_i hg
    obtain ⟨hpc, hgc, _⟩ := hg
    rw [hgc]
    exact C13_installed_processor_live hc h (by rw [hpc]; decide) (by rw [hpc]; decide)
  · cases hn

/-- only the node tears processors down: the wrapper's teardown list stays empty. -/
theorem C13_service_never_tears_down {c : Cfg} (hc : c.tdOnError = false) {s : State} (h : Reachable c s) :
    s.svcTorn = [] := (reachable_sinv h).noTd hc

/-- the node-level theorems hold unchanged under the wrapper (its steps do not touch the node). -/
theorem C13_service_preserves_node_invariants {c : Cfg} {s : State} (h : Reachable c s) : ProcNode.Inv s.n :=
  (reachable_sinv h).node

/-- Why the fact matters (seeded change C13_4, "tear the unused runnable down when Reconfigure fails"):
a request cancelled AFTER the loop claimed it returns `ctx.Err()` to the wrapper while the loop still
completes the swap; a wrapper that then tears the runnable down kills the plugin of the processor the
node installs — record 0 below is processed by processor 1, which the service has torn down. -/
theorem C13_wrapper_teardown_counterexample :
    (run ⟨true⟩ init
      [.node (.runOpen true), .node .claim, .node (.stage 1), .node (.wakeSend 1), .node .wakeRecv, .node .claim,
       .node (.cancel 1), .svcTeardown 1, .svcReturn 1, .node (.openNew 1 true), .node (.teardownRc 0),
       .node .deliver, .node (.procCall 1 0)]).map (fun s => (s.n.cur, s.svcTorn, s.n.pc, s.n.cst 1)) =
    some (1, [1], .processing 0, .returned .cancelled) := by decide

/-- non-vacuity: the same history is a run of the as-is system (without the wrapper teardown). -/
example :
    (run ⟨false⟩ init
      [.node (.runOpen true), .node .claim, .node (.stage 1), .node (.wakeSend 1), .node .wakeRecv, .node .claim,
       .node (.cancel 1), .svcReturn 1, .node (.openNew 1 true), .node (.teardownRc 0),
       .node .deliver, .node (.procCall 1 0)]).map (fun s => (s.n.cur, s.svcTorn, s.n.pc)) =
    some (1, [], .processing 0) := by decide

end Conduit.Model.ProcSvc
