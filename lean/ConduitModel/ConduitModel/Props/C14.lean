import ConduitModel.Proofs.CtlRefsOps

/-!
# C14 — API changes are all-or-nothing and keep memory, store and references consistent

Statement (properties.jsonl C14): "Every create, update or delete of a pipeline, connector or
processor through the management API either takes full effect or leaves everything exactly as
it was, also when a store operation fails midway. After any sequence of such calls the
in-memory view equals what a restarted server loads from the store, pipelines reference exactly
their existing connectors and processors and vice versa, and resources of a running or
file-provisioned pipeline are never modified."

Model: `Model/Ctl.lean` (M6). All theorems are for every state, every operation with every
argument (valid or not), every failing store-operation index `k` and every code variant `v`
(which mutate-then-store sites restore memory — regenerated from the source, `Generated.Ctl`).

The code at the pinned commit (`Variant.asFound`) violates the all-or-nothing clause at the
store-failure points listed by `f7Trigger` (DESIGN §9 F7); the full-strength statement

    theorem C14_atomic (v s op k) (hi : Inv s) : Atomic v s op k

is therefore false of it (see the `…_counterexample`s, proved by evaluation); what is proved is
the statement outside the triggers, for every variant, so that each local repair removes its
trigger (`C14_atomic_repaired`).
-/
namespace Conduit.Ctl

/-- C14.atomic (partial: outside the F7 triggers) — "either takes full effect or leaves
everything exactly as it was, also when a store operation fails midway": for every API
operation, every argument, every failing store-operation index. -/
theorem C14_atomic_partial (v : Variant) (s : St) (op : Op) (k : Option Nat) (hapi : op.isApi = true)
    (hi : Inv s) (ht : f7Trigger v s op k = false) : Atomic v s op k := by
  cases op with
  | plCreate name desc => exact atomic_plCreate v s name desc k
  | plUpdate i name desc => exact atomic_plUpdate v s i name desc k ht
  | plUpdateDLQ i d => exact atomic_plUpdateDLQ v s i d k ht
  | plDelete i => exact atomic_plDelete v s i k
  | cnCreate typ plugin pid name settings => exact atomic_cnCreate v s typ plugin pid name settings k hi ht
  | cnUpdate i plugin name settings => exact atomic_cnUpdate v s i plugin name settings k hi ht
  | cnDelete i => exact atomic_cnDelete v s i k hi ht
  | prCreate plugin ptype parent settings workers cond =>
    exact atomic_prCreate v s plugin ptype parent settings workers cond k hi ht
  | prUpdate i plugin settings workers => exact atomic_prUpdate v s i plugin settings workers k hi ht
  | prDelete i => exact atomic_prDelete v s i k hi ht
  | envStatus _ _ => simp [Op.isApi] at hapi
  | envState _ _ => simp [Op.isApi] at hapi
  | envPl _ => simp [Op.isApi] at hapi
  | envCn _ _ _ _ => simp [Op.isApi] at hapi
  | envPr _ _ _ => simp [Op.isApi] at hapi

theorem f7Trigger_repaired (v : Variant) (hs : v.svcRestores = true) (ho : v.cnOrchOldPlugin = true)
    (s : St) (op : Op) (k : Option Nat) : f7Trigger v s op k = f7Residual s op k := by
  simp [Variant.svcRestores] at hs
  obtain ⟨⟨⟨⟨⟨⟨⟨⟨⟨a1, a2⟩, a3⟩, a4⟩, a5⟩, a6⟩, a7⟩, a8⟩, a9⟩, a10⟩ := hs
  unfold f7Trigger f7Residual
  split <;> simp_all

/-- C14.atomic for the repaired services (every mutate-then-store site restores memory, the
connector update rollback passes the old plugin): all-or-nothing everywhere except at the two
`Delete` rollbacks (`f7Residual`, recorded as a finding). -/
theorem C14_atomic_repaired (v : Variant) (hs : v.svcRestores = true) (ho : v.cnOrchOldPlugin = true)
    (s : St) (op : Op) (k : Option Nat) (hapi : op.isApi = true) (hi : Inv s)
    (ht : f7Residual s op k = false) : Atomic v s op k :=
  C14_atomic_partial v s op k hapi hi (by rw [f7Trigger_repaired v hs ho]; exact ht)

/-- C14.atomic, creations and deletions of pipelines — full strength, every variant, no
hypothesis on the state: the store is written before memory. -/
theorem C14_atomic_pipeline_create_delete (v : Variant) (s : St) (k : Option Nat) :
    (∀ name desc, Atomic v s (.plCreate name desc) k) ∧ (∀ i, Atomic v s (.plDelete i) k) :=
  ⟨fun name desc => atomic_plCreate v s name desc k, fun i => atomic_plDelete v s i k⟩

/-- C14.guards — "resources of a running or file-provisioned pipeline are never modified":
an API call on such a resource fails and changes nothing, for every variant, every state and
every failing store-operation index (full strength). -/
theorem C14_guards (v : Variant) (s : St) (op : Op) (k : Option Nat) : Guarded v s op k :=
  guarded_all v s op k

/-- C14.mem_eq_store, successful calls — full strength: whatever the variant, the state and
the failing index, a call (API or environment) that returns success leaves the store an exact
copy of memory with no transaction open. -/
theorem C14_mem_eq_store_success (v : Variant) (s : St) (op : Op) (k : Option Nat)
    (h : MemEqStore s) (hok : (exec v s op k).1 = .ok ()) : MemEqStore (exec v s op k).2 :=
  exec_ok_memEq v s op k h hok

/-- C14.mem_eq_store, one API step (partial: outside the F7 triggers): also failed calls keep
memory = store. -/
theorem C14_mem_eq_store_step_partial (v : Variant) (s : St) (op : Op) (k : Option Nat) (hapi : op.isApi = true)
    (hi : Inv s) (ht : f7Trigger v s op k = false) : MemEqStore (exec v s op k).2 := by
  by_cases hok : (exec v s op k).1 = .ok ()
  · exact exec_ok_memEq v s op k hi.eq hok
  · have hv := (C14_atomic_partial v s op k hapi hi ht).2 hok
    have htx := exec_tx_none v s op k hi.tx
    obtain ⟨a, b, c, _⟩ := hi.eq
    simp only [St.view, View.mk.injEq] at hv
    obtain ⟨h1, h2, h3, _, h5, h6, h7⟩ := hv
    exact ⟨by rw [h1, h5, a], by rw [h2, h6, b], by rw [h3, h7, c], htx⟩

/-! ## references: an inductive invariant of every trigger-free history -/

theorem minv_of_inv {s : St} (hi : Inv s) : MInv s.next s.mem :=
  ⟨hi.names, hi.uniq, hi.refs, hi.wf, (fresh_iff_below s).1 hi.fresh⟩

/-- C14.inv_step — the whole invariant (no open transaction, memory = store, names, references,
fresh ids, well-formedness) is preserved by every step of every kind — API or environment
operation, every argument and guard outcome, every failing store-operation index — outside the
F7 trigger table (the recorded known findings). -/
theorem C14_inv_step (v : Variant) (s : St) (op : Op) (k : Option Nat) (hi : Inv s)
    (ht : f7Trigger v s op k = false) : Inv (exec v s op k).2 := by
  have htx := exec_tx_none v s op k hi.tx
  have hnext : (exec v s op k).2.next = s.next + 1 := rfl
  by_cases hok : (exec v s op k).1 = .ok ()
  · have hm : MInv (s.next + 1) (exec v s op k).2.mem :=
      opBody_ok_minv v s.next op { s with ctr := 0, failAt := if op.isApi then k else none } (minv_of_inv hi) hok
    exact ⟨htx, exec_ok_memEq v s op k hi.eq hok, hm.names, hm.uniq, hm.refs,
      (fresh_iff_below _).2 (by rw [hnext]; exact hm.below), hm.wf⟩
  · have hv : (exec v s op k).2.view = s.view := by
      by_cases hapi : op.isApi = true
      · exact (C14_atomic_partial v s op k hapi hi ht).2 hok
      · exact env_err_unchanged v s op k (by simpa using hapi) hok
    simp only [St.view, View.mk.injEq] at hv
    obtain ⟨h1, h2, h3, h4, h5, h6, h7⟩ := hv
    have hmem : (exec v s op k).2.mem = s.mem := Mem.ext' h1 h2 h3 h4
    obtain ⟨a, b, c, _⟩ := hi.eq
    have hm := (minv_of_inv hi).mono (Nat.le_succ s.next)
    rw [← hmem] at hm
    exact ⟨htx, ⟨by rw [h1, h5, a], by rw [h2, h6, b], by rw [h3, h7, c], htx⟩, hm.names, hm.uniq, hm.refs,
      (fresh_iff_below _).2 (by rw [hnext]; exact hm.below), hm.wf⟩

theorem inv_init : Inv St.init := by
  refine ⟨rfl, ⟨rfl, rfl, rfl, rfl⟩, ?_, ?_, ?_, ?_, ?_⟩
  · intro n; simp [St.init, Mem.empty]
  · intro i j p q hp; simp [St.init, Mem.empty] at hp
  · constructor <;> intros <;> simp_all [St.init, Mem.empty]
  · constructor <;> intros <;> simp_all [St.init, Mem.empty]
  · constructor <;> intros <;> simp_all [St.init, Mem.empty]

/-- memory = store carries reference consistency over to what a restarted server loads. -/
theorem refInv_storeImage {s : St} (he : MemEqStore s) (h : RefInv s) : RefInv (storeImage s) := by
  obtain ⟨a, b, c, _⟩ := he
  have : (storeImage s).mem = s.mem := Mem.ext' a.symm b.symm c.symm rfl
  unfold RefInv; rw [this]; exact h

/-- a history all of whose steps are outside the F7 trigger table (the trigger is evaluated in
the state each step starts from): a fold over an arbitrary op list. -/
def TriggerFreeRun (v : Variant) : St → List (Op × Option Nat) → Prop
  | _, [] => True
  | s, (op, k) :: rest => f7Trigger v s op k = false ∧ TriggerFreeRun v (exec v s op k).2 rest

theorem inv_run (v : Variant) (h : List (Op × Option Nat)) : ∀ s, Inv s → TriggerFreeRun v s h → Inv (run v s h) := by
  induction h with
  | nil => intro s hi _; exact hi
  | cons x rest ih =>
    intro s hi ht
    obtain ⟨op, k⟩ := x
    exact ih _ (C14_inv_step v s op k hi ht.1) ht.2

/-- C14.refs_init — the empty server is reference-consistent, in memory and in the store image. -/
theorem C14_refs_init : RefInv St.init ∧ RefInv (storeImage St.init) :=
  ⟨inv_init.refs, refInv_storeImage inv_init.eq inv_init.refs⟩

/-- C14.refs_step — "pipelines reference exactly their existing connectors and processors and
vice versa": one step of any kind (every op, every argument, every guard outcome, every failing
store-operation index outside the trigger table) keeps the references consistent, in memory and
in what a restarted server loads. -/
theorem C14_refs_step (v : Variant) (s : St) (op : Op) (k : Option Nat) (hi : Inv s)
    (ht : f7Trigger v s op k = false) :
    RefInv (exec v s op k).2 ∧ RefInv (storeImage (exec v s op k).2) := by
  have h := C14_inv_step v s op k hi ht
  exact ⟨h.refs, refInv_storeImage h.eq h.refs⟩

/-- C14.refs_reachable — the three-way agreement "memory = store = references" over ALL op
sequences: after any history (any length, any mix of API and environment operations, valid and
invalid arguments, a failing store operation on any call) that stays outside the trigger table,
the in-memory view is reference-consistent, equals the store, and the store image (what a
restarted server loads) is reference-consistent too; pipeline names are unique and
`instanceNames` is exactly the set of names. -/
theorem C14_refs_reachable (v : Variant) (h : List (Op × Option Nat)) (ht : TriggerFreeRun v St.init h) :
    RefInv (run v St.init h) ∧ MemEqStore (run v St.init h) ∧ RefInv (storeImage (run v St.init h)) ∧
    NamesOk (run v St.init h).mem ∧ NameUniq (run v St.init h).mem := by
  have hi := inv_run v h St.init inv_init ht
  exact ⟨hi.refs, hi.eq, refInv_storeImage hi.eq hi.refs, hi.names, hi.uniq⟩

/-- the states reachable by trigger-free histories (inductive form of `TriggerFreeRun`). -/
inductive TriggerFree (v : Variant) : St → Prop
  | init : TriggerFree v St.init
  | step {s : St} (op : Op) (k : Option Nat) : TriggerFree v s → f7Trigger v s op k = false →
      TriggerFree v (exec v s op k).2

theorem TriggerFree.inv {v : Variant} {s : St} (h : TriggerFree v s) : Inv s := by
  induction h with
  | init => exact inv_init
  | @step s op k _ ht ih => exact C14_inv_step v s op k ih ht

/-- C14.mem_eq_reload (partial only in the trigger table) — "after any sequence of such calls the
in-memory view equals what a restarted server loads from the store": by induction over
histories of any length, for every variant. -/
theorem C14_mem_eq_store_partial (v : Variant) (s : St) (h : TriggerFree v s) : MemEqStore s := h.inv.eq

/-- the executable monitor agrees: on reachable states `refsB` (what the driver evaluates on
every history) holds whenever `RefInv` does — `RefInv` is at least as strong on the id universe
`[0, next)`. -/
theorem nodupB_of_nodup : ∀ (l : List Id), l.Nodup → nodupB l = true
  | [], _ => rfl
  | x :: xs, h => by
    have h' := List.nodup_cons.1 h
    simp [nodupB, h'.1, nodupB_of_nodup xs h'.2]

theorem C14_refsB_of_inv {s : St} (hi : Inv s) : refsB s = true := by
  have hb := (fresh_iff_below s).1 hi.fresh
  unfold refsB
  simp only [List.all_eq_true, List.mem_range]
  intro i _
  simp only [Bool.and_eq_true]
  refine ⟨⟨?_, ?_⟩, ?_⟩
  · cases hp : s.mem.pls i with
    | none => rfl
    | some p =>
      simp only [Bool.and_eq_true, List.all_eq_true, decide_eq_true_eq]
      refine ⟨⟨⟨?_, ?_⟩, ?_⟩, ?_⟩
      · intro c hc
        obtain ⟨c0, hc0, e⟩ := hi.refs.plConn i p c hp hc
        simp [hc0, e]
      · intro r hr
        obtain ⟨r0, hr0, e1, e2⟩ := hi.refs.plProc i p r hp hr
        simp [hr0, e1, e2]
      · exact nodupB_of_nodup _ (hi.refs.plNodupC i p hp)
      · exact nodupB_of_nodup _ (hi.refs.plNodupR i p hp)
  · cases hc : s.mem.cns i with
    | none => rfl
    | some c =>
      simp only [Bool.and_eq_true, List.all_eq_true, decide_eq_true_eq]
      obtain ⟨p, hp, hin⟩ := hi.refs.connPl i c hc
      refine ⟨⟨?_, ?_⟩, ?_⟩
      · simp [hp, hin]
      · intro r hr
        obtain ⟨r0, hr0, e1, e2⟩ := hi.refs.cnProc i c r hc hr
        simp [hr0, e1, e2]
      · exact nodupB_of_nodup _ (hi.refs.cnNodupR i c hc)
  · cases hr : s.mem.prs i with
    | none => rfl
    | some r =>
      rcases hi.refs.procPar i r hr with ⟨e, p, hp, hin⟩ | ⟨e, c, hc, hin⟩
      · simp [e, hp, hin]
      · simp [e, hc, hin]

/-- what a restarted server loads (`Init`: running pipelines become system-stopped). -/
def reloadPls (k : KV) : Map Pl := fun id => (k.pls id).map fun p => if p.status = 1 then { p with status := 2 } else p

/-- the reload of the store is `Init` applied to the in-memory view — the literal form of the
clause, from memory = store. -/
theorem C14_mem_eq_reload_partial (v : Variant) (s : St) (h : TriggerFree v s) :
    reloadPls s.kv = (fun id => (s.mem.pls id).map fun p => if p.status = 1 then { p with status := 2 } else p) ∧
    s.kv.cns = s.mem.cns ∧ s.kv.prs = s.mem.prs := by
  obtain ⟨a, b, c, _⟩ := C14_mem_eq_store_partial v s h
  exact ⟨by unfold reloadPls; rw [a], b.symm, c.symm⟩

/-! ## the code as found violates the property: witnesses (evaluated in the kernel) -/

/-- history prefix used by the witnesses: a pipeline with two connectors (the first with a
stored position) and three processors. -/
def witnessHistory : List (Op × Option Nat) :=
  [ (.plCreate 1 1, none), (.cnCreate 1 1 0 2 1, none), (.cnCreate 2 1 0 3 1, none), (.envState 1 7, none),
    (.prCreate 1 2 0 1 1 0, none), (.prCreate 2 2 0 1 1 0, none), (.prCreate 1 2 0 1 1 0, none) ]

def witnessState (v : Variant) : St := run v St.init witnessHistory

/-- F7: `pipeline.Service.Update` with a failing `store.Set` — memory holds the new name, the
store (and a restarted server) the old one; `PipelineOrchestrator.Update` has no rollback. -/
theorem C14_atomic_counterexample_pipeline_update :
    ¬ Atomic Variant.asFound (witnessState Variant.asFound) (.plUpdate 0 2 1) (some 1) ∧
    ¬ MemEqStore (exec Variant.asFound (witnessState Variant.asFound) (.plUpdate 0 2 1) (some 1)).2 := by
  constructor
  · intro h
    have h2 := congrArg (fun w => (w.mpls 0).map (·.name)) (h.2 (by decide))
    revert h2; decide
  · intro h
    have h2 := congrFun h.1 0
    revert h2; decide

/-- F7: `Connectors.Create` when `AddConnector`'s `store.Set` fails — the pipeline keeps the id
of a connector that the rollback deleted (a dangling reference). -/
theorem C14_refs_counterexample_connector_create :
    ¬ Refs (exec Variant.asFound (witnessState Variant.asFound) (.cnCreate 1 1 0 4 1) (some 3)).2.mem := by
  intro h
  cases hp : (exec Variant.asFound (witnessState Variant.asFound) (.cnCreate 1 1 0 4 1) (some 3)).2.mem.pls 0 with
  | none => revert hp; decide
  | some p =>
    have hl : ((exec Variant.asFound (witnessState Variant.asFound) (.cnCreate 1 1 0 4 1) (some 3)).2.mem.pls 0).map (·.conns)
        = some [1, 2, 7] := by decide
    rw [hp] at hl
    simp at hl
    obtain ⟨c, hc, _⟩ := h.plConn 0 p 7 hp (by rw [hl]; simp)
    have hn : (exec Variant.asFound (witnessState Variant.asFound) (.cnCreate 1 1 0 4 1) (some 3)).2.mem.cns 7 = none := by
      decide
    rw [hn] at hc; cases hc

/-- F7: `Connectors.Update` when `Commit` fails — the rollback passes `conn.Plugin` of the
already-updated instance: the new plugin stays in memory. -/
theorem C14_atomic_counterexample_connector_update_plugin :
    ¬ Atomic Variant.asFound (witnessState Variant.asFound) (.cnUpdate 1 9 2 1) (some 3) := by
  intro h
  have h2 := congrArg (fun w => (w.mcns 1).map (·.plugin)) (h.2 (by decide))
  revert h2; decide

/-- F7: `Connectors.Delete` when `Commit` fails — the rollback re-creates the connector
without its `State` (the stored position is gone from memory) and re-adds it at the end of the
pipeline's connector list. -/
theorem C14_atomic_counterexample_connector_delete :
    ¬ Atomic Variant.repaired (witnessState Variant.repaired) (.cnDelete 1) (some 4) := by
  intro h
  have h2 := congrArg (fun w => (w.mcns 1).map (·.state)) (h.2 (by decide))
  revert h2; decide

/-- F7: `Processors.Delete` when `Commit` fails — the rollback appends the processor at the
end: the processing order in memory differs from the stored one (also with every local repair). -/
theorem C14_atomic_counterexample_processor_delete_order :
    ¬ Atomic Variant.repaired (witnessState Variant.repaired) (.prDelete 4) (some 4) := by
  intro h
  have h2 := congrArg (fun w => (w.mpls 0).map (·.procs)) (h.2 (by decide))
  revert h2; decide

/-! ## non-vacuity -/

/-- `TriggerFreeRun` is satisfiable by histories with store failures: the witness prefix followed
by a connector creation whose `Commit` fails and a processor update whose store write fails
(both handled by the repaired code), and the invariant is not vacuous there: the run has three
processors listed in the pipeline, all existing. -/
example : TriggerFreeRun Variant.repaired St.init
    (witnessHistory ++ [(.cnCreate 1 1 0 4 1, some 4), (.prUpdate 4 2 2 1, some 2), (.plDelete 0, none)]) :=
  ⟨rfl, rfl, rfl, rfl, rfl, rfl, rfl, rfl, rfl, rfl, trivial⟩

example : ((run Variant.repaired St.init witnessHistory).mem.pls 0).map (·.procs) = some [4, 5, 6] ∧
    ((run Variant.repaired St.init witnessHistory).mem.prs 5).isSome = true := by decide


/-- the invariant is satisfiable (the empty server) and the trigger-free hypotheses too. -/
example : MemEqStore St.init ∧ f7Trigger Variant.asFound St.init (.plCreate 1 1) (some 1) = false :=
  ⟨⟨rfl, rfl, rfl, rfl⟩, rfl⟩

/-- a failing store operation that *is* handled atomically by the code as found:
`Connectors.Create` with a failing `Commit` (the full rollback stack runs). -/
example : (exec Variant.asFound (witnessState Variant.asFound) (.cnCreate 1 1 0 4 1) (some 4)).1 = .error .st ∧
    f7Trigger Variant.asFound (witnessState Variant.asFound) (.cnCreate 1 1 0 4 1) (some 4) = false := by decide

/-- the guards' hypothesis is satisfiable: a running pipeline's connector. -/
example : protectedOp (exec Variant.asFound (witnessState Variant.asFound) (.envStatus 0 1) none).2.mem (.cnDelete 2) = true := by
  decide

end Conduit.Ctl
