import ConduitModel.Proofs.CtlStore

/-!
# C14 — API changes are all-or-nothing and keep memory, store and references consistent

Statement (properties.jsonl C14): "Every create, update or delete of a pipeline, connector or
processor through the management API either takes full effect or leaves everything exactly as
it was, also when a store operation fails midway. After any sequence of such calls the
in-memory view equals what a restarted server loads from the store, pipelines reference exactly
their existing connectors and processors and vice versa, and resources of a running or
file-provisioned pipeline are never modified."

Model: `Model/Ctl.lean` (M6). All theorems are for every state, every operation with every
argument (valid or not), every failing store-operation index `k` and every code variant `v`
(which mutate-then-store sites restore memory — regenerated from the source, `Generated.Ctl`).

The code at the pinned commit (`Variant.asFound`) violates the all-or-nothing clause at the
store-failure points listed by `f7Trigger` (DESIGN §9 F7); the full-strength statement

    theorem C14_atomic (v s op k) (hi : Inv s) : Atomic v s op k

is therefore false of it (see the `…_counterexample`s, proved by evaluation); what is proved is
the statement outside the triggers, for every variant, so that each local repair removes its
trigger (`C14_atomic_repaired`).
-/
namespace Conduit.Ctl

/-- C14.atomic (partial: outside the F7 triggers) — "either takes full effect or leaves
everything exactly as it was, also when a store operation fails midway": for every API
operation, every argument, every failing store-operation index. -/
theorem C14_atomic_partial (v : Variant) (s : St) (op : Op) (k : Option Nat) (hapi : op.isApi = true)
    (hi : Inv s) (ht : f7Trigger v s op k = false) : Atomic v s op k := by
  cases op with
  | plCreate name desc => exact atomic_plCreate v s name desc k
  | plUpdate i name desc => exact atomic_plUpdate v s i name desc k ht
  | plUpdateDLQ i d => exact atomic_plUpdateDLQ v s i d k ht
  | plDelete i => exact atomic_plDelete v s i k
  | cnCreate typ plugin pid name settings => exact atomic_cnCreate v s typ plugin pid name settings k hi ht
  | cnUpdate i plugin name settings => exact atomic_cnUpdate v s i plugin name settings k hi ht
  | cnDelete i => exact atomic_cnDelete v s i k hi ht
  | prCreate plugin ptype parent settings workers cond =>
    exact atomic_prCreate v s plugin ptype parent settings workers cond k hi ht
  | prUpdate i plugin settings workers => exact atomic_prUpdate v s i plugin settings workers k hi ht
  | prDelete i => exact atomic_prDelete v s i k hi ht
  | envStatus _ _ => simp [Op.isApi] at hapi
  | envState _ _ => simp [Op.isApi] at hapi
  | envPl _ => simp [Op.isApi] at hapi
  | envCn _ _ _ _ => simp [Op.isApi] at hapi
  | envPr _ _ _ => simp [Op.isApi] at hapi

theorem f7Trigger_repaired (v : Variant) (hs : v.svcRestores = true) (ho : v.cnOrchOldPlugin = true)
    (s : St) (op : Op) (k : Option Nat) : f7Trigger v s op k = f7Residual s op k := by
  simp [Variant.svcRestores] at hs
  obtain ⟨⟨⟨⟨⟨⟨⟨⟨⟨a1, a2⟩, a3⟩, a4⟩, a5⟩, a6⟩, a7⟩, a8⟩, a9⟩, a10⟩ := hs
  unfold f7Trigger f7Residual
  split <;> simp_all

/-- C14.atomic for the repaired services (every mutate-then-store site restores memory, the
connector update rollback passes the old plugin): all-or-nothing everywhere except at the two
`Delete` rollbacks (`f7Residual`, recorded as a finding). -/
theorem C14_atomic_repaired (v : Variant) (hs : v.svcRestores = true) (ho : v.cnOrchOldPlugin = true)
    (s : St) (op : Op) (k : Option Nat) (hapi : op.isApi = true) (hi : Inv s)
    (ht : f7Residual s op k = false) : Atomic v s op k :=
  C14_atomic_partial v s op k hapi hi (by rw [f7Trigger_repaired v hs ho]; exact ht)

/-- C14.atomic, creations and deletions of pipelines — full strength, every variant, no
hypothesis on the state: the store is written before memory. -/
theorem C14_atomic_pipeline_create_delete (v : Variant) (s : St) (k : Option Nat) :
    (∀ name desc, Atomic v s (.plCreate name desc) k) ∧ (∀ i, Atomic v s (.plDelete i) k) :=
  ⟨fun name desc => atomic_plCreate v s name desc k, fun i => atomic_plDelete v s i k⟩

/-- C14.guards — "resources of a running or file-provisioned pipeline are never modified":
an API call on such a resource fails and changes nothing, for every variant, every state and
every failing store-operation index (full strength). -/
theorem C14_guards (v : Variant) (s : St) (op : Op) (k : Option Nat) : Guarded v s op k :=
  guarded_all v s op k

/-- C14.mem_eq_store, successful calls — full strength: whatever the variant, the state and
the failing index, a call (API or environment) that returns success leaves the store an exact
copy of memory with no transaction open. -/
theorem C14_mem_eq_store_success (v : Variant) (s : St) (op : Op) (k : Option Nat)
    (h : MemEqStore s) (hok : (exec v s op k).1 = .ok ()) : MemEqStore (exec v s op k).2 :=
  exec_ok_memEq v s op k h hok

/-- C14.mem_eq_store, one API step (partial: outside the F7 triggers): also failed calls keep
memory = store. -/
theorem C14_mem_eq_store_step_partial (v : Variant) (s : St) (op : Op) (k : Option Nat) (hapi : op.isApi = true)
    (hi : Inv s) (ht : f7Trigger v s op k = false) : MemEqStore (exec v s op k).2 := by
  by_cases hok : (exec v s op k).1 = .ok ()
  · exact exec_ok_memEq v s op k hi.eq hok
  · have hv := (C14_atomic_partial v s op k hapi hi ht).2 hok
    have htx := exec_tx_none v s op k hi.tx
    obtain ⟨a, b, c, _⟩ := hi.eq
    simp only [St.view, View.mk.injEq] at hv
    obtain ⟨h1, h2, h3, _, h5, h6, h7⟩ := hv
    exact ⟨by rw [h1, h5, a], by rw [h2, h6, b], by rw [h3, h7, c], htx⟩

/-- histories (API and environment operations, any failing indices) on which no F7 trigger fires
and the reference part of the invariant holds before each step. (The reference invariant is
evaluated by the monitor on every history; its preservation by the successful effects of the
operations is not proved here — that is what makes the history theorem `_partial`.) -/
inductive TriggerFree (v : Variant) : St → Prop
  | init : TriggerFree v St.init
  | step {s : St} (op : Op) (k : Option Nat) : TriggerFree v s → f7Trigger v s op k = false →
      NamesOk s.mem → Refs s.mem → Fresh s → WF s.mem → TriggerFree v (exec v s op k).2

/-- C14.mem_eq_reload (partial, see `TriggerFree`) — "after any sequence of such calls the
in-memory view equals what a restarted server loads from the store": by induction over
histories of any length, for every variant. -/
theorem C14_mem_eq_store_partial (v : Variant) (s : St) (h : TriggerFree v s) : MemEqStore s := by
  induction h with
  | init => exact ⟨rfl, rfl, rfl, rfl⟩
  | @step s op k _ ht hn hr hf hw ih =>
    have hi : Inv s := ⟨ih.2.2.2, ih, hn, hr, hf, hw⟩
    by_cases hapi : op.isApi = true
    · exact C14_mem_eq_store_step_partial v s op k hapi hi ht
    · by_cases hok : (exec v s op k).1 = .ok ()
      · exact exec_ok_memEq v s op k ih hok
      · have hv := env_err_unchanged v s op k (by simpa using hapi) hok
        have htx := exec_tx_none v s op k ih.2.2.2
        obtain ⟨a, b, c, _⟩ := ih
        simp only [St.view, View.mk.injEq] at hv
        obtain ⟨h1, h2, h3, _, h5, h6, h7⟩ := hv
        exact ⟨by rw [h1, h5, a], by rw [h2, h6, b], by rw [h3, h7, c], htx⟩

/-- what a restarted server loads (`Init`: running pipelines become system-stopped). -/
def reloadPls (k : KV) : Map Pl := fun id => (k.pls id).map fun p => if p.status = 1 then { p with status := 2 } else p

/-- the reload of the store is `Init` applied to the in-memory view — the literal form of the
clause, from memory = store. -/
theorem C14_mem_eq_reload_partial (v : Variant) (s : St) (h : TriggerFree v s) :
    reloadPls s.kv = (fun id => (s.mem.pls id).map fun p => if p.status = 1 then { p with status := 2 } else p) ∧
    s.kv.cns = s.mem.cns ∧ s.kv.prs = s.mem.prs := by
  obtain ⟨a, b, c, _⟩ := C14_mem_eq_store_partial v s h
  exact ⟨by unfold reloadPls; rw [a], b.symm, c.symm⟩

/-! ## the code as found violates the property: witnesses (evaluated in the kernel) -/

/-- history prefix used by the witnesses: a pipeline with two connectors (the first with a
stored position) and three processors. -/
def witnessHistory : List (Op × Option Nat) :=
  [ (.plCreate 1 1, none), (.cnCreate 1 1 0 2 1, none), (.cnCreate 2 1 0 3 1, none), (.envState 1 7, none),
    (.prCreate 1 2 0 1 1 0, none), (.prCreate 2 2 0 1 1 0, none), (.prCreate 1 2 0 1 1 0, none) ]

def witnessState (v : Variant) : St := run v St.init witnessHistory

/-- F7: `pipeline.Service.Update` with a failing `store.Set` — memory holds the new name, the
store (and a restarted server) the old one; `PipelineOrchestrator.Update` has no rollback. -/
theorem C14_atomic_counterexample_pipeline_update :
    ¬ Atomic Variant.asFound (witnessState Variant.asFound) (.plUpdate 0 2 1) (some 1) ∧
    ¬ MemEqStore (exec Variant.asFound (witnessState Variant.asFound) (.plUpdate 0 2 1) (some 1)).2 := by
  constructor
  · intro h
    have h2 := congrArg (fun w => (w.mpls 0).map (·.name)) (h.2 (by decide))
    revert h2; decide
  · intro h
    have h2 := congrFun h.1 0
    revert h2; decide

/-- F7: `Connectors.Create` when `AddConnector`'s `store.Set` fails — the pipeline keeps the id
of a connector that the rollback deleted (a dangling reference). -/
theorem C14_refs_counterexample_connector_create :
    ¬ Refs (exec Variant.asFound (witnessState Variant.asFound) (.cnCreate 1 1 0 4 1) (some 3)).2.mem := by
  intro h
  cases hp : (exec Variant.asFound (witnessState Variant.asFound) (.cnCreate 1 1 0 4 1) (some 3)).2.mem.pls 0 with
  | none => revert hp; decide
  | some p =>
    have hl : ((exec Variant.asFound (witnessState Variant.asFound) (.cnCreate 1 1 0 4 1) (some 3)).2.mem.pls 0).map (·.conns)
        = some [1, 2, 7] := by decide
    rw [hp] at hl
    simp at hl
    obtain ⟨c, hc, _⟩ := h.plConn 0 p 7 hp (by rw [hl]; simp)
    have hn : (exec Variant.asFound (witnessState Variant.asFound) (.cnCreate 1 1 0 4 1) (some 3)).2.mem.cns 7 = none := by
      decide
    rw [hn] at hc; cases hc

/-- F7: `Connectors.Update` when `Commit` fails — the rollback passes `conn.Plugin` of the
already-updated instance: the new plugin stays in memory. -/
theorem C14_atomic_counterexample_connector_update_plugin :
    ¬ Atomic Variant.asFound (witnessState Variant.asFound) (.cnUpdate 1 9 2 1) (some 3) := by
  intro h
  have h2 := congrArg (fun w => (w.mcns 1).map (·.plugin)) (h.2 (by decide))
  revert h2; decide

/-- F7: `Connectors.Delete` when `Commit` fails — the rollback re-creates the connector
without its `State` (the stored position is gone from memory) and re-adds it at the end of the
pipeline's connector list. -/
theorem C14_atomic_counterexample_connector_delete :
    ¬ Atomic Variant.repaired (witnessState Variant.repaired) (.cnDelete 1) (some 4) := by
  intro h
  have h2 := congrArg (fun w => (w.mcns 1).map (·.state)) (h.2 (by decide))
  revert h2; decide

/-- F7: `Processors.Delete` when `Commit` fails — the rollback appends the processor at the
end: the processing order in memory differs from the stored one (also with every local repair). -/
theorem C14_atomic_counterexample_processor_delete_order :
    ¬ Atomic Variant.repaired (witnessState Variant.repaired) (.prDelete 4) (some 4) := by
  intro h
  have h2 := congrArg (fun w => (w.mpls 0).map (·.procs)) (h.2 (by decide))
  revert h2; decide

/-! ## non-vacuity -/

/-- the invariant is satisfiable (the empty server) and the trigger-free hypotheses too. -/
example : MemEqStore St.init ∧ f7Trigger Variant.asFound St.init (.plCreate 1 1) (some 1) = false :=
  ⟨⟨rfl, rfl, rfl, rfl⟩, rfl⟩

/-- a failing store operation that *is* handled atomically by the code as found:
`Connectors.Create` with a failing `Commit` (the full rollback stack runs). -/
example : (exec Variant.asFound (witnessState Variant.asFound) (.cnCreate 1 1 0 4 1) (some 4)).1 = .error .st ∧
    f7Trigger Variant.asFound (witnessState Variant.asFound) (.cnCreate 1 1 0 4 1) (some 4) = false := by decide

/-- the guards' hypothesis is satisfiable: a running pipeline's connector. -/
example : protectedOp (exec Variant.asFound (witnessState Variant.asFound) (.envStatus 0 1) none).2.mem (.cnDelete 2) = true := by
  decide

end Conduit.Ctl
