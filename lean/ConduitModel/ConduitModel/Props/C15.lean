import ConduitModel.Proofs.Prov
import ConduitModel.Proofs.ProvFrame
import ConduitModel.Proofs.ProvStore
import ConduitModel.Props.C14

/-!
# C15 — importing a pipeline config converges to it, is idempotent, and fails atomically

Statement (properties.jsonl C15): "Importing a valid pipeline configuration - from any
previously imported state of that pipeline - succeeds and leaves the stored pipeline, connectors
and processors (including order, settings, workers and conditions) equal to the configuration;
importing the same configuration again changes nothing. If an import fails, the previous
configuration is fully retained, and the stored position of every connector that persists
across an import with the same id and type is kept."

Model: `Model/Prov.lean` over M6 (`Model/Ctl.lean`): Export, the actions builder, the nine
actions with Do/Rollback, the import frame, `transactionalImport`, `Plan`/`ApplyPlan`. Theorems
are for every state, configuration, failing store-operation index and code variant.

Proved at full strength: convergence (`C15_import_converges`: for every code variant carrying
the F5/F6 repairs, every state whose references below the pipeline are intact — every state
reachable by API calls and earlier imports, `C15_import_converges_reachable` —, every
configuration the service accepts, no injected failure, pipeline not running: `ApplyPlan`
succeeds and `Export` of the result is the configuration; store side
`C15_import_converges_store`; what else changes / is removed `C15_import_frame`; the invariant is
kept `C15_import_keeps_refs`), idempotence, store-level failure atomicity, position kept.
Memory-level failure atomicity is *not* proved in general: the code violates it (F8, and the
connector re-creation on rollback, see the `…_counterexample`s, evaluated in the kernel); it is
decided per history by the monitor on the model that the correspondence harness ties to the real
`provisioning.Service`. The code as found violates convergence (F5, F6: counterexamples kept as
regression witnesses for the pre-fix flags). The goal statement that is kept open:

    theorem C15_import_fail_atomic (v s c k) : (applyPlan v c s).1 ≠ .ok () → (applyPlan v c s).2.view = s.view
-/
namespace Conduit.Ctl

/-- C15.import_idempotent — "importing the same configuration again changes nothing": if the
stored pipeline already equals the configuration (what a converged import leaves), the plan is
empty and `ApplyPlan` returns success without touching anything, whatever store operation
would fail. Full strength (every variant, state, configuration with list-wise unique ids). -/
theorem C15_import_idempotent (v : Variant) (s : St) (c : PipeCfg) (hc : Converged v s.mem c) (hn : CfgNodup c) :
    planSize v s.mem c = .ok 0 ∧ applyPlan v c s = (.ok (), s) := by
  have hp : planSize v s.mem c = .ok 0 := by
    unfold planSize; unfold Converged at hc; rw [hc]; simp [build_self v 1 c hn]
  exact ⟨hp, by simp [applyPlan, hp]⟩

/-- C15.import_fail_atomic, store level — "if an import fails, the previous configuration is
fully retained": a failed `ApplyPlan` (refused, an action failed, any store operation failed,
`Commit` failed) leaves the committed store — what a restarted server loads — exactly as it
was. Full strength. -/
theorem C15_import_fail_store_atomic (v : Variant) (s : St) (c : PipeCfg)
    (hf : (applyPlan v c s).1 ≠ .ok ()) : (applyPlan v c s).2.kv = s.kv := by
  unfold applyPlan at hf ⊢
  cases hp : planSize v s.mem c with
  | error e => rfl
  | ok n =>
    cases n with
    | zero => rfl
    | succ n =>
      simp only [hp] at hf ⊢
      split
      · rfl
      · rename_i h2
        simp only [h2] at hf
        exact transactionalImport_store v c s (by simpa using hf)

/-- the import (with its rollback, for every failing index) keeps a connector's position and
type when its action list neither creates nor deletes that connector. -/
theorem importPipeline_keeps (v : Variant) (c : PipeCfg) (prov : Nat) (x : Id) (s : St) (old : Option PipeCfg)
    (hex : exportPl v s.mem c.id = .ok old) (hl : ∀ a ∈ build v prov old c, a.touches x = false) :
    ∀ cc, s.mem.cns x = some cc →
      ∃ c', (importPipeline v c prov s).2.mem.cns x = some c' ∧ c'.state = cc.state ∧ c'.typ = cc.typ := by
  intro cc hcc
  obtain ⟨⟨c1, h1, h2, h3⟩, h4⟩ := keeps_execActs x v (build v prov old c) hl [] s cc hcc (by simp)
  have hdef : importPipeline v c prov s =
      (match execActs v (build v prov old c) [] s with
       | (none, _, s') => (.ok (), s')
       | (some e, done, s') => (.error e, undoActs v done s')) := by
    unfold importPipeline; rw [hex]; rfl
  rw [hdef]
  rcases hr : execActs v (build v prov old c) [] s with ⟨r, done, s'⟩
  rw [hr] at h1 h4
  cases r with
  | none => exact ⟨c1, h1, h2, h3⟩
  | some e =>
    obtain ⟨c2, g1, g2, g3⟩ := keeps_undoActs x v done h4 s' c1 h1
    exact ⟨c2, g1, by rw [g2, h2], by rw [g3, h3]⟩

/-- C15.position_kept — "the stored position of every connector that persists across an import
with the same id and type is kept": for every variant, state, configuration, failing
store-operation index — successful, failed and rolled-back imports alike. `old` is the exported
current configuration. The hypotheses constrain id and type only: name, settings, processors and
*plugin* (all mutable connector fields, applied by `updateConnectorAction`) may change. Full strength. -/
theorem C15_position_kept (v : Variant) (s : St) (c old : PipeCfg) (xo xn : ConnCfg) (cc : Cn)
    (hex : exportPl v s.mem c.id = .ok (some old))
    (ho : xo ∈ old.conns) (hn : xn ∈ c.conns) (hid : xo.id = xn.id) (htyp : xo.typ = xn.typ)
    (hno : (old.conns.map (·.id)).Nodup) (hnn : (c.conns.map (·.id)).Nodup)
    (hcc : s.mem.cns xn.id = some cc) :
    ∃ c', (applyPlan v c s).2.mem.cns xn.id = some c' ∧ c'.state = cc.state := by
  have hl := build_no_touch v 1 old c xn.id xo xn ho hn hid rfl htyp hno hnn
  unfold applyPlan
  split
  · exact ⟨cc, hcc, rfl⟩
  · exact ⟨cc, hcc, rfl⟩
  · split
    · exact ⟨cc, hcc, rfl⟩
    · unfold transactionalImport
      split
      · exact ⟨cc, hcc, rfl⟩
      · obtain ⟨c', h1, h2, _⟩ := importPipeline_keeps v c 1 xn.id { s with ctr := s.ctr + 1, tx := some s.kv } (some old)
          hex hl cc hcc
        simp only
        rcases hr : importPipeline v c 1 { s with ctr := s.ctr + 1, tx := some s.kv } with ⟨r, s'⟩
        rw [hr] at h1
        cases r with
        | error e => exact ⟨c', h1, h2⟩
        | ok u => cases u; simp only; split <;> exact ⟨c', h1, h2⟩

/-! ## convergence -/

/-- What `C15_import_converges` assumes.
* `cond`, `copies`: the code variant carries the repairs of the two recorded findings (F6: a
  processor `Condition` is exported and applied; F5: the connector update iterates over a copy) —
  without them the statement is false (`C15_import_converges_counterexample_f5/_f6`);
* `nofail`: no store failure is injected;
* `refs`: the references below the pipeline are intact in the prior state (`PlRefs`: its
  connectors exist and point back to it, their and its processors exist and point back to their
  parent — the downward half of the C14 invariant `RefInv` for this one pipeline; it holds in
  every state reachable by API calls, `C14_refs_reachable` + `plRefs_of_refs`, and is
  re-established by every successful import, `C15_import_keeps_refs`; trivially true when the
  pipeline does not exist yet);
* `valid`: the configuration is one the provisioning service accepts (`cfgValid`: name non-empty,
  not reserved, not taken by another pipeline; valid DLQ; connector types/plugins/names and
  processor plugins/workers valid; connector ids and processor ids pairwise distinct);
* `stopped`: the pipeline is not running (a running pipeline makes `ApplyPlan` refuse). -/
structure ImportReady (v : Variant) (s : St) (c : PipeCfg) : Prop where
  cond : CondOk v
  copies : v.updConnCopies = true
  nofail : NoFail s
  refs : PlRefs s.mem c.id
  valid : cfgValid s.mem c = true
  stopped : ((s.mem.pls c.id).map (fun p => isRunningStatus p.status)).getD false = false

/-- `ApplyPlan` under `ImportReady`: succeeds, memory is the closed-form effect of the action
list, and a store that was a copy of memory is one again after the commit. -/
theorem applyPlan_ok (v : Variant) (s : St) (c : PipeCfg) (old : Option PipeCfg) (h : ImportReady v s c)
    (hex : exportPl v s.mem c.id = .ok old) :
    ∃ s', applyPlan v c s = (.ok (), s') ∧ s'.mem = effAll v s.mem (build v 1 old c) ∧ NoFail s' ∧
      (MemEqStore s → MemEqStore s') := by
  have hready : ConvReady v s.mem c old := ⟨h.cond, h.copies, hex, h.valid, h.refs⟩
  obtain ⟨hpre, _⟩ := converge_mem v 1 s.mem c old hready
  have hplan : planSize v s.mem c = .ok (build v 1 old c).length := by unfold planSize; rw [hex]
  unfold applyPlan
  rw [hplan]
  cases hlen : (build v 1 old c).length with
  | zero =>
    have hnil : build v 1 old c = [] := List.length_eq_zero_iff.1 hlen
    exact ⟨s, rfl, by rw [hnil]; rfl, h.nofail, id⟩
  | succ n =>
    simp only [h.stopped, Bool.false_eq_true, if_false]
    have hf : s.failsNow = false := by simp [St.failsNow, show s.failAt = none from h.nofail]
    let s1 : St := { s with ctr := s.ctr + 1, tx := some s.kv }
    have hn1 : NoFail s1 := h.nofail
    obtain ⟨s2, e1, e2, e3⟩ := importPipeline_yields v c 1 s1 old hn1 hex hpre
    have hf2 : s2.failsNow = false := by simp [St.failsNow, show s2.failAt = none from e3]
    refine ⟨{ s2 with ctr := s2.ctr + 1, kv := s2.tx.getD s2.kv, tx := none }, ?_, e2, e3, ?_⟩
    · unfold transactionalImport
      simp only [hf, Bool.false_eq_true, if_false]
      show (match importPipeline v c 1 s1 with
            | (.error e, s') => (Except.error e, { s' with tx := none })
            | (.ok (), s') => if s'.failsNow then (.error .st, { s' with ctr := s'.ctr + 1, tx := none })
                else (.ok (), { s' with ctr := s'.ctr + 1, kv := s'.tx.getD s'.kv, tx := none })) = _
      rw [e1]
      simp only [hf2, Bool.false_eq_true, if_false]
    · intro hm
      obtain ⟨hkv, _⟩ := (memEqStore_iff s).1 hm
      have ht1 : s1.tx = some (KV.ofMem s1.mem) := by show some s.kv = _; rw [hkv]
      obtain ⟨t2, _⟩ := importPipeline_txAgree v c 1 s1 s2 hn1 ht1 e1
      refine (memEqStore_iff _).2 ⟨?_, rfl⟩
      show s2.tx.getD s2.kv = KV.ofMem s2.mem
      rw [t2]; rfl

/-- C15.import_converges — "importing a valid pipeline configuration succeeds and leaves the
stored pipeline, connectors and processors (including order, settings, workers and conditions)
equal to the configuration": for every code variant carrying the F5/F6 repairs, every prior
state with intact references below the pipeline (every reachable one:
`C15_import_converges_reachable`), every valid configuration, no injected failure, pipeline not
running — `ApplyPlan` succeeds and the `Export` of the result *is*
the configuration: pipeline name, description, DLQ, the connector list in order, every
connector's type, plugin, name, settings and processor list in order, every processor's plugin,
settings, workers and condition (the fields `C15_fact_field_classes` classifies as
configuration; status, provisioning origin, connector position are state and not compared).
Nothing is assumed about what the pipeline looked like before (absent, created by an earlier
import, created through the API). Full strength. -/
theorem C15_import_converges (v : Variant) (s : St) (c : PipeCfg) (h : ImportReady v s c) :
    (applyPlan v c s).1 = .ok () ∧ Converged v (applyPlan v c s).2.mem c := by
  obtain ⟨old, hex⟩ := exportPl_total v s.mem c.id h.refs
  obtain ⟨s', e1, e2, _, _⟩ := applyPlan_ok v s c old h hex
  obtain ⟨_, ht, _⟩ := converge_mem v 1 s.mem c old ⟨h.cond, h.copies, hex, h.valid, h.refs⟩
  rw [e1]
  refine ⟨rfl, ?_⟩
  show exportPl v s'.mem c.id = .ok (some c)
  rw [e2]
  exact exportPl_of_target v h.cond.exported _ c ht

/-- C15.import_converges, store side: if the store was a copy of memory (the C14 invariant
`MemEqStore`), it is one again after the import's commit — so what a restarted server loads
exports to the configuration as well. Full strength. -/
theorem C15_import_converges_store (v : Variant) (s : St) (c : PipeCfg) (h : ImportReady v s c) (hm : MemEqStore s) :
    MemEqStore (applyPlan v c s).2 ∧ Converged v (storeImage (applyPlan v c s).2).mem c := by
  obtain ⟨old, hex⟩ := exportPl_total v s.mem c.id h.refs
  obtain ⟨s', e1, _, _, e4⟩ := applyPlan_ok v s c old h hex
  have hc := (C15_import_converges v s c h).2
  rw [e1] at hc ⊢
  have hm' : MemEqStore s' := e4 hm
  refine ⟨hm', ?_⟩
  have himg : (storeImage s').mem = s'.mem := by
    obtain ⟨a, b, c', _⟩ := hm'
    show ({ pls := s'.kv.pls, cns := s'.kv.cns, prs := s'.kv.prs, names := s'.mem.names } : Mem) = s'.mem
    rw [← a, ← b, ← c']
  show Converged v (storeImage s').mem c
  rw [himg]; exact hc

/-- C15.import_converges, what else changes: (1) every pipeline other than `c.id`, every
connector and every processor whose id occurs neither in the previous (exported) configuration of
the pipeline nor in `c` — in particular everything created through the API or by the import of
another pipeline — is left exactly as it was; (2) every connector and processor of the previous
configuration that `c` does not mention is gone. Full strength. -/
theorem C15_import_frame (v : Variant) (s : St) (c : PipeCfg) (old : Option PipeCfg) (h : ImportReady v s c)
    (hex : exportPl v s.mem c.id = .ok old) :
    let m' := (applyPlan v c s).2.mem
    (∀ j, j ≠ c.id → m'.pls j = s.mem.pls j) ∧
    (∀ x, x ∉ cids (oldConns old) → x ∉ cids c.conns → m'.cns x = s.mem.cns x) ∧
    (∀ y, y ∉ oldProcIds old → y ∉ c.procIds → m'.prs y = s.mem.prs y) ∧
    (∀ o, old = some o → (∀ co ∈ o.conns, co.id ∉ cids c.conns → m'.cns co.id = none) ∧
                          (∀ y ∈ o.procIds, y ∉ c.procIds → m'.prs y = none)) := by
  obtain ⟨s', e1, e2, _, _⟩ := applyPlan_ok v s c old h hex
  simp only [e1, e2]
  obtain ⟨f1, f2, f3⟩ := build_frame v 1 s.mem c old
  exact ⟨f1, f2, f3, fun o ho => by subst ho; exact build_gone v 1 s.mem c o⟩

/-- C15.import_converges, the invariant it rests on is kept: after the import the references
below the imported pipeline are intact whatever they were built from (so the next import of
that pipeline — any configuration — starts from a state the theorem covers), and the references
below every other pipeline stay intact if the configuration's ids are not in use under another
pipeline (`CfgOwned`; the real service prefixes every entity id with the pipeline id). -/
theorem C15_import_keeps_refs (v : Variant) (s : St) (c : PipeCfg) (h : ImportReady v s c) :
    PlRefs (applyPlan v c s).2.mem c.id ∧ NoFail (applyPlan v c s).2 ∧
    (DownRefs s.mem → CfgOwned s.mem c → DownRefs (applyPlan v c s).2.mem) := by
  obtain ⟨old, hex⟩ := exportPl_total v s.mem c.id h.refs
  obtain ⟨s', e1, e2, e3, _⟩ := applyPlan_ok v s c old h hex
  have hready : ConvReady v s.mem c old := ⟨h.cond, h.copies, hex, h.valid, h.refs⟩
  obtain ⟨_, t1, t2⟩ := converge_mem v 1 s.mem c old hready
  rw [e1]
  refine ⟨?_, e3, ?_⟩
  · show PlRefs s'.mem c.id
    rw [e2]; exact plRefs_of_target _ c t1 t2
  · intro hd ho
    show DownRefs s'.mem
    rw [e2]; exact downRefs_import v 1 s.mem c old hready hd ho

/-- the states the provisioning service sees: any state reached by management-API calls
(outside the recorded F7 triggers, where the references are a theorem), then any number of
imports — of any pipelines, with valid configurations whose ids are not in use under another
pipeline, the pipeline not running — with no store failure. -/
inductive ImportReach (v : Variant) : St → Prop
  | api (h : List (Op × Option Nat)) : TriggerFreeRun v St.init h → ImportReach v (run v St.init h)
  | imp (s : St) (c : PipeCfg) : ImportReach v s → cfgValid s.mem c = true → CfgOwned s.mem c →
      ((s.mem.pls c.id).map (fun p => isRunningStatus p.status)).getD false = false →
      ImportReach v (applyPlan v c s).2

theorem run_nofail (v : Variant) : ∀ (h : List (Op × Option Nat)) (s : St), NoFail s → NoFail (run v s h)
  | [], _, hs => hs
  | (op, k) :: rest, s, _ => run_nofail v rest (exec v s op k).2 rfl

theorem ImportReach.inv {v : Variant} (hc : CondOk v) (hcp : v.updConnCopies = true) {s : St} (h : ImportReach v s) :
    NoFail s ∧ DownRefs s.mem := by
  induction h with
  | api h ht => exact ⟨run_nofail v h St.init rfl, downRefs_of_refs _ (C14_refs_reachable v h ht).1⟩
  | imp s c _ hv ho hs ih =>
    have hr : ImportReady v s c := ⟨hc, hcp, ih.1, ih.2 c.id, hv, hs⟩
    obtain ⟨_, h2, h3⟩ := C15_import_keeps_refs v s c hr
    exact ⟨h2, h3 ih.2 ho⟩

/-- C15.import_converges over reachable states: "from any previously imported state" — after
any history of API calls and any chain of earlier imports (`ImportReach`), importing a valid
configuration of a pipeline that is not running succeeds and converges. -/
theorem C15_import_converges_reachable (v : Variant) (hc : CondOk v) (hcp : v.updConnCopies = true)
    (s : St) (hs : ImportReach v s) (c : PipeCfg) (hv : cfgValid s.mem c = true)
    (hstop : ((s.mem.pls c.id).map (fun p => isRunningStatus p.status)).getD false = false) :
    (applyPlan v c s).1 = .ok () ∧ Converged v (applyPlan v c s).2.mem c :=
  C15_import_converges v s c ⟨hc, hcp, (hs.inv hc hcp).1, (hs.inv hc hcp).2 c.id, hv, hstop⟩

/-! ## the code as found violates convergence / failure atomicity: witnesses -/

def cfgA : PipeCfg :=
  { id := 1, name := 1, desc := 0, dlq := Dlq.default,
    conns := [{ id := 11, typ := 1, plugin := 1, name := 1, settings := 1,
                procs := [⟨12, 1, 1, 1, 0⟩, ⟨13, 2, 0, 1, 0⟩, ⟨16, 1, 0, 1, 0⟩] }],
    procs := [⟨15, 1, 1, 2, 0⟩] }

/-- `cfgA` with the connector's last processor removed. -/
def cfgB : PipeCfg :=
  { cfgA with conns := [{ id := 11, typ := 1, plugin := 1, name := 1, settings := 1,
                          procs := [⟨12, 1, 1, 1, 0⟩, ⟨13, 2, 0, 1, 0⟩] }] }

/-- `cfgB` with a condition set on a processor. -/
def cfgC : PipeCfg :=
  { cfgA with conns := [{ id := 11, typ := 1, plugin := 1, name := 1, settings := 1,
                          procs := [⟨12, 1, 1, 1, 2⟩, ⟨13, 2, 0, 1, 0⟩] }] }

/-- `cfgB` with the connector's type changed and a processor with an unknown plugin. -/
def cfgD : PipeCfg :=
  { cfgB with conns := [{ id := 11, typ := 2, plugin := 1, name := 1, settings := 1,
                          procs := [⟨12, 1, 1, 1, 0⟩, ⟨13, 2, 0, 1, 0⟩] }],
              procs := [⟨15, 1, 1, 2, 0⟩, ⟨17, 9, 1, 1, 0⟩] }

def st0 : St := { St.init with next := 100 }
def after (v : Variant) (s : St) (c : PipeCfg) (k : Option Nat := none) : St :=
  let r := (applyPlan v c { s with ctr := 0, failAt := k }).2
  { r with ctr := 0, failAt := none }

/-- F5: a processor-list change on a connector with three processors — the remove loop ranges
over the slice `RemoveProcessor` shifts in place, the third removal fails: the valid import is
refused (and the repaired variant converges). -/
theorem C15_import_converges_counterexample_f5 :
    (applyPlan Variant.asFound cfgB (after Variant.asFound st0 cfgA)).1 = .error .inv ∧
    Converged Variant.repaired (after Variant.repaired (after Variant.repaired st0 cfgA) cfgB).mem cfgB := by
  decide +kernel

/-- F6: a processor `Condition` is neither exported nor updated — the import "succeeds", the
stored condition stays the old one, and the plan is never empty. -/
theorem C15_import_converges_counterexample_f6 :
    let s := after Variant.asFound (after Variant.asFound st0 cfgB) cfgC
    ((s.mem.prs 12).map (·.cond)) = some 0 ∧ planSize Variant.asFound s.mem cfgC = .ok 1 ∧
    Converged Variant.repaired (after Variant.repaired (after Variant.repaired st0 cfgB) cfgC).mem cfgC := by
  decide +kernel

/-- F8: `Commit` fails after the import went through (store operation 4 of a description
change): the store keeps the old description, memory the new one — also with every repair. -/
theorem C15_import_fail_atomic_counterexample_commit :
    let s := after Variant.repaired st0 cfgB
    let s' := after Variant.repaired s { cfgB with desc := 2 } (some 4)
    (s'.mem.pls 1).map (·.desc) = some 2 ∧ (s'.kv.pls 1).map (·.desc) = some 0 := by
  decide +kernel

/-- Connector re-creation on rollback: the new config changes the connector's type (delete +
create) and a later action fails; the rollback re-creates the connector from its *config* —
its stored position is gone from memory (also with every repair). -/
theorem C15_import_fail_atomic_counterexample_position :
    let s := (exec Variant.repaired (after Variant.repaired st0 cfgB) (.envState 11 7) none).2
    let s' := after Variant.repaired s cfgD
    (applyPlan Variant.repaired cfgD { s with ctr := 0 }).1 = .error .inv ∧
    (s.mem.cns 11).map (·.state) = some 7 ∧ (s'.mem.cns 11).map (·.state) = some 0 := by
  decide +kernel

/-- `cfgB` with only the connector's *plugin* changed (a mutable field: same id, same type). -/
def cfgBPlugin : PipeCfg :=
  { cfgA with conns := [{ id := 11, typ := 1, plugin := 2, name := 1, settings := 1,
                          procs := [⟨12, 1, 1, 1, 0⟩, ⟨13, 2, 0, 1, 0⟩] }] }

/-- position kept on the plugin-change path (an instance of `C15_position_kept`, whose hypotheses
mention id and type only): position 7 written, the plugin-only change imported — one
`updateConnectorAction` —, the connector has the new plugin and still position 7, in memory and
in the store. -/
example :
    let v := Variant.repaired
    let s := (exec v (after v st0 cfgB) (.envState 11 7) none).2
    let s' := after v s cfgBPlugin
    planSize v s.mem cfgBPlugin = .ok 1 ∧
    (s'.mem.cns 11).map (fun c => (c.plugin, c.state)) = some (2, 7) ∧
    (s'.kv.cns 11).map (fun c => (c.plugin, c.state)) = some (2, 7) := by
  decide +kernel

/-! ## non-vacuity -/

/-- the hypotheses of idempotence are satisfiable: a converged import of a config with unique ids. -/
example : Converged Variant.asFound (after Variant.asFound st0 cfgA).mem cfgA := by decide +kernel

example : CfgNodup cfgA := ⟨by decide, by decide, by decide⟩

/-- position kept applies: connector 11 persists from `cfgA` to `cfgB` with the same type. -/
example : exportPl Variant.asFound (after Variant.asFound st0 cfgA).mem 1 = .ok (some cfgA) := by decide +kernel

/-- executable form of `CfgOwned`. -/
def cfgOwnedB (m : Mem) (c : PipeCfg) : Bool :=
  (cids c.conns).all (fun x => match m.cns x with
    | none => true
    | some r => r.pipeline == c.id) &&
  c.procIds.all (fun y => match m.prs y with
    | none => true
    | some q => (q.ptype == 2 && q.parent == c.id) ||
        (q.ptype == 1 && match m.cns q.parent with
          | none => false
          | some r => r.pipeline == c.id))

theorem cfgOwned_of_B (m : Mem) (c : PipeCfg) (h : cfgOwnedB m c = true) : CfgOwned m c := by
  simp only [cfgOwnedB, Bool.and_eq_true, List.all_eq_true] at h
  obtain ⟨h1, h2⟩ := h
  constructor
  · intro x hx r hr
    have := h1 x hx
    rw [hr] at this
    simpa using this
  · intro y hy q hq
    have := h2 y hy
    rw [hq] at this
    simp only [Bool.or_eq_true, Bool.and_eq_true, beq_iff_eq] at this
    rcases this with ⟨a, b⟩ | ⟨a, b⟩
    · exact Or.inl ⟨a, b⟩
    · refine Or.inr ⟨a, ?_⟩
      cases hr : m.cns q.parent with
      | none => rw [hr] at b; cases b
      | some r => rw [hr] at b; exact ⟨r, rfl, by simpa using b⟩

/-- the code variant with the recorded repairs satisfies the variant hypotheses of convergence
(the code as found does not: F5, F6 above). -/
example : CondOk Variant.repaired ∧ Variant.repaired.updConnCopies = true := ⟨⟨rfl, Or.inr rfl⟩, rfl⟩

/-- `cfgA`/`cfgB` under a name no API-created pipeline of the witness history has. -/
def cfgA2 : PipeCfg := { cfgA with name := 2 }
def cfgB2 : PipeCfg := { cfgB with name := 2 }

/-- the hypotheses of `C15_import_converges_reachable` are satisfiable, on a state that is
neither empty nor converged: after the C14 witness history (an API-created pipeline with two
connectors and three processors) `cfgA2` is imported next to it, then `cfgB2` (one processor
fewer: a non-empty plan) is a valid import from that reachable state. -/
example :
    let v := Variant.repaired
    let s1 := (applyPlan v cfgA2 (run v St.init witnessHistory)).2
    ImportReach v s1 ∧ cfgValid s1.mem cfgB2 = true ∧
    ((s1.mem.pls cfgB2.id).map (fun p => isRunningStatus p.status)).getD false = false ∧
    planSize v s1.mem cfgB2 = .ok 2 ∧ (s1.mem.pls 0).isSome = true := by
  refine ⟨?_, by decide +kernel, by decide +kernel, by decide +kernel, by decide +kernel⟩
  exact .imp _ _ (.api witnessHistory ⟨rfl, rfl, rfl, rfl, rfl, rfl, rfl, trivial⟩) (by decide +kernel)
    (cfgOwned_of_B _ _ (by decide +kernel)) (by decide +kernel)

/-- and the conclusion, evaluated on that instance (agrees with the theorem). -/
example :
    let v := Variant.repaired
    let s1 := (applyPlan v cfgA2 (run v St.init witnessHistory)).2
    (applyPlan v cfgB2 s1).1 = .ok () ∧ Converged v (applyPlan v cfgB2 s1).2.mem cfgB2 ∧
    ((applyPlan v cfgB2 s1).2.mem.prs 16).isNone = true := by decide +kernel

end Conduit.Ctl
