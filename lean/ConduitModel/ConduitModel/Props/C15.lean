import ConduitModel.Proofs.Prov

/-!
# C15 — importing a pipeline config converges to it, is idempotent, and fails atomically

Statement (properties.jsonl C15): "Importing a valid pipeline configuration - from any
previously imported state of that pipeline - succeeds and leaves the stored pipeline, connectors
and processors (including order, settings, workers and conditions) equal to the configuration;
importing the same configuration again changes nothing. If an import fails, the previous
configuration is fully retained, and the stored position of every connector that persists
across an import with the same id and type is kept."

Model: `Model/Prov.lean` over M6 (`Model/Ctl.lean`): Export, the actions builder, the nine
actions with Do/Rollback, the import frame, `transactionalImport`, `Plan`/`ApplyPlan`. Theorems
are for every state, configuration, failing store-operation index and code variant.

Proved at full strength: idempotence (given convergence), store-level failure atomicity,
position kept. Convergence itself (`export (import s c) = c` for every valid `c`) and
memory-level failure atomicity are *not* proved in general: the code as found violates both
(F5, F6, F8, and the connector re-creation on rollback, see the `…_counterexample`s, evaluated
in the kernel); they are decided per history by the monitor on the model that the
correspondence harness ties to the real `provisioning.Service`. The goal statements are kept:

    theorem C15_import_converges (v s c) (hv : cfgValid s.mem c) (hs : Imported s c.id) :
      (applyPlan v c s).1 = .ok () ∧ Converged v (applyPlan v c s).2.mem c
    theorem C15_import_fail_atomic (v s c k) : (applyPlan v c s).1 ≠ .ok () → (applyPlan v c s).2.view = s.view
-/
namespace Conduit.Ctl

/-- C15.import_idempotent — "importing the same configuration again changes nothing": if the
stored pipeline already equals the configuration (what a converged import leaves), the plan is
empty and `ApplyPlan` returns success without touching anything, whatever store operation
would fail. Full strength (every variant, state, configuration with list-wise unique ids). -/
theorem C15_import_idempotent (v : Variant) (s : St) (c : PipeCfg) (hc : Converged v s.mem c) (hn : CfgNodup c) :
    planSize v s.mem c = .ok 0 ∧ applyPlan v c s = (.ok (), s) := by
  have hp : planSize v s.mem c = .ok 0 := by
    unfold planSize; unfold Converged at hc; rw [hc]; simp [build_self v 1 c hn]
  exact ⟨hp, by simp [applyPlan, hp]⟩

/-- C15.import_fail_atomic, store level — "if an import fails, the previous configuration is
fully retained": a failed `ApplyPlan` (refused, an action failed, any store operation failed,
`Commit` failed) leaves the committed store — what a restarted server loads — exactly as it
was. Full strength. -/
theorem C15_import_fail_store_atomic (v : Variant) (s : St) (c : PipeCfg)
    (hf : (applyPlan v c s).1 ≠ .ok ()) : (applyPlan v c s).2.kv = s.kv := by
  unfold applyPlan at hf ⊢
  cases hp : planSize v s.mem c with
  | error e => rfl
  | ok n =>
    cases n with
    | zero => rfl
    | succ n =>
      simp only [hp] at hf ⊢
      split
      · rfl
      · rename_i h2
        simp only [h2] at hf
        exact transactionalImport_store v c s (by simpa using hf)

/-- the import (with its rollback, for every failing index) keeps a connector's position and
type when its action list neither creates nor deletes that connector. -/
theorem importPipeline_keeps (v : Variant) (c : PipeCfg) (prov : Nat) (x : Id) (s : St) (old : Option PipeCfg)
    (hex : exportPl v s.mem c.id = .ok old) (hl : ∀ a ∈ build v prov old c, a.touches x = false) :
    ∀ cc, s.mem.cns x = some cc →
      ∃ c', (importPipeline v c prov s).2.mem.cns x = some c' ∧ c'.state = cc.state ∧ c'.typ = cc.typ := by
  intro cc hcc
  obtain ⟨⟨c1, h1, h2, h3⟩, h4⟩ := keeps_execActs x v (build v prov old c) hl [] s cc hcc (by simp)
  have hdef : importPipeline v c prov s =
      (match execActs v (build v prov old c) [] s with
       | (none, _, s') => (.ok (), s')
       | (some e, done, s') => (.error e, undoActs v done s')) := by
    unfold importPipeline; rw [hex]; rfl
  rw [hdef]
  rcases hr : execActs v (build v prov old c) [] s with ⟨r, done, s'⟩
  rw [hr] at h1 h4
  cases r with
  | none => exact ⟨c1, h1, h2, h3⟩
  | some e =>
    obtain ⟨c2, g1, g2, g3⟩ := keeps_undoActs x v done h4 s' c1 h1
    exact ⟨c2, g1, by rw [g2, h2], by rw [g3, h3]⟩

/-- C15.position_kept — "the stored position of every connector that persists across an import
with the same id and type is kept": for every variant, state, configuration, failing
store-operation index — successful, failed and rolled-back imports alike. `old` is the exported
current configuration. The hypotheses constrain id and type only: name, settings, processors and
*plugin* (all mutable connector fields, applied by `updateConnectorAction`) may change. Full strength. -/
theorem C15_position_kept (v : Variant) (s : St) (c old : PipeCfg) (xo xn : ConnCfg) (cc : Cn)
    (hex : exportPl v s.mem c.id = .ok (some old))
    (ho : xo ∈ old.conns) (hn : xn ∈ c.conns) (hid : xo.id = xn.id) (htyp : xo.typ = xn.typ)
    (hno : (old.conns.map (·.id)).Nodup) (hnn : (c.conns.map (·.id)).Nodup)
    (hcc : s.mem.cns xn.id = some cc) :
    ∃ c', (applyPlan v c s).2.mem.cns xn.id = some c' ∧ c'.state = cc.state := by
  have hl := build_no_touch v 1 old c xn.id xo xn ho hn hid rfl htyp hno hnn
  unfold applyPlan
  split
  · exact ⟨cc, hcc, rfl⟩
  · exact ⟨cc, hcc, rfl⟩
  · split
    · exact ⟨cc, hcc, rfl⟩
    · unfold transactionalImport
      split
      · exact ⟨cc, hcc, rfl⟩
      · obtain ⟨c', h1, h2, _⟩ := importPipeline_keeps v c 1 xn.id { s with ctr := s.ctr + 1, tx := some s.kv } (some old)
          hex hl cc hcc
        simp only
        rcases hr : importPipeline v c 1 { s with ctr := s.ctr + 1, tx := some s.kv } with ⟨r, s'⟩
        rw [hr] at h1
        cases r with
        | error e => exact ⟨c', h1, h2⟩
        | ok u => cases u; simp only; split <;> exact ⟨c', h1, h2⟩

/-! ## the code as found violates convergence / failure atomicity: witnesses -/

def cfgA : PipeCfg :=
  { id := 1, name := 1, desc := 0, dlq := Dlq.default,
    conns := [{ id := 11, typ := 1, plugin := 1, name := 1, settings := 1,
                procs := [⟨12, 1, 1, 1, 0⟩, ⟨13, 2, 0, 1, 0⟩, ⟨16, 1, 0, 1, 0⟩] }],
    procs := [⟨15, 1, 1, 2, 0⟩] }

/-- `cfgA` with the connector's last processor removed. -/
def cfgB : PipeCfg :=
  { cfgA with conns := [{ id := 11, typ := 1, plugin := 1, name := 1, settings := 1,
                          procs := [⟨12, 1, 1, 1, 0⟩, ⟨13, 2, 0, 1, 0⟩] }] }

/-- `cfgB` with a condition set on a processor. -/
def cfgC : PipeCfg :=
  { cfgA with conns := [{ id := 11, typ := 1, plugin := 1, name := 1, settings := 1,
                          procs := [⟨12, 1, 1, 1, 2⟩, ⟨13, 2, 0, 1, 0⟩] }] }

/-- `cfgB` with the connector's type changed and a processor with an unknown plugin. -/
def cfgD : PipeCfg :=
  { cfgB with conns := [{ id := 11, typ := 2, plugin := 1, name := 1, settings := 1,
                          procs := [⟨12, 1, 1, 1, 0⟩, ⟨13, 2, 0, 1, 0⟩] }],
              procs := [⟨15, 1, 1, 2, 0⟩, ⟨17, 9, 1, 1, 0⟩] }

def st0 : St := { St.init with next := 100 }
def after (v : Variant) (s : St) (c : PipeCfg) (k : Option Nat := none) : St :=
  let r := (applyPlan v c { s with ctr := 0, failAt := k }).2
  { r with ctr := 0, failAt := none }

/-- F5: a processor-list change on a connector with three processors — the remove loop ranges
over the slice `RemoveProcessor` shifts in place, the third removal fails: the valid import is
refused (and the repaired variant converges). -/
theorem C15_import_converges_counterexample_f5 :
    (applyPlan Variant.asFound cfgB (after Variant.asFound st0 cfgA)).1 = .error .inv ∧
    Converged Variant.repaired (after Variant.repaired (after Variant.repaired st0 cfgA) cfgB).mem cfgB := by
  decide +kernel

/-- F6: a processor `Condition` is neither exported nor updated — the import "succeeds", the
stored condition stays the old one, and the plan is never empty. -/
theorem C15_import_converges_counterexample_f6 :
    let s := after Variant.asFound (after Variant.asFound st0 cfgB) cfgC
    ((s.mem.prs 12).map (·.cond)) = some 0 ∧ planSize Variant.asFound s.mem cfgC = .ok 1 ∧
    Converged Variant.repaired (after Variant.repaired (after Variant.repaired st0 cfgB) cfgC).mem cfgC := by
  decide +kernel

/-- F8: `Commit` fails after the import went through (store operation 4 of a description
change): the store keeps the old description, memory the new one — also with every repair. -/
theorem C15_import_fail_atomic_counterexample_commit :
    let s := after Variant.repaired st0 cfgB
    let s' := after Variant.repaired s { cfgB with desc := 2 } (some 4)
    (s'.mem.pls 1).map (·.desc) = some 2 ∧ (s'.kv.pls 1).map (·.desc) = some 0 := by
  decide +kernel

/-- Connector re-creation on rollback: the new config changes the connector's type (delete +
create) and a later action fails; the rollback re-creates the connector from its *config* —
its stored position is gone from memory (also with every repair). -/
theorem C15_import_fail_atomic_counterexample_position :
    let s := (exec Variant.repaired (after Variant.repaired st0 cfgB) (.envState 11 7) none).2
    let s' := after Variant.repaired s cfgD
    (applyPlan Variant.repaired cfgD { s with ctr := 0 }).1 = .error .inv ∧
    (s.mem.cns 11).map (·.state) = some 7 ∧ (s'.mem.cns 11).map (·.state) = some 0 := by
  decide +kernel

/-- `cfgB` with only the connector's *plugin* changed (a mutable field: same id, same type). -/
def cfgBPlugin : PipeCfg :=
  { cfgA with conns := [{ id := 11, typ := 1, plugin := 2, name := 1, settings := 1,
                          procs := [⟨12, 1, 1, 1, 0⟩, ⟨13, 2, 0, 1, 0⟩] }] }

/-- position kept on the plugin-change path (an instance of `C15_position_kept`, whose hypotheses
mention id and type only): position 7 written, the plugin-only change imported — one
`updateConnectorAction` —, the connector has the new plugin and still position 7, in memory and
in the store. -/
example :
    let v := Variant.repaired
    let s := (exec v (after v st0 cfgB) (.envState 11 7) none).2
    let s' := after v s cfgBPlugin
    planSize v s.mem cfgBPlugin = .ok 1 ∧
    (s'.mem.cns 11).map (fun c => (c.plugin, c.state)) = some (2, 7) ∧
    (s'.kv.cns 11).map (fun c => (c.plugin, c.state)) = some (2, 7) := by
  decide +kernel

/-! ## non-vacuity -/

/-- the hypotheses of idempotence are satisfiable: a converged import of a config with unique ids. -/
example : Converged Variant.asFound (after Variant.asFound st0 cfgA).mem cfgA := by decide +kernel

example : CfgNodup cfgA := ⟨by decide, by decide, by decide⟩

/-- position kept applies: connector 11 persists from `cfgA` to `cfgB` with the same type. -/
example : exportPl Variant.asFound (after Variant.asFound st0 cfgA).mem 1 = .ok (some cfgA) := by decide +kernel

end Conduit.Ctl
