import ConduitModel.Spec.Live
import ConduitModel.Props.C15
import ConduitModel.Proofs.LockTable

/-!
# C16 — live apply to a running pipeline loses nothing and never applies a stale plan

Statement (properties.jsonl C16): "A planned configuration change is applied only if the plan
still matches the current state; a running pipeline is touched only with operator
authorisation, and then only after it has fully drained and its positions are durable (or, for
processor-only changes, in place at a record boundary). After the apply the pipeline continues
from its durable position with no skipped record, and a refused or failed apply leaves
configuration and the running pipeline unchanged or cleanly stopped with a consistent stored
configuration."

Model: `Model/Live.lean` — `ApplyPlanLive` as a sequential program over (M6 state, scripted
lifecycle outcomes), for every state, configuration, presented plan, lifecycle script and
failing store-operation index; the per-pipeline lock table as an event system
(`Model/LockTable.lean`): for every interleaving of any number of callers, applies for one
pipeline never overlap (`C16_apply_lock_mutual_exclusion`), so one apply *is* a sequential
program with respect to other applies and the state it mutates is the state its plan / hash
check read (`C16_apply_sees_checked_state`). Partial on: the plan hash abstracted as the plan itself
(SHA-256 collisions), and the data-path clauses
(drained ⇒ positions durable, resume from the durable position, in-place swap at a record
boundary) which are C06 / C03 / C13 and enter here as the assumption that a successful
`StopAndWait` leaves the pipeline stopped with durable positions.
-/
namespace Conduit.Ctl

/-- C16.stale_plan_refused — "applied only if the plan still matches the current state": a
presented plan (the view the hash digests: every change with its resource, id, action, effect,
*config paths* and live-swappability, and the desired config) that is not the one computed now
is refused, nothing is touched, no lifecycle
call is made. Full strength. -/
theorem C16_stale_plan_refused (v : Variant) (c : PipeCfg) (presented : PlanView) (allow : Bool) (env : LiveEnv)
    (s : St) (old : Option PipeCfg) (hex : exportPl v s.mem c.id = .ok old) (hst : presented ≠ planView v old c) :
    applyPlanLive v c presented allow env s = (.error .stale, s, []) := by
  unfold applyPlanLive
  simp [hex, hst]

/-- contrapositive: whenever the apply succeeded, changed anything or called the lifecycle, the
presented plan was the current one. -/
theorem C16_applies_only_current_plan (v : Variant) (c : PipeCfg) (presented : PlanView) (allow : Bool) (env : LiveEnv)
    (s : St) (old : Option PipeCfg) (hex : exportPl v s.mem c.id = .ok old)
    (h : applyPlanLive v c presented allow env s ≠ (.error .stale, s, [])) : presented = planView v old c := by
  apply Classical.byContradiction
  intro hne
  exact h (C16_stale_plan_refused v c presented allow env s old hex hne)

/-! ### the window between the two status reads -/

theorem flipState_cases (c : PipeCfg) (env : LiveEnv) (s : St) :
    flipState c env s = s ∨ (runningNow s c.id = false ∧ env.becomesRunning = true ∧ flipState c env s = setStatusRaw c.id 1 s) := by
  unfold flipState
  cases h1 : runningNow s c.id <;> cases h2 : env.becomesRunning <;> simp

theorem flipState_of_running (c : PipeCfg) (env : LiveEnv) (s : St) (h : runningNow s c.id = true) :
    flipState c env s = s := by
  unfold flipState; simp [h]

theorem flipState_export (v : Variant) (c : PipeCfg) (env : LiveEnv) (s : St) : (flipState c env s).next = s.next := by
  rcases flipState_cases c env s with h | ⟨_, _, h⟩
  · rw [h]
  · rw [h]; unfold setStatusRaw; split <;> rfl

/-- the status the gate sees: running at the first read, or started in the window. -/
theorem runningAtGate (c : PipeCfg) (env : LiveEnv) (s : St) (p : Pl) (hp : s.mem.pls c.id = some p) :
    runningNow (flipState c env s) c.id = (isRunningStatus p.status || env.becomesRunning) := by
  have h1 : runningNow s c.id = isRunningStatus p.status := by simp [runningNow, hp]
  cases hr : isRunningStatus p.status with
  | true => rw [flipState_of_running c env s (by rw [h1, hr]), h1, hr]; rfl
  | false =>
    cases hb : env.becomesRunning with
    | false =>
      have : flipState c env s = s := by unfold flipState; simp [hb]
      rw [this, h1, hr]; rfl
    | true =>
      have : flipState c env s = setStatusRaw c.id 1 s := by unfold flipState; simp [h1, hr, hb]
      rw [this]
      simp [runningNow, setStatusRaw, hp, isRunningStatus]

/-- C16.running_needs_authorisation — "a running pipeline is touched only with operator
authorisation": if the pipeline is running (or degraded / recovering) *at the moment the gate
is evaluated* — at the first status read, or started by an external `Start` in the window
before the re-read — a non-empty plan without the operator flag is refused: the result is
`unauth`, the state is the one the external world left (nothing of the apply), and no stop /
import / start event happens. Full strength: every state, configuration, lifecycle script. -/
theorem C16_running_needs_authorisation (v : Variant) (c : PipeCfg) (env : LiveEnv) (s : St) (old : Option PipeCfg)
    (hex : exportPl v s.mem c.id = .ok old) (hrun : runningNow (flipState c env s) c.id = true)
    (hne : build v 1 old c ≠ []) :
    applyPlanLive v c (planView v old c) false env s = (.error .unauth, flipState c env s, []) := by
  unfold applyPlanLive
  have : (build v 1 old c).isEmpty = false := by
    cases h : build v 1 old c with
    | nil => exact absurd h hne
    | cons _ _ => rfl
  simp [hex, this, hrun]

/-- the same in terms of the pre-state: the pipeline exists and (is running ∨ becomes running
in the window) ⇒ refused; the only difference to the pre-state is the external status flip. -/
theorem C16_running_needs_authorisation_toctou (v : Variant) (c : PipeCfg) (env : LiveEnv) (s : St) (old : Option PipeCfg)
    (p : Pl) (hex : exportPl v s.mem c.id = .ok old) (hp : s.mem.pls c.id = some p)
    (hrun : (isRunningStatus p.status || env.becomesRunning) = true) (hne : build v 1 old c ≠ []) :
    (applyPlanLive v c (planView v old c) false env s).1 = .error .unauth ∧
    (applyPlanLive v c (planView v old c) false env s).2.2 = [] ∧
    ((applyPlanLive v c (planView v old c) false env s).2.1 = s ∨
     (env.becomesRunning = true ∧ (applyPlanLive v c (planView v old c) false env s).2.1 = setStatusRaw c.id 1 s)) := by
  rw [C16_running_needs_authorisation v c env s old hex (by rw [runningAtGate c env s p hp]; exact hrun) hne]
  refine ⟨rfl, rfl, ?_⟩
  rcases flipState_cases c env s with h | ⟨_, hb, h⟩
  · exact Or.inl h
  · exact Or.inr ⟨hb, h⟩

/-- C16.drain_before_mutate — "and then only after it has fully drained": on the restart path
(running at the gate, authorised, plan not live-eligible) the first thing that happens is
`StopAndWait`; if it fails nothing has been touched; the import (and its commit) happens only
after a successful stop, on the stopped pipeline. Full strength for this path (`sg` = the state
after the status-read window). -/
theorem C16_drain_before_mutate (v : Variant) (c : PipeCfg) (env : LiveEnv) (s : St) (old : Option PipeCfg)
    (hex : exportPl v s.mem c.id = .ok old) (hrun : runningNow (flipState c env s) c.id = true)
    (hne : build v 1 old c ≠ []) (hnl : liveEligible (build v 1 old c) = false) :
    let r := applyPlanLive v c (planView v old c) true env s
    r.2.2.head? = some .stop ∧
    (env.stopOk = false → r = (.error .life, flipState c env s, [.stop])) ∧
    (Ev.commit ∈ r.2.2 → env.stopOk = true) := by
  have hemp : (build v 1 old c).isEmpty = false := by
    cases h : build v 1 old c with
    | nil => exact absurd h hne
    | cons _ _ => rfl
  unfold applyPlanLive
  simp only [hex, hemp, hrun, hnl, ne_eq, not_true_eq_false, if_false,
    Bool.not_true, Bool.and_false, Bool.false_eq_true, List.nil_append]
  cases hs : env.stopOk with
  | false => simp
  | true =>
    simp only [Bool.not_true, Bool.false_eq_true, if_false]
    unfold tImport
    rcases transactionalImport v c (setStatusRaw c.id 3 (flipState c env s)) with ⟨r, s'⟩
    cases r with
    | error e => simp
    | ok u => cases u; cases env.startOk <;> simp

/-- C16.failed_apply_consistent, store level, restart path — "a refused or failed apply leaves
configuration … unchanged or cleanly stopped with a consistent stored configuration": when the
restart-path apply fails, either nothing was touched (stop failed), or the pipeline is stopped
and the committed store holds the old configuration (import failed: all-or-nothing, C15), or
the new configuration was committed and only the restart failed. -/
theorem C16_failed_apply_consistent_restart (v : Variant) (c : PipeCfg) (env : LiveEnv) (s : St) (old : Option PipeCfg)
    (hex : exportPl v s.mem c.id = .ok old) (hrun : runningNow (flipState c env s) c.id = true)
    (hne : build v 1 old c ≠ []) (hnl : liveEligible (build v 1 old c) = false) :
    let r := applyPlanLive v c (planView v old c) true env s
    r.1 ≠ .ok () →
      r.2.1 = flipState c env s ∨ r.2.1.kv = (setStatusRaw c.id 3 (flipState c env s)).kv ∨
      (Ev.commit ∈ r.2.2 ∧ env.startOk = false) := by
  have hemp : (build v 1 old c).isEmpty = false := by
    cases h : build v 1 old c with
    | nil => exact absurd h hne
    | cons _ _ => rfl
  unfold applyPlanLive
  simp only [hex, hemp, hrun, hnl, ne_eq, not_true_eq_false, if_false,
    Bool.not_true, Bool.and_false, Bool.false_eq_true, List.nil_append]
  cases hs : env.stopOk with
  | false => simp
  | true =>
    simp only [Bool.not_true, Bool.false_eq_true, if_false]
    unfold tImport
    have hstore := transactionalImport_store v c (setStatusRaw c.id 3 (flipState c env s))
    rcases hr : transactionalImport v c (setStatusRaw c.id 3 (flipState c env s)) with ⟨r, s'⟩
    rw [hr] at hstore
    cases r with
    | error e => intro _; exact Or.inr (Or.inl (hstore (by simp)))
    | ok u =>
      cases u
      cases hst : env.startOk <;> simp

/-- the TOCTOU scenario evaluated: a stopped pipeline, an external `Start` in the window, no
authorisation — refused, only the external flip is visible, no event. -/
example :
    let v := Variant.repaired
    let s := after v st0 cfgB
    let plan := match exportPl v s.mem 1 with | .ok old => planView v old cfgA | .error _ => ([], cfgA)
    let r := applyPlanLive v cfgA plan false { stopOk := true, startOk := true, reconf := [], becomesRunning := true } { s with ctr := 0 }
    r.1 = .error .unauth ∧ r.2.2 = [] ∧ (r.2.1.mem.pls 1).map (·.status) = some 1 ∧
      (r.2.1.mem.prs 16) = none := by
  decide +kernel

/-! ## the in-place path: the expected defect -/

/-- `cfgB` with different settings on a connector processor: a live-eligible change. -/
def cfgBLive : PipeCfg :=
  { cfgA with conns := [{ id := 11, typ := 1, plugin := 1, name := 1, settings := 1,
                          procs := [⟨12, 1, 2, 1, 0⟩, ⟨13, 2, 0, 1, 0⟩] }] }

/-- running pipeline holding `cfgB`. -/
def runningB (v : Variant) : St := (exec v (after v st0 cfgB) (.envStatus 1 1) none).2

/-- In-place apply, the processor turns out not to be live-reconfigurable (fallback to the
restart path), `StopAndWait` fails: the call returns an error, the pipeline is still running —
and the new configuration is already committed to the store (also with every repair). The
failed apply left neither "unchanged" nor "cleanly stopped". -/
theorem C16_failed_apply_consistent_counterexample :
    let v := Variant.repaired
    let s := runningB v
    let plan := match exportPl v s.mem 1 with | .ok old => planView v old cfgBLive | .error _ => ([], cfgBLive)
    let r := applyPlanLive v cfgBLive plan true { stopOk := false, startOk := true, reconf := [1] } { s with ctr := 0 }
    r.1 = .error .life ∧ r.2.2 = [.commit, .reconf 12, .stop] ∧
    (r.2.1.kv.pls 1).map (·.status) = some 1 ∧ (r.2.1.kv.prs 12).map (·.settings) = some 2 ∧
    ((runningB v).kv.prs 12).map (·.settings) = some 1 := by
  decide +kernel

/-! ## non-vacuity -/

/-- the restart path's hypotheses are satisfiable: a running pipeline and a non-live-eligible plan. -/
example :
    let v := Variant.asFound
    let plan := match exportPl v (runningB v).mem 1 with | .ok old => build v 1 old cfgA | .error _ => []
    (plan.isEmpty = false ∧ liveEligible plan = false ∧
      ((runningB v).mem.pls 1).map (fun p => isRunningStatus p.status) = some true) := by
  decide +kernel

/-- and the successful restart apply: stop, commit, start — in this order. -/
example :
    let v := Variant.repaired
    let s := runningB v
    let plan := match exportPl v s.mem 1 with | .ok old => planView v old cfgA | .error _ => ([], cfgA)
    (applyPlanLive v cfgA plan true { stopOk := true, startOk := true, reconf := [] } { s with ctr := 0 }).2.2
      = [.stop, .commit, .start] := by
  decide +kernel

/-! ## the per-pipeline lock: applies for one pipeline never overlap -/

section Lock
open Conduit.LockTable

/-- C16.apply_lock_mutual_exclusion — `ApplyPlan` / `ApplyPlanLive` hold the pipeline's lock for
their entire body (regenerated: `C16_fact_lock_held_for_body`), and the lock table hands all
callers of one id the SAME mutex: with lookup, create and insert inside one `p.mu` section (the
regenerated section structure, `C16_fact_lock_sections`), for every number of callers, every
assignment of pipeline ids to them, every apply function and **every interleaving** (`sched`):
two callers past the get-or-create step with the same id hold the same table entry, and at most
one caller is inside the per-id section at a time. Full strength for the event-system model. -/
theorem C16_apply_lock_mutual_exclusion {σ : Type} (idOf : Nat → LockTable.Id) (f : Nat → σ → σ) (st0 : LockTable.Id → σ)
    (sched : List Nat) :
    let s := LockTable.run ⟨codeShape, idOf, f⟩ (LT.init st0) sched
    (∀ c1 c2, ((s.cs c1).pc = .acquire ∨ LockTable.holds s c1) → ((s.cs c2).pc = .acquire ∨ LockTable.holds s c2) → idOf c1 = idOf c2 →
        (s.cs c1).l = (s.cs c2).l ∧ ((s.cs c1).l).isSome = true) ∧
    (∀ c1 c2, LockTable.holds s c1 → LockTable.holds s c2 → idOf c1 = idOf c2 → c1 = c2) := by
  intro s
  have hi : LockTable.Inv ⟨codeShape, idOf, f⟩ s := LockTable.inv_run _ rfl sched _ (LockTable.inv_init _ st0)
  refine ⟨?_, fun c1 c2 h1 h2 hid => hi.mutex c1 c2 h1 h2 hid⟩
  intro c1 c2 h1 h2 hid
  obtain ⟨a1, b1⟩ := hi.past c1 h1
  obtain ⟨a2, _⟩ := hi.past c2 h2
  have hid' : (⟨codeShape, idOf, f⟩ : Sys σ).idOf c1 = (⟨codeShape, idOf, f⟩ : Sys σ).idOf c2 := hid
  exact ⟨by rw [a1, a2, hid'], by rw [a1]; exact b1⟩

/-- its use in the C16 argument — "the plan-hash re-check and the apply are atomic with respect
to other applies": in every interleaving, when a caller is about to run the mutating part of its
body, the pipeline's state is exactly the state its re-plan / hash comparison was evaluated on.
(Other *applies*: an external `Start` is not under this lock; that window is `flipState`.) -/
theorem C16_apply_sees_checked_state {σ : Type} (idOf : Nat → LockTable.Id) (f : Nat → σ → σ) (st0 : LockTable.Id → σ)
    (sched : List Nat) (c : Nat) :
    let s := LockTable.run ⟨codeShape, idOf, f⟩ (LT.init st0) sched
    (s.cs c).pc = .apply → (s.cs c).snap = some (s.st (idOf c)) := by
  intro s h
  exact (LockTable.inv_run ⟨codeShape, idOf, f⟩ rfl sched _ (LockTable.inv_init _ st0)).snapOk c h

/-- the same with the apply bodies of this file: any number of concurrent `ApplyPlanLive` calls
(each with its own configuration, presented plan, authorisation and lifecycle script; the state
an apply for pipeline `id` works on is `st id`): the sequential program `applyPlanLive` is what
each call amounts to — its mutation starts from the state its staleness test saw. -/
theorem C16_apply_live_atomic_wrt_applies (v : Variant) (cfgs : Nat → PipeCfg) (plans : Nat → PlanView)
    (allows : Nat → Bool) (envs : Nat → LiveEnv) (st0 : LockTable.Id → St) (sched : List Nat) (c : Nat) :
    let sys : Sys St := ⟨codeShape, fun i => (cfgs i).id,
      fun i s => (applyPlanLive v (cfgs i) (plans i) (allows i) (envs i) s).2.1⟩
    let s := LockTable.run sys (LT.init st0) sched
    (s.cs c).pc = .apply → (s.cs c).snap = some (s.st (cfgs c).id) :=
  C16_apply_sees_checked_state _ _ st0 sched c

/-- the split-section variant (read-locked lookup, creation, write-locked insert without
re-check): two first-ever callers for pipeline 7 both miss the lookup, each creates and locks its
own mutex — both are inside the section; and the second one then applies to a state that is not
the one it checked (a stale plan is applied). -/
theorem C16_apply_lock_mutual_exclusion_counterexample_split :
    let sys : Sys Nat := ⟨splitShape, fun _ => 7, fun _ x => x + 1⟩
    let s := LockTable.run sys (LT.init fun _ => 0) [0, 1, 0, 0, 1, 1, 0, 1]
    let s' := LockTable.run sys s [0, 1, 0]
    (holdsB s 0 = true ∧ holdsB s 1 = true ∧ (s.cs 0).l = some 0 ∧ (s.cs 1).l = some 1) ∧
    ((s'.cs 1).pc = .apply ∧ (s'.cs 1).snap = some 0 ∧ s'.st 7 = 1) := by
  decide

/-- non-vacuity: with the code's structure the same schedule leaves caller 1 blocked at
`acquire` on the mutex caller 0 holds; after caller 0 finished, caller 1 checks the new state. -/
example :
    let sys : Sys Nat := ⟨codeShape, fun _ => 7, fun _ x => x + 1⟩
    let s := LockTable.run sys (LT.init fun _ => 0) [0, 1, 0, 1, 0, 1, 0, 1]
    let s' := LockTable.run sys s [0, 0, 1, 1]
    (holdsB s 0 = true ∧ (s.cs 1).pc = .acquire ∧ (s.cs 0).l = some 0 ∧ (s.cs 1).l = some 0) ∧
    ((s'.cs 1).pc = .apply ∧ (s'.cs 1).snap = some 1 ∧ s'.st 7 = 1) := by
  decide

end Lock

end Conduit.Ctl
