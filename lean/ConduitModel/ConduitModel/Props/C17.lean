import ConduitModel.Proofs.StoreDoc

/-!
# C17 — stored entities survive a restart unchanged

Statement (properties.jsonl C17): "Whatever is stored for a pipeline, connector or processor -
including arbitrary binary positions, settings with any Unicode text, status, DLQ configuration,
ordering of references and timestamps - is read back identically by a restarted server, and
records of older supported formats are still understood. A running pipeline is found again as one
to be resumed."

Model: `Model/{Base64,JsonStr,Json,Time,StoreDoc,Resume}.lean` (the codec of the three stores as
it is: goccy/go-json's byte layout, `PrepareSet`, the untyped re-decode of connector `State`,
`migratePre041`, `pipeline.Service.Init` + `lifecycle.Service.Init`). Spec: `Spec/Codec.lean`.
All theorems are for every value of every stored field: `Str = List Char` is every sequence of
Unicode scalar values, `Bytes = List UInt8` every byte string, `Option` every nil-vs-empty choice,
`Int64` every Go `int`. The well-formedness hypotheses (`WF`) are representation invariants
(canonical map order; timestamps `MarshalJSON` accepts; state fits type), see `Spec/Codec.lean`.
-/
namespace Conduit.Codec

/-! ## positions: base64 -/

/-- "arbitrary binary positions": for every byte string, decoding its base64 text gives it back. -/
theorem C17_base64_roundtrip (bs : Bytes) : b64Decode (b64Encode bs) = some bs :=
  b64Decode_encode bs

/-- a `nil` position and an empty one are stored differently (`null` vs `""`) and each is read
back as what it was; every other position too. -/
theorem C17_position_nil_vs_empty :
    encBytes none ≠ encBytes (some []) ∧
    (∀ b : Option Bytes, decBytes (encBytes b) = .ok b) :=
  ⟨by simp [encBytes], decBytes_enc⟩

/-! ## strings: any Unicode text -/

/-- "settings with any Unicode text": for every sequence of Unicode scalar values (controls,
quotes, `<>&`, U+2028/9, astral, …) the literal goccy writes is read back as that sequence. -/
theorem C17_json_string_roundtrip (s : List Char) : unquote (quote s) = some s :=
  unquote_quote s

/-- the same inside a document: reading stops exactly at the closing quote. -/
theorem C17_json_string_roundtrip_in_context (s : List Char) (rest : List Char) :
    unescape (escape s ++ '"' :: rest) = some (s, rest) :=
  unescape_escape s rest

/-- the same at the UTF-8 level: Lean's `String` is the UTF-8 encoding of a scalar sequence, so
this is the statement about the bytes of the Go string and of the literal. -/
theorem C17_json_string_roundtrip_utf8 (s : String) : unquoteString (quoteString s) = some s := by
  simp [unquoteString, quoteString, String.toList_ofList, unquote_quote, String.ofList_toList]

/-- per character: whatever the escaper writes for `c` (itself, a short escape or `\uXXXX`) is
read back as `c`. -/
theorem C17_json_char_roundtrip (c : Char) (rest : List Char) :
    unescFrom none (escapeChar c ++ rest) = push c (unescFrom none rest) :=
  unescFrom_escapeChar c rest

/-! ## documents: printer and parser -/

/-- every JSON tree printed in goccy's compact layout is parsed back to the same tree (member
order and duplicates included), also with the newline `Encoder.Encode` appends. -/
theorem C17_json_print_parse (j : Json) : parse j.print = some j ∧ parse (j.print ++ ['\n']) = some j :=
  ⟨parse_print j, parse_print_newline j⟩

/-! ## the three stored entities -/

/-- connector: the bytes `Store.Set` writes are decoded by a new store's `Get` to the same
instance — every field, incl. the `State` that goes through `any` and is marshalled again. -/
theorem C17_connector_roundtrip (x : ConnInstance) (h : x.WF) : ConnSurvives x := by
  simp [ConnSurvives, loadConn, storeConn, parse_print, decConn_encConn x h]

/-- pipeline (with status and DLQ configuration). -/
theorem C17_pipeline_roundtrip (x : PipeInstance) (h : x.WF) : PipeSurvives x := by
  simp [PipeSurvives, loadPipe, storePipe, parse_print_newline, decPipe_encPipe x h]

/-- processor. -/
theorem C17_processor_roundtrip (x : ProcInstance) (h : x.WF) : ProcSurvives x := by
  simp [ProcSurvives, loadProc, storeProc, parse_print_newline, decProc_encProc x h]

/-- tree level (what the decoders do with the encoders' output), without the text layer. -/
theorem C17_value_roundtrip :
    (∀ x : ConnInstance, x.WF → decConn (encConn x) = .ok x) ∧
    (∀ x : PipeInstance, x.WF → decPipe (encPipe x) = .ok x) ∧
    (∀ x : ProcInstance, x.WF → decProc (encProc x) = .ok x) :=
  ⟨decConn_encConn, decPipe_encPipe, decProc_encProc⟩

/-- nothing is conflated: two well-formed connectors with the same stored bytes are the same
(so nil/empty, order of references, every character and byte are all visible in the stored form).
Same for pipelines and processors. -/
theorem C17_store_injective :
    (∀ x y : ConnInstance, x.WF → y.WF → storeConn x = storeConn y → x = y) ∧
    (∀ x y : PipeInstance, x.WF → y.WF → storePipe x = storePipe y → x = y) ∧
    (∀ x y : ProcInstance, x.WF → y.WF → storeProc x = storeProc y → x = y) := by
  refine ⟨fun x y hx hy e => ?_, fun x y hx hy e => ?_, fun x y hx hy e => ?_⟩
  · have h1 := C17_connector_roundtrip x hx
    have h2 := C17_connector_roundtrip y hy
    simp only [ConnSurvives, e] at h1 h2
    rw [h1] at h2; injection h2 with h2; injection h2
  · have h1 := C17_pipeline_roundtrip x hx
    have h2 := C17_pipeline_roundtrip y hy
    simp only [PipeSurvives, e] at h1 h2
    rw [h1] at h2; injection h2 with h2; injection h2
  · have h1 := C17_processor_roundtrip x hx
    have h2 := C17_processor_roundtrip y hy
    simp only [ProcSurvives, e] at h1 h2
    rw [h1] at h2; injection h2 with h2; injection h2

/-- nil vs empty for reference lists and settings maps: stored differently (`null` vs `[]` /
`{}`), each read back as what it was. -/
theorem C17_nil_vs_empty_preserved :
    encStrList none ≠ encStrList (some []) ∧ encStrMap none ≠ encStrMap (some []) ∧
    encBytesMap none ≠ encBytesMap (some []) ∧
    decStrList (encStrList none) = .ok none ∧ decStrList (encStrList (some [])) = .ok (some []) ∧
    decStrMap (encStrMap none) = .ok none ∧ decStrMap (encStrMap (some [])) = .ok (some []) ∧
    decBytesMap (encBytesMap none) = .ok none ∧ decBytesMap (encBytesMap (some [])) = .ok (some []) := by
  refine ⟨by simp [encStrList], by simp [encStrMap], by simp [encBytesMap], rfl, rfl, rfl, rfl, rfl, rfl⟩

/-- "ordering of references": a reference list is read back as the same list — same order, same
duplicates — whatever its elements. -/
theorem C17_reference_order_preserved (l : Option (List Str)) : decStrList (encStrList l) = .ok l :=
  decStrList_enc l

/-- "timestamps": every timestamp `MarshalJSON` accepts is read back with the same civil time,
nanoseconds and zone offset (hence the same instant). -/
theorem C17_timestamp_roundtrip (t : Time) (h : t.valid = true) : parseTime (formatTime t) = some t :=
  parseTime_formatTime t h

/-- the untyped detour of connector `State` (`any` → marshal → typed) changes nothing. -/
theorem C17_state_redecode (type : Int64) (st : ConnState) (hs : st.sorted) (hm : st.fits type) :
    decConnState type (encConnState st) = .ok st :=
  decConnState_enc type st hs hm

/-- `State == nil` stays nil whatever the type; a non-nil state under an invalid type is refused
with `ErrInvalidConnectorType` (not silently dropped). -/
theorem C17_state_nil_and_invalid_type (type : Int64) :
    decConnState type .null = .ok .none ∧
    (type ≠ typeSource → type ≠ typeDestination → ∀ p, decConnState type (encConnState (.source p)) = .error .invalidConnectorType) := by
  refine ⟨rfl, fun h1 h2 p => ?_⟩
  simp [decConnState, encConnState, h1, h2]

/-! ## maps, member order, keys -/

/-- Go maps are unordered; the model keeps them in goccy's member order. Every member list (any
order, duplicates — later wins — included) has such a canonical form, and a canonical form is a
fixed point: the `Sorted` hypotheses of the theorems restrict nothing. -/
theorem C17_every_map_has_canonical_form {α : Type} (l : List (Str × α)) :
    SMap.Sorted (SMap.ofList l) ∧ (SMap.Sorted l → SMap.ofList l = l) :=
  ⟨SMap.ofList_is_sorted l, SMap.ofList_sorted l⟩

/-- the decoders do not depend on the order of a document's members: the members of a stored
connector / pipeline / processor document, in any order, decode to the instance. -/
theorem C17_member_order_irrelevant :
    (∀ (x : ConnInstance), x.WF → ∀ kvs l, encConn x = .obj kvs → l.Perm kvs → decConn (.obj l) = .ok x) ∧
    (∀ (x : PipeInstance), x.WF → ∀ kvs l, encPipe x = .obj kvs → l.Perm kvs → decPipe (.obj l) = .ok x) ∧
    (∀ (x : ProcInstance), x.WF → ∀ kvs l, encProc x = .obj kvs → l.Perm kvs → decProc (.obj l) = .ok x) := by
  refine ⟨fun x h kvs l e hp => ?_, fun x h kvs l e hp => ?_, fun x h kvs l e hp => ?_⟩
  · have hn : (kvs.map (·.1)).Nodup := by
      simp only [encConn, encConnWith, Json.obj.injEq] at e; subst e; simp only [List.map]; decide
    rw [← decConn_perm hp.symm hn, ← e]; exact decConn_encConn x h
  · have hn : (kvs.map (·.1)).Nodup := by
      simp only [encPipe, Json.obj.injEq] at e; subst e; simp only [List.map]; decide
    rw [← decPipe_perm hp.symm hn, ← e]; exact decPipe_encPipe x h
  · have hn : (kvs.map (·.1)).Nodup := by
      simp only [encProc, Json.obj.injEq] at e; subst e; simp only [List.map]; decide
    rw [← decProc_perm hp.symm hn, ← e]; exact decProc_encProc x h

/-- store keys: `trimKeyPrefix (addKeyPrefix id) = id` for every ID, and the key spaces of the
three stores and of the pre-0.4.1 format are disjoint (no store's `GetKeys(prefix)` sees a key of
another, whatever the IDs). -/
theorem C17_store_keys :
    (∀ (pre : String) (id : Str), trimKey pre (storeKey pre id) = id) ∧
    (∀ id : Str, connKeyPrefix.toList.isPrefixOf (storeKey connPre041KeyPrefix id) = false) ∧
    (∀ id : Str, connPre041KeyPrefix.toList.isPrefixOf (storeKey connKeyPrefix id) = false) ∧
    (∀ id : Str, connKeyPrefix.toList.isPrefixOf (storeKey pipeKeyPrefix id) = false) ∧
    (∀ id : Str, connKeyPrefix.toList.isPrefixOf (storeKey procKeyPrefix id) = false) ∧
    (∀ id : Str, pipeKeyPrefix.toList.isPrefixOf (storeKey connKeyPrefix id) = false) ∧
    (∀ id : Str, pipeKeyPrefix.toList.isPrefixOf (storeKey procKeyPrefix id) = false) ∧
    (∀ id : Str, procKeyPrefix.toList.isPrefixOf (storeKey connKeyPrefix id) = false) ∧
    (∀ id : Str, procKeyPrefix.toList.isPrefixOf (storeKey pipeKeyPrefix id) = false) :=
  ⟨trimKey_storeKey, fun _ => rfl, fun _ => rfl, fun _ => rfl, fun _ => rfl, fun _ => rfl, fun _ => rfl,
   fun _ => rfl, fun _ => rfl⟩

/-! ## older formats -/

/-- a connector document written before `LastActiveConfig` existed (the member is absent) is
understood: every other field as stored, `LastActiveConfig` zero. -/
theorem C17_older_document_without_LastActiveConfig (x : ConnInstance) (h : x.WF) :
    decConn (match encConn x with
      | .obj kvs => .obj (kvs.filter fun kv => kv.1 ≠ key "LastActiveConfig")
      | j => j) = .ok { x with lastActiveConfig := ⟨[], none⟩ } := by
  obtain ⟨h1, _, h3, h4, h5, h6⟩ := h
  cases x with
  | mk id type config pipelineID plugin processorIDs state provisionedBy createdAt updatedAt lastActiveConfig =>
    have e1 := decConnConfig_enc config h1
    have e3 := decConnState_enc type state h3 h6
    have e4 := decTime_enc createdAt h4
    have e5 := decTime_enc updatedAt h5
    have e2 : decConnConfig .null = .ok ⟨[], none⟩ := rfl
    simp (config := {decide := true}) [decConn, encConn, encConnWith, Json.field, decStr, decInt_encInt,
      decStrList_enc, e1, e2, e3, e4, e5]

/-- pre-0.4.1 connectors: for every old record, the migrated document is stored under the record's
ID, and a store reading it gets exactly the specified instance — every field of the old document
carried over (`Type` name ↦ constant, `XState` re-typed), nothing else set. -/
theorem C17_pre041_migration_preserves (o : OldRecord) (h : o.WF) (hid : o.xid ≠ []) :
    (migrateDoc (encOld o)).map (fun p => (p.1, decConn p.2)) = some (o.xid, .ok o.migrated) := by
  obtain ⟨h1, h2, h3, h4⟩ := h
  have wf : o.migrated.WF := by
    refine ⟨h1, trivial, ?_, h3, h4, ?_⟩
    · simp only [OldRecord.migrated, OldRecord.state]; split <;> simp [ConnState.sorted, h2]
    · simp only [ConnInstance.stateMatches, OldRecord.migrated, OldRecord.state]; split <;> simp_all [ConnState.fits]
  have hdec : decOldConn (encOld o) = .ok
      ⟨if o.isSource then key "Source" else key "Destination", o.xid, o.name, o.settings, o.plugin, o.pipelineID,
       o.processorIDs, encConnState o.state, o.provisionedBy, o.createdAt, o.updatedAt⟩ := by
    simp (config := {decide := true}) [decOldConn, encOld, Json.field, decStr, decObj, decInt_encInt,
      decStrList_enc, decStrMap_enc o.settings h1, decTime_enc _ h3, decTime_enc _ h4]
  have hdoc : migrateDoc (encOld o) = some (o.xid, encConn o.migrated) := by
    simp only [migrateDoc, hdec, migrateInst]
    cases hs : o.isSource <;>
      simp (config := {decide := true}) [hid, encConn, encConnWith, OldRecord.migrated, hs]
  simp [hdoc, decConn_encConn _ wf]

/-- the same from the stored text of the old document. -/
theorem C17_pre041_migration_from_text (o : OldRecord) (h : o.WF) (hid : o.xid ≠ []) :
    ((parse (encOld o).print).bind migrateDoc).map (fun p => (p.1, decConn p.2)) = some (o.xid, .ok o.migrated) := by
  rw [parse_print]
  exact C17_pre041_migration_preserves o h hid

/-- records with an unknown type name or an empty ID are left alone (skipped), never half-written. -/
theorem C17_pre041_unknown_type_skipped (o : OldConn) (h1 : o.type ≠ key "Source") (h2 : o.type ≠ key "Destination") :
    migrateInst o = none := by
  simp [migrateInst, h1, h2]

/-! ### a whole store of old and current records -/

theorem isOldKey_storeKey_old (sfx : Str) : isOldKey (storeKey connPre041KeyPrefix sfx) = true := by
  simp [isOldKey, storeKey, List.isPrefixOf_iff_prefix]

theorem isOldKey_storeKey_new (id : Str) : isOldKey (storeKey connKeyPrefix id) = false :=
  C17_store_keys.2.2.1 id

/-- "records of older supported formats are still understood", for a *store*: the migration run by
`NewStore` is a per-record map — the record the restarted server finds at position `i` depends on
the record that was at position `i` and on nothing else; migrating two stores put together is
putting the two migrated stores together (whatever else is in the store — other old connectors with
other plugins / setting keys / missing members, current-format records — and in whatever order). -/
theorem C17_pre041_store_independent (a b : KV) :
    migrateStore (a ++ b) = migrateStore a ++ migrateStore b ∧
    (∀ (db : KV) (i : Nat), (migrateStore db)[i]? = db[i]?.map migrateRec) ∧
    (∀ (db : KV) (r : Str × List Char), r ∈ migrateStore db ↔ ∃ r₀ ∈ db, migrateRec r₀ = r) := by
  refine ⟨by simp [migrateStore], fun db i => by simp [migrateStore], fun db r => by simp [migrateStore]⟩

/-- records that are not in the old format (current connectors, pipelines, processors, anything
else in the database) come through the migration untouched, byte for byte. -/
theorem C17_pre041_store_leaves_current_untouched (db : KV) (r : Str × List Char) (hr : r ∈ db)
    (hk : isOldKey r.1 = false) : migrateRec r = r ∧ r ∈ migrateStore db := by
  have h : migrateRec r = r := by simp [migrateRec, hk]
  exact ⟨h, by simp only [migrateStore, List.mem_map]; exact ⟨r, hr, h⟩⟩

/-- every well-formed old record of the store — wherever it sits, under whatever old key, next to
whatever other records — ends up under the new key of its own ID, as bytes from which a store reads
exactly the specified instance (all its own fields, nothing from any other record). -/
theorem C17_pre041_store_migrates_each (db₁ db₂ : KV) (sfx : Str) (o : OldRecord) (h : o.WF) (hid : o.xid ≠ []) :
    ∃ bytes, migrateStore (db₁ ++ (storeKey connPre041KeyPrefix sfx, (encOld o).print) :: db₂)
        = migrateStore db₁ ++ (storeKey connKeyPrefix o.xid, bytes) :: migrateStore db₂ ∧
      loadConn bytes = some (.ok o.migrated) := by
  have ht := C17_pre041_migration_from_text o h hid
  cases hm : (parse (encOld o).print).bind migrateDoc with
  | none => rw [hm] at ht; simp at ht
  | some p =>
    rw [hm] at ht
    simp only [Option.map_some, Option.some.injEq, Prod.mk.injEq] at ht
    refine ⟨p.2.print, ?_, ?_⟩
    · simp only [migrateStore, List.map_append, List.map_cons, migrateRec, isOldKey_storeKey_old, if_true, hm, ht.1]
    · simp [loadConn, parse_print, ht.2]

/-- a second restart finds nothing left to migrate and changes nothing. -/
theorem C17_pre041_store_idempotent (db : KV) : migrateStore (migrateStore db) = migrateStore db := by
  simp only [migrateStore, List.map_map]
  apply List.map_congr_left
  intro r _
  simp only [Function.comp]
  by_cases hk : isOldKey r.1 = true
  · cases hm : (parse r.2).bind migrateDoc with
    | none =>
      have : migrateRec r = r := by simp [migrateRec, hk, hm]
      rw [this, this]
    | some p =>
      have : migrateRec r = (storeKey connKeyPrefix p.1, p.2.print) := by simp [migrateRec, hk, hm]
      rw [this]
      simp [migrateRec, isOldKey_storeKey_new]
  · have : migrateRec r = r := by simp [migrateRec, hk]
    rw [this, this]

/-! ## a running pipeline is found again as one to be resumed -/

/-- a restart reads every stored pipeline back (the round trip), applies `pipeline.Service.Init`
and starts what `lifecycle.Service.Init` selects. -/
theorem C17_restart_loads_all (ps : List PipeInstance) (h : ∀ p ∈ ps, p.WF) :
    restart (ps.map storePipe) = some (pipelineInit ps, lifecycleStarts (pipelineInit ps)) := by
  have : (ps.map storePipe).mapM loadedPipe = some ps := by
    induction ps with
    | nil => rfl
    | cons p t ih =>
      have hp : loadedPipe (storePipe p) = some p := by
        have := C17_pipeline_roundtrip p (h p (by simp))
        simp only [PipeSurvives] at this
        simp [loadedPipe, this]
      have := ih (fun q hq => h q (by simp [hq]))
      simp [List.mapM_cons, hp, this]
  unfold restart
  rw [this]

/-- a pipeline stored with status Running is, after the restart, in memory with status
SystemStopped — everything else about it as stored — and is among the pipelines that
`lifecycle.Service.Init` starts. -/
theorem C17_running_resumed (ps : List PipeInstance) (p : PipeInstance) (hp : p ∈ ps)
    (hr : p.status = statusRunning) :
    { p with status := statusSystemStopped } ∈ pipelineInit ps ∧ p.id ∈ lifecycleStarts (pipelineInit ps) := by
  have h1 : { p with status := statusSystemStopped } ∈ pipelineInit ps := by
    simp only [pipelineInit, List.mem_map]
    exact ⟨p, hp, by simp [initStatus, hr]⟩
  exact ⟨h1, (mem_lifecycleStarts _ _).mpr ⟨_, h1, rfl, rfl⟩⟩

/-- a pipeline stored as SystemStopped (the server went down before resuming it) is resumed too. -/
theorem C17_system_stopped_resumed (ps : List PipeInstance) (p : PipeInstance) (hp : p ∈ ps)
    (hs : p.status = statusSystemStopped) :
    p ∈ pipelineInit ps ∧ p.id ∈ lifecycleStarts (pipelineInit ps) := by
  have h1 : p ∈ pipelineInit ps := by
    simp only [pipelineInit, List.mem_map]
    have hne : p.status ≠ statusRunning := by rw [hs]; decide
    exact ⟨p, hp, by simp [initStatus, hne]⟩
  exact ⟨h1, (mem_lifecycleStarts _ _).mpr ⟨_, h1, hs, rfl⟩⟩

/-- a pipeline stored UserStopped, Degraded (or any status other than Running / SystemStopped) is
in memory exactly as stored and is NOT started (store keys, i.e. IDs, are distinct). -/
theorem C17_stopped_not_resumed (ps : List PipeInstance) (hn : (ps.map (·.id)).Nodup) (p : PipeInstance)
    (hp : p ∈ ps) (h1 : p.status ≠ statusRunning) (h2 : p.status ≠ statusSystemStopped) :
    p ∈ pipelineInit ps ∧ p.id ∉ lifecycleStarts (pipelineInit ps) := by
  refine ⟨?_, ?_⟩
  · simp only [pipelineInit, List.mem_map]
    exact ⟨p, hp, by simp [initStatus, h1]⟩
  · rw [mem_lifecycleStarts]
    rintro ⟨q, hq, hqs, hqi⟩
    simp only [pipelineInit, List.mem_map] at hq
    obtain ⟨q0, hq0, rfl⟩ := hq
    have hid : q0.id = p.id := by
      rw [← hqi]; unfold initStatus; split <;> rfl
    have := eq_of_mem_of_id_eq ps hn q0 hq0 p hp hid
    subst this
    simp [initStatus, h1] at hqs
    exact h2 hqs

/-- in particular UserStopped and Degraded. -/
theorem C17_user_stopped_and_degraded_not_resumed (ps : List PipeInstance) (hn : (ps.map (·.id)).Nodup)
    (p : PipeInstance) (hp : p ∈ ps) (h : p.status = statusUserStopped ∨ p.status = statusDegraded) :
    p.id ∉ lifecycleStarts (pipelineInit ps) := by
  apply (C17_stopped_not_resumed ps hn p hp _ _).2 <;> (rcases h with h | h <;> rw [h] <;> decide)

/-- `pipeline.Service.Init` changes nothing but the status, and only Running → SystemStopped. -/
theorem C17_init_changes_only_status (p : PipeInstance) :
    { initStatus p with status := p.status } = p ∧
    ((initStatus p).status = p.status ∨ (p.status = statusRunning ∧ (initStatus p).status = statusSystemStopped)) := by
  unfold initStatus
  by_cases h : p.status = statusRunning
  · cases p; simp_all
  · simp [h]

/-! ## non-vacuity: the hypotheses are satisfiable, the functions compute -/

def exConn : ConnInstance :=
  { id := key "c<1>", type := typeDestination, config := ⟨key "n\"\\\n", some [(key "!", key "é"), (key "", key "😀"), (key "a!", []), (key "a", key "\u2028")]⟩,
    pipelineID := key "p", plugin := key "builtin:file", processorIDs := some [key "b", key "a", key "b"],
    state := .destination (some [(key "s1", none), (key "s2", some []), (key "s3", some [0, 255, 16])]),
    provisionedBy := 1, createdAt := ⟨2026, 6, 15, 9, 30, 0, 123000000, 330⟩, updatedAt := Time.zero,
    lastActiveConfig := ⟨[], none⟩ }

example : exConn.WF := by
  refine ⟨?_, trivial, ?_, by decide, by decide, ?_⟩
  · show SMap.Sorted _; unfold SMap.Sorted; decide
  · show SMap.Sorted _; unfold SMap.Sorted; decide
  · show typeDestination = typeDestination; rfl

/-- goccy's member order (by quoted key): `"!"` before `""` before `"a!"` before `"a"`. -/
example : keyLt (key "!") (key "") = true ∧ keyLt (key "") (key "a!") = true ∧ keyLt (key "a!") (key "a") = true := by decide

/-- the stored text of the state and of the settings map of `exConn`, as goccy writes them. -/
example : (encConnState exConn.state).print = "{\"Positions\":{\"s1\":null,\"s2\":\"\",\"s3\":\"AP8Q\"}}".toList := by
  decide

example : (encStrMap exConn.config.settings).print = "{\"!\":\"é\",\"\":\"😀\",\"a!\":\"\",\"a\":\"\\u2028\"}".toList := by
  decide

example : b64Encode [0, 255, 16] = "AP8Q".toList ∧ b64Decode "AP8=".toList = some [0, 255] ∧ b64Decode "AP8".toList = none := by decide

example : quote [Char.ofNat 8, '<', '\n', Char.ofNat 0x2028, Char.ofNat 0x1F600, Char.ofNat 0x7f] =
    "\"\\u0008\\u003c\\n\\u2028😀\x7f\"".toList := by decide

/-- the restart theorems have instances: a Running and a UserStopped pipeline. -/
def exPipe (id : String) (status : Int64) : PipeInstance :=
  { id := key id, config := ⟨key "n", []⟩, error := [], createdAt := Time.zero, updatedAt := Time.zero,
    provisionedBy := 0, dlq := ⟨key "builtin:log", some [], 1, 0⟩, connectorIDs := none, processorIDs := some [],
    status := status }

example : (exPipe "a" statusRunning).WF ∧ (exPipe "b" statusUserStopped).WF :=
  ⟨⟨by show SMap.Sorted _; unfold SMap.Sorted; decide, by decide, by decide⟩,
   ⟨by show SMap.Sorted _; unfold SMap.Sorted; decide, by decide, by decide⟩⟩

example : lifecycleStarts (pipelineInit [exPipe "a" statusRunning, exPipe "b" statusUserStopped, exPipe "c" statusDegraded]) = [key "a"] := by
  decide

end Conduit.Codec
