import ConduitModel.Proofs.Egress

/-!
# C18 — processor egress never reaches private/metadata addresses unless carved out

Statement (properties.jsonl C18): "A host-mediated request made on behalf of a standalone
processor connects only to an address that is public unicast, or that is an exact IP-and-port
pair the operator explicitly allowed; loopback, private, link-local (cloud metadata), CGNAT,
multicast and every IPv6 form that embeds such an IPv4 address are refused for every resolved
candidate at connect time, whatever the hostname, encoding, redirect or proxy environment. The
effective policy of a processor never exceeds the operator's engine-wide ceiling in hosts,
secrets, timeout or response size."

The theorems here are for EVERY table set `t`, policy, port, resolver answer list and connect
outcome; `CoversFloor t` (every address of the documented floor is refused by `t`) is proved for
the regenerated tables in `Facts/C18` (∀ a < 2^32, ∀ x < 2^128, kernel-checked, no enumeration).
-/
namespace Conduit.Egress

/-! ## the dial loop -/

/-- C18.dial_only_unrefused_or_carved — "refused for every resolved candidate at connect time":
for every resolver answer list (any length, order, mix of address forms), every policy, port,
connect outcome AND every way the base dialer may derive socket addresses from a candidate
(`expand`: wildcard fallback, happy eyeballs …), connect(2) is attempted only on an address that
`Refuse` allows by range or that is an exact (IP, port) allowlist entry — and only for candidates
that passed the per-candidate gate. -/
theorem C18_dial_only_unrefused_or_carved (t : Tables) (p : Policy) (port : String) (expand : IP → List IP)
    (ok : IP → Bool) (hv : ∀ ip, ∀ a ∈ expand ip, a.Valid) (cands : List IP) :
    ∀ a ∈ connectAttempts (dialContext t p port expand ok cands).flatten,
      (refused t a = false ∨ matchesCarveOut p a port = true) ∧
      ∃ ip ∈ cands, a ∈ expand ip ∧ (refused t ip = false ∨ matchesCarveOut p ip port = true) := by
  induction cands with
  | nil => simp [dialContext, connectAttempts]
  | cons c cs ih =>
    intro a ha
    have lift : ∀ a ∈ connectAttempts (dialContext t p port expand ok cs).flatten,
        (refused t a = false ∨ matchesCarveOut p a port = true) ∧
        ∃ ip ∈ c :: cs, a ∈ expand ip ∧ (refused t ip = false ∨ matchesCarveOut p ip port = true) := by
      intro a h
      obtain ⟨h1, ip, hip, h2⟩ := ih a h
      exact ⟨h1, ip, List.mem_cons_of_mem _ hip, h2⟩
    unfold dialContext at ha
    by_cases hg : (refused t c && !matchesCarveOut p c port) = true
    · simp only [hg, if_true, List.flatten_cons, connectAttempts_append, connectAttempts, List.nil_append] at ha
      exact lift a ha
    · have hgate : refused t c = false ∨ matchesCarveOut p c port = true := by
        cases h1 : refused t c <;> cases h2 : matchesCarveOut p c port <;> simp_all
      have hbase := connectAttempts_baseDial t p port ok (expand c) (hv c)
      simp only [hg, if_false, Bool.false_eq_true] at ha
      by_cases hcn : (baseDial t p port ok (expand c)).any Attempt.isConnected = true
      · simp only [hcn, if_true, List.flatten_cons, List.flatten_nil, List.append_nil] at ha
        exact ⟨(hbase a ha).2, c, by simp, (hbase a ha).1, hgate⟩
      · simp only [hcn, if_false, Bool.false_eq_true, List.flatten_cons, connectAttempts_append,
          List.mem_append] at ha
        rcases ha with ha | ha
        · exact ⟨(hbase a ha).2, c, by simp, (hbase a ha).1, hgate⟩
        · exact lift a ha

/-- C18.dial_only_public_or_carved — the property's first sentence: with tables that cover the
floor, every address connect(2) is attempted on is outside the floor (loopback, this-network,
RFC 1918, link-local/metadata, CGNAT, multicast/reserved, ULA, site-local and every embedded-IPv4
form of those) or is an exact (IP, port) pair of the allowlist. -/
theorem C18_dial_only_public_or_carved (t : Tables) (hc : CoversFloor t) (p : Policy) (port : String)
    (expand : IP → List IP) (ok : IP → Bool) (hv : ∀ ip, ∀ a ∈ expand ip, a.Valid) (cands : List IP) :
    ∀ a ∈ connectAttempts (dialContext t p port expand ok cands).flatten,
      ¬ Floor a ∨ matchesCarveOut p a port = true := by
  intro a ha
  obtain ⟨h | h, ip, _, hmem, _⟩ := C18_dial_only_unrefused_or_carved t p port expand ok hv cands a ha
  · refine Or.inl fun hf => ?_
    have := hc a (hv ip a hmem) hf
    simp [h] at this
  · exact Or.inr h

/-- C18.every_refused_address_untouched — "for every resolved candidate": an address that is
refused and not carved out is never connected to, wherever it stands in the answer
(public-then-private, private-then-public, dual stack) and however the dialer got to it. -/
theorem C18_every_refused_address_untouched (t : Tables) (p : Policy) (port : String) (expand : IP → List IP)
    (ok : IP → Bool) (hv : ∀ ip, ∀ a ∈ expand ip, a.Valid) (cands : List IP) (a : IP)
    (hr : refused t a = true) (hn : matchesCarveOut p a port = false) :
    a ∉ connectAttempts (dialContext t p port expand ok cands).flatten := by
  intro h
  rcases (C18_dial_only_unrefused_or_carved t p port expand ok hv cands a h).1 with h' | h' <;> simp_all

/-- C18.refused_candidate_never_reaches_dialer — a candidate the gate refuses produces exactly one
`skipped` event: the base dialer is not even called for it. -/
theorem C18_refused_candidate_never_reaches_dialer (t : Tables) (p : Policy) (port : String)
    (expand : IP → List IP) (ok : IP → Bool) (ip : IP) (rest : List IP)
    (hr : refused t ip = true) (hn : matchesCarveOut p ip port = false) :
    dialContext t p port expand ok (ip :: rest) = [.skipped ip] :: dialContext t p port expand ok rest := by
  rw [dialContext]; simp [hr, hn]

/-- C18.control_agrees_with_gate — the syscall-level `Control` hook decides on the re-parsed
address exactly as the per-candidate gate did (same range verdict, same carve-out), so it can
only ever refuse what the gate refused: it is a second lock, never a different one. -/
theorem C18_control_agrees_with_gate (t : Tables) (p : Policy) (ip : IP) (port : String) (hv : ip.Valid) :
    dialControl t p ip port = (!(refused t ip) || matchesCarveOut p ip port) :=
  dialControl_eq_gate t p ip port hv

/-- C18.control_alone_suffices — even without the per-candidate gate, an address on which the
Control hook lets connect(2) proceed is unrefused or carved out. -/
theorem C18_control_alone_suffices (t : Tables) (p : Policy) (ip : IP) (port : String) (hv : ip.Valid)
    (h : dialControl t p ip port = true) : refused t ip = false ∨ matchesCarveOut p ip port = true := by
  rw [dialControl_eq_gate t p ip port hv] at h
  cases h1 : refused t ip <;> simp_all

/-- C18.carve_out_is_exact_pair — a carve-out admits the exact (IP, port) pair only: it needs an
IP-literal allowlist entry with that very port whose address equals the dialed one. -/
theorem C18_carve_out_is_exact_pair (p : Policy) (ip : IP) (port : String)
    (h : matchesCarveOut p ip port = true) :
    ∃ e ∈ p.allow, ∃ eip, e.ip = some eip ∧ e.port = port ∧ ipEqual eip ip = true := by
  simp only [matchesCarveOut, List.any_eq_true] at h
  obtain ⟨e, he, h⟩ := h
  cases hip : e.ip with
  | none => simp [hip] at h
  | some eip =>
    simp only [hip, Bool.and_eq_true, beq_iff_eq] at h
    exact ⟨e, he, eip, hip, h.1, h.2⟩

/-- C18.deny_all_dials_nothing_private — with an empty allowlist nothing refused is dialed. -/
theorem C18_no_allowlist_no_carve_out (ip : IP) (port : String) : matchesCarveOut denyAll ip port = false := rfl

/-! ## one whole request -/

/-- C18.do_only_public_or_carved — the first sentence for a whole `Service.Do`: whatever the URL
host (DNS name or IP literal in any spelling), the resolver's answer, the server's reply
(including a redirect) and the dialer's address derivation, every connect(2) of the request goes
to an address outside the floor or to an exact (IP, port) allowlist pair — and none happens at
all unless the processor opted in and Stage 1 matched. -/
theorem C18_do_only_public_or_carved (t : Tables) (hc : CoversFloor t) (p : Policy) (scheme host port : String)
    (reqIP : Option IP) (expand : IP → List IP) (ok : IP → Bool) (hv : ∀ ip, ∀ a ∈ expand ip, a.Valid)
    (answers : Option (List IP)) (redirects : Bool) :
    ∀ a ∈ connectAttempts (doRequest t p scheme host port reqIP expand ok answers redirects).2.flatten,
      (¬ Floor a ∨ matchesCarveOut p a port = true) ∧
      p.enabled = true ∧ matchHostPort p scheme host port reqIP = true := by
  intro a ha
  rcases doRequest_events t p scheme host port reqIP expand ok answers redirects with h | ⟨hen, cs, h⟩
  · rw [h] at ha; simp [connectAttempts] at ha
  · rw [h] at ha
    exact ⟨C18_dial_only_public_or_carved t hc p port expand ok hv cs a ha, hen⟩

/-- C18.redirect_never_followed — a 3xx answer ends the request with `forbidden`; the model of
`Do` performs at most one exchange, on the connection `dialContext` returned (CheckRedirect
returning an error unconditionally is a regenerated fact). -/
theorem C18_redirect_never_followed (t : Tables) (p : Policy) (scheme host port : String) (reqIP : Option IP)
    (expand : IP → List IP) (ok : IP → Bool) (answers : Option (List IP)) :
    (doRequest t p scheme host port reqIP expand ok answers true).1 ≠ .ok := by
  unfold doRequest
  split
  · simp
  · split
    · simp
    · cases candidatesOf reqIP answers with
      | none => simp [doDial]
      | some cs =>
        cases cs with
        | nil => simp [doDial]
        | cons c cs =>
          simp only [doDial]
          repeat' split
          all_goals simp_all

/-! ## effective policy ≤ ceiling -/

/-- C18.effective_le_ceiling — "The effective policy of a processor never exceeds the operator's
engine-wide ceiling in hosts, secrets, timeout or response size", for every pair of policies:
* enabled only if both the processor and the ceiling opted in;
* every effective host entry was requested AND is within the ceiling's host set;
* every effective secret ref was requested AND is within the ceiling's grant;
* a positive ceiling timeout / size bounds the effective one; the effective ones are positive. -/
theorem C18_effective_le_ceiling (d : Defaults) (hd : 0 < d.timeout ∧ 0 < d.maxBytes) (per c : Policy) :
    let eff := (resolvePolicy d per c).1
    (eff.enabled = true → per.enabled = true ∧ c.enabled = true) ∧
    (∀ e ∈ eff.allow, e ∈ per.allow ∧ ceilingAllowsEntry c e) ∧
    (∀ s ∈ eff.secrets, s ∈ per.secrets ∧ ceilingGrantsSecret c s) ∧
    (eff.enabled = true → 0 < c.timeout → eff.timeout ≤ c.timeout) ∧
    (eff.enabled = true → 0 < c.maxBytes → eff.maxBytes ≤ c.maxBytes) ∧
    (eff.enabled = true → 0 < eff.timeout ∧ 0 < eff.maxBytes) := by
  unfold resolvePolicy
  by_cases hp : per.enabled = true
  · by_cases hcE : c.enabled = true
    · simp only [hp, hcE, Bool.not_true, Bool.false_eq_true, if_false]
      by_cases hca : c.allow.isEmpty = true
      · have hnil : c.allow = [] := List.isEmpty_iff.mp hca
        simp only [hca, if_true]
        refine ⟨fun _ => by simp, fun e he => ⟨he, Or.inl hnil⟩, ?_, ?_, ?_, ?_⟩
        · intro s hs
          by_cases hcs : c.secrets.isEmpty = true
          · simp only [hcs, if_true] at hs
            exact ⟨hs, Or.inl ⟨hnil, List.isEmpty_iff.mp hcs⟩⟩
          · simp only [hcs, if_false, Bool.false_eq_true, intersectRefs, List.mem_filter,
              List.contains_iff_mem] at hs
            exact ⟨hs.1, Or.inr hs.2⟩
        all_goals (intros; (repeat' split) <;> omega)
      · simp only [hca, if_false, Bool.false_eq_true]
        refine ⟨fun _ => by simp, ?_, ?_, ?_, ?_, ?_⟩
        · intro e he
          simp only [List.mem_filter, List.contains_iff_mem, List.mem_map] at he
          obtain ⟨hm, c', hc', hk⟩ := he
          exact ⟨hm, Or.inr ⟨c', hc', hk⟩⟩
        · intro s hs
          simp only [intersectRefs, List.mem_filter, List.contains_iff_mem] at hs
          exact ⟨hs.1, Or.inr hs.2⟩
        all_goals (intros; (repeat' split) <;> omega)
    · simp [hp, hcE, denyAll]
  · simp [hp, denyAll]

/-- C18.dropped_or_kept — entries the ceiling does not permit are dropped and REPORTED, never
silently honoured: with both sides enabled, every requested entry is either effective or in
`dropped`, and a dropped entry is outside the ceiling's host set. -/
theorem C18_dropped_or_kept (d : Defaults) (per c : Policy) (hp : per.enabled = true) (hc : c.enabled = true) :
    let r := resolvePolicy d per c
    (∀ e ∈ per.allow, e ∈ r.1.allow ∨ e ∈ r.2) ∧ (∀ e ∈ r.2, e ∈ per.allow ∧ ¬ ceilingAllowsEntry c e) := by
  unfold resolvePolicy
  simp only [hp, hc, Bool.not_true, Bool.false_eq_true, if_false]
  by_cases hca : c.allow.isEmpty = true
  · simp only [hca, if_true]
    exact ⟨fun e he => Or.inl he, fun e he => by simp at he⟩
  · simp only [hca, if_false, Bool.false_eq_true]
    refine ⟨fun e he => ?_, fun e he => ?_⟩
    · by_cases hk : (c.allow.map entryKey).contains (entryKey e) = true
      · exact Or.inl (List.mem_filter.mpr ⟨he, hk⟩)
      · exact Or.inr (List.mem_filter.mpr ⟨he, by simpa using hk⟩)
    · simp only [List.mem_filter, Bool.not_eq_true'] at he
      refine ⟨he.1, fun h => ?_⟩
      rcases h with h | ⟨c', hc', hk⟩
      · exact hca (List.isEmpty_iff.mpr h)
      · have : (c.allow.map entryKey).contains (entryKey e) = true :=
          List.contains_iff_mem.mpr (List.mem_map.mpr ⟨c', hc', hk⟩)
        rw [this] at he
        exact absurd he.2 (by decide)

/-- C18.effective_carve_outs_le_ceiling — the carve-outs (the only way to a floor address) of the
effective policy are carve-outs the processor requested, through entries the ceiling lists. -/
theorem C18_effective_carve_outs_le_ceiling (d : Defaults) (per c : Policy) (ip : IP) (port : String)
    (h : matchesCarveOut (resolvePolicy d per c).1 ip port = true) :
    matchesCarveOut per ip port = true ∧
    ∃ e ∈ per.allow, ceilingAllowsEntry c e ∧ ∃ eip, e.ip = some eip ∧ e.port = port ∧ ipEqual eip ip = true := by
  obtain ⟨e, he, eip, h1, h2, h3⟩ := C18_carve_out_is_exact_pair _ ip port h
  have hsub : ∀ e ∈ (resolvePolicy d per c).1.allow, e ∈ per.allow ∧ ceilingAllowsEntry c e := by
    intro e he
    unfold resolvePolicy at he
    by_cases hp : per.enabled = true
    · by_cases hcE : c.enabled = true
      · simp only [hp, hcE, Bool.not_true, Bool.false_eq_true, if_false] at he
        by_cases hca : c.allow.isEmpty = true
        · simp only [hca, if_true] at he
          exact ⟨he, Or.inl (List.isEmpty_iff.mp hca)⟩
        · simp only [hca, if_false, Bool.false_eq_true, List.mem_filter, List.contains_iff_mem, List.mem_map] at he
          obtain ⟨hm, c', hc', hk⟩ := he
          exact ⟨hm, Or.inr ⟨c', hc', hk⟩⟩
      · simp [hp, hcE, denyAll] at he
    · simp [hp, denyAll] at he
  obtain ⟨hm, hce⟩ := hsub e he
  refine ⟨?_, e, hm, hce, eip, h1, h2, h3⟩
  simp only [matchesCarveOut, List.any_eq_true]
  exact ⟨e, hm, by simp [h1, h2, h3]⟩

/-! ## non-vacuity -/

example : connectAttempts (dialContext ⟨[(2130706432, 8, "lo")], [], (0, 128), (0, 128), 224, 255, "", "", "", "", "", "", "", ""⟩
    { enabled := true, allow := [⟨"http", "127.0.0.1", "11434", some (.b4 2130706433)⟩] } "11434"
    (fun ip => [ip]) (fun _ => false) [.b4 2130706433, .b4 2130706434, .b4 134744072]).flatten
      = [.b4 2130706433, .b4 134744072] := by decide

end Conduit.Egress

namespace Conduit.Egress

/-- the executable floor test the driver evaluates as a monitor on every generated address is at
least as strong as the specification `Floor`: every floor address is flagged. -/
theorem C18_monitor_covers_floor (ip : IP) (hv : ip.Valid) (hf : Floor ip) : floorB ip = true := by
  cases ip with
  | b4 a => simpa [floorB, Floor] using hf
  | bad => rfl
  | b16 x =>
    have hx : x < 340282366920938463463374607431768211456 := hv
    simp only [floorB, floorV6B, Bool.or_eq_true, Bool.and_eq_true, beq_iff_eq, decide_eq_true_eq]
    rcases hf with hn | ⟨a, ha, hfa, he⟩
    · exact Or.inl (Or.inl (Or.inl (Or.inl (Or.inl (Or.inl hn)))))
    · have ha' : a < 4294967296 := ha
      cases he with
      | mapped =>
        have h1 : (281470681743360 + a) / 4294967296 = 0xffff := by omega
        have h2 : (281470681743360 + a) % 4294967296 = a := by omega
        exact Or.inl (Or.inl (Or.inl (Or.inl (Or.inl (Or.inr ⟨h1, by rw [h2]; exact hfa⟩)))))
      | compatible =>
        exact Or.inl (Or.inl (Or.inl (Or.inl (Or.inr ⟨by omega, hfa⟩))))
      | translated =>
        have h1 : (18446462598732840960 + a) / 4294967296 = 0xffff0000 := by omega
        have h2 : (18446462598732840960 + a) % 4294967296 = a := by omega
        exact Or.inl (Or.inl (Or.inl (Or.inr ⟨h1, by rw [h2]; exact hfa⟩)))
      | nat64 =>
        have h1 : (524413980667603649783483181312245760 + a) / 4294967296 = 0x64ff9b0000000000000000 := by omega
        have h2 : (524413980667603649783483181312245760 + a) % 4294967296 = a := by omega
        exact Or.inl (Or.inl (Or.inr ⟨h1, by rw [h2]; exact hfa⟩))
      | sixToFour low hl =>
        have h1 : ((8194 * 4294967296 + a) * 1208925819614629174706176 + low) / 5192296858534827628530496329220096 = 0x2002 := by omega
        have h2 : ((8194 * 4294967296 + a) * 1208925819614629174706176 + low) / 1208925819614629174706176 % 4294967296 = a := by omega
        exact Or.inl (Or.inr ⟨h1, by rw [h2]; exact hfa⟩)
      | teredoServer f hfl =>
        have h1 : ((536936448 * 4294967296 + a) * 18446744073709551616 + f) / 79228162514264337593543950336 = 0x20010000 := by omega
        have h2 : ((536936448 * 4294967296 + a) * 18446744073709551616 + f) / 18446744073709551616 % 4294967296 = a := by omega
        exact Or.inr ⟨h1, Or.inl (by rw [h2]; exact hfa)⟩
      | teredoClient mid hm =>
        have h1 : (536936448 * 79228162514264337593543950336 + mid * 4294967296 + (4294967295 - a)) / 79228162514264337593543950336 = 0x20010000 := by omega
        have h2 : 4294967295 - (536936448 * 79228162514264337593543950336 + mid * 4294967296 + (4294967295 - a)) % 4294967296 = a := by omega
        exact Or.inr ⟨h1, Or.inr (by rw [h2]; exact hfa)⟩

end Conduit.Egress
