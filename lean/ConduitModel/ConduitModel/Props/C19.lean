import ConduitModel.Proofs.Extract
import ConduitModel.Proofs.PathCleanBytes
import ConduitModel.Proofs.Install
import ConduitModel.Proofs.IndexState
import ConduitModel.Proofs.AtomicFile
import ConduitModel.Model.Corruption

/-!
# C19 — registry installs only after integrity and trust checks, atomically (property theorems)

Statement (properties.jsonl C19): "A connector or processor artifact appears in the install
directory only if the downloaded bytes match the digest declared by the index and the configured
verifier accepted signature and provenance (or the operator explicitly allowed unsigned installs);
archives can never write outside the private staging directory, whatever entry names, links or
sizes they contain. An index older than one already accepted is refused and the recorded
high-water mark never decreases, also under concurrent installs. The install manifest and index
state are replaced atomically, so an interruption at any point leaves either the previous or the
new complete file."

## Part (a): archive extraction (`pkg/registry/extract.go`, `ExtractBinary`)

All theorems are for every list of tar entries (names are arbitrary byte strings, any type flags,
any declared/available sizes, any order, any length), every cap and every clean absolute
destination directory `/D₁/…/Dₙ` (`absPath D`, all `Dᵢ` normal elements).
-/
namespace Conduit.Registry

/-- C19.extract_confined — "archives can never write outside the private staging directory,
whatever entry names, links or sizes they contain": after `ExtractBinary` — accepted or refused at
any entry — every regular file in the tree lies strictly inside the destination directory through
normal elements only (the destination is a proper prefix, no `..`/`.`/empty element), every
directory is the destination, one of its ancestors (they existed before) or inside it, and the tree
holds at most `cap + 1` content bytes. -/
theorem C19_extract_confined (cap nameMax : Nat) (D : List Seg) (hD : ∀ s ∈ D, Normal s)
    (entries : List Entry) (corruptTail : Bool) :
    let r := extractBinary cap nameMax (absPath D) entries corruptTail
    (∀ f ∈ r.fs.files, Inside D f.1) ∧
    (∀ d ∈ r.fs.dirs, d ∈ (FS.initial (absPath D)).dirs ∨ Inside D d) ∧
    sumSizes r.fs.files ≤ cap + 1 := by
  have hp := extractLoop_post (cap := cap) (nm := nameMax) hD entries _ (initial_exinv hD)
  have hinit : (FS.initial (absPath D)).dirs = prefixes D := by
    simp only [FS.initial, absPath]; rw [pathSegs_abs hD]
  simp only [extractBinary, absPath] at *
  generalize extractLoop cap nameMax (slash :: joinSlash D) _ entries = lr at hp
  obtain ⟨st, err⟩ := lr
  have key : (∀ f ∈ st.fs.files, Inside D f.1) ∧
      (∀ d ∈ st.fs.dirs, d ∈ (FS.initial (slash :: joinSlash D)).dirs ∨ Inside D d) ∧
      sumSizes st.fs.files ≤ cap + 1 :=
    ⟨hp.1.files, fun d hd => by rw [hinit]; exact hp.1.dirs d hd, hp.2.1⟩
  cases err with
  | some e => exact key
  | none =>
    simp only []
    split
    · exact key
    · split <;> exact key

/-- C19.accepted_name_stays_inside — the path-level core of confinement: for every entry name
(any bytes) that passes the refusal test of `ExtractBinary`, `filepath.Join(dest, Clean(name))` is
literally `dest` followed by the normal elements `ns` of the cleaned name — `dest` is a prefix
element by element and nothing after it is `..`. (`ns = []` is the name `.`: the path is `dest`
itself, whose exclusive creation as a file fails.) -/
theorem C19_accepted_name_stays_inside (D : List Seg) (hD : ∀ s ∈ D, Normal s) (name : Path)
    (h : escapes (clean name) = false) :
    ∃ ns, (∀ s ∈ ns, Normal s) ∧ join2 (absPath D) (clean name) = absPath (D ++ ns) := by
  obtain ⟨ns, hn, -, hj, -, -⟩ := accepted_paths hD h
  exact ⟨ns, hn, hj⟩

/-- C19.clean_shape — `filepath.Clean` of any byte string is some `..` elements followed by normal
elements, with no `..` at all when the path is rooted: the fact that makes the three-way refusal
test (`IsAbs`, `== ".."`, prefix `"../"`) sufficient. -/
theorem C19_clean_shape (p : Path) :
    ∃ k ns, cleanSegs p = List.replicate k dotdotSeg ++ ns ∧ (∀ s ∈ ns, Normal s) ∧
      (isAbs p = true → k = 0) :=
  cleanSegs_form p

/-- C19.clean_bytes_model — the element-level `clean` the theorems above are about *is* Go's
byte-level `filepath.Clean` loop (read index, write buffer with backtracking, `dotdot` mark),
for every byte string. -/
theorem C19_clean_bytes_model (p : Path) : cleanBytes p = clean p := cleanBytes_eq_clean p

/-- C19.extract_links_refused — "whatever … links … they contain": an archive is accepted only if
no entry anywhere in it is a symlink or hardlink and no entry name escapes; a refused archive never
yields a binary path. -/
theorem C19_extract_links_refused (cap nameMax : Nat) (dest : Path) (entries : List Entry)
    (corruptTail : Bool) (p : Path)
    (h : (extractBinary cap nameMax dest entries corruptTail).result = .ok p) :
    ∀ e ∈ entries, e.typ ≠ .symlink ∧ e.typ ≠ .link ∧ escapes (clean e.name) = false := by
  unfold extractBinary at h
  cases hl : extractLoop cap nameMax dest { fs := FS.initial dest, candidate := [], total := 0 } entries with
  | mk st err =>
    rw [hl] at h
    cases err with
    | some e => simp at h
    | none => exact extractLoop_none entries _ (by rw [hl])

/-- C19.extract_result — an accepted archive yields the path `dest/c` of a single normal element
`c` (root level), that file exists in the tree as a regular file written from the archive, and
the whole tree holds at most `cap` bytes. -/
theorem C19_extract_result (cap nameMax : Nat) (D : List Seg) (hD : ∀ s ∈ D, Normal s)
    (entries : List Entry) (corruptTail : Bool) (p : Path)
    (h : (extractBinary cap nameMax (absPath D) entries corruptTail).result = .ok p) :
    ∃ c, Normal c ∧ p = absPath (D ++ [c]) ∧
      (D ++ [c]) ∈ (extractBinary cap nameMax (absPath D) entries corruptTail).fs.files.map Prod.fst ∧
      sumSizes (extractBinary cap nameMax (absPath D) entries corruptTail).fs.files ≤ cap := by
  have hp := extractLoop_post (cap := cap) (nm := nameMax) hD entries _ (initial_exinv hD)
  simp only [extractBinary, absPath] at *
  generalize extractLoop cap nameMax (slash :: joinSlash D) _ entries = lr at hp h
  obtain ⟨st, err⟩ := lr
  cases err with
  | some e => simp at h
  | none =>
    have inv := hp.2.2 rfl
    simp only [] at h ⊢
    by_cases hc : corruptTail = true
    · simp [hc] at h
    · simp only [hc, Bool.false_eq_true, if_false] at h ⊢
      by_cases hcand : st.candidate = []
      · simp [hcand] at h
      · simp only [hcand, if_false] at h ⊢
        rcases inv.cand with h0 | ⟨hn, hm⟩
        · exact absurd h0 hcand
        · refine ⟨st.candidate, hn, ?_, hm, by rw [inv.total]; exact inv.le⟩
          have hj := join2_clean (D := D) (ns := [st.candidate]) hD (by simpa using hn)
          simp only [relStr, joinSlash] at hj
          simp only [Except.ok.injEq] at h
          rw [← h]; simpa using hj

/-- C19.extract_unique_candidate — the binary `ExtractBinary` returns is the one and only root-level
regular file of the archive (an archive with none or with several is refused, never guessed at). -/
theorem C19_extract_unique_candidate (cap nameMax : Nat) (dest : Path) (entries : List Entry)
    (corruptTail : Bool) (p : Path)
    (h : (extractBinary cap nameMax dest entries corruptTail).result = .ok p) :
    ∃ e, entries.filter isRootReg = [e] ∧ p = join2 dest (clean e.name) := by
  unfold extractBinary at h
  cases hl : extractLoop cap nameMax dest { fs := FS.initial dest, candidate := [], total := 0 } entries with
  | mk st err =>
    rw [hl] at h
    cases err with
    | some e => simp at h
    | none =>
      simp only [] at h
      obtain ⟨-, h2⟩ := extractLoop_candidate entries _ _ hl
      by_cases hc : corruptTail = true
      · simp [hc] at h
      · simp only [hc, Bool.false_eq_true, if_false] at h
        by_cases hcand : st.candidate = []
        · simp [hcand] at h
        · simp only [hcand, if_false, Except.ok.injEq] at h
          rcases h2 rfl with ⟨-, h0⟩ | ⟨e, hf, hce⟩
          · exact absurd h0 hcand
          · exact ⟨e, hf, by rw [← h, hce]⟩

/-! ### Non-vacuity -/

private def b (s : String) : Path := s.toList.map Char.toNat   -- ASCII only here

-- `Clean` on hostile names
example : clean (b "a/../../etc/passwd") = b "../etc/passwd" := by decide
example : clean (b "/a/./b//../c/") = b "/a/c" := by decide
example : clean (b "") = b "." := by decide
example : escapes (clean (b "x/../../y")) = true := by decide
example : escapes (clean (b "x/../y")) = false := by decide
example : (∀ s ∈ [b "sandbox", b "dest"], Normal s) := by decide

-- an install-like archive is accepted, its nested file extracted, the binary found
example : (extractBinary 100 255 (b "/s/d")
    [⟨b "conn", .reg, 10, 10⟩, ⟨b "docs/LICENSE", .reg, 5, 5⟩, ⟨b "docs", .dir, 0, 0⟩] false).result
      = .ok (b "/s/d/conn") := by decide
-- a symlink, a traversal, a second candidate and a bomb are refused
example : (extractBinary 100 255 (b "/s/d") [⟨b "conn", .reg, 1, 1⟩, ⟨b "l", .symlink, 0, 0⟩] false).result
      = .error .link := by decide
example : (extractBinary 100 255 (b "/s/d") [⟨b "a/../../x", .reg, 1, 1⟩] false).result = .error .escape := by decide
example : (extractBinary 100 255 (b "/s/d") [⟨b "a", .reg, 1, 1⟩, ⟨b "./b", .reg, 1, 1⟩] false).result
      = .error .multi := by decide
example : (extractBinary 100 255 (b "/s/d") [⟨b "a", .reg, 60, 60⟩, ⟨b "d/b", .reg, 41, 41⟩] false).result
      = .error .toobig := by decide
example : (extractBinary 100 255 (b "/s/d") [⟨b "a", .reg, 60, 60⟩, ⟨b "d/b", .reg, 40, 40⟩] false).result
      = .ok (b "/s/d/a") := by decide



/-- C19.check_corruption_exact — "only if the downloaded bytes match the digest declared by the
index": `CheckCorruption` passes exactly when the declared string, after one optional `sha256:`
prefix, is valid hex that decodes to precisely the digest of the received bytes — never on a
malformed, shorter, longer or differing declaration. -/
theorem C19_check_corruption_exact (got want : List Nat) :
    checkCorruption got want = true ↔ hexDecode (trimPrefix sha256Prefix want) = some got := by
  unfold checkCorruption
  cases h : hexDecode (trimPrefix sha256Prefix want) with
  | none => simp
  | some wb =>
    simp only [Bool.and_eq_true, beq_iff_eq, Option.some.injEq]
    constructor
    · rintro ⟨-, rfl⟩; rfl
    · rintro rfl; exact ⟨rfl, rfl⟩

example : checkCorruption [171, 205] [97, 98, 99, 100] = true := by decide          -- "abcd"
example : checkCorruption [171, 205] [65, 66, 67, 68] = true := by decide           -- "ABCD" (hex is case-insensitive)
example : checkCorruption [171, 205] (sha256Prefix ++ [97, 98, 99, 100]) = true := by decide
example : checkCorruption [171, 205] [97, 98, 99] = false := by decide              -- odd length
example : checkCorruption [171, 205] [97, 98, 99, 101] = false := by decide         -- one nibble off

end Conduit.Registry

/-!
## Part (b): the install gate (`pkg/registry/install.go`, `policy/gate.go`)

`runInstall` executes the gate order regenerated from `Install` / `installArtifact` /
`downloadVerifyAndInstall` / `finalizeArtifactInstall` on every run of the check; the theorems below
are therefore statements about the order the source has *now* (the `decide` steps re-check the
dominance facts against the regenerated list). They hold for every scenario: every combination of
index-verifier, resolve, cache, download, digest, bundle-fetch, verifier, policy-context, archive,
rename, manifest and audit outcomes.
-/
namespace Conduit.Install
open Conduit.Gates Conduit.Generated.Policy

theorem installOrder_digest_dominates : domBy installOrder "CheckCorruption" "Rename" = true := by decide
theorem installOrder_gate_dominates : domBy installOrder "runVerificationGate" "Rename" = true := by decide
theorem installOrder_extract_dominates : domBy installOrder "ExtractBinary" "Rename" = true := by decide
theorem installOrder_rename_dominates_manifest : domBy installOrder "Rename" "writeManifestEntry" = true := by decide
theorem installOrder_manifest_dominates_audit : domBy installOrder "writeManifestEntry" "AppendAuditEvent" = true := by decide
theorem installOrder_digest_dominates_gate : domBy installOrder "CheckCorruption" "runVerificationGate" = true := by decide

/-- C19.install_gated — "A connector or processor artifact appears in the install directory only if
the downloaded bytes match the digest declared by the index and the configured verifier accepted
signature and provenance (or the operator explicitly allowed unsigned installs)": in every scenario,
if the artifact was renamed into the install directory then the digests matched, the archive was
accepted by `ExtractBinary`, and either the install did not ask for `--allow-unsigned`, both bundles
were fetched and the verifier answered *signed*, or it did ask, `policy.Decide` allowed it — which
needs the operator policy to permit unsigned installs, a caller that is not the MCP tool, and the
explicit environment acknowledgement (non-interactive) or a typed confirmation (interactive
terminal) — and the mandatory unsigned-install audit entry was written. -/
theorem C19_install_gated (s : Scenario) (h : (runInstall s).installed = true) :
    s.digest = .matches ∧ s.archiveOK = true ∧
    ((s.allowUnsigned = false ∧ s.sigFetch = .ok ∧ s.provFetch = .ok ∧ s.verifier = .signed) ∨
     (s.allowUnsigned = true ∧ s.unsignedLogOK = true ∧
        s.ctx.OperatorPolicy = true ∧ s.ctx.IsMCP = false ∧
        (((s.ctx.TTY = false ∨ s.ctx.CIEnv = true) ∧ s.ctx.EnvVarSet = true) ∨
         (s.ctx.TTY = true ∧ s.ctx.CIEnv = false ∧ s.ctx.TypedConfirmation = true)))) := by
  have h' : ranNamed installOrder (exec (envOf installOrder s) 0 installOrder).1 "Rename" = true := h
  have hd := dom_gateSucc installOrder_digest_dominates s h'
  have hg := dom_gateSucc installOrder_gate_dominates s h'
  have he := dom_gateSucc installOrder_extract_dominates s h'
  simp only [gateSucc, beq_iff_eq] at hd he
  refine ⟨hd, he, ?_⟩
  obtain ⟨b, hb⟩ := toBool_ok (show (runVerificationGate s).toBool = true from hg)
  rcases gate_ok_cases hb with ⟨h1, h2, h3, h4, -⟩ | ⟨h1, h2, h3, -⟩
  · exact Or.inl ⟨h1, h2, h3, h4⟩
  · exact Or.inr ⟨h1, h3, (decide_allowed_iff s.ctx).mp h2⟩

/-- C19.manifest_after_rename — the manifest entry is written only after the artifact is in place,
and the audit event only after the manifest entry (so a recorded install is never missing its file,
whatever step fails). -/
theorem C19_manifest_after_rename (s : Scenario) :
    ((runInstall s).manifest = true → (runInstall s).installed = true) ∧
    ((runInstall s).audited = true → (runInstall s).manifest = true) := by
  constructor
  · intro h
    obtain ⟨k, g, hk, hg, hn⟩ := ranNamed_iff.mp (show ranNamed installOrder (exec (envOf installOrder s) 0 installOrder).1 "writeManifestEntry" = true from h)
    obtain ⟨j, gj, -, hgj, hja, hj⟩ := domBy_sound installOrder_rename_dominates_manifest (envOf installOrder s) k g hg hn hk
    exact ranNamed_iff.mpr ⟨j, gj, hj, hgj, hja⟩
  · intro h
    obtain ⟨k, g, hk, hg, hn⟩ := ranNamed_iff.mp (show ranNamed installOrder (exec (envOf installOrder s) 0 installOrder).1 "AppendAuditEvent" = true from h)
    obtain ⟨j, gj, -, hgj, hja, hj⟩ := domBy_sound installOrder_manifest_dominates_audit (envOf installOrder s) k g hg hn hk
    exact ranNamed_iff.mpr ⟨j, gj, hj, hgj, hja⟩

/-- C19.verifier_after_digest — trust verification only ever sees bytes whose digest matched: the
verification gate is not even entered on a corrupt download. -/
theorem C19_verifier_after_digest (s : Scenario) (h : (runInstall s).verifierCalled = true ∨ (runInstall s).unsignedLogged = true) :
    s.digest = .matches := by
  have reached : (match indexOfName installOrder "runVerificationGate" with
      | some k => (exec (envOf installOrder s) 0 installOrder).1.contains k || (exec (envOf installOrder s) 0 installOrder).2 == some k
      | none => false) = true := by
    rcases h with h | h
    · have : (_ && gateCallsVerifier s) = true := h
      exact ((Bool.and_eq_true _ _).mp this).1
    · have : (_ && gateLogsUnsigned s) = true := h
      exact ((Bool.and_eq_true _ _).mp this).1
  have := dom_gateSucc_reached installOrder_digest_dominates_gate s reached
  simpa [gateSucc] using this

/-- C19.decide_table — the regenerated `policy.Decide` allows an unsigned install exactly in the
rows of its documented matrix; operator policy `false` and the MCP caller always refuse. -/
theorem C19_decide_table (c : Context) :
    (Decide c = (true, none) ↔
      (c.OperatorPolicy = true ∧ c.IsMCP = false ∧
        (((c.TTY = false ∨ c.CIEnv = true) ∧ c.EnvVarSet = true) ∨
         (c.TTY = true ∧ c.CIEnv = false ∧ c.TypedConfirmation = true)))) ∧
    ((Decide c).1 = true ↔ (Decide c).2 = none) :=
  ⟨decide_allowed_iff c, decide_consistent c⟩

/-- C19.bundle_gated — the offline path (`InstallFromBundle` / `InstallProcessorBundle`): whatever
succeeds or fails, the artifact is renamed into place only after both digest comparisons and the
verifier call succeeded. -/
theorem C19_bundle_gated (env : Env) (order : List GateCall)
    (ho : order = ofTuples Generated.RegistryInstall.installFromBundleOrder ∨
          order = ofTuples Generated.RegistryInstall.installProcessorBundleOrder)
    (h : ranNamed order (ran env order) "Rename" = true) :
    ranNamed order (ran env order) "CheckCorruption" = true ∧ ranNamed order (ran env order) "VerifyArtifact" = true := by
  have hd : domBy order "CheckCorruption" "Rename" = true ∧ domBy order "VerifyArtifact" "Rename" = true := by
    rcases ho with rfl | rfl <;> exact ⟨by decide, by decide⟩
  obtain ⟨k, g, hk, hg, hn⟩ := ranNamed_iff.mp h
  obtain ⟨j, gj, -, hgj, hja, hj⟩ := domBy_sound hd.1 env k g hg hn hk
  obtain ⟨j2, gj2, -, hgj2, hja2, hj2⟩ := domBy_sound hd.2 env k g hg hn hk
  exact ⟨ranNamed_iff.mpr ⟨j, gj, hj, hgj, hja⟩, ranNamed_iff.mpr ⟨j2, gj2, hj2, hgj2, hja2⟩⟩

/-- C19.bundle_index_gate — an offline bundle's index snapshot is used only if `VerifyIndex` accepted
it as cryptographically verified, or it was refused *only for staleness* and the operator explicitly
allowed stale bundles (flag, operator policy, not MCP, acknowledgement or typed confirmation), the
full verification was repeated with only the staleness window relaxed, and the override was audited. -/
theorem C19_bundle_index_gate (s : BundleIndexScenario) (h : verifyBundleIndex s = .ok ()) :
    s.first = .accepted true ∨
    (s.first = .stale ∧ s.allowStale = true ∧ s.relaxedOK = true ∧ s.relaxedVerified = true ∧ s.auditOK = true ∧
      s.ctx.OperatorAllowStaleBundle = true ∧ s.ctx.IsMCP = false ∧
      (((s.ctx.TTY = false ∨ s.ctx.CIEnv = true) ∧ s.ctx.EnvVarSet = true) ∨
       (s.ctx.TTY = true ∧ s.ctx.CIEnv = false ∧ s.ctx.TypedConfirmation = true))) := by
  unfold verifyBundleIndex at h
  cases hf : s.first with
  | accepted v => cases v <;> simp [hf] at h ⊢
  | refused => simp [hf] at h
  | stale =>
    right
    simp only [hf] at h
    cases h1 : s.allowStale <;> simp [h1] at h
    cases h2 : (DecideStaleBundle s.ctx).1 <;> simp [h2] at h
    cases h3 : s.relaxedOK <;> simp [h3] at h
    cases h4 : s.relaxedVerified <;> simp [h4] at h
    cases h5 : s.auditOK <;> simp [h5] at h
    exact ⟨rfl, rfl, rfl, rfl, rfl, (decideStale_allowed_iff s.ctx).mp h2⟩

/-! ### Non-vacuity -/

private def good : Scenario :=
  { idxOK := true, known := true, platform := true, already := false, cacheHit := false, download := .ok,
    digest := .matches, allowUnsigned := false, ctx := default, sigFetch := .ok, provFetch := .ok,
    verifier := .signed, unsignedLogOK := true, archiveOK := true, renameOK := true, manifestOK := true, auditOK := true }

example : (runInstall good).installed = true ∧ (runInstall good).result = "ok" := by decide
example : (runInstall { good with digest := .mismatch }).installed = false
    ∧ (runInstall { good with digest := .mismatch }).result = "CodeCorruptDownload" := by decide
example : (runInstall { good with verifier := .refuse }).installed = false := by decide
example : (runInstall { good with verifier := .unsignedOk }).result = "CodeVerificationUnavailable" := by decide
-- unsigned install allowed by the operator in CI with the acknowledgement set
private def ciCtx : Context :=
  { TTY := false, CIEnv := true, IsMCP := false, OperatorPolicy := true, EnvVarSet := true, TypedConfirmation := false }
private def forbidCtx : Context :=
  { TTY := true, CIEnv := false, IsMCP := false, OperatorPolicy := false, EnvVarSet := true, TypedConfirmation := true }
example : (runInstall { good with allowUnsigned := true, verifier := .refuse, ctx := ciCtx }).installed = true := by decide
-- and refused when the operator forbids it
example : (runInstall { good with allowUnsigned := true, ctx := forbidCtx }).result
      = "CodeUnsignedInstallDisabledByPolicy" := by decide

end Conduit.Install

/-!
## Part (c): the index rollback high-water mark (`trustverifier.go`, `index/freeze.go`, `index/state.go`)

`stepOrder verifyIndexOrder` executes the gate order regenerated from `TrustedVerifier.VerifyIndex`
with the regenerated `index.CheckRollback`. The function holds the index-state lock from its first
call to its return (Facts: `acquireIndexStateLock` first and guarded, `Unlock` deferred), so
concurrent installs run it one after the other: a run of the system is a *list* of requests, in the
order in which they took the lock — any list, i.e. any interleaving.
-/
namespace Conduit.IndexState
open Conduit.Gates

theorem verifyIndexOrder_rollback_dominates : domBy verifyIndexOrder "CheckRollback" "SaveState" = true := by decide
theorem verifyIndexOrder_gates : hasGate verifyIndexOrder "CheckRollback" = true ∧ hasGate verifyIndexOrder "SaveState" = true
    ∧ hasGate verifyIndexOrder "Verify" = true ∧ hasGate verifyIndexOrder "CheckStaleness" = true := by decide

/-- C19.rollback_refused — "An index older than one already accepted is refused": a request whose
version is below the recorded high-water mark is never accepted (whatever its signature, freshness
or anything else), and leaves the recorded state untouched. -/
theorem C19_rollback_refused (st : State) (r : Req) (h : r.version < st.version) :
    (step st r).2 ≠ none ∧ (step st r).1 = st := by
  have hne : (step st r).2 ≠ none := by
    intro hacc
    have := (step_accept verifyIndexOrder_gates.1 verifyIndexOrder_gates.2.1 st r hacc).1
    omega
  refine ⟨hne, ?_⟩
  rcases step_version_cases verifyIndexOrder st r with h1 | h1
  · exact h1
  · exfalso
    have := step_monotone verifyIndexOrder_rollback_dominates st r
    unfold step at *
    omega

/-- C19.hwm_monotone — "the recorded high-water mark never decreases, also under concurrent
installs": for every initial state and every sequence of `VerifyIndex` calls (valid, invalid, stale,
rolled back, failing to persist — in any order), the persisted version at the end is at least the
initial one, and at least the version of every index that was accepted along the way. -/
theorem C19_hwm_monotone (st : State) (rs : List Req) :
    st.version ≤ (runSeq verifyIndexOrder st rs).1.version ∧
    ∀ (i : Nat) (r : Req), rs[i]? = some r → (runSeq verifyIndexOrder st rs).2[i]? = some none →
      r.version ≤ (runSeq verifyIndexOrder st rs).1.version :=
  ⟨runSeq_monotone verifyIndexOrder_rollback_dominates rs st,
   runSeq_accepted_le_final verifyIndexOrder_rollback_dominates verifyIndexOrder_gates.1 verifyIndexOrder_gates.2.1 rs st⟩

/-- C19.accepted_is_verified — an accepted index passed signature verification (root, or freshness
over the last root-verified content), the rollback check and the staleness check, and was persisted. -/
theorem C19_accepted_is_verified (st : State) (r : Req) (h : (step st r).2 = none) :
    sigAccepted st r = true ∧ st.version ≤ r.version ∧ r.fresh = true ∧ (step st r).1.version = r.version := by
  have hnone : (exec (envOf verifyIndexOrder st r) 0 verifyIndexOrder).2 = none := by
    unfold step stepOrder at h
    simp only [] at h
    cases he : (exec (envOf verifyIndexOrder st r) 0 verifyIndexOrder).2 with
    | none => rfl
    | some i => rw [he] at h; exfalso; cases ho : verifyIndexOrder[i]? <;> simp [ho] at h
  have hstop : ∀ i, (envOf verifyIndexOrder st r).stop i = false := fun _ => rfl
  have key : ∀ n, hasGate verifyIndexOrder n = true → gateSucc st r n = true := by
    intro n hn
    obtain ⟨j, g, hg, hgn, hgate⟩ := hasGate_get hn
    have := exec_mem_succ _ _ _ _ (exec_complete _ hstop verifyIndexOrder j g hg hgate hnone)
    simpa [envOf, hg, hgn] using this
  have h1 := key "Verify" verifyIndexOrder_gates.2.2.1
  have h2 := key "CheckStaleness" verifyIndexOrder_gates.2.2.2
  have h3 := step_accept verifyIndexOrder_gates.1 verifyIndexOrder_gates.2.1 st r h
  exact ⟨by simpa [gateSucc] using h1, h3.1, by simpa [gateSucc] using h2, h3.2⟩

/-! ### Non-vacuity -/
example : (step ⟨5, none⟩ { sig := .root, version := 7, content := 1, fresh := true }) = (⟨7, some 1⟩, none) := by decide
example : (step ⟨5, none⟩ { sig := .root, version := 4, content := 1, fresh := true }).2 = some "CodeIndexRollback" := by decide
example : (step ⟨5, some 1⟩ { sig := .freshness, version := 6, content := 1, fresh := true }) = (⟨6, some 1⟩, none) := by decide
example : (step ⟨5, some 1⟩ { sig := .freshness, version := 6, content := 2, fresh := true }).2 = some "CodeIndexIntegrity" := by decide
example : (runSeq verifyIndexOrder ⟨0, none⟩
    [{ sig := .root, version := 3, content := 1, fresh := true }, { sig := .root, version := 2, content := 1, fresh := true },
     { sig := .root, version := 9, content := 2, fresh := false }, { sig := .root, version := 3, content := 1, fresh := true }]).1
      = ⟨3, some 1⟩ := by decide

end Conduit.IndexState

/-!
## Part (d): atomic replacement (`pkg/foundation/atomicfile/atomicfile.go`; used by `SaveManifest`, `index.SaveState`)

`writeFileMainOps` is the main-line operation list regenerated from `WriteFile`'s source.
-/
namespace Conduit.AtomicFile
open Conduit.Gates

/-- the regenerated main-line operations of `WriteFile` (create temp, write, sync, close, chmod, rename). -/
def writeFileMainOps : List Op := (mainOps writeFileCalls).getD []

theorem writeFile_ops_known : mainOps writeFileCalls = some writeFileMainOps ∧ writeFileMainOps ≠ [] := by decide
theorem writeFile_ops_safe : aSafe aInit writeFileMainOps = true := by decide
theorem writeFile_ops_final : writeFileMainOps.foldl aApply aInit = { tgt := .new, tmp := .absent } := by decide
theorem writeFile_ops_old_before : aOldBefore aInit writeFileMainOps = true := by decide

/-- C19.atomic_replace — "an interruption at any point leaves either the previous or the new
complete file": for every previous content `old` (or no file), every new content `new`, and a kill
before, after or inside any operation of `WriteFile` (inside `Write`: any torn prefix in the temp
file), the target path holds the complete old or the complete new content. -/
theorem C19_atomic_replace (old : Option Content) (new : Content) (s : FSt)
    (h : CrashState new { target := old, tmp := none } writeFileMainOps s) :
    s.target = old ∨ s.target = some new :=
  aSafe_sound writeFileMainOps aInit _ s writeFile_ops_safe (gamma_init old new) h

/-- C19.atomic_replace_outcomes — `WriteFile` returning `nil` means the target holds the new content;
returning an error (any operation failing, with no effect) means it still holds the old content; in
both cases no temp file is left behind (the deferred `os.Remove`). -/
theorem C19_atomic_replace_outcomes (old : Option Content) (new : Content) (failAt : Option Nat) :
    let r := runWriteFile new { target := old, tmp := none } writeFileMainOps failAt
    r.2.tmp = none ∧ (r.1 = true → r.2.target = some new) ∧ (r.1 = false → r.2.target = old) := by
  have hfin := gamma_runOps (old := old) (new := new) writeFileMainOps aInit _ (gamma_init old new)
  rw [writeFile_ops_final] at hfin
  have hnew : (runOps new { target := old, tmp := none } writeFileMainOps).target = some new := hfin.1
  simp only [runWriteFile]
  cases failAt with
  | none => exact ⟨rfl, fun _ => hnew, fun h => by simp at h⟩
  | some k =>
    simp only []
    by_cases hk : k < writeFileMainOps.length
    · rw [if_pos hk]
      refine ⟨rfl, fun h => by simp at h, fun _ => ?_⟩
      exact aOldBefore_sound writeFileMainOps aInit _ k writeFile_ops_old_before (gamma_init old new) hk
    · rw [if_neg hk]
      exact ⟨rfl, fun _ => hnew, fun h => by simp at h⟩

/-! ### Non-vacuity: a torn temp file is a crash state; renaming before writing would not be safe -/
example : CrashState [1, 2, 3] { target := some [9], tmp := none } writeFileMainOps
    { target := some [9], tmp := some [1, 2] } := by
  refine Or.inr (Or.inl ⟨rfl, 2, rfl⟩)
example : aSafe aInit [.createTemp, .rename, .write] = false := by decide
example : aSafe aInit [.createTemp, .write, .write, .rename] = false := by decide

end Conduit.AtomicFile

