import ConduitModel.Model.FlockFile

/-!
C19, "concurrent installs serialise on the index-state / manifest / target locks": the flock contract the
install model assumes, proved for the lock-file model `Model/FlockFile.lean`, for every number of
processes and every interleaving.
-/
namespace Conduit.FlockFile

/-- every open descriptor and every held lock is on the inode the path names; at most one holder -/
structure Inv (s : St) : Prop where
  fdsPath : ∀ f ∈ s.fds, s.path = some f.2
  holdPath : ∀ h ∈ s.holders, s.path = some h.2
  one : s.holders.length ≤ 1

theorem inv_init : Inv {} := ⟨by simp, by simp, by simp⟩

theorem inv_step {s s' : St} {e : Ev} (hi : Inv s) (hne : e ≠ .unlink) (h : step s e = some s') : Inv s' := by
  cases e with
  | unlink => exact absurd rfl hne
  | openP p =>
    simp only [step] at h
    split at h
    · simp at h
    · split at h
      · rename_i i hp
        injection h with h; subst h
        refine ⟨?_, hi.holdPath, hi.one⟩
        intro f hf
        rcases List.mem_cons.mp hf with rfl | hf
        · exact hp
        · exact hi.fdsPath f hf
      · rename_i hp
        injection h with h; subst h
        refine ⟨?_, ?_, hi.one⟩
        · intro f hf
          rcases List.mem_cons.mp hf with rfl | hf
          · rfl
          · have := hi.fdsPath f hf; rw [hp] at this; cases this
        · intro x hx
          have := hi.holdPath x hx; rw [hp] at this; cases this
  | lock p =>
    simp only [step] at h
    split at h
    · simp at h
    · rename_i f hf
      split at h
      · simp at h
      · rename_i hg
        injection h with h; subst h
        have hfm : f ∈ s.fds := List.mem_of_find?_eq_some hf
        have hfp := hi.fdsPath f hfm
        have hempty : s.holders = [] := by
          cases hh : s.holders with
          | nil => rfl
          | cons x xs =>
            exfalso
            apply hg
            have hx := hi.holdPath x (by rw [hh]; exact List.mem_cons_self)
            rw [hfp] at hx
            injection hx with hx
            simp [hh, hx]
        refine ⟨hi.fdsPath, ?_, ?_⟩
        · intro x hx
          rcases List.mem_cons.mp hx with rfl | hx
          · exact hfp
          · exact hi.holdPath x hx
        · simp [hempty]
  | unlock p =>
    simp only [step] at h
    split at h
    · injection h with h; subst h
      refine ⟨?_, ?_, ?_⟩
      · intro f hf; exact hi.fdsPath f (List.mem_filter.mp hf).1
      · intro x hx; exact hi.holdPath x (List.mem_filter.mp hx).1
      · exact Nat.le_trans (List.length_filter_le _ _) hi.one
    · simp at h

/-- **C19 flock contract.** While nobody unlinks the lock file, at most one process is inside the
critical section — every number of processes, every interleaving of open / lock / unlock. -/
theorem C19_flock_mutual_exclusion : ∀ (evs : List Ev) (s s' : St), Inv s → Ev.unlink ∉ evs →
    run s evs = some s' → s'.inside ≤ 1
  | [], s, s', hi, _, h => by simp only [run, Option.some.injEq] at h; subst h; exact hi.one
  | e :: es, s, s', hi, hn, h => by
    simp only [run] at h
    split at h
    · rename_i s1 hs1
      exact C19_flock_mutual_exclusion es s1 s' (inv_step hi (fun he => hn (he ▸ List.mem_cons_self)) hs1)
        (fun hm => hn (List.mem_cons_of_mem _ hm)) h
    · simp at h

theorem C19_flock_mutual_exclusion_from_start (evs : List Ev) (s' : St) (hn : Ev.unlink ∉ evs)
    (h : run {} evs = some s') : s'.inside ≤ 1 :=
  C19_flock_mutual_exclusion evs {} s' inv_init hn h

/-- non-vacuity: a contended history without unlink runs, and the second locker is refused while the first holds -/
example : (run {} [.openP 1, .lock 1, .openP 2, .unlock 1, .lock 2, .openP 3, .unlock 2, .lock 3]).isSome = true := by decide
example : run {} [.openP 1, .lock 1, .openP 2, .lock 2] = none := by decide

/-- **The contract needs its hypothesis**: the holder unlinks the lock file before it unlocks (the
"tidy up the lock file" change); a waiter that had the old file open and a newcomer that re-creates the
path are then both inside. -/
theorem C19_flock_unlink_counterexample :
    ∃ s', run {} [.openP 1, .lock 1, .openP 2, .unlink, .unlock 1, .lock 2, .openP 3, .lock 3] = some s' ∧ s'.inside = 2 := by
  refine ⟨_, rfl, ?_⟩
  decide

end Conduit.FlockFile
