import ConduitModel.Proofs.Errs
import ConduitModel.Model.AckErr

/-!
# C20 — error classification is stable under wrapping: property theorems

Statement (properties.jsonl C20): "However an error is wrapped, joined or annotated on its way
up, it keeps its classification: the result is fatal exactly when some error inside it was marked
fatal, a coded error keeps its code, sentinel and gRPC status under any number of plain wrappers,
a coded error survives the gRPC round trip with the same code, and the process exit code is a
fixed function of that classification."

Quantifiers: every error tree `e : Err` (arbitrary nesting of the node kinds the code base
produces), every list of wrapping layers `ls : List Layer` (any number, any mix of the real
constructors), every code, every registry; the registry-specific statements are in `Facts/C20`
over the regenerated table.
-/
namespace Conduit.Errs

/-! ## fatal-ness -/

/-- C20.fatal_iff_contains_fatal — "the result is fatal exactly when some error inside it was
marked fatal": `IsFatalError` answers true iff a `*fatalError` node is among the nodes reachable
through `Unwrap() error` / `Unwrap() []error`. -/
theorem C20_fatal_iff_contains_fatal (e : Err) :
    isFatalErr e = true ↔ ∃ x ∈ reach e, ∃ y, x = .fatal y := by
  unfold isFatalErr
  rw [first_isSome_iff]
  constructor
  · rintro ⟨x, hx, hp⟩
    refine ⟨x, hx, ?_⟩
    cases x <;> simp [fatalNode] at hp ⊢
  · rintro ⟨x, hx, y, rfl⟩
    exact ⟨_, hx, rfl⟩

/-- C20.join_fatal_iff_any — `Join(e₁,…,eₙ)` (nil arguments allowed) is fatal iff some `eᵢ` is. -/
theorem C20_join_fatal_iff_any (es : List E) : isFatal (join es) = es.any isFatal := by
  unfold join
  have h : ∀ l : List Err, isFatalErr (.join l) = l.any isFatalErr := by
    intro l
    simp only [isFatalErr, first, fatalNode_join, Option.none_or, firstL_isSome_any]
    rfl
  have h2 : (es.filterMap id).any isFatalErr = es.any isFatal := by
    induction es with
    | nil => rfl
    | cons x xs ih => cases x <;> simp [isFatal, ih]
  split
  · next heq => rw [← h2, heq]; rfl
  · next l _ => simp only [isFatal, h, h2]

/-- C20.fatal_mark — `FatalError(e)` is fatal for every non-nil `e`, is nil for nil, and does not
stack a second mark on an already fatal error. -/
theorem C20_fatal_mark (e : E) :
    isFatal (fatalError e) = e.isSome ∧ (isFatal e = true → fatalError e = e) := by
  cases e with
  | none => simp [fatalError, isFatal]
  | some x =>
    by_cases h : isFatalErr x = true
    · simp [fatalError, isFatal, h]
    · have h' : isFatalErr x = false := by simpa using h
      have hf : isFatalErr (.fatal x) = true := by simp [isFatalErr, first, fatalNode]
      simp [fatalError, isFatal, h', hf]

/-- C20.fatal_under_layers — fatal-ness is never lost on the way up: through any number of
layers that keep their argument reachable (Errorf with a honoured `%w`, wrapper types, Join with
anything, FatalError, conduiterr.Wrap), a fatal error stays fatal. -/
theorem C20_fatal_under_layers (ls : List Layer) (h : ∀ l ∈ ls, l.Keeps) (e : Err)
    (hf : isFatalErr e = true) : isFatalErr (applyAll ls e) = true :=
  first_isSome_mono fatalNode (mem_reach_applyAll h e) hf

/-- C20.fatal_exact_under_plain — and it is not invented either: through plain wrappers the
result is fatal exactly when the wrapped error was, or one of the layers is the fatal mark. -/
theorem C20_fatal_exact_under_plain (ls : List Layer) (h : ∀ l ∈ ls, l.Plain) (e : Err) :
    isFatalErr (applyAll ls e) = (isFatalErr e || ls.any fun l => match l with | .fatal => true | _ => false) := by
  induction ls with
  | nil => simp [applyAll]
  | cons l ls ih =>
    have hl := h l (by simp)
    have ih := ih (fun x hx => h x (by simp [hx]))
    simp only [applyAll, List.any_cons]
    cases l with
    | fatal =>
      simp only [Layer.app]
      split
      · next hfat => simp [hfat]
      · simp [isFatalErr, first, fatalNode]
    | errorf fmt pre post =>
      have := first_app_plain fatalNode (l := .errorf fmt pre post) (fun _ _ _ => rfl) (fun h => by cases h) (fun _ => rfl) hl (applyAll ls e)
      simp only [isFatalErr] at ih ⊢
      rw [this, ih]; simp
    | std k =>
      have := first_app_plain fatalNode (l := .std k) (fun _ _ _ => rfl) (fun h => by cases h) (fun _ => rfl) hl (applyAll ls e)
      simp only [isFatalErr] at ih ⊢
      rw [this, ih]; simp
    | join pre post =>
      have := first_app_plain fatalNode (l := .join pre post) (fun _ _ _ => rfl) (fun h => by cases h) (fun _ => rfl) hl (applyAll ls e)
      simp only [isFatalErr] at ih ⊢
      rw [this, ih]; simp
    | cwrap c => exact absurd hl (by simp [Layer.Plain])

/-! ## code, sentinel, gRPC status under wrappers -/

/-- C20.wrap_passes_inner_code — `conduiterr.Wrap(c, msg, cause)` never shadows: the result's code
is the cause's code when the cause carries one, else `c`. -/
theorem C20_wrap_passes_inner_code (c : Code) (cause : E) :
    getErr (cwrap c cause) = some ((get cause).getD c) := by
  cases cause with
  | none => simp [cwrap, getErr, first, codeNode, get]
  | some x => simp [cwrap, getErr, first, codeNode, get]

/-- C20.code_kept_under_wrappers — "a coded error keeps its code … under any number of plain
wrappers": for EVERY list of layers (any length) each of which is an Errorf whose `%w` is
honoured, a wrapper type, the fatal mark, a `Join(e, more…)`, or `conduiterr.Wrap` with any
other code, `conduiterr.Get` still finds the same code. -/
theorem C20_code_kept_under_wrappers (ls : List Layer) (h : ∀ l ∈ ls, l.KeepsFirst) (e : Err) (c : Code)
    (hc : getErr e = some c) : getErr (applyAll ls e) = some c := by
  induction ls with
  | nil => exact hc
  | cons l ls ih =>
    have ih := ih (fun x hx => h x (by simp [hx]))
    have hl := h l (by simp)
    simp only [applyAll]
    cases l with
    | cwrap c' =>
      have := C20_wrap_passes_inner_code c' (some (applyAll ls e))
      simp only [Layer.app, this, get, ih, Option.getD_some]
    | errorf fmt pre post =>
      simp only [Layer.app, errorf_of_idx hl, getErr, first, codeNode_wrap, Option.none_or]; exact ih
    | std k => simp only [Layer.app, getErr, first, codeNode_wrap, Option.none_or]; exact ih
    | fatal =>
      simp only [Layer.app]; split
      · exact ih
      · simp only [getErr, first, codeNode_fatal, Option.none_or]; exact ih
    | join pre post =>
      simp only [Layer.app, join_layer_pre_none hl, getErr, first, firstL, codeNode_join, Option.none_or]
      simp only [getErr] at ih; simp [ih]

/-- C20.code_kept_under_n_wrappers — the special case named in the design: `n` nested
`cerrors.Errorf("…: %w", ·)` wrappers, for every `n`. -/
theorem C20_code_kept_under_n_wrappers (n : Nat) (c : Code) (x : Err) :
    getErr (applyAll (List.replicate n (.errorf sufW [] [])) (.coded c x)) = some c := by
  refine C20_code_kept_under_wrappers _ ?_ _ c (by simp [getErr, first, codeNode])
  intro l hl
  rw [List.eq_of_mem_replicate hl]
  show errorfIdx sufW (0 + 1 + 0) = some 0
  decide

/-- C20.sentinel_kept_under_wrappers — "keeps its … sentinel": `cerrors.Is(err, target)` stays true
through any number of layers that keep their argument reachable. -/
theorem C20_sentinel_kept_under_wrappers (ls : List Layer) (h : ∀ l ∈ ls, l.Keeps) (e : Err) (t : Target)
    (ht : isErr t e = true) : isErr t (applyAll ls e) = true :=
  first_isSome_mono (isNode t) (mem_reach_applyAll h e) ht

/-- C20.status_kept_under_wrappers — "keeps its … gRPC status": the status `grpcstatus.FromError`
finds is the same through every list of first-keeping layers. -/
theorem C20_status_kept_under_wrappers (ls : List Layer) (h : ∀ l ∈ ls, l.KeepsFirst) (e : Err) (st : Status)
    (hs : grpcFromError e = some st) : grpcFromError (applyAll ls e) = some st := by
  unfold grpcFromError at hs ⊢
  cases hq : first statusNode e with
  | none => simp [hq] at hs
  | some a =>
    rw [first_applyAll_keepsFirst statusNode (fun _ _ _ => rfl) (fun _ => rfl) (fun _ => rfl)
      (fun _ _ => rfl) ls h hq]
    simpa [hq] using hs

/-! ## the whole classification, and the exit code -/

/-- C20.class_invariant_under_plain — through any number of plain wrappers nothing of the
classification changes except that a `FatalError` layer sets the fatal bit. -/
theorem C20_class_invariant_under_plain (cfg : ExitCfg) (ls : List Layer) (h : ∀ l ∈ ls, l.Plain) (e : Err) :
    classOf cfg (applyAll ls e) =
      { classOf cfg e with
        fatal := isFatalErr e || ls.any fun l => match l with | .fatal => true | _ => false } := by
  have hfat := C20_fatal_exact_under_plain ls h e
  have key : ∀ {α : Type} (p : Err → Option α), (∀ k e, k ≠ "val" → p (.wrap k e) = none) →
      (∀ e, p (.fatal e) = none) → (∀ es, p (.join es) = none) →
      first p (applyAll ls e) = first p e := by
    intro α p hw hf hj
    induction ls with
    | nil => rfl
    | cons l ls ih =>
      simp only [applyAll]
      rw [first_app_plain p hw (fun _ => hf) hj (h l (by simp)),
        ih (fun x hx => h x (by simp [hx])) (C20_fatal_exact_under_plain ls (fun x hx => h x (by simp [hx])) e)]
  have hcode := key codeNode (fun _ _ _ => rfl) (fun _ => rfl) (fun _ => rfl)
  have hstat := key statusNode (fun _ _ _ => rfl) (fun _ => rfl) (fun _ => rfl)
  have his : ∀ t, isErr t (applyAll ls e) = isErr t e := fun t => by
    unfold isErr; rw [key (isNode t) (fun k e hk => isNode_wrap t k e hk) (fun _ => rfl) (fun _ => rfl)]
  simp only [classOf, hfat, getErr, hcode, grpcFromError, hstat, his, isEnvironmentSentinel]

/-- C20.exit_code_function_of_class — "the process exit code is a fixed function of that
classification": `ExitCode(err)` is `exitOfClass` of the five observations, nothing else. -/
theorem C20_exit_code_function_of_class (cfg : ExitCfg) (e : Err) :
    exitCode cfg (some e) = exitOfClass cfg (classOf cfg e) := by
  simp only [exitCode, exitOfClass, classOf]
  rfl

/-- C20.exit_code_path_independent — "…do not depend on the path an error took": any number of
plain wrappers (and fatal marks) leaves the exit code unchanged. -/
theorem C20_exit_code_path_independent (cfg : ExitCfg) (ls : List Layer) (h : ∀ l ∈ ls, l.Plain) (e : Err) :
    exitCode cfg (some (applyAll ls e)) = exitCode cfg (some e) := by
  rw [C20_exit_code_function_of_class, C20_exit_code_function_of_class, C20_class_invariant_under_plain cfg ls h e]
  rfl

/-- C20.exit_code_of_coded — a coded error exits with its category's bucket whatever is wrapped
around it (unless the run was cancelled). -/
theorem C20_exit_code_of_coded (cfg : ExitCfg) (ls : List Layer) (h : ∀ l ∈ ls, l.KeepsFirst) (e : Err) (c : Code)
    (hc : getErr e = some c) (hcan : isErr (.sentinel cfg.canceled) (applyAll ls e) = false) :
    exitCode cfg (some (applyAll ls e)) = fromGRPCCode cfg c.grpc := by
  simp [exitCode, hcan, C20_code_kept_under_wrappers ls h e c hc]

/-! ## API boundary status -/

/-- C20.api_status_of_coded — at each of the four API boundary functions a coded error is
reported with its own category and reason, whatever sentinels it also matches. -/
theorem C20_api_status_of_coded (cfg : ApiCfg) (e : Err) (c : Code) (h : getErr e = some c) :
    apiStatus cfg e = (toStatus c).err := by
  simp [apiStatus, h]

/-- C20.api_status_fallback — an un-coded error is reported with the unknown reason and the
category its sentinels select (the boundary's own arms first, then `codeFromError`). -/
theorem C20_api_status_fallback (cfg : ApiCfg) (e : Err) (h : getErr e = none) :
    apiStatus cfg e = (toStatus ⟨cfg.unknownReason, IsSwitch.eval ⟨cfg.own, cfg.common.eval e⟩ e⟩).err := by
  have hf : firstCoded e = none := by
    have := firstCoded_isSome e
    rw [h] at this
    cases hq : firstCoded e with
    | none => rfl
    | some x => simp [hq] at this
  simp [apiStatus, h, withUnknownReason, hf]

/-- C20.api_status_path_independent — "keeps its … gRPC status under any number of plain
wrappers", at the API boundary: the status the API returns is the same through every list of
plain wrappers. -/
theorem C20_api_status_path_independent (cfg : ApiCfg) (ecfg : ExitCfg) (ls : List Layer) (h : ∀ l ∈ ls, l.Plain) (e : Err) :
    apiStatus cfg (applyAll ls e) = apiStatus cfg e := by
  have hcls := C20_class_invariant_under_plain ecfg ls h e
  have hcode : getErr (applyAll ls e) = getErr e := by
    have := congrArg Class.code hcls; simpa [classOf] using this
  have his : ∀ t, isErr t (applyAll ls e) = isErr t e := by
    intro t
    induction ls with
    | nil => rfl
    | cons l ls ih =>
      have hl := h l (by simp)
      simp only [applyAll, isErr]
      rw [first_app_plain (isNode t) (fun k e hk => isNode_wrap t k e hk) (fun _ _ => rfl) (fun _ => rfl) hl]
      exact ih (fun x hx => h x (by simp [hx]))
        (C20_class_invariant_under_plain ecfg ls (fun x hx => h x (by simp [hx])) e)
        (by have := congrArg Class.code (C20_class_invariant_under_plain ecfg ls (fun x hx => h x (by simp [hx])) e)
            simpa [classOf] using this)
  have hsw : ∀ sw : IsSwitch, sw.eval (applyAll ls e) = sw.eval e := by
    intro sw; simp only [IsSwitch.eval, his]
  cases hc : getErr e with
  | some c => rw [C20_api_status_of_coded cfg _ c (hcode.trans hc), C20_api_status_of_coded cfg _ c hc]
  | none =>
    rw [C20_api_status_fallback cfg _ (hcode.trans hc), C20_api_status_fallback cfg _ hc, hsw, hsw]

/-! ## gRPC round trip -/

/-- C20.status_roundtrip_code — "a coded error survives the gRPC round trip with the same code":
complete characterisation, for every registry and every code. `FromStatus(ToStatus(c)) = c` iff
the category is not OK and the reason is unregistered or registered with this very category
(or, for OK, the code is the unknown-reason fallback itself). -/
theorem C20_status_roundtrip_iff (reg : List (String × Nat)) (u : String) (c : Code) :
    fromStatus reg u (toStatus c) = c ↔
      (c.grpc ≠ 0 ∧ (reg.lookup c.reason = none ∨ reg.lookup c.reason = some c.grpc)) ∨
      (c.grpc = 0 ∧ c.reason = u) := by
  obtain ⟨r, g⟩ := c
  by_cases hg : g = 0
  · subst hg
    simp only [toStatus, if_true, fromStatus, Code.mk.injEq, and_true, ne_eq, not_true_eq_false,
      false_and, false_or, true_and]
    exact eq_comm
  · simp only [toStatus, hg, if_false, fromStatus, ne_eq, not_false_eq_true, true_and, false_and, or_false]
    cases hlk : reg.lookup r with
    | none => simp
    | some g' =>
      simp only [Code.mk.injEq, true_and, reduceCtorEq, Option.some.injEq, false_or]

/-- C20.status_roundtrip_registered — every code of a duplicate-free registry (what `Register`
enforces by panicking) whose category is not OK survives `ToStatus` → `FromStatus` unchanged. -/
theorem C20_status_roundtrip_registered (reg : List (String × Nat)) (u : String)
    (hn : (reg.map Prod.fst).Nodup) (r : String) (g : Nat) (hm : (r, g) ∈ reg) (hg : g ≠ 0) :
    fromStatus reg u (toStatus ⟨r, g⟩) = ⟨r, g⟩ :=
  (C20_status_roundtrip_iff reg u ⟨r, g⟩).mpr (Or.inl ⟨hg, Or.inr (lookup_of_mem_nodup hn hm)⟩)

/-- C20.status_roundtrip_error — the same through the real error path: the error the API returns
for a coded error (`ToStatus(ce).Err()`), decoded with `FromStatus`, carries the same code —
whatever plain wrappers sat on the coded error. -/
theorem C20_status_roundtrip_error (reg : List (String × Nat)) (u : String) (hn : (reg.map Prod.fst).Nodup)
    (r : String) (g : Nat) (hm : (r, g) ∈ reg) (hg : g ≠ 0) (x : Expr)
    (hx : get (eval ⟨reg, u⟩ x) = some ⟨r, g⟩) :
    get (eval ⟨reg, u⟩ (.fromStatus (.viaStatus x))) = some ⟨r, g⟩ := by
  have := C20_status_roundtrip_registered reg u hn r g hm hg
  simp only [toStatus, hg, if_false] at this
  simp only [eval]
  simp only [hx, toStatus, hg, if_false, Status.err, grpcFromError, first, statusNode, Option.map_some,
    this]
  simp only [get, getErr, first, codeNode, Option.some_or]

/-! ## annotating with Errorf -/

/-- C20.errorf_good_site_keeps_all — at a call site that satisfies `goodSite`, every error passed
at a `%w` position is reachable in the result (so all of the above applies to it). -/
theorem C20_errorf_good_site_keeps_all (fmt : List Nat) (a : List Val) (hg : goodSite fmt a.length = true) :
    ∀ i ∈ (parsePercentW fmt).ws, ∀ e, errorAt a i = some e → e ∈ reach (errorf fmt a) := by
  intro i hi e he
  have hlt : i < a.length := by
    unfold errorAt at he
    cases hq : a[i]? with
    | none => simp [hq] at he
    | some v => exact (List.getElem?_eq_some_iff.mp hq).1
  simp only [goodSite, goodSiteOf, Bool.and_eq_true, List.all_eq_true, Bool.or_eq_true, beq_iff_eq,
    decide_eq_true_eq] at hg
  have hidx : errorfIdx fmt a.length = some i := by
    rcases hg.2 i hi with h | h
    · omega
    · exact h
  simp [errorf, errorfWraps, hidx, he, reach, self_mem_reach]

/-- C20.errorf_two_w_loses_everything — xerrors.Errorf with two `%w` wraps NOTHING: neither the
code of the first argument nor the fatal mark of the second survives (the F10 shape; the facts
obligation `C20_fact_errorf_sites_good` is what rules this shape out of the code base). -/
theorem C20_errorf_two_w_loses_everything (c : Code) (x y : Err) :
    getErr (errorf fmtWhileHandling [.err (.coded c x), .err (.fatal y)]) = none ∧
    isFatalErr (errorf fmtWhileHandling [.err (.coded c x), .err (.fatal y)]) = false ∧
    goodSite fmtWhileHandling 2 = false := by
  have h : errorfIdx fmtWhileHandling 2 = none := by decide
  refine ⟨?_, ?_, by decide⟩ <;>
  simp [errorf, errorfWraps, h, getErr, isFatalErr, first, codeNode, fatalNode]

/-! ## propagation sites, and the v1 ack / nack route up to the classifier -/

/-- C20.prop_site_keeps_errors — at a `cerrors.Errorf` propagation site that satisfies
`propSiteOk` (what `Facts/C20Prop` decides for every site of the lifecycle packages), every
error-valued argument is reachable in the result: none of them is flattened into text. -/
theorem C20_prop_site_keeps_errors (fmt : List Nat) (a : List Val) (errArgs : List Nat)
    (h : propSiteOk 0 fmt a.length errArgs = true) :
    ∀ i ∈ errArgs, ∀ e, errorAt a i = some e → e ∈ reach (errorf fmt a) := by
  intro i hi e he
  simp only [propSiteOk, if_true, Bool.and_eq_true, List.all_eq_true, List.contains_iff_mem] at h
  exact C20_errorf_good_site_keeps_all fmt a (by simpa [goodSite] using h.1) i (h.2 i hi) e he

/-- the wrappers of both routes keep their argument first (`errorfIdx` honours the `%w`). -/
theorem C20_route_layers_keep :
    (∀ l ∈ nackRouteLayers, l.KeepsFirst ∧ l.Keeps) ∧ (∀ l ∈ ackRouteLayers, l.KeepsFirst ∧ l.Keeps) := by
  have h1 : errorfIdx fmtNodeStopped (1 + 1 + 0) = some 1 := by decide
  have h2 : errorfIdx fmtNacking (0 + 1 + 0) = some 0 := by decide
  have h3 : errorfIdx fmtAcking (0 + 1 + 0) = some 0 := by decide
  constructor <;> intro l hl <;>
    simp only [nackRouteLayers, ackRouteLayers, List.mem_cons, List.mem_nil_iff, or_false] at hl <;>
    rcases hl with rfl | rfl | rfl | rfl <;>
    simp [Layer.KeepsFirst, Layer.Keeps, h1, h2, h3]

/-- C20.v1_nack_node_error_is_layered — the error a destination acker node stops with after a
failed nack IS the nack handler's error under `Join(·, nil)` and the `%w` wrapper of `handleAck`
(the model function and the layer list agree), and symmetrically for a failed ack. -/
theorem C20_v1_node_error_is_layered (w : Dlq.Win) (thr : Nat) (m : AckErr.Msg) :
    (∀ reason, m.nack = some reason →
      (AckErr.handleAck w thr m).2 =
        (AckErr.nackHandler w thr reason m).2.map (applyAll (nackRouteLayers.drop 1))) ∧
    (m.nack = none →
      (AckErr.handleAck w thr m).2 = (AckErr.ackHandler w m).2.map (applyAll (ackRouteLayers.drop 1))) := by
  have h2 : errorfIdx fmtNacking (([] : List Val).length + 1 + ([] : List Val).length) = some ([] : List Val).length := by decide
  have h3 : errorfIdx fmtAcking (([] : List Val).length + 1 + ([] : List Val).length) = some ([] : List Val).length := by decide
  constructor
  · intro reason hr
    simp only [AckErr.handleAck, hr, AckErr.msgNack]
    cases hq : (AckErr.nackHandler w thr reason m).2 with
    | none => simp [join]
    | some e =>
      have := errorf_of_idx (e := Err.join [e]) h2
      simp only [List.nil_append] at this
      simp [join, nackRouteLayers, applyAll, Layer.app, this, AckErr.wrapW]
  · intro hr
    simp only [AckErr.handleAck, hr, AckErr.msgAck]
    cases hq : (AckErr.ackHandler w m).2 with
    | none => simp [join]
    | some e =>
      have := errorf_of_idx (e := Err.join [Err.join [e]]) h3
      simp only [List.nil_append] at this
      simp [join, ackRouteLayers, applyAll, Layer.app, this, AckErr.wrapW]

/-- C20.v1_route_marks_survive — "the recovery decision of a pipeline … does not depend on the
path an error took", for the v1 ack / nack route: whatever error `e` the handler chain
(SourceAckerNode → DLQHandlerNode / Source.Ack) returns, what `lifecycle.Service` classifies
(`node %s stopped with error: %w` around the acker node's error) is fatal if `e` is, carries
`e`'s code, and still matches every sentinel `e` matches — e.g. the fatal
"DLQ nack threshold exceeded" and the original nack reason inside it. -/
theorem C20_v1_route_marks_survive (e : Err) :
    (∀ ls, ls = nackRouteLayers ∨ ls = ackRouteLayers →
      (isFatalErr e = true → isFatalErr (applyAll ls e) = true) ∧
      (∀ c, getErr e = some c → getErr (applyAll ls e) = some c) ∧
      (∀ t, isErr t e = true → isErr t (applyAll ls e) = true)) := by
  intro ls hls
  have hk : ∀ l ∈ ls, l.KeepsFirst ∧ l.Keeps := by
    rcases hls with rfl | rfl
    · exact C20_route_layers_keep.1
    · exact C20_route_layers_keep.2
  exact ⟨C20_fatal_under_layers ls (fun l hl => (hk l hl).2) e,
    fun c hc => C20_code_kept_under_wrappers ls (fun l hl => (hk l hl).1) e c hc,
    fun t ht => C20_sentinel_kept_under_wrappers ls (fun l hl => (hk l hl).2) e t ht⟩

/-- C20.v1_threshold_trip_is_fatal — the case the property exists for: a destination nack that
trips the DLQ threshold stops the acker node with an error the classifier sees as FATAL, with the
nack reason's own marks still reachable. -/
theorem C20_v1_threshold_trip_is_fatal (w : Dlq.Win) (thr : Nat) (hthr : 0 < thr) (reason : Err) (m : AckErr.Msg)
    (hm : m.nack = some reason) (htrip : (w.nack1).2 = false) :
    ∃ ne, (AckErr.handleAck w thr m).2 = some ne ∧
      isFatalErr (Layer.app (.errorf fmtNodeStopped [.other] []) ne) = true ∧
      (∀ t, isErr t reason = true → isErr t (Layer.app (.errorf fmtNodeStopped [.other] []) ne) = true) := by
  have hl := (C20_v1_node_error_is_layered w thr m).1 reason hm
  have hn : (AckErr.nackHandler w thr reason m).2 =
      some (AckErr.wrapW (if isFatalErr (AckErr.wrapW reason) then AckErr.wrapW reason else .fatal (AckErr.wrapW reason))) := by
    by_cases hf : isFatalErr (AckErr.wrapW reason) = true
    · simp [AckErr.nackHandler, AckErr.dlqNack, htrip, hthr, fatalError, hf]
    · simp [AckErr.nackHandler, AckErr.dlqNack, htrip, hthr, fatalError, hf]
  refine ⟨_, by rw [hl, hn]; rfl, ?_, ?_⟩
  · have := (C20_v1_route_marks_survive (AckErr.wrapW (if isFatalErr (AckErr.wrapW reason) then AckErr.wrapW reason else .fatal (AckErr.wrapW reason))) nackRouteLayers (Or.inl rfl)).1
    simp only [nackRouteLayers, applyAll] at this
    apply this
    split
    · next h => simpa [AckErr.wrapW, isFatalErr, first, fatalNode] using h
    · simp [AckErr.wrapW, isFatalErr, first, fatalNode]
  · intro t ht
    have := (C20_v1_route_marks_survive (AckErr.wrapW (if isFatalErr (AckErr.wrapW reason) then AckErr.wrapW reason else .fatal (AckErr.wrapW reason))) nackRouteLayers (Or.inl rfl)).2.2 t
    simp only [nackRouteLayers, applyAll] at this
    apply this
    split <;> simp [AckErr.wrapW, isErr, first, isNode] <;> simpa [isErr] using ht

/-! ## non-vacuity -/

example : Layer.Plain (.errorf sufW [] []) := by show errorfIdx sufW 1 = some 0; decide
example : goodSite sufW 1 = true := by decide
example : isFatalErr (applyAll [.errorf sufW [] [], .join [none] [], .std "op"] (.fatal (.leaf ""))) = true := by decide
example : getErr (applyAll [.fatal, .errorf sufW [] [], .cwrap ⟨"other", 3⟩] (.coded ⟨"a.b", 5⟩ (.leaf ""))) = some ⟨"a.b", 5⟩ := by
  decide
example : fromStatus [("a.b", 5)] "u" (toStatus ⟨"a.b", 7⟩) ≠ ⟨"a.b", 7⟩ := by decide

end Conduit.Errs
