import ConduitModel.Props.MonSound
import ConduitModel.Props.C02
import ConduitModel.Props.C03
import ConduitModel.Props.C04Stream
import ConduitModel.Proofs.SrcAckEngine

/-!
# Engine ∘ connector: the engine-side hypothesis of C02(v) / C03 is discharged (arch v2)

`Props/C02.lean` and `Props/C03.lean` prove the position clauses under the hypothesis `ReachO`
("the positions handed to `Source.Ack` continue, without gap, the read order of this incarnation"),
recorded so far as an assumption about the engine. This file connects the two models:

* engine side (`Model/Funnel.lean`): `C04_v2_run_acks_prefix` says the positions acknowledged by a
  whole multi-batch run are a prefix of the positions read. `sackCalls log` are the individual
  `Source.Ack` calls of the run (`Ev.sack`);
* connector side (`Model/SrcAck.lean`): `ReachO.incarnation(s)` (Proofs/SrcAckEngine.lean) says that
  M3 needs nothing else.

`C03_v2_engine_feeds_connector` : for every task tree, fuel, script, window, fan-out order and outcome of
a run whose source plugin — opened at read index `p` — produced the records `p+1, p+2, …`, the run's
`Source.Ack` calls satisfy `ChunksFrom p`.  `C03_v2_composed_crash_safe` then states C03's crash-safety clause
for the composed system with NO engine-side hypothesis left except `NoEmptyAckCall` (no `Source.Ack`
call with an empty position list — the real `connector.Source.Ack` indexes `p[len(p)-1]`; the funnel
harness's source fake now panics exactly there, so every implementation run checks it; proved locally
for `Worker.Nack`'s call site, `workerNack` acknowledges `take n` with `0 < n ≤ length`).
-/
namespace Conduit.Funnel

open Conduit.SrcAck (ChunksFrom acksOf ReachO)

/-- the `Source.Ack` calls of a run, each as the list of read indices it acknowledges -/
def sackCalls (log : Array Ev) : List (List Nat) :=
  log.toList.filterMap fun e => match e with
    | .sack ps => some (ps.map keyOf)
    | _ => none

/-- no `Source.Ack` call of the run carries an empty position list -/
def NoEmptyAckCall (log : Array Ev) : Prop := ∀ ps, Ev.sack ps ∈ log.toList → ps ≠ []

theorem sackCalls_flatten (log : Array Ev) : (sackCalls log).flatten = ackedKeys log := by
  unfold sackCalls ackedKeys
  induction log.toList with
  | nil => rfl
  | cons e es ih =>
    cases e <;> simp_all [evKeys, List.flatMap_cons]

theorem sackCalls_nonempty {log : Array Ev} (h : NoEmptyAckCall log) : ∀ c ∈ sackCalls log, c ≠ [] := by
  intro c hc
  unfold sackCalls at hc
  rw [List.mem_filterMap] at hc
  obtain ⟨e, he, hm⟩ := hc
  cases e with
  | sack ps =>
    simp only [Option.some.injEq] at hm
    subst hm
    have := h ps he
    simpa using this
  | _ => simp at hm

theorem prefix_of_range_eq {l : List Nat} {s n : Nat} (h : l <+: List.range' s n) : l = List.range' s l.length := by
  obtain ⟨t, ht⟩ := h
  have := List.range'_eq_append_iff.mp ht.symm
  obtain ⟨k, _, hl, _⟩ := this
  rw [hl]
  simp

/-- **Engine side.** Whatever the run does, its `Source.Ack` calls continue the read order. -/
theorem C03_v2_engine_feeds_connector (fuel : Nat) (tree : TaskNode) (batches : List (List Rec)) (s₀ : PS)
    (p : Nat) (hlog : s₀.log = #[])
    (hread : batches.flatten.map (fun r => keyOf r.pos) = List.range' (p + 1) batches.flatten.length)
    (hne : NoEmptyAckCall ((runBatches fuel tree batches).run.run s₀).2.log) :
    ChunksFrom p (sackCalls ((runBatches fuel tree batches).run.run s₀).2.log) := by
  have hpos : ∀ r ∈ batches.flatten, r.pos ≠ none := by
    intro r hr hnone
    have hm : keyOf r.pos ∈ batches.flatten.map (fun r => keyOf r.pos) := List.mem_map.mpr ⟨r, hr, rfl⟩
    rw [hread, List.mem_range'_1, hnone] at hm
    simp [keyOf] at hm
  have hp := (C04_v2_run_acks_prefix fuel tree batches s₀ hpos hlog).1
  rw [hread] at hp
  rw [Conduit.SrcAck.chunksFrom_iff]
  refine ⟨sackCalls_nonempty hne, ?_⟩
  rw [sackCalls_flatten]
  exact prefix_of_range_eq hp

/-- **The composed system, one incarnation.** A connector in any state reachable under the engine-side
hypothesis (e.g. freshly opened: `ReachO c init`), whose in-memory position is read index `p`, is
driven by an arch-v2 run that read `p+1, p+2, …`; `evs` is any interleaving of the connector's events
(flushes, store outcomes, callbacks, deliveries, teardown, crash) in which the `Source.Ack` events are
the run's calls. Then the resulting state is again inside `ReachO` — and C03's crash-safety holds in
it, with no assumption about the engine left. -/
theorem C03_v2_composed_crash_safe (c : SrcAck.Cfg) (s s' : SrcAck.St) (evs : List SrcAck.Ev)
    (fuel : Nat) (tree : TaskNode) (batches : List (List Rec)) (s₀ : PS) (hlog : s₀.log = #[])
    (hr : ReachO c s)
    (hread : batches.flatten.map (fun r => keyOf r.pos) = List.range' (s.inst.posN + 1) batches.flatten.length)
    (hne : NoEmptyAckCall ((runBatches fuel tree batches).run.run s₀).2.log)
    (hnr : SrcAck.Ev.restart ∉ evs)
    (hacks : acksOf evs = sackCalls ((runBatches fuel tree batches).run.run s₀).2.log)
    (hrun : SrcAck.run c s evs = some s') :
    ReachO c s' ∧
    (∀ r : Nat, 1 ≤ r → r ≤ s'.store.posN → r ∈ s'.handled) ∧
    (∀ a ∈ s'.delivered, ∀ q : Nat, q ∈ a.ps → q ≤ s'.store.posN) := by
  have hch := C03_v2_engine_feeds_connector fuel tree batches s₀ s.inst.posN hlog hread hne
  rw [← hacks] at hch
  have hr' := hr.incarnation evs hnr hch hrun
  exact ⟨hr', SrcAck.C03_crash_safe c s' hr'⟩

/-- **The composed system, whole history** (any number of crashes and restarts): if in every process
incarnation the engine's `Source.Ack` calls continue the read order after the position the connector
was (re)opened with (`IncsFed`; for arch v2 this is `C03_v2_engine_feeds_connector` applied to each
incarnation's run, the reopen position being the stored one), then every state of the history is
inside `ReachO`, hence crash-safe. -/
theorem C03_composed_history_crash_safe (c : SrcAck.Cfg) (incs : List (List SrcAck.Ev)) (s' : SrcAck.St)
    (hf : SrcAck.IncsFed c SrcAck.init incs) (hrun : SrcAck.run c SrcAck.init (SrcAck.joinIncs incs) = some s') :
    (∀ r : Nat, 1 ≤ r → r ≤ s'.store.posN → r ∈ s'.handled) ∧
    (∀ a ∈ s'.delivered, ∀ q : Nat, q ∈ a.ps → q ≤ s'.store.posN) :=
  SrcAck.C03_crash_safe c s' (SrcAck.ReachO.incarnations incs SrcAck.init s' ⟨[], rfl⟩ hf hrun)

/-- non-vacuity: a two-incarnation history (ack 1,2 · flush · commit · crash | restart · ack 3) is fed -/
example : SrcAck.IncsFed ⟨12, 100, true, true⟩ SrcAck.init
    [[.ack [1, 2], .trigger, .flushRes .ok, .crash], [.ack [3], .trigger, .flushRes .ok]] :=
  SrcAck.incsFedB_sound _ _ (by decide)

/-- … and the model does run it (the hypotheses of `C03_composed_history_crash_safe` are satisfiable) -/
example : (SrcAck.run ⟨12, 100, true, true⟩ SrcAck.init (SrcAck.joinIncs
    [[.ack [1, 2], .trigger, .flushRes .ok, .crash], [.ack [3], .trigger, .flushRes .ok]])).isSome = true := by decide

/-- a run whose second incarnation skips record 3 is NOT fed (the hypothesis is not vacuous the other way) -/
example : SrcAck.incsFedB ⟨12, 100, true, true⟩ SrcAck.init
    [[.ack [1, 2], .trigger, .flushRes .ok, .crash], [.ack [4]]] = false := by decide

/-- `Worker.Nack`'s call site never produces an empty `Source.Ack`: it acknowledges `positions[:n]`
with `0 < n ≤ len(positions)`. -/
theorem take_nonempty_of_pos {α} (l : List α) (n : Nat) (h0 : 0 < n) (hle : n ≤ l.length) : l.take n ≠ [] := by
  intro h
  have := congrArg List.length h
  simp only [List.length_take, List.length_nil] at this
  omega

end Conduit.Funnel

/-! ## default engine (v1): the same composition, with no hypothesis left

The stream engine acknowledges one position per `Source.Ack` call (`SourceAckerNode`), so no call is
empty; `C04_v1_ack_sequence_is_prefix` gives the sequence. -/
namespace Conduit.Props
open Conduit.Stream Conduit.SrcAck

theorem chunksFrom_singletons (p : Nat) : ∀ (k a : Nat),
    ChunksFrom (p + a) ((List.range' a k).map fun i => [p + 1 + i])
  | 0, _ => by simp [ChunksFrom]
  | k + 1, a => by
    simp only [List.range'_succ, List.map_cons, ChunksFrom, List.length_cons, List.length_nil, Nat.zero_add]
    refine ⟨by simp, ?_, ?_⟩
    · show [p + 1 + a] = List.range' (p + a + 1) 1
      rw [List.range'_one]
      congr 1
      omega
    · have := chunksFrom_singletons p k (a + 1)
      rw [show p + a + 1 = p + (a + 1) by omega]
      exact this

/-- **Engine side, v1.** For every topology, DLQ window and event list of the v1 pipeline model, and every
source `s` whose plugin was opened at read index `p`: the `Source.Ack` calls of `s` (record `i` of the
incarnation is read index `p + 1 + i`) continue the read order — `ChunksFrom p`, nothing assumed. -/
theorem C03_v1_engine_feeds_connector (τ : Topo) (size thr : Nat) (evs : List Stream.Ev) (pp : Pipe)
    (h : Pipe.run τ (Pipe.init τ size thr) evs = some pp) (s p : Nat) :
    ChunksFrom p ((sackSeq s pp.ack.log).map fun i => [p + 1 + i]) := by
  rw [(C04_v1_ack_sequence_is_prefix τ size thr evs pp h s).1, List.range_eq_range']
  exact chunksFrom_singletons p _ 0

/-- **The composed system, v1, one incarnation**: C03's crash-safety with no engine-side hypothesis. -/
theorem C03_v1_composed_crash_safe (c : SrcAck.Cfg) (st st' : SrcAck.St) (cevs : List SrcAck.Ev)
    (τ : Topo) (size thr : Nat) (evs : List Stream.Ev) (pp : Pipe)
    (h : Pipe.run τ (Pipe.init τ size thr) evs = some pp) (s : Nat)
    (hr : ReachO c st) (hnr : SrcAck.Ev.restart ∉ cevs)
    (hacks : acksOf cevs = (sackSeq s pp.ack.log).map fun i => [st.inst.posN + 1 + i])
    (hrun : SrcAck.run c st cevs = some st') :
    ReachO c st' ∧
    (∀ r : Nat, 1 ≤ r → r ≤ st'.store.posN → r ∈ st'.handled) ∧
    (∀ a ∈ st'.delivered, ∀ q : Nat, q ∈ a.ps → q ≤ st'.store.posN) := by
  have hch := C03_v1_engine_feeds_connector τ size thr evs pp h s st.inst.posN
  rw [← hacks] at hch
  have hr' := hr.incarnation cevs hnr hch hrun
  exact ⟨hr', SrcAck.C03_crash_safe c st' hr'⟩

/-- **C02(v) for the composed system, whole history**: if every incarnation is fed in read order
(`IncsFed`: `C03_v1_engine_feeds_connector` / `C03_v2_engine_feeds_connector` per incarnation), then at
the end of the history — and, the history being arbitrary, at every instant of it — the committed
position never went backwards, every committed position covers handled records only, and nothing the
plugin was told is past the committed position. -/
theorem C02_composed_history_positions (c : SrcAck.Cfg) (incs : List (List SrcAck.Ev)) (s' : SrcAck.St)
    (hf : IncsFed c SrcAck.init incs) (hrun : SrcAck.run c SrcAck.init (joinIncs incs) = some s') :
    s'.commits.Pairwise (fun x y => x.posN ≤ y.posN) ∧
    (∀ x ∈ s'.commits, ∀ r : Nat, 1 ≤ r → r ≤ x.posN → r ∈ s'.handled) ∧
    (∀ a ∈ s'.delivered, ∀ q : Nat, q ∈ a.ps → q ≤ s'.store.posN) := by
  have hr := ReachO.incarnations incs SrcAck.init s' ⟨[], rfl⟩ hf hrun
  exact ⟨C02_commit_positions_monotone c s' hr, (C02_stored_position_handled c s' hr).2,
    C02_delivered_positions_durable c s' hr⟩

/-- … and the next step of a composed history never moves the committed position backwards. -/
theorem C02_composed_history_store_forward (c : SrcAck.Cfg) (incs : List (List SrcAck.Ev)) (s' s'' : SrcAck.St)
    (e : SrcAck.Ev) (hf : IncsFed c SrcAck.init incs) (hrun : SrcAck.run c SrcAck.init (joinIncs incs) = some s')
    (hs : SrcAck.step c s' e = some s'') : s'.store.posN ≤ s''.store.posN :=
  C02_stored_position_monotone c s' s'' e (ReachO.incarnations incs SrcAck.init s' ⟨[], rfl⟩ hf hrun) hs

end Conduit.Props
