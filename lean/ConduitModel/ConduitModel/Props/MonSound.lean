import ConduitModel.Proofs.MonRun
import ConduitModel.Proofs.MonTop
import ConduitModel.Proofs.MonFTop
import ConduitModel.Proofs.MonSAll
import ConduitModel.Proofs.MonGTop

/-!
# Monitor soundness for the arch-v2 engine model (C01 / C04 / C05 / C07 / C08 on the run)

The property monitors of `Spec/FunnelMon.lean` (`Mon.run`, evaluated by the check on every trace of
the REAL engine) never fire on a run of the MODEL (`Model/Funnel.lean`): the whole run of a case is
`runBatches fuel tree batches` (`Spec/FunnelRun.lean`; `runCase_eq_runBatches`: exactly what
`Driver/Funnel.lean` `runCase` executes). The violations are split by property
(`Mon.runTagged c`, `Proofs/MonBase.lean`; `Mon.run_eq_runT`: forgetting the tags gives `Mon.run`).

Proved here (all over the whole multi-batch run, every fuel / window / outcome):
* `C04_v2_run_acks_prefix`, `C04_v2_monitor_sound` — the C04 clause, IN FULL (any tree, fan-out,
  nested fan-out, record splitting), from `C04_v2_pass_acks_prefix`;
* `monitor_sound_linear_nosplit` — ALL clauses (C01, C04, C05, C07, C08) for pipelines without
  fan-out and without record splitting;
* `monitor_sound_nosplit_fan1` — ALL clauses for trees with fan-out, no fan-out below another one,
  without record splitting;
* `monitor_sound_linear` — ALL clauses for pipelines without fan-out, RECORD SPLITTING INCLUDED
  (`SplitRecord`, split runs, pieces retried / filtered / nacked one by one), under the additional tag
  discipline `FreshTags` of the run (Proofs/MonS*.lean: the run ledger of Proofs/PassS*.lean restated
  against the monitor);
* `monitor_sound_fan1` — ALL clauses for trees with fan-out (not nested), RECORD SPLITTING INCLUDED:
  above the fan-out (the split runs are cloned per branch) and inside the branches, under
  `RootPreserving` and `FreshTags` (Proofs/MonG*.lean: the split-run proof restated against the
  abstract handler contract `MC` of the fan-out proof, with its failure modes);
* `C01_v2_monitor_sound_linear_nosplit` / `…_nosplit_fan1` / `C01_v2_monitor_sound_linear` /
  `C01_v2_monitor_sound_fan1` — the same per property (`Mon.runTagged c`).

NOT proved (the full statement, kept here as the goal):

    theorem C01_v2_monitor_sound (fuel tree scripts batches s₀)
        (hsrc : tree.kind = .source) (hnd : (tasksS tree).Nodup)
        (hsorted : (batches.flatten.map Mon.root).Pairwise (· < ·))
        (hlog : s₀.log = #[]) (hscr : s₀.scripts = scripts)
        (hrp : RootPreserving scripts ((runBatches fuel tree batches).run.run s₀).2.log.toList)
        (hft : FreshTags scripts batches ((runBatches fuel tree batches).run.run s₀).2.log.toList) :
        Mon.run tree scripts batches ((runBatches fuel tree batches).run.run s₀).2.log.toList = []

  i.e. `monitor_sound_fan1` without `Fan1 tree`. Missing: NESTED fan-out — the handler contract (`MC`,
  Proofs/MonFInv.lean), the tally invariant (`MAInv`, Proofs/MonFMultiDefs.lean) and its contract
  (`multiMC` / `multiMC0`) are written for an arbitrary parent chain, and so is the task recursion
  (`pipeG_all`, Proofs/MonGPipe.lean, with the fan-out case as a parameter), but the tally contract
  needs the parent's failed `Ack`s to be benign (`Benign`: the state invariant survives), which holds
  for the root chain (a failed `Worker.Ack` changes nothing) and NOT for a tally as parent:
  `multiAckNacker.Ack` counts the votes BEFORE `releaseLocked` can fail, and `released` of the calling
  tally is not advanced on failure, so a retried release of the same ack run would be counted twice by
  the parent. What excludes this in the model is that an ack run is only ever released from a call of
  the LAST branch of its fan-out, whose failure ends that branch — an argument across nesting levels
  that is not formalised here (in the concurrent Go engine the branches interleave, so there the retry
  is conceivable when `parent.Ack` fails and the pipeline is not torn down at once).
-/
namespace Conduit.Funnel
open Conduit.Funnel.Mon

theorem swf_pos {batches : List (List Rec)} (h : sourceWellFormed batches = true) :
    ∀ r ∈ batches.flatten, r.pos ≠ none := by
  intro r hr hn
  unfold sourceWellFormed at h
  simp only [Bool.and_eq_true, List.all_eq_true, List.mem_map] at h
  have := h.1 r.pos ⟨r, hr, rfl⟩
  rw [hn] at this
  exact absurd this (by decide)

/-- C04 on the whole run (multi-batch lifting of `C04_v2_pass_acks_prefix`): "The sequence of
positions acknowledged to a source connector is always a prefix of the sequence of records that
source produced: in the same order, with nothing skipped and nothing repeated" — for every task
tree, fuel, scripts (record splitting included), DLQ window, fan-out orders and every outcome of the
run, the acknowledged keys are a prefix of the keys of `batches.flatten`; and they are ALL of them
when the run returns without error. Only hypothesis: no source position is nil. -/
theorem C04_v2_run_acks_prefix (fuel : Nat) (tree : TaskNode) (batches : List (List Rec)) (s₀ : PS)
    (hpos : ∀ r ∈ batches.flatten, r.pos ≠ none) (hlog : s₀.log = #[]) :
    ackedKeys ((runBatches fuel tree batches).run.run s₀).2.log <+: batches.flatten.map (fun r => keyOf r.pos) ∧
    (((runBatches fuel tree batches).run.run s₀).1 = .ok () →
      ackedKeys ((runBatches fuel tree batches).run.run s₀).2.log = batches.flatten.map (fun r => keyOf r.pos)) := by
  obtain ⟨ks, h1, h2, h3⟩ := runBatches_acks fuel tree batches s₀ hpos
  rw [hlog, ackedKeys_empty, List.nil_append] at h1
  have e : (runBatches fuel tree batches).run.run s₀ = exec (runBatches fuel tree batches) s₀ := rfl
  rw [e, h1]
  exact ⟨h2, h3⟩

/-- C04 clause of the monitor (`C04 ack beyond the records read`, `C04 ack out of order`): never
fires on a run of the model — any task tree (fan-out, nested fan-out), any scripts (splits
included), any window configuration, fan-out orders, fuel and outcome. The monitor's own source
hypothesis `Mon.sourceWellFormed` is the only one needed (if it fails the monitor is silent). -/
theorem C04_v2_monitor_sound (fuel : Nat) (tree : TaskNode) (scripts : List (Nat × List Reply))
    (batches : List (List Rec)) (s₀ : PS) (hlog : s₀.log = #[]) :
    Mon.runTagged .c04 tree scripts batches ((runBatches fuel tree batches).run.run s₀).2.log.toList = [] := by
  unfold Mon.runTagged Mon.runT
  by_cases hwf : sourceWellFormed batches = true
  · simp only [hwf, Bool.not_true, Bool.false_eq_true, if_false]
    have hp := (C04_v2_run_acks_prefix fuel tree batches s₀ (swf_pos hwf) hlog).1
    have := (c04_fold tree scripts ((runBatches fuel tree batches).run.run s₀).2.log.toList
      { pending := batches.flatten } hp).1
    unfold filt at this
    unfold Mon.runStT
    rw [this]
    rfl
  · simp [hwf]


/-! ## the whole monitor on pipelines without fan-out and without record splitting -/

/-- `RootPreserving scripts log` — the lineage convention of the harness generators, as a checkable
condition on the event log of the run: in every processor call of the log, the scripted reply maps
each input record to outputs with the same root (`Mon.root r = r.tag % 1000`): a `SingleRecord`
keeps the root of its input record, all the pieces of a `MultiRecord` have it. (The monitors
identify a record by its root; a processor that changes roots makes them lose track.) -/
def RootPreserving (scripts : List (Nat × List Reply)) (log : List Ev) : Prop := rpRun scripts [] log = true

instance (scripts : List (Nat × List Reply)) (log : List Ev) : Decidable (RootPreserving scripts log) := by
  unfold RootPreserving; infer_instance

theorem initial_GInv (G : Ctx) (s₀ : PS) (hlog : s₀.log = #[]) (hscr : s₀.scripts = G.scripts) :
    GInv G s₀ ∧ Rested G s₀ ∧ nAcked s₀ = 0 := by
  have hmu : G.mu s₀ = { pending := G.batches.flatten } := by
    unfold Ctx.mu Ctx.muL runStT; rw [hlog]; rfl
  have hn : nAcked s₀ = 0 := by unfold nAcked; rw [hlog]; rfl
  refine ⟨⟨?_, ?_, ?_, ?_, ?_, ?_⟩, ⟨?_, ?_⟩, hn⟩
  · rw [hmu]
  · intro t
    rw [hmu, hscr]
    cases repliesOf G.scripts t with
    | none => rfl
    | some l => simp [callNoL]
  · rw [hlog, hn]; rfl
  · rw [hmu]; intro x hx; cases hx
  · rw [hmu]; intro x hx; cases hx
  · rw [hmu]; intro x hx; cases hx
  · rw [hmu]; intro x hx; cases hx
  · rw [hmu]; intro x hx; cases hx

/-- ALL clauses of the trace monitor (C01 unjustified ack, C04 ack order, C05 duplicate / out-of-order
write, C07 DLQ clauses, C08 failed record acked) are silent on every run of the model, for pipelines
WITHOUT FAN-OUT (`Linear tree`, any depth, any mix of processors and destinations) whose scripts
never split a record (`NS scripts`): any fuel, window configuration, batches, DLQ replies, retries,
filters, processor errors, destination nacks and every outcome of the run (ok, error, panic, out of
fuel). Hypotheses: the tree starts with the source and its destination ids are distinct; source
roots strictly increase in read order (the harness uses tags = roots = 1, 2, 3, …); the run obeys
the lineage convention (`RootPreserving`); the run starts with an empty log and the case's scripts. -/
theorem monitor_sound_linear_nosplit (fuel : Nat) (tree : TaskNode) (scripts : List (Nat × List Reply))
    (batches : List (List Rec)) (s₀ : PS)
    (hlin : Linear tree) (hsrc : tree.kind = .source) (hnd : (Mon.dests tree).Nodup)
    (hns : NS scripts) (hsorted : (batches.flatten.map Mon.root).Pairwise (· < ·))
    (hlog : s₀.log = #[]) (hscr : s₀.scripts = scripts)
    (hrp : RootPreserving scripts ((runBatches fuel tree batches).run.run s₀).2.log.toList) :
    Mon.run tree scripts batches ((runBatches fuel tree batches).run.run s₀).2.log.toList = [] := by
  rw [run_nil_iff]
  unfold Mon.runT
  by_cases hwf : sourceWellFormed batches = true
  · simp only [hwf, Bool.not_true, Bool.false_eq_true, if_false]
    let G : Ctx := ⟨tree, scripts, batches⟩
    have hs : Src G := ⟨hwf, hsorted⟩
    have D := deps G hs hns
    have ht : TreeOK G := ⟨hlin, hsrc, hnd⟩
    obtain ⟨hI, hq, hn⟩ := initial_GInv G s₀ hlog hscr
    rcases hx : exec (runBatches fuel tree batches) s₀ with ⟨r, s'⟩
    have e : (runBatches fuel tree batches).run.run s₀ = (r, s') := hx
    rw [e] at hrp ⊢
    exact runBatches_mon hs D ht fuel batches [] s₀ s' r rfl hI hq hn hx hrp
  · simp [hwf]

/-- the C01 clause (`C01 unjustified ack`) on linear pipelines without record splitting -/
theorem C01_v2_monitor_sound_linear_nosplit (fuel : Nat) (tree : TaskNode) (scripts : List (Nat × List Reply))
    (batches : List (List Rec)) (s₀ : PS)
    (hlin : Linear tree) (hsrc : tree.kind = .source) (hnd : (Mon.dests tree).Nodup)
    (hns : NS scripts) (hsorted : (batches.flatten.map Mon.root).Pairwise (· < ·))
    (hlog : s₀.log = #[]) (hscr : s₀.scripts = scripts)
    (hrp : RootPreserving scripts ((runBatches fuel tree batches).run.run s₀).2.log.toList) (c : Clause) :
    Mon.runTagged c tree scripts batches ((runBatches fuel tree batches).run.run s₀).2.log.toList = [] := by
  have := (run_nil_iff _ _ _ _).mp
    (monitor_sound_linear_nosplit fuel tree scripts batches s₀ hlin hsrc hnd hns hsorted hlog hscr hrp)
  unfold Mon.runTagged
  rw [this]
  rfl


/-! ## the whole monitor on pipelines WITH fan-out (not nested), without record splitting -/

theorem initial_WInv (G : Ctx) (s₀ : PS) (hlog : s₀.log = #[]) (hscr : s₀.scripts = G.scripts) (_hns : NS G.scripts) :
    WInv G 0 s₀ ∧ RestedT G s₀ := by
  obtain ⟨hI, _, hn⟩ := initial_GInv G s₀ hlog hscr
  have hmu : G.mu s₀ = { pending := G.batches.flatten } := by
    unfold Ctx.mu Ctx.muL runStT; rw [hlog]; rfl
  have hE : G.errT s₀ = [] := by unfold Ctx.errT; rw [hlog]; rfl
  refine ⟨⟨⟨⟨hI.safe, hI.sc, hI.wr, ?_, ?_, fun hg => by rw [hscr]; exact hg⟩, ?_, hn, ?_, ?_⟩, ?_⟩, ⟨?_, ?_⟩⟩
  · rw [hE]; intro x hx; cases hx
  · rw [hmu]; intro x hx; cases hx
  · rw [hlog]; rfl
  · rw [hmu]; intro x hx; cases hx
  · rw [hmu]; intro x hx; cases hx
  · rw [hmu]; intro x hx; cases hx
  · rw [hE]; intro x hx; cases hx
  · rw [hmu]; intro x hx; cases hx

/-- ALL clauses of the trace monitor (C01, C04, C05, C07, C08) are silent on every run of the model for
task trees WITH FAN-OUT, provided no fan-out lies below another one (`Fan1 tree`: any linear prefix,
one fan-out into any number of branches, each branch a pipeline of any depth) and the scripts never
split a record (`NS scripts`): any fuel, window configuration, batches, order of the branches,
DLQ replies (a failed dead-letter write inside a fan-out is retried when the next branch reports),
retries, filters, processor errors, destination nacks and every outcome of the run. Hypotheses as in
the linear case, except that ALL task ids of the tree must be distinct (`tasksS tree`: with fan-out
the monitor's facts are attributed to tasks). -/
theorem monitor_sound_nosplit_fan1 (fuel : Nat) (tree : TaskNode) (scripts : List (Nat × List Reply))
    (batches : List (List Rec)) (s₀ : PS)
    (hfan : Fan1 tree) (hsrc : tree.kind = .source) (hnd : (tasksS tree).Nodup)
    (hns : NS scripts) (hsorted : (batches.flatten.map Mon.root).Pairwise (· < ·))
    (hlog : s₀.log = #[]) (hscr : s₀.scripts = scripts)
    (hrp : RootPreserving scripts ((runBatches fuel tree batches).run.run s₀).2.log.toList) :
    Mon.run tree scripts batches ((runBatches fuel tree batches).run.run s₀).2.log.toList = [] := by
  rw [run_nil_iff]
  unfold Mon.runT
  by_cases hwf : sourceWellFormed batches = true
  · simp only [hwf, Bool.not_true, Bool.false_eq_true, if_false]
    let G : Ctx := ⟨tree, scripts, batches⟩
    have hs : Src G := ⟨hwf, hsorted⟩
    have ht : TreeOKF G := ⟨hfan, hsrc, hnd⟩
    obtain ⟨hI, hq⟩ := initial_WInv G s₀ hlog hscr hns
    rcases hx : exec (runBatches fuel tree batches) s₀ with ⟨r, s'⟩
    have e : (runBatches fuel tree batches).run.run s₀ = (r, s') := hx
    rw [e] at hrp ⊢
    exact runBatches_monF hs hns ht fuel batches [] s₀ s' r rfl hI hq hx hrp
  · simp [hwf]

/-- the C01 clause (and every other clause) with fan-out, per property -/
theorem C01_v2_monitor_sound_nosplit_fan1 (fuel : Nat) (tree : TaskNode) (scripts : List (Nat × List Reply))
    (batches : List (List Rec)) (s₀ : PS)
    (hfan : Fan1 tree) (hsrc : tree.kind = .source) (hnd : (tasksS tree).Nodup)
    (hns : NS scripts) (hsorted : (batches.flatten.map Mon.root).Pairwise (· < ·))
    (hlog : s₀.log = #[]) (hscr : s₀.scripts = scripts)
    (hrp : RootPreserving scripts ((runBatches fuel tree batches).run.run s₀).2.log.toList) (c : Clause) :
    Mon.runTagged c tree scripts batches ((runBatches fuel tree batches).run.run s₀).2.log.toList = [] := by
  have := (run_nil_iff _ _ _ _).mp
    (monitor_sound_nosplit_fan1 fuel tree scripts batches s₀ hfan hsrc hnd hns hsorted hlog hscr hrp)
  unfold Mon.runTagged
  rw [this]
  rfl

/-! ## non-vacuity: a concrete case satisfying every hypothesis, and why the hypotheses are there -/
namespace ExMon
open Conduit.Dlq

/-- source → processor → destination → processor (leaf) -/
def lin : TaskNode := .mk 0 .source [.mk 1 .proc [.mk 2 .dest [.mk 3 .proc []]]]
def batches : List (List Rec) := [[⟨1, some 1⟩, ⟨2, some 2⟩, ⟨3, some 3⟩], [⟨4, some 4⟩, ⟨5, some 5⟩]]
/-- P1: keeps record 1 (new payload 1001, same root), errors on record 2 (→ DLQ), does not answer for
record 3 (→ retry); on the retry it filters record 3; second batch: keeps 4 and 5. D2 confirms 1, later
confirms 4 and rejects 5 (→ DLQ). P3 keeps what it gets. The DLQ destination (task 9) confirms both
dead-lettered records. -/
def scripts : List (Nat × List Reply) :=
  [(1, [.proc [.single ⟨1001, some 1⟩, .error none], .proc [.filter], .proc [.single ⟨4, some 4⟩, .single ⟨5, some 5⟩]]),
   (2, [.dest none [.acks [(some 1, none)]], .dest none [.acks [(some 4, none), (some 5, some {})]]]),
   (3, [.proc [.single ⟨1001, some 1⟩], .proc [.single ⟨4, some 4⟩]]),
   (9, [.dest none [.acks [(some 2, none)]], .dest none [.acks [(some 5, none)]]])]
def s0 : PS := { win := Win.new 10 5, thr := 5, size := 10, dlqTask := 9, scripts := scripts }

example : Linear lin :=
  .mk _ _ _ (by decide) (fun n hn => by
    rw [List.mem_singleton.mp hn]
    exact .mk _ _ _ (by decide) (fun n hn => by
      rw [List.mem_singleton.mp hn]
      exact .mk _ _ _ (by decide) (fun n hn => by
        rw [List.mem_singleton.mp hn]
        exact .mk _ _ _ (by decide) (fun _ hn => nomatch hn))))
example : lin.kind = .source := rfl
example : (Mon.dests lin).Nodup := by decide
example : NS scripts := by decide
example : (batches.flatten.map Mon.root).Pairwise (· < ·) := by decide
example : Mon.sourceWellFormed batches = true := by decide
example : s0.log = #[] ∧ s0.scripts = scripts := ⟨rfl, rfl⟩
set_option maxRecDepth 100000 in
example : RootPreserving scripts ((runBatches 30 lin batches).run.run s0).2.log.toList := by decide +kernel
-- the run: processor error and destination nack → DLQ, retry, filter, two batches; everything acked in order
set_option maxRecDepth 100000 in
example : ackedKeys ((runBatches 30 lin batches).run.run s0).2.log = [1, 2, 3, 4, 5] := by decide +kernel

/-- WHY distinct destination ids: the same destination id twice on the path makes the (sound) engine
write each record twice to "the same destination" — the C05 clause fires on the model's own log. -/
def dup : TaskNode := .mk 0 .source [.mk 2 .dest [.mk 2 .dest []]]
def scriptsDup : List (Nat × List Reply) := [(2, [.dest none [.acks [(some 1, none)]], .dest none [.acks [(some 1, none)]]])]
set_option maxRecDepth 100000 in
example : Mon.run dup scriptsDup [[⟨1, some 1⟩]]
    ((runBatches 30 dup [[⟨1, some 1⟩]]).run.run { s0 with scripts := scriptsDup }).2.log.toList ≠ [] := by decide +kernel

/-- WHY `RootPreserving`: a processor that changes the root of a record makes the monitor lose track of
it (the write is booked under another root): the C01 clause fires although the engine is right. -/
def scriptsRoot : List (Nat × List Reply) :=
  [(1, [.proc [.single ⟨7, some 1⟩]]), (2, [.dest none [.acks [(some 1, none)]]]), (3, [.proc [.single ⟨7, some 1⟩]])]
set_option maxRecDepth 100000 in
example : Mon.run lin scriptsRoot [[⟨1, some 1⟩]]
    ((runBatches 30 lin [[⟨1, some 1⟩]]).run.run { s0 with scripts := scriptsRoot }).2.log.toList ≠ [] := by decide +kernel

/-- WHY increasing roots: the C05 / C07 order clauses compare roots, so a source that numbers its
records out of order trips them. -/
def scriptsOrd : List (Nat × List Reply) :=
  [(1, [.proc [.single ⟨2, some 1⟩, .single ⟨1, some 2⟩]]), (2, [.dest none [.acks [(some 1, none), (some 2, none)]]]),
   (3, [.proc [.single ⟨2, some 1⟩, .single ⟨1, some 2⟩]])]
set_option maxRecDepth 100000 in
example : Mon.run lin scriptsOrd [[⟨2, some 1⟩, ⟨1, some 2⟩]]
    ((runBatches 30 lin [[⟨2, some 1⟩, ⟨1, some 2⟩]]).run.run { s0 with scripts := scriptsOrd }).2.log.toList ≠ [] := by decide +kernel

end ExMon

/-! ## non-vacuity of the fan-out theorem -/
namespace ExFan
open Conduit.Dlq

/-- source → processor 1 → fan-out to (destination 2) and (processor 4 → destination 3) -/
def tree : TaskNode := .mk 0 .source [.mk 1 .proc [.mk 2 .dest [], .mk 4 .proc [.mk 3 .dest []]]]
def batches : List (List Rec) := [[⟨1, some 1⟩, ⟨2, some 2⟩, ⟨3, some 3⟩], [⟨4, some 4⟩]]
/-- P1 keeps record 1 (new payload), errors on record 2 (→ DLQ), keeps record 3. Record 1: both branches
deliver it. Record 3: destination 2 rejects it (→ nack → DLQ write FAILS), then the other branch filters
it; when that branch reports, the dead-letter write is retried and confirmed, record 3 is acked. -/
def scripts : List (Nat × List Reply) :=
  [(1, [.proc [.single ⟨1001, some 1⟩, .error none, .single ⟨3, some 3⟩], .proc [.single ⟨4, some 4⟩]]),
   (2, [.dest none [.acks [(some 1, none)]], .dest none [.acks [(some 3, some {})]], .dest none [.acks [(some 4, none)]]]),
   (4, [.proc [.single ⟨1001, some 1⟩], .proc [.filter], .proc [.single ⟨4, some 4⟩]]),
   (3, [.dest none [.acks [(some 1, none)]], .dest none [.acks [(some 4, none)]]]),
   (9, [.dest none [.acks [(some 2, none)]], .dest (some {}) [], .dest none [.acks [(some 3, none)]]])]
def s0 : PS := { win := Win.new 10 5, thr := 5, size := 10, dlqTask := 9, scripts := scripts, orders := [[1, 0], [0, 1], [0, 1]] }

theorem lin_leaf (id : Nat) (k : TaskKind) : Linear (.mk id k []) := .mk _ _ _ (by decide) (fun _ hn => nomatch hn)

example : Fan1 tree :=
  .mk _ _ _ (fun _ n hn => by
      rw [List.mem_singleton.mp hn]
      exact .mk _ _ _ (fun h => absurd h (by decide)) (fun _ n hn => by
        rcases List.mem_cons.mp hn with rfl | hn
        · exact lin_leaf _ _
        · rw [List.mem_singleton.mp hn]
          exact .mk _ _ _ (by decide) (fun n hn => by rw [List.mem_singleton.mp hn]; exact lin_leaf _ _)))
    (fun h => absurd h (by decide))
example : tree.kind = .source := rfl
example : (tasksS tree).Nodup := by decide
example : NS scripts := by decide
example : (batches.flatten.map Mon.root).Pairwise (· < ·) := by decide
example : Mon.sourceWellFormed batches = true := by decide
example : s0.log = #[] ∧ s0.scripts = scripts := ⟨rfl, rfl⟩
set_option maxRecDepth 100000 in
example : RootPreserving scripts ((runBatches 40 tree batches).run.run s0).2.log.toList := by decide +kernel
-- records 1, 2, 3 acknowledged in order (record 3 after the retried dead-letter write); the pass then
-- returns the branch's error, so the second batch is not read
set_option maxRecDepth 100000 in
example : ackedKeys ((runBatches 40 tree batches).run.run s0).2.log = [1, 2, 3] := by decide +kernel

end ExFan

/-! ## the whole monitor on linear pipelines WITH record splitting -/

/-- `FreshTags scripts batches log` — the tag discipline of the harness generators (`fresh` in
harness/cmd/h_funnel/run.go), as a checkable condition on the event log of the run: in every
processor call of the log, the records the scripted reply puts into the batch (a `SingleRecord`, the
pieces of a `MultiRecord`) carry, per input record, distinct tags, and every such tag that is not
the tag of its own input record is NEW in the case: it is not the tag of a source record nor of any
record an earlier (or the same) reply put into a batch, and it is introduced only once. (The C05
"duplicate write" clause identifies a written record by its tag.) -/
def FreshTags (scripts : List (Nat × List Reply)) (batches : List (List Rec)) (log : List Ev) : Prop :=
  ftRun scripts (batches.flatten.map (·.tag)) [] log = true

instance (scripts : List (Nat × List Reply)) (batches : List (List Rec)) (log : List Ev) :
    Decidable (FreshTags scripts batches log) := by
  unfold FreshTags; infer_instance

/-- ALL clauses of the trace monitor (C01 unjustified ack, C04 ack order, C05 duplicate / out-of-order
write, C07 DLQ clauses, C08 failed record acked) are silent on every run of the model, for pipelines
WITHOUT FAN-OUT (`Linear tree`, any depth, any mix of processors and destinations), RECORD SPLITTING
INCLUDED (`SplitRecord`: a processor may reply a `MultiRecord` with two or more pieces; pieces may be
split again, retried, filtered, nacked one by one): any fuel, window configuration, batches, DLQ
replies and every outcome of the run. In particular, for a split record: the original position is
acknowledged only after every piece was confirmed by every destination or filtered, and if any piece
failed (processor error, rejected by a destination) the ORIGINAL record is dead-lettered once and
acknowledged only after the DLQ confirmed it. Hypotheses as for `monitor_sound_linear_nosplit`
(without `NS scripts`), plus the tag discipline `FreshTags` of the run. -/
theorem monitor_sound_linear (fuel : Nat) (tree : TaskNode) (scripts : List (Nat × List Reply))
    (batches : List (List Rec)) (s₀ : PS)
    (hlin : Linear tree) (hsrc : tree.kind = .source) (hnd : (Mon.dests tree).Nodup)
    (hsorted : (batches.flatten.map Mon.root).Pairwise (· < ·))
    (hlog : s₀.log = #[]) (hscr : s₀.scripts = scripts)
    (hrp : RootPreserving scripts ((runBatches fuel tree batches).run.run s₀).2.log.toList)
    (hft : FreshTags scripts batches ((runBatches fuel tree batches).run.run s₀).2.log.toList) :
    Mon.run tree scripts batches ((runBatches fuel tree batches).run.run s₀).2.log.toList = [] := by
  rw [run_nil_iff]
  unfold Mon.runT
  by_cases hwf : sourceWellFormed batches = true
  · simp only [hwf, Bool.not_true, Bool.false_eq_true, if_false]
    let G : Ctx := ⟨tree, scripts, batches⟩
    have hs : Src G := ⟨hwf, hsorted⟩
    have ht : TreeOK G := ⟨hlin, hsrc, hnd⟩
    obtain ⟨hI, hq, hn⟩ := initial_GInv G s₀ hlog hscr
    have hw : WSeen G s₀ := by
      have hmu : G.mu s₀ = { pending := G.batches.flatten } := by
        unfold Ctx.mu Ctx.muL runStT; rw [hlog]; rfl
      intro e he; rw [hmu] at he; cases he
    rcases hx : exec (runBatches fuel tree batches) s₀ with ⟨r, s'⟩
    have e : (runBatches fuel tree batches).run.run s₀ = (r, s') := hx
    rw [e] at hrp hft ⊢
    exact runBatches_monS hs (depsS G hs) ht fuel batches [] s₀ s' r rfl hI hq hw hn hx hrp hft
  · simp [hwf]

/-- the same per property (`c = .c01`: the C01 clause, `.c05`, `.c07`, `.c08`, `.c04`) -/
theorem C01_v2_monitor_sound_linear (fuel : Nat) (tree : TaskNode) (scripts : List (Nat × List Reply))
    (batches : List (List Rec)) (s₀ : PS)
    (hlin : Linear tree) (hsrc : tree.kind = .source) (hnd : (Mon.dests tree).Nodup)
    (hsorted : (batches.flatten.map Mon.root).Pairwise (· < ·))
    (hlog : s₀.log = #[]) (hscr : s₀.scripts = scripts)
    (hrp : RootPreserving scripts ((runBatches fuel tree batches).run.run s₀).2.log.toList)
    (hft : FreshTags scripts batches ((runBatches fuel tree batches).run.run s₀).2.log.toList) (c : Clause) :
    Mon.runTagged c tree scripts batches ((runBatches fuel tree batches).run.run s₀).2.log.toList = [] := by
  have := (run_nil_iff _ _ _ _).mp
    (monitor_sound_linear fuel tree scripts batches s₀ hlin hsrc hnd hsorted hlog hscr hrp hft)
  unfold Mon.runTagged
  rw [this]
  rfl

/-! ## non-vacuity of the splitting theorem -/
namespace ExSplit
open Conduit.Dlq

/-- source → processor 1 → processor 5 → destination 2 -/
def lin : TaskNode := .mk 0 .source [.mk 1 .proc [.mk 5 .proc [.mk 2 .dest []]]]
def batches : List (List Rec) := [[⟨1, some 1⟩, ⟨2, some 2⟩, ⟨3, some 3⟩], [⟨4, some 4⟩]]
/-- Tags as the harness generates them: `root + 1000·n`, each new tag used once.
P1 splits record 1 into two pieces and record 3 into three, keeps record 2. P5 keeps the first piece
of record 1, does not answer for the second (→ retry, kept on the second attempt with a new tag),
filters record 2, and errors on the middle piece of record 3 — the nack spreads over the sibling
pieces, the ORIGINAL record 3 is dead-lettered. Second batch: P5 splits record 4, D2 confirms the
first piece and rejects the second: the original record 4 is dead-lettered. -/
def scripts : List (Nat × List Reply) :=
  [(1, [.proc [.multi [⟨1001, some 1⟩, ⟨2001, none⟩], .single ⟨2, some 2⟩,
               .multi [⟨1003, some 3⟩, ⟨2003, none⟩, ⟨3003, some 9⟩]],
        .proc [.single ⟨4, some 4⟩]]),
   (5, [.proc [.single ⟨1001, some 1⟩, .nil, .filter, .single ⟨1003, some 3⟩, .error none, .single ⟨3003, some 9⟩],
        .proc [.single ⟨4001, none⟩],
        .proc [.multi [⟨1004, some 4⟩, ⟨2004, some 4⟩]]]),
   (2, [.dest none [.acks [(some 1, none)]], .dest none [.acks [(none, none)]],
        .dest none [.acks [(some 4, none), (some 4, some {})]]]),
   (9, [.dest none [.acks [(some 3, none)]], .dest none [.acks [(some 4, none)]]])]
def s0 : PS := { win := Win.new 10 5, thr := 5, size := 10, dlqTask := 9, scripts := scripts }

theorem hlin : Linear lin :=
  .mk _ _ _ (by decide) (fun n hn => by
    rw [List.mem_singleton.mp hn]
    exact .mk _ _ _ (by decide) (fun n hn => by
      rw [List.mem_singleton.mp hn]
      exact .mk _ _ _ (by decide) (fun n hn => by
        rw [List.mem_singleton.mp hn]
        exact .mk _ _ _ (by decide) (fun _ hn => nomatch hn))))
example : lin.kind = .source := rfl
example : (Mon.dests lin).Nodup := by decide
example : ¬ NS scripts := by decide
example : (batches.flatten.map Mon.root).Pairwise (· < ·) := by decide
example : Mon.sourceWellFormed batches = true := by decide
example : s0.log = #[] ∧ s0.scripts = scripts := ⟨rfl, rfl⟩
set_option maxRecDepth 100000 in
theorem hrp : RootPreserving scripts ((runBatches 40 lin batches).run.run s0).2.log.toList := by decide +kernel
set_option maxRecDepth 100000 in
theorem hft : FreshTags scripts batches ((runBatches 40 lin batches).run.run s0).2.log.toList := by decide +kernel
-- every record acknowledged, in order: 1 after both pieces were written, 2 filtered, 3 and 4 after
-- the dead-letter write of the ORIGINAL record was confirmed
set_option maxRecDepth 100000 in
example : ackedKeys ((runBatches 40 lin batches).run.run s0).2.log = [1, 2, 3, 4] := by decide +kernel
/-- the theorem applies to this run -/
example : Mon.run lin scripts batches ((runBatches 40 lin batches).run.run s0).2.log.toList = [] :=
  monitor_sound_linear 40 lin scripts batches s0 hlin rfl (by decide) (by decide) rfl rfl hrp hft

/-- WHY `FreshTags`: two pieces of one record with the SAME tag, written to the destination in two
writes (the second piece is retried), look like a duplicate write of one record — the C05 clause
fires although the engine is right. -/
def scriptsTag : List (Nat × List Reply) :=
  [(1, [.proc [.multi [⟨1001, some 1⟩, ⟨1001, none⟩]]]),
   (5, [.proc [.single ⟨1001, some 1⟩, .nil], .proc [.single ⟨1001, none⟩]]),
   (2, [.dest none [.acks [(some 1, none)]], .dest none [.acks [(none, none)]]])]
set_option maxRecDepth 100000 in
example : Mon.run lin scriptsTag [[⟨1, some 1⟩]]
    ((runBatches 40 lin [[⟨1, some 1⟩]]).run.run { s0 with scripts := scriptsTag }).2.log.toList ≠ [] := by decide +kernel
set_option maxRecDepth 100000 in
example : ¬ FreshTags scriptsTag [[⟨1, some 1⟩]]
    ((runBatches 40 lin [[⟨1, some 1⟩]]).run.run { s0 with scripts := scriptsTag }).2.log.toList := by decide +kernel

end ExSplit

/-! ## the whole monitor on pipelines WITH fan-out (not nested) AND record splitting -/

theorem initial_WInvS (G : Ctx) (s₀ : PS) (hlog : s₀.log = #[]) (hscr : s₀.scripts = G.scripts) :
    WInv G 0 s₀ ∧ RestedT G s₀ ∧ WSeen G s₀ := by
  obtain ⟨hI, _, hn⟩ := initial_GInv G s₀ hlog hscr
  have hmu : G.mu s₀ = { pending := G.batches.flatten } := by
    unfold Ctx.mu Ctx.muL runStT; rw [hlog]; rfl
  have hE : G.errT s₀ = [] := by unfold Ctx.errT; rw [hlog]; rfl
  refine ⟨⟨⟨⟨hI.safe, hI.sc, hI.wr, ?_, ?_, fun hg => by rw [hscr]; exact hg⟩, ?_, hn, ?_, ?_⟩, ?_⟩, ⟨?_, ?_⟩, ?_⟩
  · rw [hE]; intro x hx; cases hx
  · rw [hmu]; intro x hx; cases hx
  · rw [hlog]; rfl
  · rw [hmu]; intro x hx; cases hx
  · rw [hmu]; intro x hx; cases hx
  · rw [hmu]; intro x hx; cases hx
  · rw [hE]; intro x hx; cases hx
  · rw [hmu]; intro x hx; cases hx
  · intro e he; rw [hmu] at he; cases he

/-- ALL clauses of the trace monitor (C01, C04, C05, C07, C08) are silent on every run of the model for
task trees WITH FAN-OUT, provided no fan-out lies below another one (`Fan1 tree`), RECORD SPLITTING
INCLUDED — above the fan-out (the split runs are cloned for every branch; a record is acknowledged
only when every piece was confirmed or filtered in EVERY branch) and inside the branches (a piece
that fails in one branch dead-letters the ORIGINAL record, once): any fuel, window configuration,
batches, order of the branches, DLQ replies, retries, filters, processor errors, destination nacks
and every outcome of the run. Hypotheses: those of `monitor_sound_nosplit_fan1` without `NS scripts`,
plus the tag discipline `FreshTags` of the run. (This subsumes `monitor_sound_linear` for trees
whose task ids are all distinct.) -/
theorem monitor_sound_fan1 (fuel : Nat) (tree : TaskNode) (scripts : List (Nat × List Reply))
    (batches : List (List Rec)) (s₀ : PS)
    (hfan : Fan1 tree) (hsrc : tree.kind = .source) (hnd : (tasksS tree).Nodup)
    (hsorted : (batches.flatten.map Mon.root).Pairwise (· < ·))
    (hlog : s₀.log = #[]) (hscr : s₀.scripts = scripts)
    (hrp : RootPreserving scripts ((runBatches fuel tree batches).run.run s₀).2.log.toList)
    (hft : FreshTags scripts batches ((runBatches fuel tree batches).run.run s₀).2.log.toList) :
    Mon.run tree scripts batches ((runBatches fuel tree batches).run.run s₀).2.log.toList = [] := by
  rw [run_nil_iff]
  unfold Mon.runT
  by_cases hwf : sourceWellFormed batches = true
  · simp only [hwf, Bool.not_true, Bool.false_eq_true, if_false]
    let G : Ctx := ⟨tree, scripts, batches⟩
    have hs : Src G := ⟨hwf, hsorted⟩
    have ht : TreeOKF G := ⟨hfan, hsrc, hnd⟩
    obtain ⟨hI, hq, hw⟩ := initial_WInvS G s₀ hlog hscr
    rcases hx : exec (runBatches fuel tree batches) s₀ with ⟨r, s'⟩
    have e : (runBatches fuel tree batches).run.run s₀ = (r, s') := hx
    rw [e] at hrp hft ⊢
    exact runBatches_monG hs ht fuel batches [] s₀ s' r rfl hI hq hw hx hrp hft
  · simp [hwf]

/-- the same per property (`c = .c01`: the C01 clause, `.c05`, `.c07`, `.c08`, `.c04`) -/
theorem C01_v2_monitor_sound_fan1 (fuel : Nat) (tree : TaskNode) (scripts : List (Nat × List Reply))
    (batches : List (List Rec)) (s₀ : PS)
    (hfan : Fan1 tree) (hsrc : tree.kind = .source) (hnd : (tasksS tree).Nodup)
    (hsorted : (batches.flatten.map Mon.root).Pairwise (· < ·))
    (hlog : s₀.log = #[]) (hscr : s₀.scripts = scripts)
    (hrp : RootPreserving scripts ((runBatches fuel tree batches).run.run s₀).2.log.toList)
    (hft : FreshTags scripts batches ((runBatches fuel tree batches).run.run s₀).2.log.toList) (c : Clause) :
    Mon.runTagged c tree scripts batches ((runBatches fuel tree batches).run.run s₀).2.log.toList = [] := by
  have := (run_nil_iff _ _ _ _).mp
    (monitor_sound_fan1 fuel tree scripts batches s₀ hfan hsrc hnd hsorted hlog hscr hrp hft)
  unfold Mon.runTagged
  rw [this]
  rfl

/-! ## non-vacuity of the fan-out + splitting theorem -/
namespace ExFanSplit
open Conduit.Dlq

/-- source → processor 1 → fan-out to (destination 2) and (processor 4 → destination 3) -/
def tree : TaskNode := .mk 0 .source [.mk 1 .proc [.mk 2 .dest [], .mk 4 .proc [.mk 3 .dest []]]]
def batches : List (List Rec) := [[⟨1, some 1⟩, ⟨2, some 2⟩, ⟨3, some 3⟩]]
/-- P1 splits record 1 ABOVE the fan-out (the run is cloned for both branches). Branch 0: D2 confirms
all four rows. Branch 1: P4 keeps the first piece of record 1 and filters the second, splits record 2
INSIDE the branch and errors on record 3; D3 confirms the piece of record 1, confirms the first piece
of record 2 and rejects the second. So record 1 is acknowledged (every piece confirmed or filtered in
both branches), the ORIGINAL records 2 and 3 are dead-lettered. -/
def scripts : List (Nat × List Reply) :=
  [(1, [.proc [.multi [⟨1001, some 1⟩, ⟨2001, none⟩], .single ⟨2, some 2⟩, .single ⟨3, some 3⟩]]),
   (2, [.dest none [.acks [(some 1, none), (none, none), (some 2, none), (some 3, none)]]]),
   (4, [.proc [.single ⟨1001, some 1⟩, .filter, .multi [⟨3002, some 2⟩, ⟨4002, none⟩], .error none]]),
   (3, [.dest none [.acks [(some 1, none), (some 2, none), (none, some {})]]]),
   (9, [.dest none [.acks [(some 2, none)]], .dest none [.acks [(some 3, none)]]])]
def s0 : PS := { win := Win.new 10 5, thr := 5, size := 10, dlqTask := 9, scripts := scripts, orders := [[0, 1]] }

theorem hfan : Fan1 tree :=
  .mk _ _ _ (fun _ n hn => by
      rw [List.mem_singleton.mp hn]
      exact .mk _ _ _ (fun h => absurd h (by decide)) (fun _ n hn => by
        rcases List.mem_cons.mp hn with rfl | hn
        · exact ExFan.lin_leaf _ _
        · rw [List.mem_singleton.mp hn]
          exact .mk _ _ _ (by decide) (fun n hn => by rw [List.mem_singleton.mp hn]; exact ExFan.lin_leaf _ _)))
    (fun h => absurd h (by decide))
example : tree.kind = .source := rfl
example : (tasksS tree).Nodup := by decide
example : ¬ NS scripts := by decide
example : (batches.flatten.map Mon.root).Pairwise (· < ·) := by decide
example : Mon.sourceWellFormed batches = true := by decide
set_option maxRecDepth 100000 in
theorem hrp : RootPreserving scripts ((runBatches 40 tree batches).run.run s0).2.log.toList := by decide +kernel
set_option maxRecDepth 100000 in
theorem hft : FreshTags scripts batches ((runBatches 40 tree batches).run.run s0).2.log.toList := by decide +kernel
set_option maxRecDepth 100000 in
example : ackedKeys ((runBatches 40 tree batches).run.run s0).2.log = [1, 2, 3] := by decide +kernel
/-- the theorem applies to this run -/
example : Mon.run tree scripts batches ((runBatches 40 tree batches).run.run s0).2.log.toList = [] :=
  monitor_sound_fan1 40 tree scripts batches s0 hfan rfl (by decide) (by decide) rfl rfl hrp hft

end ExFanSplit

end Conduit.Funnel
