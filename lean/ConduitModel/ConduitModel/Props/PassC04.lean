import ConduitModel.Proofs.PassSFan

/-!
# C04 (arch-v2), pass level — acks reach the source in read order

C04 (properties.jsonl): "The sequence of positions acknowledged to a source connector is always a
prefix of the sequence of records that source produced: in the same order, with nothing skipped
and nothing repeated, no matter in which order destinations, parallel processor workers or
dead-letter writes finish. Filtered and dead-lettered records take their turn in the same
sequence."

Here: one pass `runPass fuel tree recs` of `Worker.doTask` (model `Model/Funnel.lean`, validated
against /repo/pkg/lifecycle-poc/funnel) over ANY task tree (any depth, any fan-out, nested
fan-outs), for ANY recursion budget `fuel` (so: on every prefix of an execution), ANY plugin
scripts (processor results: keep / filter / error / retry, short replies; destination write errors
and acks with or without errors; DLQ destination replies), ANY DLQ window state and configuration,
ANY order in which the branches of each fan-out run, and ANY outcome of the pass (ok, returned
error, panic, out of fuel). `ackedKeys log` is the concatenation, in log order, of the keys of the
positions of every `.sack` event (= `Source.Ack` call).

Proved here:
* `C04_v2_pass_acks_prefix` (and `_next`, `_ok_acks_all`) — the statement in full: EVERY task
  tree (fan-out, nested fan-out), ANY scripts including record splitting (`SplitRecord`, split runs,
  the `runAckNacker` ledger, splits of pieces, nacks / filters / retries of pieces, split runs
  reaching a fan-out: `validateRunsWholeBeforeFanOut`, `clone()`, `originalBatch()`), with the only
  hypothesis that no source position is nil.
* `_nosplit` — every task tree, no hypothesis on the source positions at all (empty or duplicate
  positions make the engine stop before it acks them), but no scripted processor reply contains a
  `MultiRecord` of two or more records (`NS`).
* `_linear` — the special case without fan-out.
-/
namespace Conduit.Funnel

/-- C04, pass level, IN FULL, from any state (any event log, split-run heap, tallies, DLQ window,
scripts, fan-out orders): "The sequence of positions acknowledged to a source connector is always
a prefix of the sequence of records that source produced: in the same order, with nothing skipped
and nothing repeated, no matter in which order destinations … or dead-letter writes finish.
Filtered and dead-lettered records take their turn in the same sequence." — for every task tree,
every fuel and every outcome, the ack log grows by a prefix `ks` of the batch's positions. The
original position of a split record takes its turn exactly when the last of its pieces is acked,
filtered or dead-lettered in every branch. -/
theorem C04_v2_pass_acks_next (fuel : Nat) (tree : TaskNode) (recs : List Rec) (s₀ : PS)
    (hpos : ∀ r ∈ recs, r.pos ≠ none) :
    ∃ ks, ackedKeys ((runPass fuel tree recs).run.run s₀).2.log = ackedKeys s₀.log ++ ks ∧
      ks <+: recs.map (fun r => keyOf r.pos) := by
  rcases h : exec (runPass fuel tree recs) s₀ with ⟨r, s'⟩
  have h' : (runPass fuel tree recs).run.run s₀ = (r, s') := h
  rw [h']
  unfold runPass at h
  have := spipe_full fuel .worker wContract tree (Batch.new recs) none true s₀ s' r (fun _ => 0) trivial trivial
    (new_SInv s₀.heap recs hpos) h
  obtain ⟨ks, hp, hd, _⟩ := this.part
  rw [new_fk] at hp
  exact ⟨ks, hd, hp⟩

/-- C04, pass level, the headline statement: starting with an empty event log, after the pass —
for every task tree, fuel, script, DLQ configuration, fan-out order and outcome — the acknowledged
positions are a prefix of the positions of the records the source produced: same order, nothing
skipped, nothing repeated. -/
theorem C04_v2_pass_acks_prefix (fuel : Nat) (tree : TaskNode) (recs : List Rec) (s₀ : PS)
    (hpos : ∀ r ∈ recs, r.pos ≠ none) (hlog : s₀.log = #[]) :
    ackedKeys ((runPass fuel tree recs).run.run s₀).2.log <+: recs.map (fun r => keyOf r.pos) := by
  obtain ⟨ks, h1, h2⟩ := C04_v2_pass_acks_next fuel tree recs s₀ hpos
  rw [h1, hlog, ackedKeys_empty, List.nil_append]
  exact h2

/-- C04, pass level, completion: when the pass returns WITHOUT error, every position of the batch
has been acknowledged — the ack log grew by exactly the batch's positions, in order (filtered,
dead-lettered and split records included). -/
theorem C04_v2_pass_ok_acks_all (fuel : Nat) (tree : TaskNode) (recs : List Rec) (s₀ : PS)
    (hpos : ∀ r ∈ recs, r.pos ≠ none) (hok : ((runPass fuel tree recs).run.run s₀).1 = .ok ()) :
    ackedKeys ((runPass fuel tree recs).run.run s₀).2.log = ackedKeys s₀.log ++ recs.map (fun r => keyOf r.pos) := by
  rcases h : exec (runPass fuel tree recs) s₀ with ⟨r, s'⟩
  have h' : (runPass fuel tree recs).run.run s₀ = (r, s') := h
  rw [h'] at hok ⊢
  unfold runPass at h
  have := spipe_full fuel .worker wContract tree (Batch.new recs) none true s₀ s' r (fun _ => 0) trivial trivial
    (new_SInv s₀.heap recs hpos) h
  have hd := (((this.ok hok).ok hok).1).1
  rw [new_fk] at hd
  exact hd

/-- C04, pass level, any task tree, no record splitting, from any state: "always a prefix … in the
same order, with nothing skipped and nothing repeated, no matter in which order destinations …
or dead-letter writes finish. Filtered and dead-lettered records take their turn in the same
sequence." — whatever one pass of the engine does and however it ends, the ack log grows by a
prefix `ks` of the batch's positions. -/
theorem C04_v2_pass_acks_next_nosplit (fuel : Nat) (tree : TaskNode) (recs : List Rec) (s₀ : PS)
    (hns : NS s₀.scripts) :
    ∃ ks, ackedKeys ((runPass fuel tree recs).run.run s₀).2.log = ackedKeys s₀.log ++ ks ∧
      ks <+: recs.map (fun r => keyOf r.pos) := by
  rcases h : exec (runPass fuel tree recs) s₀ with ⟨r, s'⟩
  have h' : (runPass fuel tree recs).run.run s₀ = (r, s') := h
  rw [h']
  unfold runPass at h
  have := pipe_nosplit fuel (.run .worker) workerContract tree (Batch.new recs) none true s₀ s' r trivial trivial hns
    (new_BInv recs) h
  obtain ⟨ks, hp, hd, _⟩ := this.1
  refine ⟨ks, hd, ?_⟩
  have e : keys (Batch.new recs).pos = recs.map (fun r => keyOf r.pos) := by
    simp [keys, Batch.new, List.map_map, Function.comp_def]
  rw [← e]; exact hp

/-- C04, pass level, the headline statement for pipelines without record splitting: starting with
an empty event log, after the pass — for every task tree, fuel, script, DLQ configuration, fan-out
order and outcome — the acknowledged positions are a prefix of the positions of the records the
source produced: same order, nothing skipped, nothing repeated. -/
theorem C04_v2_pass_acks_prefix_nosplit (fuel : Nat) (tree : TaskNode) (recs : List Rec) (s₀ : PS)
    (hns : NS s₀.scripts) (hlog : s₀.log = #[]) :
    ackedKeys ((runPass fuel tree recs).run.run s₀).2.log <+: recs.map (fun r => keyOf r.pos) := by
  obtain ⟨ks, h1, h2⟩ := C04_v2_pass_acks_next_nosplit fuel tree recs s₀ hns
  rw [h1, hlog, ackedKeys_empty, List.nil_append]
  exact h2

/-- C04, pass level, completion: when the pass returns WITHOUT error, every position of the
batch has been acknowledged — the ack log grew by exactly the batch's positions, in order
(filtered and dead-lettered records included). -/
theorem C04_v2_pass_ok_acks_all_nosplit (fuel : Nat) (tree : TaskNode) (recs : List Rec) (s₀ : PS)
    (hns : NS s₀.scripts) (hok : ((runPass fuel tree recs).run.run s₀).1 = .ok ()) :
    ackedKeys ((runPass fuel tree recs).run.run s₀).2.log = ackedKeys s₀.log ++ recs.map (fun r => keyOf r.pos) := by
  rcases h : exec (runPass fuel tree recs) s₀ with ⟨r, s'⟩
  have h' : (runPass fuel tree recs).run.run s₀ = (r, s') := h
  rw [h'] at hok ⊢
  unfold runPass at h
  have := pipe_nosplit fuel (.run .worker) workerContract tree (Batch.new recs) none true s₀ s' r trivial trivial hns
    (new_BInv recs) h
  have hd := (this.2 hok).1
  have e : keys (Batch.new recs).pos = recs.map (fun r => keyOf r.pos) := by
    simp [keys, Batch.new, List.map_map, Function.comp_def]
  rw [← e]; exact hd

/-- the `_linear` special case (no fan-out; record splitting allowed). -/
theorem C04_v2_pass_acks_prefix_linear (fuel : Nat) (tree : TaskNode) (recs : List Rec) (s₀ : PS)
    (_hlin : Linear tree) (hpos : ∀ r ∈ recs, r.pos ≠ none) (hlog : s₀.log = #[]) :
    ackedKeys ((runPass fuel tree recs).run.run s₀).2.log <+: recs.map (fun r => keyOf r.pos) :=
  C04_v2_pass_acks_prefix fuel tree recs s₀ hpos hlog

/-! ## non-vacuity: concrete trees and scripts satisfying the hypotheses -/
namespace ExC04
open Conduit.Dlq

/-- source → processor → fan-out to two destinations -/
def tree : TaskNode := .mk 0 .source [.mk 1 .proc [.mk 2 .dest [], .mk 3 .dest []]]
def recs : List Rec := [⟨1, some 1⟩, ⟨2, some 2⟩, ⟨3, some 3⟩]
/-- the processor keeps record 1, fails record 2 (→ DLQ), keeps record 3; destination 3 nacks
record 3 (→ DLQ); branch 3 runs before branch 2. -/
def scripts : List (Nat × List Reply) :=
  [(1, [.proc [.single ⟨1, some 1⟩, .error none, .single ⟨3, some 3⟩]]),
   (2, [.dest none [.acks [(some 1, none)]], .dest none [.acks [(some 3, none)]]]),
   (3, [.dest none [.acks [(some 1, none)]], .dest none [.acks [(some 3, some {})]]]),
   (9, [.dest none [.acks [(some 2, none)]], .dest none [.acks [(some 3, none)]]])]
def s0 : PS := { win := Win.new 10 5, thr := 5, size := 10, dlqTask := 9, scripts := scripts, orders := [[1, 0]] }
/-- the same with a DLQ that tolerates no nack (threshold 0): the pass stops at record 2 -/
def s0strict : PS := { s0 with win := Win.new 10 0, thr := 0 }

example : NS s0.scripts := by decide
example : s0.log = #[] := rfl
example : ¬ Linear tree := by
  intro h; have := h.child _ (List.mem_singleton.mpr rfl) |>.len; exact absurd this (by decide)
set_option maxRecDepth 10000 in
example : ackedKeys ((runPass 20 tree recs).run.run s0).2.log = [1, 2, 3] := by decide +kernel
set_option maxRecDepth 10000 in
example : ackedKeys ((runPass 20 tree recs).run.run s0strict).2.log = [1] := by decide +kernel
-- a budget that ends the pass in the middle (out of fuel): still a prefix
set_option maxRecDepth 10000 in
example : ackedKeys ((runPass 16 tree recs).run.run s0).2.log = [1, 2] := by decide +kernel

/-- linear: source → processor → destination -/
def lin : TaskNode := .mk 0 .source [.mk 1 .proc [.mk 2 .dest []]]
example : Linear lin :=
  .mk _ _ _ (by decide) (fun n hn => by
    rw [List.mem_singleton.mp hn]
    exact .mk _ _ _ (by decide) (fun n hn => by
      rw [List.mem_singleton.mp hn]
      exact .mk _ _ _ (by decide) (fun _ hn => nomatch hn)))
set_option maxRecDepth 10000 in
example : ackedKeys ((runPass 20 lin recs).run.run s0).2.log = [1, 2, 3] := by decide +kernel


/-- linear with two processors that split: record 2 is split in two, record 3 is split in two and
one of its pieces fails in the second processor (the whole record 3 is dead-lettered). -/
def lin2 : TaskNode := .mk 0 .source [.mk 1 .proc [.mk 4 .proc [.mk 2 .dest []]]]
def a1 : AckResp := .acks [(none, none)]
def splitScripts : List (Nat × List Reply) :=
  [(1, [.proc [.single ⟨1, none⟩, .multi [⟨21, none⟩, ⟨22, none⟩], .multi [⟨31, none⟩, ⟨32, none⟩]]]),
   (4, [.proc [.single ⟨1, none⟩, .single ⟨21, none⟩, .single ⟨22, none⟩, .error none, .multi [⟨321, none⟩, ⟨322, none⟩]]]),
   (2, [.dest none [a1, a1, a1, a1, a1], .dest none [a1, a1, a1, a1, a1]]),
   (9, [.dest none [.acks [(some 3, none)]]])]
def s0split : PS := { win := Win.new 10 5, thr := 5, size := 10, dlqTask := 9, scripts := splitScripts }
example : ¬ NS s0split.scripts := by decide
example : ∀ r ∈ recs, r.pos ≠ none := by decide
example : Linear lin2 :=
  .mk _ _ _ (by decide) (fun n hn => by
    rw [List.mem_singleton.mp hn]
    exact .mk _ _ _ (by decide) (fun n hn => by
      rw [List.mem_singleton.mp hn]
      exact .mk _ _ _ (by decide) (fun n hn => by
        rw [List.mem_singleton.mp hn]
        exact .mk _ _ _ (by decide) (fun _ hn => nomatch hn))))
set_option maxRecDepth 10000 in
example : ackedKeys ((runPass 14 lin2 recs).run.run s0split).2.log = [1, 2, 3] := by decide +kernel
set_option maxRecDepth 10000 in
example : ackedKeys ((runPass 11 lin2 recs).run.run s0split).2.log = [1] := by decide +kernel


/-- fan-out BELOW a splitting processor: P1 splits records 2 and 3, then fan-out (the runs are
cloned per branch) to P4 → D2 and to D3; P4 splits a piece again and fails a piece of record 3,
so record 3 is dead-lettered as a whole; branch 3 runs first. -/
def treeFS : TaskNode := .mk 0 .source [.mk 1 .proc [.mk 4 .proc [.mk 2 .dest []], .mk 3 .dest []]]
def scriptsFS : List (Nat × List Reply) :=
  [(1, [.proc [.single ⟨1, none⟩, .multi [⟨21, none⟩, ⟨22, none⟩], .multi [⟨31, none⟩, ⟨32, none⟩]]]),
   (4, [.proc [.single ⟨1, none⟩, .single ⟨21, none⟩, .multi [⟨221, none⟩, ⟨222, none⟩], .error none, .single ⟨32, none⟩]]),
   (2, [.dest none [a1, a1, a1, a1, a1, a1], .dest none [a1, a1, a1, a1, a1]]),
   (3, [.dest none [a1, a1, a1, a1, a1, a1]]),
   (9, [.dest none [.acks [(some 3, none)]]])]
def s0FS : PS := { win := Win.new 10 5, thr := 5, size := 10, dlqTask := 9, scripts := scriptsFS, orders := [[1, 0]] }
example : ¬ NS s0FS.scripts := by decide
example : ¬ Linear treeFS := by
  intro h; have := h.child _ (List.mem_singleton.mpr rfl) |>.len; exact absurd this (by decide)
set_option maxRecDepth 10000 in
example : ackedKeys ((runPass 20 treeFS recs).run.run s0FS).2.log = [1, 2, 3] := by decide +kernel
set_option maxRecDepth 10000 in
example : ackedKeys ((runPass 17 treeFS recs).run.run s0FS).2.log = [1] := by decide +kernel

end ExC04

end Conduit.Funnel
