import ConduitModel.Proofs.SharedSink

/-!
# C01 / C04 / C05 (arch-v2) — N source workers on ONE shared sink

C01 (properties.jsonl): a record is acknowledged to its source only when every destination wrote
it durably — on a shared destination this needs that the acks a worker reads from the
destination's single ack stream are the acks of ITS OWN writes. C04: acks reach a source in its
read order. C05: a destination receives each source's records in that source's read order.

Model: `Model/SharedSink.lean` — W workers × R shared roots, every interleaving of the statements
of `Worker.doTask`'s `sharedBoundary` branch (`sharedMu.Lock()`, deferred `Unlock()`,
`poisoned.Load()`, the sub-pass, `poisoned.Store(true)` on error) with the destination writes and
ack-stream reads of the sub-passes. All theorems quantify over every accepted event list
(`Reach R s`), any number of workers, roots, destinations per root, hand-offs and sub-pass
behaviours. Source tie: `Facts/SharedSink.lean`; implementation tie: driver component
`sharedsink` (trace acceptance of the real concurrent workers).
-/
namespace Conduit.SharedSink

/-! ## (a) mutual exclusion -/

/-- At most one worker is inside a given shared root (between `sharedMu.Lock()` and the deferred
`Unlock()`) at any time, and it is the one recorded as the lock's holder. -/
theorem C01_v2_shared_mutual_exclusion (R : Nat) (s : St) (h : Reach R s) (w w' r : Nat)
    (hw : (s.bpc w r).holds = true) (hw' : (s.bpc w' r).holds = true) : w = w' ∧ s.lock r = some w := by
  have hi := (reach_inv h).1
  have h1 := hi.holdsLock w r hw
  have h2 := hi.holdsLock w' r hw'
  rw [h1] at h2
  exact ⟨Option.some.inj h2, h1⟩

/-! ## (b) serializability of a root -/

/-- Serializability: in every reachable state the event log of every shared root is a
concatenation of COMPLETE visits — each a refusal or a whole sub-pass (`enter t`, then only
processor calls / destination writes / ack-stream reads of that same worker and hand-off `t`, then
`exit t`) — followed, iff a sub-pass is running, by the prefix of that one sub-pass. So the writes
and ack reads of two workers (or two batches) never interleave inside a root. -/
theorem C01_v2_shared_serializable (R : Nat) (s : St) (h : Reach R s) (r : Nat) :
    ∃ (blocks : List (List REv)) (tail : List REv), s.rlog r = blocks.flatten ++ tail ∧ (∀ b ∈ blocks, Block b) ∧
      (openOn s r = none → tail = []) ∧
      (∀ t, openOn s r = some t → ∃ body, tail = .enter t :: body ∧ ∀ x ∈ body, x.isBody = true ∧ x.tag = t) :=
  ((reach_inv h).2.serial r).blocks

/-- … and the open sub-pass is the lock holder's: an event is appended to a root's log only by
the worker that holds the root's lock. -/
theorem C01_v2_shared_open_is_holder (R : Nat) (s : St) (_h : Reach R s) (r : Nat) (t : Tag)
    (ho : openOn s r = some t) : s.lock r = some t.1 ∧ s.bpc t.1 r = .running ∧ t.2 = s.seq t.1 := by
  unfold openOn at ho
  cases hl : s.lock r with
  | none => rw [hl] at ho; cases ho
  | some w =>
    rw [hl] at ho
    by_cases hb : s.bpc w r = .running
    · simp [hb] at ho; subst ho; exact ⟨rfl, hb, rfl⟩
    · simp [hb] at ho

/-! ## (b′) the ack stream is matched to the sub-pass that wrote -/

/-- C01/C04 on a shared destination: every ack a worker consumes from a destination's ack stream
was produced by a write of that SAME worker in the SAME sub-pass — for every accepted event list,
every `Ack()` read by `w` on destination `d` of root `r` pops only entries tagged `(w, seq w)`.
No worker ever consumes (and then acknowledges to its own source) another worker's acks. -/
theorem C01_v2_shared_no_foreign_acks (R : Nat) (pre post : List Ev) (w r d n : Nat) (s : St)
    (h : run R init (pre ++ .ackRead w r d n :: post) = some s) :
    ∃ s₁, run R init pre = some s₁ ∧ n ≤ (s₁.pend r d).length ∧ ∀ t ∈ (s₁.pend r d).take n, t = (w, s₁.seq w) := by
  rw [run_append] at h
  cases h1 : run R init pre with
  | none => rw [h1] at h; cases h
  | some s₁ =>
    rw [h1] at h
    have hi : Inv R s₁ := (run_inv pre ⟨inv_init R, loginv_init⟩ h1).1
    simp only [Option.bind_some, run_cons] at h
    cases h2 : step R s₁ (.ackRead w r d n) with
    | none => rw [h2] at h; cases h
    | some s₂ =>
      simp only [step] at h2
      split at h2
      · rename_i hc
        refine ⟨s₁, rfl, hc.2, fun t ht => ?_⟩
        have hlk := hi.holdsLock w r (by rw [hc.1]; rfl)
        rcases hi.pendOwn r d t (List.mem_of_mem_take ht) with hp | ⟨_, hw⟩
        · rw [hi.runClean w r hc.1] at hp; cases hp
        · exact (hw w hlk).2
      · cases h2

/-- state form: the ghost flag "an ack of another sub-pass was consumed" is never set -/
theorem C01_v2_shared_foreign_flag_never_set (R : Nat) (s : St) (h : Reach R s) : s.foreign = false :=
  (reach_inv h).1.noForeign

/-- C04: whenever a root is free and not poisoned, every ack stream in it is empty — the next
sub-pass starts on a clean stream, so the k-th ack it reads answers its own k-th written record. -/
theorem C04_v2_shared_stream_clean_when_free (R : Nat) (s : St) (h : Reach R s) (r d : Nat)
    (hl : s.lock r = none) (hp : s.poison r = false) : s.pend r d = [] := by
  have hi := (reach_inv h).1
  cases hpe : s.pend r d with
  | nil => rfl
  | cons t ts =>
    rcases hi.pendOwn r d t (by rw [hpe]; simp) with hp' | ⟨hne, _⟩
    · rw [hp] at hp'; cases hp'
    · exact absurd hl hne

/-- C04: a sub-pass returns WITHOUT error only after it has consumed every ack of every write it
made (all streams of the root are empty again); everything still outstanding belongs to it. -/
theorem C04_v2_shared_clean_subpass_consumed_all (R : Nat) (s s' : St) (h : Reach R s) (w r : Nat)
    (hs : step R s (.subEnd w r true) = some s') : ∀ d, s.pend r d = [] := by
  have hi := (reach_inv h).1
  simp only [step] at hs
  split at hs
  · rename_i hc
    exact pend_nil_of_subEnd_ok hi hc.1 (by simpa using hc.2)
  · cases hs

/-! ## (c) the poison latch -/

/-- No window: the poison is stored BEFORE the lock is released — in every reachable state in
which a root is free (any worker could take the lock now), an error of an earlier sub-pass on
that root is already visible as `poisoned = true`. (While the failing worker still holds the lock
it is between the return of the sub-pass and `poisoned.Store(true)`.) -/
theorem C01_v2_shared_poison_before_unlock (R : Nat) (s : St) (h : Reach R s) (r : Nat)
    (he : s.errEnded r = true) :
    s.poison r = true ∨ ∃ w, s.lock r = some w ∧ s.bpc w r = .failedSub := by
  rcases (reach_inv h).1.latch r he with hp | ⟨hne, hw⟩
  · exact Or.inl hp
  · cases hl : s.lock r with
    | none => exact absurd hl hne
    | some w => exact Or.inr ⟨w, rfl, hw w hl⟩

/-- The latch: once a sub-pass on root `r` has ended with an error, NO later processor call,
destination write or ack-stream read of ANY worker happens inside that root — for every accepted
event list `pre ++ subEnd w r false :: mid ++ e :: post`, `e` is not an event inside `r`. (Every
later entry is refused at the poison check: `C01_v2_shared_poisoned_entry_refused`.) -/
theorem C01_v2_shared_poison_latch (R : Nat) (pre mid post : List Ev) (w r : Nat) (e : Ev) (s : St)
    (h : run R init (pre ++ .subEnd w r false :: (mid ++ e :: post)) = some s) :
    (∀ w', e ≠ .procCall w' r) ∧ (∀ w' d k ok pz, e ≠ .write w' r d k ok pz) ∧ (∀ w' d n, e ≠ .ackRead w' r d n) ∧
    (∀ w' ok, e ≠ .subEnd w' r ok) := by
  -- the state after the failed sub-pass, and the state right before `e`
  have hsplit : pre ++ .subEnd w r false :: (mid ++ e :: post) = (pre ++ [.subEnd w r false]) ++ mid ++ (e :: post) := by simp
  rw [hsplit, run_append] at h
  cases h1 : run R init ((pre ++ [.subEnd w r false]) ++ mid) with
  | none => rw [h1] at h; cases h
  | some s₂ =>
    rw [h1] at h
    simp only [Option.bind_some, run_cons] at h
    have hreach : Reach R s₂ := ⟨_, h1⟩
    have hi := (reach_inv hreach).1
    -- errEnded r holds in s₂
    have herr : s₂.errEnded r = true := by
      rw [run_append] at h1
      cases h0 : run R init (pre ++ [.subEnd w r false]) with
      | none => rw [h0] at h1; cases h1
      | some s₁ =>
        rw [h0] at h1
        have : s₁.errEnded r = true := by
          rw [run_append] at h0
          cases hp : run R init pre with
          | none => rw [hp] at h0; cases h0
          | some s₀ =>
            rw [hp] at h0
            simp only [Option.bind_some, run_cons] at h0
            cases hq : step R s₀ (.subEnd w r false) with
            | none => rw [hq] at h0; cases h0
            | some sq =>
              rw [hq] at h0; simp [run] at h0; subst h0
              simp only [step] at hq
              split at hq
              · cases hq; simp [upd]
              · cases hq
        exact (latch_mono_run mid h1 r).1 this
    -- nobody is running on r in s₂
    have hnorun : ∀ w', s₂.bpc w' r ≠ .running := by
      intro w' hrun
      have hlk := hi.holdsLock w' r (by rw [hrun]; rfl)
      rcases hi.latch r herr with hp | ⟨_, hw⟩
      · rw [hi.runClean w' r hrun] at hp; cases hp
      · have := hw w' hlk; rw [hrun] at this; cases this
    cases he : step R s₂ e with
    | none => rw [he] at h; cases h
    | some s₃ =>
      refine ⟨?_, ?_, ?_, ?_⟩
      · intro w' heq; subst heq; simp only [step] at he
        split at he
        · rename_i hc; exact hnorun _ hc
        · cases he
      · intro w' d k ok pz heq; subst heq; simp only [step] at he
        split at he
        · rename_i hc; exact hnorun _ hc.1
        · cases he
      · intro w' d n heq; subst heq; simp only [step] at he
        split at he
        · rename_i hc; exact hnorun _ hc.1
        · cases he
      · intro w' ok heq; subst heq; simp only [step] at he
        split at he
        · rename_i hc; exact hnorun _ hc.1
        · cases he

/-- … every entry into a poisoned root is refused at the check, right after the lock was taken
and before anything else: from a reachable state with `poison r`, the only step of a branch that
holds the lock of `r` and has not checked yet is the refusal, and nobody is inside `r`. -/
theorem C01_v2_shared_poisoned_entry_refused (R : Nat) (s : St) (h : Reach R s) (r : Nat) (hp : s.poison r = true) :
    (∀ w, s.bpc w r ≠ .running) ∧
    (∀ w s', step R s (.checkPoison w r) = some s' → s'.bpc w r = .exiting .refused ∧
      s'.rlog r = s.rlog r ++ [.refuse (w, s.seq w)]) := by
  have hi := (reach_inv h).1
  refine ⟨fun w hrun => ?_, fun w s' hs => ?_⟩
  · have := hi.runClean w r hrun; rw [hp] at this; cases this
  · by_cases hb : s.bpc w r = .held
    · simp [step, hb, hp] at hs; subst hs; simp [upd, upd2]
    · simp [step, hb] at hs

/-! ## (d) per root, every source's hand-offs arrive in that source's read order -/

/-- C05 on M independently locked roots (and on one): in the log of every root, the visits of a
worker `w` (entries and refusals) carry strictly increasing hand-off numbers — `seq w` numbers
w's batches in read order and the sub-batches of a batch in index order — and no event of `w`
carries a number beyond the hand-off `w` is currently in. Together with serializability: root
`r` sees w's sub-batches one at a time, whole, in w's read order, whatever the other workers and
the other roots do. -/
theorem C05_v2_shared_per_root_source_order (R : Nat) (s : St) (h : Reach R s) (r w : Nat) :
    ((s.rlog r).filterMap (REv.entryOf w)).Pairwise (· < ·) ∧
    (∀ e ∈ s.rlog r, e.tag.1 = w → e.tag.2 ≤ s.seq w) := by
  have hl := (reach_inv h).2
  refine ⟨hl.entrySorted r w, fun e he hw => ?_⟩
  have := (hl.entryBound r e he).1
  rw [hw] at this; exact this

/-! ## (e) the lock never deadlocks -/

/-- What the code does: a branch (one goroutine: the worker itself with one root, a pool goroutine
per root with R > 1) takes the lock of ITS root only, and only while it holds nothing; no step
changes the holder of any other root. A worker as a whole may hold several root locks at once
(one per branch goroutine) — see the example below — but no goroutine ever waits for a lock while
holding one. -/
theorem C01_v2_shared_one_lock_per_branch (R : Nat) (s s' : St) (e : Ev) (hs : step R s e = some s') (r : Nat)
    (hne : s'.lock r ≠ s.lock r) :
    (∃ w, e = .acquire w r ∧ s.bpc w r = .want ∧ s.lock r = none) ∨
    (∃ w res, e = .release w r ∧ s.bpc w r = .exiting res) := by
  cases e with
  | acquire w r' =>
    simp only [step] at hs
    split at hs
    · rename_i hc
      cases hs
      by_cases hr : r = r'
      · subst hr; exact Or.inl ⟨w, rfl, hc.1, hc.2⟩
      · exact absurd (by simp [upd, hr]) hne
    · cases hs
  | release w r' =>
    simp only [step] at hs
    split at hs
    · rename_i res hc
      cases hs
      by_cases hr : r = r'
      · subst hr; exact Or.inr ⟨w, res, rfl, hc⟩
      · exact absurd (by simp [upd, hr]) hne
    · cases hs
  | _ =>
    simp only [step] at hs <;> (repeat' split at hs) <;> (try cases hs) <;> exact absurd rfl hne

/-- the lock holder can always move on towards its `Unlock()` without needing anything else (the
only environment assumption: a running sub-pass eventually returns — `subEnd … false` is always
enabled), and each such step decreases its rank (≤ 4): a branch waiting for the lock of `r` is
never blocked forever. -/
theorem C01_v2_shared_lock_holder_progress (R : Nat) (s : St) (h : Reach R s) (r w : Nat) (hl : s.lock r = some w) :
    ∃ e s', step R s e = some s' ∧ (s'.bpc w r).rank < (s.bpc w r).rank ∧
      (e = .checkPoison w r ∨ e = .subEnd w r false ∨ e = .setPoison w r ∨ e = .release w r) := by
  have hh := (reach_inv h).1.lockHolds w r hl
  cases hb : s.bpc w r with
  | held =>
    cases hp : s.poison r with
    | true => exact ⟨.checkPoison w r, _, by simp [step, hb, hp]; rfl, by simp [upd2, BPc.rank], Or.inl rfl⟩
    | false => exact ⟨.checkPoison w r, _, by simp [step, hb, hp]; rfl, by simp [upd2, BPc.rank], Or.inl rfl⟩
  | running => exact ⟨.subEnd w r false, _, by simp [step, hb]; rfl, by simp [upd2, BPc.rank], Or.inr (Or.inl rfl)⟩
  | failedSub => exact ⟨.setPoison w r, _, by simp [step, hb]; rfl, by simp [upd2, BPc.rank], Or.inr (Or.inr (Or.inl rfl))⟩
  | exiting res => exact ⟨.release w r, _, by simp [step, hb]; rfl, by simp [upd2, BPc.rank], Or.inr (Or.inr (Or.inr rfl))⟩
  | idle => rw [hb] at hh; cases hh
  | want => rw [hb] at hh; cases hh
  | done res => rw [hb] at hh; cases hh

/-- No deadlock: in every reachable state in which some worker is inside `doNextTask` towards the
sink, a protocol step is enabled (join, acquire of a free lock, or a step of some lock holder). -/
theorem C01_v2_shared_no_deadlock (R : Nat) (s : St) (h : Reach R s) (w : Nat) (hw : s.wpc w = .fanned) :
    ∃ e s', step R s e = some s' := by
  by_cases hall : ∀ r, r < R → (s.bpc w r).isDone = true
  · exact ⟨.join w, _, by
      simp only [step]
      rw [if_pos ⟨hw, List.all_eq_true.mpr (fun r hr => hall r (List.mem_range.mp hr))⟩]⟩
  · obtain ⟨r, hr⟩ := Classical.not_forall.mp hall
    obtain ⟨_, hnd⟩ := Classical.not_imp.mp hr
    cases hb : s.bpc w r with
    | done res => rw [hb] at hnd; exact absurd rfl hnd
    | idle =>
      -- not possible for r < R while fanned?  it is (the branch has not been started in the model
      -- only before fanStart); fall back on any holder / the worker's own step
      exact ⟨.ownStep w, s, by simp [step, hw]⟩
    | want =>
      cases hl : s.lock r with
      | none => exact ⟨.acquire w r, _, by simp [step, hb, hl]; rfl⟩
      | some h' =>
        obtain ⟨e, s', hs, _⟩ := C01_v2_shared_lock_holder_progress R s h r h' hl
        exact ⟨e, s', hs⟩
    | held | running | failedSub | exiting _ =>
      have hl := (reach_inv h).1.holdsLock w r (by rw [hb]; rfl)
      obtain ⟨e, s', hs, _⟩ := C01_v2_shared_lock_holder_progress R s h r w hl
      exact ⟨e, s', hs⟩

/-! ## non-vacuity -/

/-- two workers, ONE shared root with two destinations (shared processor): worker 0's sub-pass,
then worker 1's; each reads only its own acks -/
def exOneRoot : List Ev :=
  [.fanStart 0, .fanStart 1, .acquire 0 0, .checkPoison 0 0, .procCall 0 0, .write 0 0 10 2 true false,
   .write 0 0 11 2 true false, .ackRead 0 0 10 2, .ackRead 0 0 11 1, .ackRead 0 0 11 1, .subEnd 0 0 true,
   .release 0 0, .acquire 1 0, .join 0, .checkPoison 1 0, .write 1 0 10 1 true false, .ackRead 1 0 10 1,
   .subEnd 1 0 true, .release 1 0, .join 1, .finish 0, .finish 1]

example : ∃ s, run 1 init exOneRoot = some s ∧ s.wpc 0 = .finished ∧ s.wpc 1 = .finished ∧ s.foreign = false ∧
    (s.rlog 0).length = 12 ∧ s.lock 0 = none := by
  refine ⟨_, rfl, ?_⟩; decide

/-- an ack read error in worker 0's sub-pass leaves an ack unread: the root is poisoned before the
lock is released and worker 1 (already waiting for the lock) is refused without writing -/
def exPoison : List Ev :=
  [.fanStart 0, .fanStart 1, .acquire 0 0, .checkPoison 0 0, .write 0 0 10 2 true false, .ackRead 0 0 10 1,
   .ackRead 0 0 10 0, .subEnd 0 0 false, .setPoison 0 0, .release 0 0, .acquire 1 0, .checkPoison 1 0,
   .release 1 0, .join 0, .join 1]

example : ∃ s, run 1 init exPoison = some s ∧ s.poison 0 = true ∧ s.pend 0 10 = [(0, 1)] ∧
    s.wpc 0 = .failed ∧ s.wpc 1 = .failed ∧ s.rlog 0 = [.enter (0, 1), .write (0, 1) 10 2, .ack (0, 1) 10 1,
      .ack (0, 1) 10 0, .exit (0, 1) false, .refuse (1, 1)] := by
  refine ⟨_, rfl, ?_⟩; decide

/-- the model rejects what the seeded change "poison check before the lock" produces: worker 1
writing into the root after worker 0's failed sub-pass -/
example : run 1 init [.fanStart 0, .fanStart 1, .acquire 0 0, .checkPoison 0 0, .write 0 0 10 2 true false,
    .ackRead 0 0 10 0, .subEnd 0 0 false, .setPoison 0 0, .release 0 0, .acquire 1 0, .checkPoison 1 0,
    .write 1 0 10 1 true false] = none := by decide

/-- two independently locked roots: worker 0 is inside root 0 and waits for root 1 while worker 1
is inside root 1 and waits for root 0 (each worker holds one lock and wants the other: reachable)
— and the run completes: no goroutine holds a lock while waiting -/
def exCross : List Ev :=
  [.fanStart 0, .fanStart 1, .acquire 0 0, .acquire 1 1, .checkPoison 0 0, .checkPoison 1 1,
   .write 0 0 10 1 true false, .write 1 1 11 1 true false, .ackRead 1 1 11 1, .ackRead 0 0 10 1,
   .subEnd 0 0 true, .subEnd 1 1 true, .release 1 1, .release 0 0, .acquire 0 1, .acquire 1 0,
   .checkPoison 0 1, .checkPoison 1 0, .write 0 1 11 1 true false, .write 1 0 10 1 true false,
   .ackRead 0 1 11 1, .ackRead 1 0 10 1, .subEnd 0 1 true, .subEnd 1 0 true, .release 0 1, .release 1 0,
   .join 0, .join 1]

example : ∃ s, run 2 init (exCross.take 4) = some s ∧ s.lock 0 = some 0 ∧ s.lock 1 = some 1 ∧
    s.bpc 0 1 = .want ∧ s.bpc 1 0 = .want := by
  refine ⟨_, rfl, ?_⟩; decide

example : ∃ s, run 2 init exCross = some s ∧ s.wpc 0 = .between ∧ s.wpc 1 = .between ∧
    s.rlog 0 = [.enter (0, 1), .write (0, 1) 10 1, .ack (0, 1) 10 1, .exit (0, 1) true,
                .enter (1, 1), .write (1, 1) 10 1, .ack (1, 1) 10 1, .exit (1, 1) true] := by
  refine ⟨_, rfl, ?_⟩; decide

end Conduit.SharedSink
