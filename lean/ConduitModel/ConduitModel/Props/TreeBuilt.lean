import ConduitModel.Proofs.TreeBuilt
import ConduitModel.Props.TreeShape

/-!
# Every worker tree of every pipeline the arch-v2 service accepts

`buildWorkers cfg` (`Model/TreeBuild.lean`) models the whole of `lifecycle-poc.buildRunnablePipeline`
as far as trees and error exits go: `cfg` is what the connector / processor services answer for
`pl.ConnectorIDs` / `pl.ProcessorIDs` (kinds, ids, processor lists, unknown ids), the result the
`worker.FirstTask` of every worker or the error exit taken. It is compared with the REAL builder on
generated configurations (`treeshape`). Proved here, for EVERY configuration:

* `built_is_workerTree` — each tree returned is `workerTree (srcChain …) procs (destChain …)` of
  `Props/TreeShape.lean` for a source connector of the configuration;
* `built_fan1`, `built_kind`, `built_dests` — `Fan1`, source root, destinations = the destination
  connectors of the configuration (the same for every worker: they share the sink);
* `buildWorkers_never_bug` — the "(bug)" exits (`AppendToEnd`'s "multiple next tasks", the empty
  destination branch) are unreachable;
* `built_nodup` — the task ids of a tree are pairwise distinct, from the checks the build itself makes
  (`NewSink`: shared part; `NewWorker`: the source's own prefix; `MakeRunnableProcessor`: a processor
  instance is reserved once) plus `IdSpaces cfg`: connector ids and processor ids do not meet and no id
  is both a source and a destination. The code does NOT check `IdSpaces` (connector and processor
  instances live in separate services; a source connector "x" and a shared processor "x" build
  fine — witnessed by `ExBuilt.collision`); task ids are used for logs only in the Go engine;
* `monitor_sound_service`, `C01_v2_monitor_sound_service` — monitor soundness for every tree of every
  accepted configuration.
-/
namespace Conduit.Funnel
open Conduit.Funnel.Mon

/-- connector ids and processor ids are separate id spaces, and a connector is a source or a
destination, not both -/
structure IdSpaces (cfg : PipeCfg) : Prop where
  sep : ∀ c ∈ cfg.conns, c.id ∉ allProcIds cfg
  kinds : ∀ c ∈ cfg.conns, ∀ d ∈ cfg.conns, c.kind = .source → d.kind = .dest → c.id ≠ d.id

theorem mem_srcConns {cs : List ConnCfg} {c : ConnCfg} : c ∈ srcConns cs ↔ c ∈ cs ∧ c.kind = .source := by
  simp [srcConns]

theorem mem_dstConns {cs : List ConnCfg} {c : ConnCfg} : c ∈ dstConns cs ↔ c ∈ cs ∧ c.kind = .dest := by
  simp [dstConns]

theorem destSetsOf_eq (cs : List ConnCfg) :
    destSetsOf cs = ((dstConns cs).map fun c => (c.id, procIds c.procs)).map fun d => destChain d.1 d.2 := by
  simp [destSetsOf, Function.comp_def]

/-- Each tree of a successful build is the `workerTree` of one of the configuration's sources. -/
theorem built_is_workerTree (cfg : PipeCfg) (trees : List TaskNode) (h : buildWorkers cfg = .ok trees)
    (t : TaskNode) (ht : t ∈ trees) :
    ∃ c ∈ cfg.conns, c.kind = .source ∧
      workerTree (srcChain c.id (procIds c.procs)) (procIds cfg.procs) (destSetsOf cfg.conns) = some t := by
  have B := buildWorkers_ok cfg trees h
  rw [B.trees_eq] at ht
  obtain ⟨c, hc, rfl⟩ := List.mem_map.mp ht
  obtain ⟨hc1, hc2⟩ := mem_srcConns.mp hc
  refine ⟨c, hc1, hc2, ?_⟩
  rw [srcChain, workerTree_ok _ _ _ _ (destSetsOf_ne cfg.conns)]
  rfl

/-- No fan-out below a fan-out, in every tree of every accepted configuration. -/
theorem built_fan1 (cfg : PipeCfg) (trees : List TaskNode) (h : buildWorkers cfg = .ok trees)
    (t : TaskNode) (ht : t ∈ trees) : Fan1 t := by
  obtain ⟨c, _, _, hw⟩ := built_is_workerTree cfg trees h t ht
  exact workerTree_fan1 _ _ _ (srcChain_ok _ _) (destSetsOf_ne _) t hw

/-- The root of every tree is a source task. -/
theorem built_kind (cfg : PipeCfg) (trees : List TaskNode) (h : buildWorkers cfg = .ok trees)
    (t : TaskNode) (ht : t ∈ trees) : t.kind = .source := by
  obtain ⟨c, _, _, hw⟩ := built_is_workerTree cfg trees h t ht
  exact workerTree_kind _ _ _ (srcChain_ok _ _) (destSetsOf_ne _) t hw

/-- The destinations of every tree are the destination connectors of the configuration, in
`pl.ConnectorIDs` order (there is at least one, and one worker per source connector). -/
theorem built_dests (cfg : PipeCfg) (trees : List TaskNode) (h : buildWorkers cfg = .ok trees)
    (t : TaskNode) (ht : t ∈ trees) :
    Mon.dests t = (dstConns cfg.conns).map (·.id) ∧ dstConns cfg.conns ≠ [] ∧
      trees.length = (srcConns cfg.conns).length ∧ srcConns cfg.conns ≠ [] := by
  have B := buildWorkers_ok cfg trees h
  obtain ⟨c, _, _, hw⟩ := built_is_workerTree cfg trees h t ht
  refine ⟨?_, B.has_dst, by rw [B.trees_eq, List.length_map], B.has_src⟩
  rw [destSetsOf_eq] at hw
  rw [workerTree_dests_service _ _ _ _ t hw]
  simp [Function.comp_def]

/-- The "(bug)" exits of the tree construction are unreachable from `buildRunnablePipeline`. -/
theorem buildWorkers_never_bug (cfg : PipeCfg) (e : TreeErr) :
    buildWorkers cfg ≠ .error (.tail e) ∧ buildWorkers cfg ≠ .error (.append e) :=
  buildWorkers_no_bug cfg e

theorem mem_destSets_ids {cs : List ConnCfg} {x : Nat} (hx : x ∈ (destSetsOf cs).flatten.map (·.1)) :
    x ∈ dstProcIds cs ∨ ∃ d ∈ dstConns cs, x = d.id := by
  induction cs with
  | nil => simp [destSetsOf, dstConns] at hx
  | cons c cs ih =>
    by_cases hk : c.kind = .dest
    · simp only [destSetsOf, dstConns_cons, hk, if_true, List.map_cons, List.flatten_cons, List.map_append,
        List.mem_append] at hx
      rcases hx with hx | hx
      · simp only [destChain, List.map_append, List.map_map, List.mem_append, List.map_cons, List.map_nil,
          List.mem_singleton] at hx
        rcases hx with hx | hx
        · left
          simp only [dstProcIds, dstConns_cons, hk, if_true, List.map_cons, List.flatten_cons, List.mem_append]
          left
          simpa [Function.comp_def] using hx
        · exact Or.inr ⟨c, by simp [dstConns_cons, hk], hx⟩
      · rcases ih (by simpa [destSetsOf] using hx) with h | ⟨d, hd, rfl⟩
        · left
          simp only [dstProcIds, dstConns_cons, hk, if_true, List.map_cons, List.flatten_cons, List.mem_append]
          exact Or.inr h
        · exact Or.inr ⟨d, by simp [dstConns_cons, hk, hd], rfl⟩
    · have e1 : dstConns (c :: cs) = dstConns cs := by simp [dstConns_cons, hk]
      have e2 : destSetsOf (c :: cs) = destSetsOf cs := by simp [destSetsOf, e1]
      have e3 : dstProcIds (c :: cs) = dstProcIds cs := by simp [dstProcIds, e1]
      rw [e2] at hx
      rw [e1, e3]
      exact ih hx

theorem mem_srcProcIds {cs : List ConnCfg} {c : ConnCfg} (hc : c ∈ srcConns cs) {x : Nat} (hx : x ∈ procIds c.procs) :
    x ∈ srcProcIds cs := by
  simp only [srcProcIds, List.mem_flatten, List.mem_map]
  exact ⟨_, ⟨c, hc, rfl⟩, hx⟩

/-- Pairwise distinct task ids in every tree of every accepted configuration whose connector and
processor ids do not meet. -/
theorem built_nodup (cfg : PipeCfg) (trees : List TaskNode) (h : buildWorkers cfg = .ok trees) (hid : IdSpaces cfg)
    (t : TaskNode) (ht : t ∈ trees) : (tasksS t).Nodup := by
  have B := buildWorkers_ok cfg trees h
  rw [B.trees_eq] at ht
  obtain ⟨c, hc, rfl⟩ := List.mem_map.mp ht
  obtain ⟨hc1, hc2⟩ := mem_srcConns.mp hc
  have hshared : tasksL (sharedOf cfg) = procIds cfg.procs ++ (destSetsOf cfg.conns).flatten.map (·.1) :=
    tasksL_sharedRoots _ _ (destSetsOf_ne cfg.conns)
  have hpre : (c.id :: procIds c.procs).Nodup := B.prefix_nodup c hc
  have hall := B.procs_nodup
  unfold allProcIds at hall
  obtain ⟨hSD, hP, hSDP⟩ := List.nodup_append.mp hall
  obtain ⟨_, _, hS_D⟩ := List.nodup_append.mp hSD
  -- an id of the shared part is a pipeline processor, a destination's processor or a destination connector
  have hcases : ∀ x ∈ tasksL (sharedOf cfg),
      x ∈ procIds cfg.procs ∨ x ∈ dstProcIds cfg.conns ∨ ∃ d ∈ dstConns cfg.conns, x = d.id := by
    intro x hx
    rw [hshared] at hx
    rcases List.mem_append.mp hx with hx | hx
    · exact Or.inl hx
    · exact Or.inr (mem_destSets_ids hx)
  have hdisj : ∀ x ∈ c.id :: procIds c.procs, x ∉ tasksL (sharedOf cfg) := by
    intro x hx hm
    rcases List.mem_cons.mp hx with rfl | hx
    · -- the source connector's id
      have hsep := hid.sep c hc1
      unfold allProcIds at hsep
      rcases hcases _ hm with h | h | ⟨d, hd, he⟩
      · exact hsep (List.mem_append_right _ h)
      · exact hsep (List.mem_append_left _ (List.mem_append_right _ h))
      · obtain ⟨hd1, hd2⟩ := mem_dstConns.mp hd
        exact hid.kinds c hc1 d hd1 hc2 hd2 he
    · -- one of the source's own processors
      have hxS : x ∈ srcProcIds cfg.conns := mem_srcProcIds hc hx
      rcases hcases _ hm with h | h | ⟨d, hd, he⟩
      · exact hSDP x (List.mem_append_left _ hxS) x h rfl
      · exact hS_D x hxS x h rfl
      · obtain ⟨hd1, _⟩ := mem_dstConns.mp hd
        apply hid.sep d hd1
        unfold allProcIds
        rw [← he]
        exact List.mem_append_left _ (List.mem_append_left _ hxS)
  have : tasksS (treeOf (sharedOf cfg) c) = (c.id :: procIds c.procs) ++ tasksL (sharedOf cfg) := by
    rw [treeOf, tasksS_chainN]
    simp [procSpecs, Function.comp_def]
  rw [this]
  exact nodup_append_of hpre B.shared_nodup (fun x hx hm => hdisj x hm hx)

/-- **Monitor soundness for every pipeline the service accepts.** For every configuration `cfg` for
which the builder succeeds, every worker tree `tree` it returns, and every run of the engine model on
that tree: ALL clauses of the trace monitor (C01, C04, C05, C07, C08) are silent. Hypotheses: the id
spaces of connectors and processors do not meet (`IdSpaces cfg`, see the file comment), and the run
hypotheses of `monitor_sound_fan1`. -/
theorem monitor_sound_service (cfg : PipeCfg) (trees : List TaskNode) (hbuilt : buildWorkers cfg = .ok trees)
    (hid : IdSpaces cfg) (tree : TaskNode) (htree : tree ∈ trees)
    (fuel : Nat) (scripts : List (Nat × List Reply)) (batches : List (List Rec)) (s₀ : PS)
    (hsorted : (batches.flatten.map Mon.root).Pairwise (· < ·))
    (hlog : s₀.log = #[]) (hscr : s₀.scripts = scripts)
    (hrp : RootPreserving scripts ((runBatches fuel tree batches).run.run s₀).2.log.toList)
    (hft : FreshTags scripts batches ((runBatches fuel tree batches).run.run s₀).2.log.toList) :
    Mon.run tree scripts batches ((runBatches fuel tree batches).run.run s₀).2.log.toList = [] :=
  monitor_sound_fan1 fuel tree scripts batches s₀ (built_fan1 cfg trees hbuilt tree htree)
    (built_kind cfg trees hbuilt tree htree) (built_nodup cfg trees hbuilt hid tree htree) hsorted hlog hscr hrp hft

/-- the same per property clause (`c = .c01`, `.c04`, `.c05`, `.c07`, `.c08`) -/
theorem C01_v2_monitor_sound_service (cfg : PipeCfg) (trees : List TaskNode) (hbuilt : buildWorkers cfg = .ok trees)
    (hid : IdSpaces cfg) (tree : TaskNode) (htree : tree ∈ trees)
    (fuel : Nat) (scripts : List (Nat × List Reply)) (batches : List (List Rec)) (s₀ : PS)
    (hsorted : (batches.flatten.map Mon.root).Pairwise (· < ·))
    (hlog : s₀.log = #[]) (hscr : s₀.scripts = scripts)
    (hrp : RootPreserving scripts ((runBatches fuel tree batches).run.run s₀).2.log.toList)
    (hft : FreshTags scripts batches ((runBatches fuel tree batches).run.run s₀).2.log.toList) (c : Clause) :
    Mon.runTagged c tree scripts batches ((runBatches fuel tree batches).run.run s₀).2.log.toList = [] :=
  C01_v2_monitor_sound_fan1 fuel tree scripts batches s₀ (built_fan1 cfg trees hbuilt tree htree)
    (built_kind cfg trees hbuilt tree htree) (built_nodup cfg trees hbuilt hid tree htree) hsorted hlog hscr hrp hft c

/-! ## non-vacuity -/
namespace ExBuilt

/-- two sources (1 with processor 2; 8), shared processors 3 and 4, destination 6 behind its processor 5, destination 7 -/
def cfg : PipeCfg :=
  { conns := [⟨.source, 1, [(2, true)]⟩, ⟨.dest, 6, [(5, true)]⟩, ⟨.source, 8, []⟩, ⟨.dest, 7, []⟩], procs := [(3, true), (4, true)] }

def shared : List TaskNode := [.mk 3 .proc [.mk 4 .proc [.mk 5 .proc [.mk 6 .dest []], .mk 7 .dest []]]]

example : buildWorkers cfg = .ok [.mk 1 .source [.mk 2 .proc shared], .mk 8 .source shared] := rfl

example : IdSpaces cfg := ⟨by decide, by decide⟩

/-- no shared processors: the destination branches are the shared roots, the fan-out is at the source's tail -/
example : buildWorkers { conns := [⟨.dest, 6, [(5, true)]⟩, ⟨.source, 1, [(2, true)]⟩, ⟨.dest, 7, []⟩], procs := [] } =
    .ok [.mk 1 .source [.mk 2 .proc [.mk 5 .proc [.mk 6 .dest []], .mk 7 .dest []]]] := rfl

/-- one destination: a linear pipeline -/
example : buildWorkers { conns := [⟨.source, 1, []⟩, ⟨.dest, 6, [(5, true)]⟩], procs := [(3, true)] } =
    .ok [.mk 1 .source [.mk 3 .proc [.mk 5 .proc [.mk 6 .dest []]]]] := rfl

/-- the error exits -/
example : buildWorkers { conns := [⟨.dest, 6, []⟩], procs := [] } = .error .nosrc := rfl
example : buildWorkers { conns := [⟨.source, 1, []⟩], procs := [] } = .error .nodst := rfl
example : buildWorkers { conns := [⟨.source, 1, []⟩, ⟨.missing, 9, []⟩, ⟨.dest, 6, []⟩], procs := [] } = .error .connector := rfl
example : buildWorkers { conns := [⟨.source, 1, [(2, false)]⟩, ⟨.dest, 6, []⟩], procs := [] } = .error .processor := rfl
/-- a processor instance referenced twice (by a source and by the pipeline) -/
example : buildWorkers { conns := [⟨.source, 1, [(2, true)]⟩, ⟨.dest, 6, []⟩], procs := [(2, true)] } = .error .running := rfl
/-- a destination connector id equal to a shared processor id: refused by `NewSink` -/
example : buildWorkers { conns := [⟨.source, 1, []⟩, ⟨.dest, 3, []⟩], procs := [(3, true)] } = .error .sink := rfl
/-- a source connector id equal to the id of one of its own processors: refused by `NewWorker` -/
example : buildWorkers { conns := [⟨.source, 1, [(1, true)]⟩, ⟨.dest, 6, []⟩], procs := [] } = .error .worker := rfl

/-- a SOURCE connector id equal to a SHARED processor id is accepted: the tree has the id 3 twice
(`IdSpaces` fails, `built_nodup` does not apply; the real builder accepts it as well — corpus line
`pipe P=3 C=s3:-;d6:-`) -/
def collision : PipeCfg := { conns := [⟨.source, 3, []⟩, ⟨.dest, 6, []⟩], procs := [(3, true)] }
example : buildWorkers collision = .ok [.mk 3 .source [.mk 3 .proc [.mk 6 .dest []]]] := rfl
example : ¬ IdSpaces collision := fun h => h.sep ⟨.source, 3, []⟩ (List.mem_cons_self ..) (by decide)
example : ¬ (tasksS (.mk 3 .source [.mk 3 .proc [.mk 6 .dest []]])).Nodup := by decide

end ExBuilt

end Conduit.Funnel
