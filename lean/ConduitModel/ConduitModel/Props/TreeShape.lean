import ConduitModel.Proofs.TreeBuild
import ConduitModel.Props.MonSound

/-!
# Every task tree the arch-v2 service builds is one the monitor-soundness theorems cover

`Props/MonSound.lean` proves that all clauses of the trace monitor (C01, C04, C05, C07, C08) are
silent on every run of the engine model for trees `tree` with `Fan1 tree`, `tree.kind = .source` and
`(tasksS tree).Nodup`. Here: the tree that `lifecycle-poc.(*Service).buildRunnablePipeline` links for
the worker of a source (`workerTree`, `Model/TreeBuild.lean`: `AppendToEnd`, `buildSharedTail` and the
per-source loop, statement by statement) ALWAYS has that shape, for every number of sources'
processors, shared processors, destinations and destination processors:

* `workerTree_some` / `workerTreeE_never_multiNext` — the construction never hits `AppendToEnd`'s
  "(bug) multiple next tasks" exit (the second for ALL arguments, even malformed ones);
* `workerTree_fan1`, `workerTree_kind`, `workerTree_tasks`, `workerTree_nodup`, `workerTree_dests`,
  `workerTree_dests_service`;
* `monitor_sound_built`, `C01_v2_monitor_sound_built` — `monitor_sound_fan1` /
  `C01_v2_monitor_sound_fan1` instantiated with `tree := workerTree …`.

Hypotheses on the arguments (`SrcOK`, `BranchesOK`) are what `buildSourceTasks` /
`buildDestinationTasks` guarantee by construction (`srcChain`, `destChain`: `srcChain_ok`,
`destChains_ok`). The model is tied to the code by the `treeshape` / `appendtoend` correspondence
(the REAL service builder and the REAL `AppendToEnd` against this model) and `Facts/TreeShape.lean`.

Distinct task ids. `(tasksS tree).Nodup` follows when the ids handed in are pairwise distinct. The
code itself checks this only in part: `funnel.NewSink` refuses a duplicate below the shared roots,
`funnel.NewWorker` one inside the source's own prefix, `MakeRunnableProcessor` a processor instance
used twice — a SOURCE CONNECTOR id equal to a shared PROCESSOR id is checked nowhere (connectors and
processors live in separate id spaces). Task ids are only used for logging in the Go engine, so this
is harmless there; for the theorem it is the hypothesis `hids` (see also `Props/TreeBuilt.lean`).
-/
namespace Conduit.Funnel
open Conduit.Funnel.Mon

/-- `srcTaskSet.tasks`: non-empty, the first task is the source task -/
def SrcOK (src : List TaskSpec) : Prop := ∃ (s : Nat) (rest : List TaskSpec), src = (s, .source) :: rest

/-- every destination branch has a task (`buildDestinationTasks` always appends the destination task) -/
def BranchesOK (dests : List (List TaskSpec)) : Prop := ∀ b ∈ dests, b ≠ []

theorem srcChain_ok (s : Nat) (ps : List Nat) : SrcOK (srcChain s ps) := ⟨s, _, rfl⟩

theorem destChains_ok (ds : List (Nat × List Nat)) : BranchesOK (ds.map fun d => destChain d.1 d.2) := by
  intro b hb
  obtain ⟨d, _, rfl⟩ := List.mem_map.mp hb
  simp [destChain]

/-- all task ids handed to the construction, in tree order -/
def inputIds (src : List TaskSpec) (procs : List Nat) (dests : List (List TaskSpec)) : List Nat :=
  src.map (·.1) ++ procs ++ dests.flatten.map (·.1)

/-- The construction succeeds: it never takes `AppendToEnd`'s ">1 Next" error exit (nor any other). -/
theorem workerTree_some (src : List TaskSpec) (procs : List Nat) (dests : List (List TaskSpec))
    (hs : SrcOK src) (hd : BranchesOK dests) : ∃ t, workerTree src procs dests = some t := by
  obtain ⟨s, rest, rfl⟩ := hs
  exact ⟨_, workerTree_ok _ rest procs dests hd⟩

/-- For ALL arguments (also empty task lists / empty branches, which the service never passes) the
only failures are the explicit emptiness exits: `AppendToEnd` is only ever called on chains, so its
"(bug) multiple next tasks" error is unreachable from `buildSharedTail` / `buildRunnablePipeline`. -/
theorem workerTreeE_never_multiNext (src : List TaskSpec) (procs : List Nat) (dests : List (List TaskSpec)) :
    workerTreeE src procs dests ≠ .error .multiNext := by
  intro h
  rw [workerTreeE] at h
  cases hb : buildSharedTail procs dests with
  | error e =>
    rw [hb] at h
    simp only at h
    have := (buildSharedTail_err procs dests e hb).1
    rw [this] at h
    cases h
  | ok roots =>
    rw [hb] at h
    simp only at h
    cases src with
    | nil => simp [sourceTree] at h
    | cons f rest => rw [sourceTree_ok] at h; cases h

/-- the closed form of the tree -/
theorem workerTree_eq (src : List TaskSpec) (procs : List Nat) (dests : List (List TaskSpec))
    (hs : SrcOK src) (hd : BranchesOK dests) (t : TaskNode) (h : workerTree src procs dests = some t) :
    ∃ (s : Nat) (rest : List TaskSpec), src = (s, .source) :: rest ∧ t = chainN (s, .source) rest (sharedRootsOf procs dests) := by
  obtain ⟨s, rest, rfl⟩ := hs
  rw [workerTree_ok _ rest procs dests hd] at h
  exact ⟨s, rest, rfl, (Option.some.inj h).symm⟩

/-- No fan-out below a fan-out: a linear prefix (source, its processors, the shared processors), at
most one fan-out (into the destination branches), every branch linear. -/
theorem workerTree_fan1 (src : List TaskSpec) (procs : List Nat) (dests : List (List TaskSpec))
    (hs : SrcOK src) (hd : BranchesOK dests) (t : TaskNode) (h : workerTree src procs dests = some t) : Fan1 t := by
  obtain ⟨s, rest, _, rfl⟩ := workerTree_eq src procs dests hs hd t h
  exact fan1_workerShape _ rest procs dests hd

/-- The root is the source task. -/
theorem workerTree_kind (src : List TaskSpec) (procs : List Nat) (dests : List (List TaskSpec))
    (hs : SrcOK src) (hd : BranchesOK dests) (t : TaskNode) (h : workerTree src procs dests = some t) :
    t.kind = .source := by
  obtain ⟨s, rest, _, rfl⟩ := workerTree_eq src procs dests hs hd t h
  rfl

/-- The tasks of the tree are exactly the tasks handed in, each once, in the order source chain,
shared processors, destination branches. -/
theorem workerTree_tasks (src : List TaskSpec) (procs : List Nat) (dests : List (List TaskSpec))
    (hs : SrcOK src) (hd : BranchesOK dests) (t : TaskNode) (h : workerTree src procs dests = some t) :
    tasksS t = inputIds src procs dests := by
  obtain ⟨s, rest, rfl, rfl⟩ := workerTree_eq src procs dests hs hd t h
  exact tasksS_workerShape _ rest procs dests hd

/-- Pairwise distinct ids in, pairwise distinct task ids in the tree. -/
theorem workerTree_nodup (src : List TaskSpec) (procs : List Nat) (dests : List (List TaskSpec))
    (hs : SrcOK src) (hd : BranchesOK dests) (hids : (inputIds src procs dests).Nodup)
    (t : TaskNode) (h : workerTree src procs dests = some t) : (tasksS t).Nodup := by
  rw [workerTree_tasks src procs dests hs hd t h]; exact hids

/-- The destinations of the tree (`Mon.dests`, what the C01 clause quantifies over) are the
destination tasks handed in. -/
theorem workerTree_dests (src : List TaskSpec) (procs : List Nat) (dests : List (List TaskSpec))
    (hs : SrcOK src) (hd : BranchesOK dests) (t : TaskNode) (h : workerTree src procs dests = some t) :
    Mon.dests t = destIds src ++ destIds dests.flatten := by
  obtain ⟨s, rest, rfl, rfl⟩ := workerTree_eq src procs dests hs hd t h
  exact dests_workerShape _ rest procs dests hd

/-- With the task lists as `buildSourceTasks` / `buildDestinationTasks` make them: the destinations of
the tree are the destination connectors, in `pl.ConnectorIDs` order. -/
theorem workerTree_dests_service (s : Nat) (sprocs procs : List Nat) (ds : List (Nat × List Nat)) (t : TaskNode)
    (h : workerTree (srcChain s sprocs) procs (ds.map fun d => destChain d.1 d.2) = some t) :
    Mon.dests t = ds.map (·.1) := by
  rw [workerTree_dests _ _ _ (srcChain_ok s sprocs) (destChains_ok ds) t h, destIds_srcChain, destIds_destChains]
  rfl

/-- **Monitor soundness for every tree the service can build.** ALL clauses of the trace monitor (C01,
C04, C05, C07, C08) are silent on every run of the engine model on the tree the arch-v2 service
links for a source worker — any source processors, shared processors, number of destinations and
destination processors; record splitting included. `hids`: the task ids are pairwise distinct; the
remaining hypotheses are the run hypotheses of `monitor_sound_fan1`. -/
theorem monitor_sound_built (src : List TaskSpec) (procs : List Nat) (dests : List (List TaskSpec))
    (hs : SrcOK src) (hd : BranchesOK dests) (hids : (inputIds src procs dests).Nodup)
    (tree : TaskNode) (hbuilt : workerTree src procs dests = some tree)
    (fuel : Nat) (scripts : List (Nat × List Reply)) (batches : List (List Rec)) (s₀ : PS)
    (hsorted : (batches.flatten.map Mon.root).Pairwise (· < ·))
    (hlog : s₀.log = #[]) (hscr : s₀.scripts = scripts)
    (hrp : RootPreserving scripts ((runBatches fuel tree batches).run.run s₀).2.log.toList)
    (hft : FreshTags scripts batches ((runBatches fuel tree batches).run.run s₀).2.log.toList) :
    Mon.run tree scripts batches ((runBatches fuel tree batches).run.run s₀).2.log.toList = [] :=
  monitor_sound_fan1 fuel tree scripts batches s₀
    (workerTree_fan1 src procs dests hs hd tree hbuilt) (workerTree_kind src procs dests hs hd tree hbuilt)
    (workerTree_nodup src procs dests hs hd hids tree hbuilt) hsorted hlog hscr hrp hft

/-- the same per property clause (`c = .c01`, `.c04`, `.c05`, `.c07`, `.c08`) -/
theorem C01_v2_monitor_sound_built (src : List TaskSpec) (procs : List Nat) (dests : List (List TaskSpec))
    (hs : SrcOK src) (hd : BranchesOK dests) (hids : (inputIds src procs dests).Nodup)
    (tree : TaskNode) (hbuilt : workerTree src procs dests = some tree)
    (fuel : Nat) (scripts : List (Nat × List Reply)) (batches : List (List Rec)) (s₀ : PS)
    (hsorted : (batches.flatten.map Mon.root).Pairwise (· < ·))
    (hlog : s₀.log = #[]) (hscr : s₀.scripts = scripts)
    (hrp : RootPreserving scripts ((runBatches fuel tree batches).run.run s₀).2.log.toList)
    (hft : FreshTags scripts batches ((runBatches fuel tree batches).run.run s₀).2.log.toList) (c : Clause) :
    Mon.runTagged c tree scripts batches ((runBatches fuel tree batches).run.run s₀).2.log.toList = [] :=
  C01_v2_monitor_sound_fan1 fuel tree scripts batches s₀
    (workerTree_fan1 src procs dests hs hd tree hbuilt) (workerTree_kind src procs dests hs hd tree hbuilt)
    (workerTree_nodup src procs dests hs hd hids tree hbuilt) hsorted hlog hscr hrp hft c

/-! ## non-vacuity -/
namespace ExTree

/-- source 1 with its processor 2; shared processors 3, 4; destination 6 behind its processor 5, destination 7 -/
example : workerTree (srcChain 1 [2]) [3, 4] [destChain 6 [5], destChain 7 []] =
    some (.mk 1 .source [.mk 2 .proc [.mk 3 .proc [.mk 4 .proc [.mk 5 .proc [.mk 6 .dest []], .mk 7 .dest []]]]]) := rfl
/-- no shared processors: the fan-out sits directly below the source's own chain -/
example : workerTree (srcChain 1 [2]) [] [destChain 6 [5], destChain 7 [], destChain 9 [8]] =
    some (.mk 1 .source [.mk 2 .proc [.mk 5 .proc [.mk 6 .dest []], .mk 7 .dest [], .mk 8 .proc [.mk 9 .dest []]]]) := rfl
/-- a single destination: a linear pipeline -/
example : workerTree (srcChain 1 []) [3] [destChain 6 [5]] =
    some (.mk 1 .source [.mk 3 .proc [.mk 5 .proc [.mk 6 .dest []]]]) := rfl
example : (inputIds (srcChain 1 [2]) [3, 4] [destChain 6 [5], destChain 7 []]).Nodup := by decide
example : SrcOK (srcChain 1 [2]) ∧ BranchesOK [destChain 6 [5], destChain 7 []] :=
  ⟨srcChain_ok 1 [2], destChains_ok [(6, [5]), (7, [])]⟩
/-- the error exits exist (and are not the "multiple next tasks" one) -/
example : workerTreeE (srcChain 1 []) [3] [destChain 6 [], []] = .error .emptyBranch := rfl
example : workerTreeE [] [3] [destChain 6 []] = .error .noTasks := rfl
/-- `AppendToEnd` does refuse a node with two children — reachable only by calling it directly -/
example : appendToEnd (.mk 1 .source [.mk 2 .dest [], .mk 3 .dest []]) [.mk 4 .proc []] = none := rfl
example : appendToEnd (.mk 1 .source [.mk 5 .proc [.mk 2 .dest [], .mk 3 .dest []]]) [.mk 4 .proc []] = none := rfl

/-- the soundness theorem applies to the tree built for the fan-out + splitting example of
`Props/MonSound.lean` (`ExFanSplit`: source 0, shared processor 1, destination 2, destination 3 behind
its processor 4) -/
example : workerTree (srcChain 0 []) [1] [destChain 2 [], destChain 3 [4]] = some ExFanSplit.tree := rfl
example : Mon.run ExFanSplit.tree ExFanSplit.scripts ExFanSplit.batches
    ((runBatches 40 ExFanSplit.tree ExFanSplit.batches).run.run ExFanSplit.s0).2.log.toList = [] :=
  monitor_sound_built (srcChain 0 []) [1] [destChain 2 [], destChain 3 [4]] (srcChain_ok 0 [])
    (destChains_ok [(2, []), (3, [4])]) (by decide) ExFanSplit.tree rfl 40 ExFanSplit.scripts ExFanSplit.batches
    ExFanSplit.s0 (by decide) rfl rfl ExFanSplit.hrp ExFanSplit.hft

end ExTree

end Conduit.Funnel
