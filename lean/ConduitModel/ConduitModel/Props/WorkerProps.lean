import ConduitModel.Proofs.WorkerAcker
import ConduitModel.Proofs.WorkerConfirm

/-!
# C07 / C01 at the root acker: `Worker.Ack`, `Worker.Nack`, `DLQ.Nack`, `DLQ.Ack`, `sendToDLQ`

The theorems are about the model functions `workerNack` / `workerAck` of `Model/Funnel.lean`
themselves (`(workerNack batch task).run.run s : Except Stop Unit × PS`), for ALL states `s`
(any event log, any window, any `thr`, any plugin scripts), ALL batches (well-formed or not) and
ALL failing-task ids. Vocabulary (defined in `Proofs/WorkerAcker.lean`):

* `accepted s batch`     = `(s.win.nackN batch.original.recs.length).2` — nacks the DLQ window accepts;
* `dlqWritten s batch t` = the first `accepted` rows of `batch.original`, each `(record, nack error, t)`;
* `replyOf s`            = the DLQ destination's next scripted reply (write error, ack responses);
* `dlqBatchAfter s batch`= `destDoP (Batch.new (first accepted records)) (replyOf s)` — the DLQ batch after
                           `DestinationTask.Do` (`destDo_eq_model`: this IS what `destDo` computes);
* `dlqConfirmed s batch` = number of leading `.ack` flags of that batch (`0` if `Do` failed) — the
                           leading records the DLQ destination positively confirmed;
* `rawRes err`           = `.error (.err e)` for `some e`, `.ok ()` for `none`.
-/
namespace Conduit.Funnel
open Conduit.Dlq

/-- C07.nack_log_shape — "written exactly once to the DLQ … and only then acknowledged to its
source": one call of `Worker.Nack` appends to the event log exactly one of: nothing; one DLQ
write; one DLQ write followed by one source ack of a non-empty prefix of the original positions.
Never an ack without the DLQ write before it, never two of either. Frame: heap, fan-out
arbiters, configuration, the scripts of every task but the DLQ destination are unchanged; the
window changes only by `nackN` of the number of original records. -/
theorem C07_nack_log_shape (s : PS) (batch : Batch) (task : Nat) :
    let out := (workerNack batch task).run.run s
    (out.2.heap = s.heap ∧ out.2.mas = s.mas ∧ out.2.thr = s.thr ∧ out.2.size = s.size ∧
      out.2.dlqTask = s.dlqTask ∧ out.2.orders = s.orders) ∧
    (∀ t : Nat, t ≠ s.dlqTask → out.2.scripts.find? (·.1 == t) = s.scripts.find? (·.1 == t)) ∧
    out.2.win = (s.win.nackN batch.original.recs.length).1 ∧
    (out.2.log = s.log ∨
     out.2.log = s.log.push (.dlqw s.dlqTask (dlqWritten s batch task)) ∨
     ∃ n : Nat, 1 ≤ n ∧
       out.2.log = (s.log.push (.dlqw s.dlqTask (dlqWritten s batch task))).push (.sack (batch.original.pos.take n))) := by
  intro out
  have hout : out = workerNackP s batch task := workerNack_eq batch task s
  rw [hout]
  rcases workerNackP_spec s batch task with ⟨r, h, _⟩ | ⟨r, h, _⟩ | ⟨n, r, h, hn, _⟩
  · rw [h]
    exact ⟨⟨rfl, rfl, rfl, rfl, rfl, rfl⟩, fun _ _ => rfl, rfl, Or.inl rfl⟩
  · rw [h]
    exact ⟨⟨rfl, rfl, rfl, rfl, rfl, rfl⟩, fun t ht => popScripts_other s.scripts s.dlqTask t ht, rfl,
      Or.inr (Or.inl rfl)⟩
  · rw [h]
    exact ⟨⟨rfl, rfl, rfl, rfl, rfl, rfl⟩, fun t ht => popScripts_other s.scripts s.dlqTask t ht, rfl,
      Or.inr (Or.inr ⟨n, hn, rfl⟩)⟩

/-- C07.dlq_then_ack — "… written exactly once to the DLQ … and only then acknowledged": whenever
the call appended a source ack `.sack ps` (third log shape; `x` is the event before it), then `x`
is the DLQ write of the first `accepted` original rows, and `ps` is the first `n` original
positions with `1 ≤ n`, `n ≤` the number of leading records the DLQ destination positively
confirmed, `n ≤` the number of nacks the window accepted; all acked positions are non-empty. -/
theorem C07_dlq_then_ack (s : PS) (batch : Batch) (task : Nat) (x : Ev) (ps : List PosV)
    (h : ((workerNack batch task).run.run s).2.log = (s.log.push x).push (.sack ps)) :
    x = .dlqw s.dlqTask (dlqWritten s batch task) ∧
    ∃ n : Nat, ps = batch.original.pos.take n ∧ 1 ≤ n ∧ n ≤ dlqConfirmed s batch ∧ n ≤ accepted s batch ∧
      n ≤ batch.original.pos.length ∧ ∀ p ∈ ps, posEmpty p = false := by
  rw [workerNack_eq] at h
  rcases workerNackP_spec s batch task with ⟨r, h', _⟩ | ⟨r, h', _⟩ | ⟨n, r, h', h1, h2, h3, h4, h5, _⟩
  · rw [h'] at h; exact absurd h (log_ne_push2 _ _ _)
  · rw [h'] at h; exact absurd h (push_ne_push2 _ _ _ _)
  · rw [h'] at h
    obtain ⟨hx, hy⟩ := push2_inj h
    have hps : ps = batch.original.pos.take n := (Ev.sack.inj hy).symm
    refine ⟨hx.symm, n, hps, h1, h3, h2, h4, ?_⟩
    intro p hp
    rw [hps] at hp
    have := List.all_eq_true.mp h5 p hp
    simpa using this

/-- C01.nack_acks_only_confirmed — "a source connector is told that a record is acknowledged only
after … the record was confirmed written to the dead-letter queue": every position acknowledged
by `Worker.Nack` is the position of an original record `i` that (a) was part of the DLQ write of
this very call, paired with its own nack error and the failing task, and (b) carries the flag
`.ack` in the DLQ batch after the DLQ destination's `Do` returned without error — as does every
DLQ record before it. -/
theorem C01_nack_acks_only_confirmed (s : PS) (batch : Batch) (task : Nat) (x : Ev) (ps : List PosV)
    (h : ((workerNack batch task).run.run s).2.log = (s.log.push x).push (.sack ps))
    (i : Nat) (p : PosV) (hp : ps[i]? = some p) :
    batch.original.pos[i]? = some p ∧ i < accepted s batch ∧
    (∃ db : Batch, dlqBatchAfter s batch = .ok db ∧
      ∀ j : Nat, j ≤ i → ∃ st : Status, db.st[j]? = some st ∧ st.flag = .ack) := by
  obtain ⟨_, n, hps, _, hc, ha, _, _⟩ := C07_dlq_then_ack s batch task x ps h
  rw [hps, List.getElem?_take] at hp
  by_cases hin : i < n
  · simp only [hin, if_true] at hp
    refine ⟨hp, by omega, ?_⟩
    unfold dlqConfirmed at hc
    cases hd : dlqBatchAfter s batch with
    | error e => rw [hd] at hc; simp only at hc; omega
    | ok db =>
      rw [hd] at hc
      exact ⟨db, rfl, fun j hj => leadAcks_spec db.st j (by simp only at hc; omega)⟩
  · simp only [hin, if_false] at hp; cases hp

/-- C07.failed_dlq_write_never_acks — "a failed DLQ write never results in an ack": if the DLQ
destination confirms nothing — its reply is a write error, an error response, an invalid or
missing ack response (`dlqBatchAfter = .error _`), or the first DLQ record is nacked — then no
`.sack` is appended, and if the DLQ write was attempted the call returns a FATAL error. -/
theorem C07_failed_dlq_write_never_acks (s : PS) (batch : Batch) (task : Nat)
    (hfail : dlqConfirmed s batch = 0) :
    let out := (workerNack batch task).run.run s
    (out.2.log = s.log ∨ out.2.log = s.log.push (.dlqw s.dlqTask (dlqWritten s batch task))) ∧
    (out.2.log ≠ s.log → ∃ e : Err, out.1 = .error (.err e) ∧ e.fatal = true) := by
  intro out
  have hout : out = workerNackP s batch task := workerNack_eq batch task s
  rw [hout]
  rcases workerNackP_spec s batch task with ⟨r, h, _⟩ | ⟨r, h, _, hr⟩ | ⟨n, r, h, h1, _, h3, _⟩
  · rw [h]; exact ⟨Or.inl rfl, fun hne => absurd rfl hne⟩
  · rw [h]
    refine ⟨Or.inr rfl, fun _ => ?_⟩
    rcases hr with hr | ⟨_, hr⟩
    · exact hr
    · omega
  · omega

/-- the ways a DLQ write fails, each giving `dlqConfirmed = 0`: any error of `DestinationTask.Do`
(write error, error response, invalid acks, exhausted script) … -/
theorem C07_dlq_do_error_confirms_nothing (s : PS) (batch : Batch) (e : Stop)
    (h : dlqBatchAfter s batch = .error e) : dlqConfirmed s batch = 0 := by
  unfold dlqConfirmed; rw [h]

/-- … in particular a write error of the DLQ destination. -/
theorem C07_dlq_write_error_confirms_nothing (s : PS) (batch : Batch) (e : Err)
    (h : (replyOf s).1 = some e) : dlqConfirmed s batch = 0 := by
  apply C07_dlq_do_error_confirms_nothing s batch (.err (wrap e))
  unfold dlqBatchAfter destDoP
  rw [h]; rfl

/-- … an error response of the DLQ destination's `Ack()` stream before anything was confirmed
(the DLQ write being non-empty). -/
theorem C07_dlq_error_response_confirms_nothing (s : PS) (batch : Batch) (e : Err) (rest : List AckResp)
    (h : replyOf s = (none, .err e :: rest)) (hk : 0 < accepted s batch) : dlqConfirmed s batch = 0 := by
  apply C07_dlq_do_error_confirms_nothing s batch (.err (wrap e))
  have hle := accepted_le s batch
  unfold dlqBatchAfter destDoP
  rw [h, new_active]
  have hlen : ((batch.original.recs.take (accepted s batch)).map (·.pos)).length = (accepted s batch - 1) + 1 := by
    rw [List.length_map, List.length_take]; omega
  simp only [hlen, destAckLoop]
  rfl

/-- C01 (bridge to the trace monitor's notion of "positively confirmed", `Spec/FunnelMon.lean`):
every DLQ record counted by `dlqConfirmed` — hence every record `Worker.Nack` acks to the source,
see `C01_nack_acks_only_confirmed` — is `Mon.confirmed` for the DLQ destination's next call: the
reply has no write error and the bounded ack loop consumed an ack response without error whose
position matches that record. -/
theorem C01_dlq_confirmed_is_monitor_confirmed (s : PS) (batch : Batch) (i : Nat) (hi : i < dlqConfirmed s batch) :
    (replyOf s).1 = none ∧
    ∀ j : Nat, j ≤ i →
      Mon.confirmed s.scripts s.dlqTask 0 j ((batch.original.recs.take (accepted s batch)).map (·.pos)) = true := by
  unfold dlqConfirmed at hi
  cases hd : dlqBatchAfter s batch with
  | error e => rw [hd] at hi; simp only at hi; omega
  | ok db =>
    rw [hd] at hi
    simp only at hi
    obtain ⟨hw, _, hconf⟩ := destDoP_new_confirmed _ _ _ db hd
    refine ⟨hw, fun j hj => ?_⟩
    obtain ⟨x, hx, hf⟩ := leadAcks_spec db.st j (by omega)
    unfold Mon.confirmed
    rw [replyOf_none hw]
    simp only
    rw [← hconf, List.getElem?_map, hx]
    simp [isAck, hf]

/-- C07.window_refusal_stops — "otherwise the pipeline stops with an error and that record stays
unacknowledged": if the window accepts only `k < len` of the nacks then
* the call does not return `.ok` unless `thr = 0` and the refused record carries no error (Go: a
  nil `status.Error`); with `hsome` it is an error;
* a returned error is fatal when `thr > 0`; when `thr = 0` it is fatal or exactly the refused
  record's own error;
* at most the first `k` positions are acked, so the refused record (index `k`) is not acked; with
  pairwise distinct positions its position does not occur in the acked list. -/
theorem C07_window_refusal_stops (s : PS) (batch : Batch) (task : Nat)
    (hk : accepted s batch < batch.original.recs.length) :
    let out := (workerNack batch task).run.run s
    ((s.thr > 0 ∨ ∀ st : Status, batch.original.st[accepted s batch]? = some st → st.err ≠ none) →
        ∃ e : Stop, out.1 = .error e) ∧
    (∀ e : Err, out.1 = .error (.err e) →
        e.fatal = true ∨ (s.thr = 0 ∧ ∃ st : Status, batch.original.st[accepted s batch]? = some st ∧ st.err = some e)) ∧
    (∀ (x : Ev) (ps : List PosV), out.2.log = (s.log.push x).push (.sack ps) →
        (∃ n : Nat, n ≤ accepted s batch ∧ ps = batch.original.pos.take n) ∧
        (∀ p : PosV, batch.original.pos.Nodup → batch.original.pos[accepted s batch]? = some p → p ∉ ps)) := by
  intro out
  have key : IsPanic out.1 ∨ IsFatal out.1 ∨ Refused s batch out.1 := by
    have hout : out = workerNackP s batch task := workerNack_eq batch task s
    rw [hout]
    rcases workerNackP_spec s batch task with ⟨r, h, hr⟩ | ⟨r, h, _, hr⟩ | ⟨n, r, h, _, _, _, _, _, hr⟩
    · rw [h]
      rcases hr with ⟨h0, _⟩ | ⟨_, _, hr | hr | hr⟩ | ⟨_, hr⟩
      · omega
      · exact Or.inl hr.1
      · exact Or.inr (Or.inl hr)
      · exact Or.inr (Or.inr hr)
      · exact Or.inl hr.1
    · rw [h]
      rcases hr with hr | ⟨hr, _⟩
      · exact Or.inr (Or.inl hr)
      · exact Or.inl hr.1
    · rw [h]
      rcases hr with hr | hr | ⟨_, _, hr⟩ | ⟨_, hr, _⟩
      · exact Or.inl hr.1
      · exact Or.inr (Or.inl hr)
      · exact Or.inr (Or.inr hr)
      · omega
  refine ⟨?_, ?_, ?_⟩
  · intro hyp
    rcases key with ⟨m, hm⟩ | ⟨e, he, _⟩ | ⟨ht, st, hst, hr⟩
    · exact ⟨_, hm⟩
    · exact ⟨_, he⟩
    · rcases hyp with hyp | hyp
      · omega
      · cases herr : st.err with
        | none => exact absurd herr (hyp st hst)
        | some e => rw [hr, herr]; exact ⟨_, rfl⟩
  · intro e he
    rcases key with ⟨m, hm⟩ | ⟨e', he', hf⟩ | ⟨ht, st, hst, hr⟩
    · rw [hm] at he; cases he
    · rw [he'] at he; cases he; exact Or.inl hf
    · right
      refine ⟨ht, st, hst, ?_⟩
      rw [hr] at he
      cases herr : st.err with
      | none => rw [herr] at he; cases he
      | some e'' => rw [herr] at he; cases he; rfl
  · intro x ps hlog
    obtain ⟨_, n, hps, _, _, ha, _, _⟩ := C07_dlq_then_ack s batch task x ps hlog
    refine ⟨⟨n, ha, hps⟩, ?_⟩
    intro p hnd hp
    rw [hps]
    exact not_mem_take_of_nodup hnd hp ha

/-- C07.ack_records_window — `Worker.Ack`: when every original position is non-empty it appends
exactly one `.sack` of all original positions and records `len(batch.records)` acks in the DLQ
window (`ackN`), returning `.ok`; otherwise it returns the coded error
`pipeline.empty_source_position`, appends nothing and leaves the window alone. -/
theorem C07_ack_records_window (s : PS) (batch : Batch) :
    let out := (workerAck batch).run.run s
    ((∀ p ∈ batch.original.pos, posEmpty p = false) →
      out = (.ok (), { s with log := s.log.push (.sack batch.original.pos),
                              win := s.win.ackN batch.recs.length })) ∧
    ((∃ p ∈ batch.original.pos, posEmpty p = true) →
      out = (.error (.err (coded "pipeline.empty_source_position")), s)) := by
  intro out
  have hout : out = workerAckP s batch := workerAck_eq batch s
  rw [hout]
  unfold workerAckP
  constructor
  · intro hall
    have hv : validateAckPositions batch.original.pos = true := by
      unfold validateAckPositions
      rw [List.all_eq_true]
      intro p hp; simp [hall p hp]
    simp only [hv, Bool.not_true, Bool.false_eq_true, if_false]
    by_cases h0 : batch.recs.length = 0
    · simp only [h0, if_true, ackN_zero]
    · simp only [h0, if_false]
  · rintro ⟨p, hp, hpe⟩
    have hv : validateAckPositions batch.original.pos = false := by
      unfold validateAckPositions
      rw [List.all_eq_false]
      exact ⟨p, hp, by simp [hpe]⟩
    simp only [hv, Bool.not_false, if_true, emptyPos]

/-- C07.dlq_record_is_original — "(carrying the original record, the error and the failing
component)": entry `i` of the DLQ write of `Worker.Nack` is the `i`-th record of
`batch.original` (`i <` accepted nacks), paired with the error recorded in that row's status and
the failing task id. For a batch holding split records the row is a row of the batch with a
non-nil source position `p`, and the record is the ORIGINAL stored in `splitRecords` under `p`
when there is one — not the piece standing at that row. -/
theorem C07_dlq_record_is_original (s : PS) (batch : Batch) (task : Nat) (i : Nat) (e : Rec × Option Err × Nat)
    (h : (dlqWritten s batch task)[i]? = some e) :
    i < accepted s batch ∧ e.2.2 = task ∧ batch.original.recs[i]? = some e.1 ∧
    (∃ st : Status, batch.original.st[i]? = some st ∧ st.err = e.2.1) ∧
    (batch.split.length = 0 → batch.recs[i]? = some e.1) ∧
    (batch.split.length ≠ 0 →
      ∃ (p : PosV) (r0 : Rec) (st : Status), (p, r0, st) ∈ batch.pos.zip (batch.recs.zip batch.st) ∧ p ≠ none ∧
        batch.original.pos[i]? = some p ∧ st.err = e.2.1 ∧
        e.1 = (lookup batch.split (keyOf p)).getD r0 ∧
        (∀ orig : Rec, lookup batch.split (keyOf p) = some orig → e.1 = orig)) := by
  obtain ⟨h1, h2, h3, st, h4, h5⟩ := infoOf_getElem batch.original (accepted s batch) task i e h
  refine ⟨h1, h2, h3, ⟨st, h4, h5⟩, ?_, ?_⟩
  · intro hs
    have : batch.original = batch := by unfold Batch.original; simp only [hs, if_true]
    rw [this] at h3; exact h3
  · intro hs
    obtain ⟨p, r0, st', hm, hp, hpos, hst, hr⟩ := original_row batch hs i e.1 h3
    rw [h4] at hst
    cases hst
    refine ⟨p, r0, st, hm, hp, hpos, h5, hr, ?_⟩
    intro orig ho
    rw [hr, ho]; rfl

/-- `Worker.Nack` never panics on a well-formed batch (`Batch.WF`, the invariant of
`Props/BatchProps.lean`) whose records to dead-letter (the first `accepted` original rows) carry
a non-nil `status.Error`: in general a panic of `Worker.Nack` has one of the causes listed in
`PanicCause` (slice bounds of `sub` / `positions[:n]` / `records[:n]`, a nil `status.Error`,
a missing status), none of which exists then. Together with `C07_window_refusal_stops` /
`C07_failed_dlq_write_never_acks`: a refusal or a failed DLQ write is a RETURNED error. -/
theorem C07_nack_never_panics {hp : Heap} (s : PS) (batch : Batch) (task : Nat) (hwf : batch.WF hp)
    (herr : ∀ st ∈ batch.original.st.take (accepted s batch), st.err ≠ none) (m : String) :
    ((workerNack batch task).run.run s).1 ≠ .error (.panic m) := by
  rw [workerNack_eq]
  intro h
  exact PanicCause_of_wf hwf herr (workerNackP_panic_cause s batch task m h)

/-! ## concrete states: the hypotheses are satisfiable, the three log shapes occur -/

namespace WorkerExamples

def e1 : Err := { script := some 1 }
def e2 : Err := { script := some 2 }
/-- two records nacked by task 3 -/
def b2 : Batch :=
  { recs := [⟨1, some 5⟩, ⟨2, some 6⟩], st := [{ flag := .nack, err := some e1 }, { flag := .nack, err := some e2 }],
    pos := [some 5, some 6], runs := some [none, none], tainted := true }
/-- window 4 / threshold 2; the DLQ destination (task 9) confirms both records -/
def sOK : PS :=
  { win := Win.new 4 2, thr := 2, size := 4, dlqTask := 9,
    scripts := [(9, [.dest none [.acks [(some 5, none), (some 6, none)]]]), (4, [.proc []])] }
/-- same, but the DLQ destination's write fails -/
def sWriteErr : PS := { sOK with scripts := [(9, [.dest (some e2) []])] }
/-- same, but the DLQ destination nacks the second DLQ record -/
def sHalf : PS := { sOK with scripts := [(9, [.dest none [.acks [(some 5, none), (some 6, some e2)]]])] }
/-- threshold 0: the window tolerates no nack -/
def sZero : PS := { sOK with win := Win.new 4 0, thr := 0 }
/-- threshold 1: the window accepts the first nack only -/
def sOne : PS := { sOK with win := Win.new 4 1, thr := 1,
                            scripts := [(9, [.dest none [.acks [(some 5, none)]]])] }

def isOk (r : Except Stop Unit) : Bool := match r with | .ok _ => true | _ => false
def isFatalErr (r : Except Stop Unit) : Bool := match r with | .error (.err e) => e.fatal | _ => false

-- shape 3: DLQ write, then the source ack of both positions; the call succeeds
example : ((workerNack b2 3).run.run sOK).2.log =
    #[.dlqw 9 [(⟨1, some 5⟩, some e1, 3), (⟨2, some 6⟩, some e2, 3)], .sack [some 5, some 6]] := by rfl
example : isOk ((workerNack b2 3).run.run sOK).1 = true := by rfl
example : accepted sOK b2 = 2 ∧ dlqConfirmed sOK b2 = 2 := by decide
-- shape 2: DLQ write only; fatal error (hypothesis of `C07_failed_dlq_write_never_acks` holds)
example : ((workerNack b2 3).run.run sWriteErr).2.log =
    #[.dlqw 9 [(⟨1, some 5⟩, some e1, 3), (⟨2, some 6⟩, some e2, 3)]] := by rfl
example : isFatalErr ((workerNack b2 3).run.run sWriteErr).1 = true := by rfl
example : dlqConfirmed sWriteErr b2 = 0 := by decide
example : (replyOf sWriteErr).1 = some e2 := by rfl
-- shape 1: the window refuses everything: no event, the record's own error comes back (thr = 0)
example : ((workerNack b2 3).run.run sZero).2.log = #[] := by rfl
example : accepted sZero b2 < b2.original.recs.length := by decide
example : (match ((workerNack b2 3).run.run sZero).1 with | .error (.err e) => e == e1 | _ => false) = true := by rfl
-- the DLQ write is not even attempted when the window refuses everything: the (failing) DLQ
-- destination is irrelevant and the error is the record's own, NOT fatal — which is why
-- `C07_failed_dlq_write_never_acks` promises a fatal error only after an attempted write
def sZeroErr : PS := { sWriteErr with win := Win.new 4 0, thr := 0 }
example : dlqConfirmed sZeroErr b2 = 0 ∧ ((workerNack b2 3).run.run sZeroErr).2.log = #[] ∧
    isFatalErr ((workerNack b2 3).run.run sZeroErr).1 = false := by decide
-- monitor bridge: both DLQ records of `sOK` are `Mon.confirmed`
example : Mon.confirmed sOK.scripts sOK.dlqTask 0 1 [some 5, some 6] = true := by decide
-- why `C07_window_refusal_stops` needs `thr > 0` or a non-nil error on the refused record: with
-- `thr = 0` and a nil `status.Error` the refusal is returned as a nil error (`.ok`), nothing acked
def bNilErr : Batch := { b2 with st := [{ flag := .nack, err := none }, { flag := .nack, err := some e2 }] }
example : accepted sZero bNilErr < bNilErr.original.recs.length ∧
    isOk ((workerNack bNilErr 3).run.run sZero).1 = true ∧ ((workerNack bNilErr 3).run.run sZero).2.log = #[] := by decide
-- partial confirmation: only the confirmed first position is acked, fatal error
example : ((workerNack b2 3).run.run sHalf).2.log =
    #[.dlqw 9 [(⟨1, some 5⟩, some e1, 3), (⟨2, some 6⟩, some e2, 3)], .sack [some 5]] := by rfl
example : dlqConfirmed sHalf b2 = 1 ∧ isFatalErr ((workerNack b2 3).run.run sHalf).1 = true := by decide
-- window refusal with `thr > 0`: one record dead-lettered and acked, then a fatal error
example : accepted sOne b2 = 1 ∧ accepted sOne b2 < b2.original.recs.length := by decide
example : ((workerNack b2 3).run.run sOne).2.log = #[.dlqw 9 [(⟨1, some 5⟩, some e1, 3)], .sack [some 5]] := by rfl
example : isFatalErr ((workerNack b2 3).run.run sOne).1 = true := by rfl
example : b2.original.pos.Nodup ∧ b2.original.pos[accepted sOne b2]? = some (some 6) := by decide
-- hypotheses of `C07_nack_never_panics`
example : b2.WF #[] ∧ ∀ st ∈ b2.original.st.take (accepted sOK b2), st.err ≠ none := by decide
-- `Worker.Ack`
example : ((workerAck b2).run.run sOK).2.log = #[.sack [some 5, some 6]] := by rfl
example : ∀ p ∈ b2.original.pos, posEmpty p = false := by decide
example : ∃ p ∈ ({ b2 with pos := [some 5, none] } : Batch).original.pos, posEmpty p = true := by decide
-- a split batch: the DLQ gets the original record 1 (tag 1), not the pieces 11 / 12
def bSplit : Batch :=
  { recs := [⟨11, some 5⟩, ⟨12, some 5⟩], st := [{ flag := .nack, err := some e1 }, { flag := .nack, err := some e1 }],
    pos := [some 5, none], runs := some [some 0, some 0], tainted := true, split := [(5, ⟨1, some 5⟩)] }
example : dlqWritten sOK bSplit 3 = [(⟨1, some 5⟩, some e1, 3)] := by decide
example : bSplit.split.length ≠ 0 := by decide

end WorkerExamples

end Conduit.Funnel
