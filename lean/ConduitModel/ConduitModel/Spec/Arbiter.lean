import ConduitModel.Model.Funnel

/-
The two ack arbiters of the arch-v2 engine as PURE step functions on plain data, mirroring
one-for-one the monadic model (`Model/Funnel.lean`: the `.multi` case of `ackerCall`,
`releaseLoop`, `voteLoop`) and through it /repo/pkg/lifecycle-poc/funnel:

  maVote1 / maVote   worker.go  multiAckNacker.Ack / .Nack  (the per-position loop, after
                                `indexOf` resolved every position to its slot)
  maRelease          worker.go  multiAckNacker.releaseLocked (every parent call succeeds)
  runVote            run_ledger.go runAckNacker.vote, one group `[i,j)` of one split run

`Proofs/Arbiter.lean` proves the monadic model equal to these functions; `Props/ArbiterProps.lean`
states the properties over arbitrary vote sequences. Core-only, executable (the driver
component `arbiter` runs exactly these functions).
-/
namespace Conduit.Funnel

/-! ## multiAckNacker -/

/-- one entry of an Ack/Nack call after `originalBatch()` and `indexOf`: the tally slot, the
branch's record for it and (for a nack) the status error. -/
structure VItem where
  ix : Nat
  r : Rec := default
  err : Option Err := none
deriving Repr, DecidableEq, Inhabited

/-- what `releaseLocked` hands to the parent: `parent.Ack(ackBatch(from,to))` or
`parent.Nack(nackBatch(idx))`. -/
inductive Released
  | ackRun (from_ to : Nat)
  | nackOne (idx : Nat)
deriving Repr, DecidableEq, Inhabited

abbrev MA.term (m : MA) (i : Nat) : Bool := m.terminal[i]?.getD false
abbrev MA.ack (m : MA) (i : Nat) : Bool := m.acked[i]?.getD false
abbrev MA.votes (m : MA) (i : Nat) : Nat := m.ackVotes[i]?.getD 0

/-- body of the `for i, pos := range ob.positions` loop of `multiAckNacker.Ack` (`isAck`) /
`.Nack` for one position: skip a terminal slot; an ack counts and goes terminal+acked when the
count reaches `branches`; a nack goes terminal+nacked at once. -/
def maVote1 (m : MA) (isAck : Bool) (task : Nat) (it : VItem) : MA :=
  if m.term it.ix then m
  else if isAck then
    let v := m.votes it.ix + 1
    let m := { m with record := m.record.set it.ix it.r, ackVotes := m.ackVotes.set it.ix v }
    if v == m.branches then
      { m with terminal := m.terminal.set it.ix true, acked := m.acked.set it.ix true }
    else m
  else
    { m with terminal := m.terminal.set it.ix true, acked := m.acked.set it.ix false,
             record := m.record.set it.ix it.r, nackErr := m.nackErr.set it.ix it.err,
             nackTask := m.nackTask.set it.ix task }

/-- the whole vote loop of one `Ack`/`Nack` call. -/
def maVote (m : MA) (isAck : Bool) (task : Nat) (items : List VItem) : MA :=
  items.foldl (fun m it => maVote1 m isAck task it) m

/-- the maximal run of terminal∧acked slots starting at `from_` (`for to < len && terminal[to] && acked[to]`). -/
def maAckRun (m : MA) (from_ : Nat) : List Nat :=
  ((List.range m.positions.length).drop from_).takeWhile fun t => m.term t && m.ack t

/-- `releaseLocked`, every parent call succeeding: the new state and the parent calls in order. -/
def maReleaseLoop : Nat → MA → MA × List Released
  | 0, m => (m, [])
  | fuel+1, m =>
    if m.released < m.positions.length then
      if !(m.term m.released) then (m, [])
      else if m.ack m.released then
        let to := m.released + (maAckRun m m.released).length
        let r := maReleaseLoop fuel { m with released := to }
        (r.1, .ackRun m.released to :: r.2)
      else
        let r := maReleaseLoop fuel { m with released := m.released + 1 }
        (r.1, .nackOne m.released :: r.2)
    else (m, [])

/-- `releaseLocked` (the loop runs at most once per unreleased slot, plus the final test). -/
def maRelease (m : MA) : MA × List Released :=
  maReleaseLoop (m.positions.length - m.released + 1) m

/-- one `Ack`/`Nack` call of one branch. -/
structure Vote where
  branch : Nat
  isAck : Bool
  task : Nat := 0
  items : List VItem
deriving Repr, DecidableEq, Inhabited

def Vote.idxs (v : Vote) : List Nat := v.items.map (·.ix)

/-- `multiAckNacker.Ack` / `.Nack`: vote loop, then `releaseLocked`. -/
def maStep (m : MA) (v : Vote) : MA × List Released :=
  maRelease (maVote m v.isAck v.task v.items)

/-- a whole sequence of calls (any interleaving of the branches, serialised by the mutex). -/
def maRun : MA → List Vote → MA × List Released
  | m, [] => (m, [])
  | m, v :: vs => ((maRun (maStep m v).1 vs).1, (maStep m v).2 ++ (maRun (maStep m v).1 vs).2)

/-- the positions one parent call releases, tagged `true` = acked / `false` = nacked. -/
def Released.expand : Released → List (Nat × Bool)
  | .ackRun f t => (List.range' f (t - f)).map fun i => (i, true)
  | .nackOne i => [(i, false)]

/-- all positions released by a sequence of parent calls, in call order. -/
def releasedOf (evs : List Released) : List (Nat × Bool) := evs.flatMap Released.expand

/-- a just-built `multiAckNacker` (what `newMultiAckNacker` returns). -/
def MA.Fresh (m : MA) : Prop :=
  m.released = 0 ∧ m.ackVotes = List.replicate m.positions.length 0 ∧
  m.terminal = List.replicate m.positions.length false ∧
  m.acked = List.replicate m.positions.length false

instance (m : MA) : Decidable m.Fresh := by unfold MA.Fresh; infer_instance

/-- a fresh tally for `n` positions (positions themselves are irrelevant to the arbiter once
`indexOf` resolved them; the driver uses this). -/
def MA.init (branches n : Nat) : MA :=
  { branches := branches, positions := (List.range n).map fun i => some (i+1),
    ackVotes := List.replicate n 0, terminal := List.replicate n false,
    acked := List.replicate n false, record := List.replicate n default,
    nackErr := List.replicate n none, nackTask := List.replicate n 0 }

/-- the (branch, slot) pairs voted in a sequence of calls. -/
def votePairs (vs : List Vote) : List (Nat × Nat) :=
  vs.flatMap fun v => v.idxs.map fun i => (v.branch, i)

/-- the assumption the Go code documents ("each branch votes exactly once per position (ack xor
nack)"), weakened to AT MOST once: every voting branch is one of the `M` branches and no
(branch, position) pair occurs twice in the whole sequence. -/
def WellVoted (M : Nat) (vs : List Vote) : Prop :=
  (votePairs vs).Nodup ∧ ∀ v ∈ vs, v.branch < M

instance (M : Nat) (vs : List Vote) : Decidable (WellVoted M vs) := by
  unfold WellVoted; infer_instance

/-! ## split-run ledger -/

/-- what one group vote does towards the parent. -/
inductive RunOut
  | hold            -- run still incomplete: nothing forwarded
  | ack             -- `parent.Ack(run.ackBatch())`
  | nack            -- `parent.Nack(run.nackBatch(), run.nackTaskID)`
  | err             -- `(bug)` error returned: voted after release, or over-count
deriving Repr, DecidableEq, Inhabited

/-- `runAckNacker.vote` for one group of `k` records of run `r` (`k = j - i`), `e` =
`firstRunError(batch.recordStatuses[i:j])`. -/
def runVote (r : SplitRun) (k : Nat) (isAck : Bool) (task : Nat) (e : Option Err) : SplitRun × RunOut :=
  if r.released then (r, .err)
  else
    let r := { r with terminal := r.terminal + k }
    let r := if !isAck ∧ !r.nacked then { r with nacked := true, nackErr := e, nackTask := task } else r
    if r.terminal > r.total then (r, .err)
    else if r.terminal == r.total then
      ({ r with released := true }, if r.nacked then .nack else .ack)
    else (r, .hold)

/-- `Batch.SplitRecord` on a member of the run: `total += len(recs) - 1`. -/
def runGrow (r : SplitRun) (d : Nat) : SplitRun := { r with total := r.total + d }

/-- one group vote. -/
structure RVote where
  k : Nat
  isAck : Bool
  task : Nat := 0
  err : Option Err := none
deriving Repr, DecidableEq, Inhabited

/-- an operation on a run's ledger: a group vote, or a further split of a live member. -/
inductive RunOp
  | vote (v : RVote)
  | grow (d : Nat)
deriving Repr, DecidableEq, Inhabited

/-- a sequence of ledger operations; one `RunOut` per vote (a `grow` yields no output). -/
def runOps : SplitRun → List RunOp → SplitRun × List RunOut
  | r, [] => (r, [])
  | r, .vote v :: ops =>
    ((runOps (runVote r v.k v.isAck v.task v.err).1 ops).1,
     (runVote r v.k v.isAck v.task v.err).2 :: (runOps (runVote r v.k v.isAck v.task v.err).1 ops).2)
  | r, .grow d :: ops => runOps (runGrow r d) ops

/-- votes only (fixed `total`). -/
def runVotes (r : SplitRun) (vs : List RVote) : SplitRun × List RunOut := runOps r (vs.map .vote)

/-- a just-created run: nothing terminal, not nacked, not released. -/
def SplitRun.Fresh (r : SplitRun) : Prop := r.terminal = 0 ∧ r.nacked = false ∧ r.released = false

instance (r : SplitRun) : Decidable r.Fresh := by unfold SplitRun.Fresh; infer_instance

/-- sum of the group sizes of the votes in an op sequence. -/
def opsSum : List RunOp → Nat
  | [] => 0
  | .vote v :: ops => v.k + opsSum ops
  | .grow _ :: ops => opsSum ops

/-- sum of the growth in an op sequence. -/
def opsGrow : List RunOp → Nat
  | [] => 0
  | .vote _ :: ops => opsGrow ops
  | .grow d :: ops => d + opsGrow ops

/-- every vote in the sequence is an ack. -/
def opsAllAck : List RunOp → Bool
  | [] => true
  | .vote v :: ops => v.isAck && opsAllAck ops
  | .grow _ :: ops => opsAllAck ops

/-- what `runAckNacker.vote` must do with a group vote when, counting this group, `s` members of
a run of `T` live members have been voted and `allAck` says that none of these votes was a nack. -/
def runVerdict (T s : Nat) (allAck : Bool) : RunOut :=
  if s < T then .hold else if s = T then (if allAck then .ack else .nack) else .err


end Conduit.Funnel
