import ConduitModel.Model.Funnel

/-!
# Batch bookkeeping: the alignment invariant and pure restatements (C08 / C09)

`Batch.Aligned` is the shape part (parallel slices, allocated runs, split keys) and what makes
every slice index of the engine stay in range; `Batch.WF` adds the exact filter accounting
`filterCount = #(filter flags)`, which makes the active-index ↦ physical-index map of
`activeRecordIndices` the right one. Every mutator keeps both.

The second half restates the loops of the model (`for … in … do` with `let mut`) as plain
recursive / `foldlM` functions, and `ProcessorTask.Do` / `DestinationTask.Do` as pure
functions without the script / event-log plumbing. The agreement lemmas are in
`Proofs/BatchWF.lean` (`…_eq_model`). Everything here is executable. Core-only.
-/
namespace Conduit.Funnel

/-! ## the invariant -/

/-- "the record at physical index `i` is not filtered" (the test of `activeRecordIndices`). -/
def notFilt (st : List Status) (i : Nat) : Bool := (st[i]?.map (·.flag)) != some Flag.filter

/-- physical indices of the active (non-filtered) records: what `activeRecordIndices`
computes when `filterCount ≠ 0`. -/
def actList (st : List Status) : List Nat := (List.range st.length).filter (notFilt st)

/-- number of active records as the mutators see it (via the flags). -/
def Batch.nAct (b : Batch) : Nat := (actList b.st).length

/-- `b.runs[p]` with a nil `runs` slice / nil entry / out of range all reading as "no run". -/
def Batch.runAt (b : Batch) (p : Nat) : Option Nat :=
  match b.runs with
  | none => none
  | some rs => (rs[p]?).join

/-- `Batch.splittable` on a physical index. -/
def Batch.splittableAt (b : Batch) (p : Nat) : Bool :=
  (b.pos[p]? != some none) || (b.runAt p).isSome

/-- a `runs` entry is nil or an allocated run -/
def runIdOK (h : Heap) : Option Nat → Bool
  | none => true
  | some id => decide (id < h.size)

/-- `runs` is nil, or parallel to `records` with every run id allocated in the heap. -/
def runsOK (h : Heap) (n : Nat) : Option (List (Option Nat)) → Prop
  | none => True
  | some rs => rs.length = n ∧ ∀ r ∈ rs, runIdOK h r = true

instance (h : Heap) (n : Nat) (r : Option (List (Option Nat))) : Decidable (runsOK h n r) :=
  match r with
  | none => isTrue trivial
  | some rs => inferInstanceAs (Decidable (rs.length = n ∧ ∀ r ∈ rs, runIdOK h r = true))

/-- The alignment invariant of `Batch` (batch.go: "runs is … kept in lockstep with
records/recordStatuses/positions").
* `records`, `recordStatuses`, `positions` have the same length, `runs` is nil or has that
  length and only refers to allocated runs;
* every key of `splitRecords` is the key of some position of the batch. -/
structure Batch.Aligned (h : Heap) (b : Batch) : Prop where
  st_len : b.st.length = b.recs.length
  pos_len : b.pos.length = b.recs.length
  runs_ok : runsOK h b.recs.length b.runs
  split_keys : ∀ kv ∈ b.split, ∃ p ∈ b.pos, keyOf p = kv.1

/-- The full well-formedness: aligned, and `filterCount` is exactly the number of filtered
records (so `filterCount = 0` ⇒ nothing is filtered and the identity index map is right). -/
def Batch.WF (h : Heap) (b : Batch) : Prop := b.Aligned h ∧ b.filterCount = countFilter b.st

instance (h : Heap) (b : Batch) : Decidable (b.Aligned h) :=
  decidable_of_iff
    (b.st.length = b.recs.length ∧ b.pos.length = b.recs.length ∧ runsOK h b.recs.length b.runs ∧
      (∀ kv ∈ b.split, ∃ p ∈ b.pos, keyOf p = kv.1))
    ⟨fun ⟨a, b', c, f⟩ => ⟨a, b', c, f⟩, fun ⟨a, b', c, f⟩ => ⟨a, b', c, f⟩⟩

instance (h : Heap) (b : Batch) : Decidable (b.WF h) := inferInstanceAs (Decidable (_ ∧ _))

/-! ## pure restatements of the loops -/

/-- `recordStatuses[p].Flag = f` -/
def setFlagP (f : Flag) (s : Status) : Status := { s with flag := f }

/-- one iteration of the `setFlagNoErr` range loop -/
def sfStep (b : Batch) (f : Flag) (st : List Status) (k : Nat) : R (List Status) := do
  let p ← b.phys k
  setFlagAt st p f

/-- `setFlagNoErr(f, i, j)` as a `foldlM` -/
def Batch.setFlagRangeP (b : Batch) (f : Flag) (i j : Nat) : R Batch :=
  if i ≥ j then panic "invalid range" else do
    let st ← (List.range' i (j - i)).foldlM (sfStep b f) b.st
    pure { b with st := st }

/-- one iteration of the split-extent loop of `setFlagWithErr`: a filtered piece stays filtered -/
def nackExtent (e : Option Err) (st : List Status) (j : Nat) : R (List Status) := do
  let sj ← idx st j "recordStatuses"
  if sj.flag != .filter then pure (st.set j { flag := .nack, err := e }) else pure st

/-- one iteration of the `setFlagWithErr` loop: active index `q`, error `e`. -/
def nackStep (b : Batch) (act : Option (List Nat)) (st : List Status) (q : Nat) (e : Option Err) : R (List Status) := do
  let p ← match act with
    | some a => idx a q "activeIndices"
    | none => pure q
  let _ ← idx st p "recordStatuses"
  let st := st.set p { flag := .nack, err := e }
  if b.split.length > 0 then
    let ps ← idx b.pos p "positions"
    if ps == none ∨ (lookup b.split (keyOf ps)).isSome then
      let from_ := findSplitFrom b.pos p
      let to := findSplitTo b.pos (p+1) b.pos.length - 1
      (List.range' from_ (to + 1 - from_)).foldlM (nackExtent e) st
    else pure st
  else pure st

/-- the `setFlagWithErr` loop from active index `q` on -/
def nackGo (b : Batch) (act : Option (List Nat)) : List (Option Err) → Nat → List Status → R (List Status)
  | [], _, st => pure st
  | e :: es, q, st => do
    let st ← nackStep b act st q e
    nackGo b act es (q+1) st

/-- `Nack(i, errs...)` -/
def Batch.nackP (b : Batch) (i : Nat) (errs : List (Option Err)) : R Batch := do
  let st ← nackGo b b.activeIdx errs i b.st
  pure { b with st := st, tainted := true }

/-! ## `ProcessorTask.Do` / `DestinationTask.Do` without the script and log plumbing -/

/-- one entry of the `MultiRecord` loop of `markBatchRecords` -/
def procMultiStep (from_ : Nat) (records : List PR) (hb : Heap × Batch) (i : Nat) : R (Heap × Batch) :=
  match records[i]? with
  | some (.multi m) =>
    match m.length with
    | 0 => do let b ← hb.2.filter1 (from_ + i); pure (hb.1, b)
    | 1 => do let b ← hb.2.setRecords (from_ + i) m; pure (hb.1, b)
    | _ => hb.2.splitRecord hb.1 (from_ + i) m
  | _ => pure hb

/-- `ProcessorTask.markBatchRecords` on `(heap, batch)` -/
def procMarkP (hb : Heap × Batch) (from_ : Nat) (records : List PR) : R (Heap × Batch) :=
  match records with
  | [] => pure hb
  | .single _ :: _ => do
    let b ← hb.2.setRecords from_ (records.filterMap fun | .single r => some r | _ => none)
    pure (hb.1, b)
  | .filter :: _ => do
    let b ← hb.2.filterRange from_ (from_ + records.length)
    pure (hb.1, b)
  | .error _ :: _ => do
    let b ← hb.2.nack from_ (records.filterMap fun | .error e => some (some (e.getD plainErr)) | _ => none)
    pure (hb.1, b)
  | .multi _ :: _ => (List.range records.length).reverse.foldlM (procMultiStep from_ records) hb
  | .nil :: _ => do
    let b ← hb.2.retry from_ (from_ + records.length)
    pure (hb.1, b)

/-- the `splittable` pre-check of `ProcessorTask.Do` for result `i` -/
def procCheckStep (b : Batch) (out : List PR) (i : Nat) : R Unit :=
  match out[i]? with
  | some (.multi m) =>
    if m.length > 1 then do
      let p ← b.phys i
      let ps ← idx b.pos p "positions[i]"
      let run : Option Nat := match b.runs with
        | none => none
        | some rs => (rs[p]?).join
      if ps == none ∧ run == none then throw (.err (coded "pipeline.empty_source_position")) else pure ()
    else pure ()
  | _ => pure ()

/-- one step of the end→start group loop of `ProcessorTask.Do`; state = (heap, batch, to) -/
def procGroupStep (out : List PR) (s : (Heap × Batch) × Nat) (i : Nat) : R ((Heap × Batch) × Nat) :=
  let boundary := i == 0 || !(sameType (out[i-1]?.getD .nil) (out[i]?.getD .nil))
  if boundary then do
    let hb ← procMarkP s.1 i ((out.take s.2).drop i)
    pure (hb, i)
  else pure s

/-- `ProcessorTask.Do` given the plugin's reply `out` -/
def procDoP (h : Heap) (b : Batch) (out : List PR) : R (Heap × Batch) := do
  let recsIn := b.active
  if out.length = 0 then throw (.err plainErr)
  if out.length > recsIn.length then throw (.err plainErr)
  (List.range out.length).forM (procCheckStep b out)
  let out := if recsIn.length > out.length then out ++ List.replicate (recsIn.length - out.length) PR.nil else out
  let s ← (List.range out.length).reverse.foldlM (procGroupStep out) ((h, b), out.length)
  pure s.1

/-- one entry of `DestinationTask.markBatchRecords` -/
def destMarkStep (from_ : Nat) (acks : List (PosV × Option Err)) (b : Batch) (i : Nat) : R Batch :=
  match acks[i]? with
  | some (_, some e) => b.nack (from_ + i) [some e]
  | _ => pure b

/-- `DestinationTask.markBatchRecords` as a `foldlM` -/
def destMarkP (b : Batch) (from_ : Nat) (acks : List (PosV × Option Err)) : R Batch :=
  (List.range acks.length).reverse.foldlM (destMarkStep from_ acks) b

/-- `DestinationTask.Do` given the destination's reply (write error, ack responses). -/
def destDoP (b : Batch) (werr : Option Err) (resps : List AckResp) : R Batch := do
  let positions := b.active.map (·.pos)
  if let some e := werr then throw (.err (wrap e))
  let (b, ackCount) ← destAckLoop positions positions.length b 0 resps
  if ackCount < positions.length then throw (.err plainErr)
  pure b

/-! ## retry accounting of `doTaskAttempt` (`RecordFlagRetry` branch) -/

/-- the attempt record passed to the nested `doTaskAttempt`, or the fatal
`pipeline.retry_not_converging` refusal. -/
def nextRetry (retry : Option RetryAttempt) (size : Nat) : Except Err RetryAttempt :=
  match retry with
  | none => .ok { count := 1, size := size }
  | some r =>
    let stall := if size ≥ r.size then r.stall + 1 else 0
    if stall ≥ maxRetryStall then .error (fatalE (coded "pipeline.retry_not_converging"))
    else if r.count + 1 > maxRetryAttempts then .error (fatalE (coded "pipeline.retry_not_converging"))
    else .ok { count := r.count + 1, size := size, stall := stall }

/-- a chain of nested retry rounds: the sizes of the successive retried sub-batches, each
accepted by `nextRetry` from the attempt record of the round before. -/
def retryChain : Option RetryAttempt → List Nat → Bool
  | _, [] => true
  | r, size :: rest =>
    match nextRetry r size with
    | .ok n => retryChain (some n) rest
    | .error _ => false

end Conduit.Funnel
