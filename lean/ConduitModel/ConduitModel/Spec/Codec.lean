import ConduitModel.Model.Resume

/-
Spec for C17: what "is read back identically by a restarted server" means for the codec model,
and the representation invariants under which it is stated.

A stored entity is any value of `ConnInstance` / `PipeInstance` / `ProcInstance`. The values that
represent a Go value are the *well-formed* ones:
  * every map is in canonical order (`SMap.Sorted`): each Go map has exactly one such
    representation, so this restricts nothing;
  * every timestamp is one `time.Time.MarshalJSON` accepts: a real calendar time, year 0..9999,
    zone offset a whole number of minutes below 24h;
  * a connector's `State` fits its `Type` (the invariant of the running system).
Everything else — every string (any Unicode scalar sequence), every byte string, every `nil` vs
empty choice, every 64-bit integer, every status — is unrestricted.
Core-only.
-/
namespace Conduit.Codec

def optSorted {α : Type} : Option (SMap α) → Prop
  | none => True
  | some m => SMap.Sorted m

def ConnState.sorted : ConnState → Prop
  | .destination ps => optSorted ps
  | _ => True

def ConnInstance.WF (x : ConnInstance) : Prop :=
  optSorted x.config.settings ∧ optSorted x.lastActiveConfig.settings ∧ x.state.sorted ∧
  x.createdAt.valid = true ∧ x.updatedAt.valid = true ∧ x.stateMatches

def PipeInstance.WF (x : PipeInstance) : Prop :=
  optSorted x.dlq.settings ∧ x.createdAt.valid = true ∧ x.updatedAt.valid = true

def ProcInstance.WF (x : ProcInstance) : Prop :=
  optSorted x.config.settings ∧ x.createdAt.valid = true ∧ x.updatedAt.valid = true

/-- "read back identically by a restarted server": a new store decoding the stored bytes yields
the instance. -/
def ConnSurvives (x : ConnInstance) : Prop := loadConn (storeConn x) = some (.ok x)
def PipeSurvives (x : PipeInstance) : Prop := loadPipe (storePipe x) = some (.ok x)
def ProcSurvives (x : ProcInstance) : Prop := loadProc (storeProc x) = some (.ok x)

/-- a pre-0.4.1 connector record as v0.4.0 wrote it (typed view of `connectorPre041`). -/
structure OldRecord where
  isSource : Bool
  xid : Str
  name : Str
  settings : Option (SMap Str)
  plugin : Str
  pipelineID : Str
  processorIDs : Option (List Str)
  /-- `XState`: the position (source) or positions (destination) -/
  position : Option Bytes
  positions : Option (SMap (Option Bytes))
  provisionedBy : Int64
  createdAt : Time
  updatedAt : Time

def OldRecord.state (o : OldRecord) : ConnState :=
  if o.isSource then .source o.position else .destination o.positions

/-- the old document (`{"Type":…,"Data":{"XID":…,"XConfig":{…},"XState":…,…}}`). -/
def encOld (o : OldRecord) : Json :=
  .obj [(key "Type", .str (if o.isSource then key "Source" else key "Destination")),
        (key "Data", .obj [
          (key "XID", .str o.xid),
          (key "XConfig", .obj [(key "Name", .str o.name), (key "Settings", encStrMap o.settings),
                                (key "Plugin", .str o.plugin), (key "PipelineID", .str o.pipelineID),
                                (key "ProcessorIDs", encStrList o.processorIDs)]),
          (key "XState", encConnState o.state),
          (key "XProvisionedBy", encInt o.provisionedBy),
          (key "XCreatedAt", encTime o.createdAt), (key "XUpdatedAt", encTime o.updatedAt)])]

/-- the instance the migration is specified to produce: every old field carried over, the type
name mapped to the type constant, `LastActiveConfig` (which did not exist) zero. -/
def OldRecord.migrated (o : OldRecord) : ConnInstance :=
  { id := o.xid, type := if o.isSource then typeSource else typeDestination,
    config := ⟨o.name, o.settings⟩, pipelineID := o.pipelineID, plugin := o.plugin,
    processorIDs := o.processorIDs, state := o.state, provisionedBy := o.provisionedBy,
    createdAt := o.createdAt, updatedAt := o.updatedAt, lastActiveConfig := ⟨[], none⟩ }

def OldRecord.WF (o : OldRecord) : Prop :=
  optSorted o.settings ∧ optSorted o.positions ∧ o.createdAt.valid = true ∧ o.updatedAt.valid = true

end Conduit.Codec
