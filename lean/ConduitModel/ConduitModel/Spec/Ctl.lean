import ConduitModel.Model.Ctl

/-!
C14 specification over M6 (`Model/Ctl.lean`): what "all-or-nothing", "memory = store",
"references consistent" and "guards" mean, as `Prop`s for the theorems and as executable
checks (`…B`) for the monitor the driver evaluates on every history.
-/
namespace Conduit.Ctl

instance {α : Type} [DecidableEq α] : DecidableEq (Except Err α) := fun a b =>
  match a, b with
  | .ok x, .ok y => if h : x = y then isTrue (by rw [h]) else isFalse (by intro h'; cases h'; exact h rfl)
  | .error e, .error f => if h : e = f then isTrue (by rw [h]) else isFalse (by intro h'; cases h'; exact h rfl)
  | .ok _, .error _ => isFalse (by intro h; cases h)
  | .error _, .ok _ => isFalse (by intro h; cases h)

/-! ## content view -/

/-- content of a state: the in-memory view and the committed store (counters, the fresh-id
counter and printing bookkeeping are not content). -/
structure View where
  mpls : Map Pl
  mcns : Map Cn
  mprs : Map Pr
  names : Nat → Bool
  kpls : Map Pl
  kcns : Map Cn
  kprs : Map Pr

def St.view (s : St) : View :=
  { mpls := s.mem.pls, mcns := s.mem.cns, mprs := s.mem.prs, names := s.mem.names,
    kpls := s.kv.pls, kcns := s.kv.cns, kprs := s.kv.prs }

/-- memory = store: every in-memory map is exactly the decoded key space, no transaction is
left open. What a restarted server loads is `Init` of the right-hand sides. -/
def MemEqStore (s : St) : Prop :=
  s.mem.pls = s.kv.pls ∧ s.mem.cns = s.kv.cns ∧ s.mem.prs = s.kv.prs ∧ s.tx = none

/-- `instanceNames = names(instances)`. -/
def NamesOk (m : Mem) : Prop :=
  ∀ n, m.names n = true ↔ ∃ id p, m.pls id = some p ∧ p.name = n

/-- pipeline names are unique. -/
def NameUniq (m : Mem) : Prop :=
  ∀ i j p q, m.pls i = some p → m.pls j = some q → p.name = q.name → i = j

/-- pipelines reference exactly their existing connectors and processors and vice versa. -/
structure Refs (m : Mem) : Prop where
  plConn  : ∀ pid p cid, m.pls pid = some p → cid ∈ p.conns → ∃ c, m.cns cid = some c ∧ c.pipeline = pid
  connPl  : ∀ cid c, m.cns cid = some c → ∃ p, m.pls c.pipeline = some p ∧ cid ∈ p.conns
  plProc  : ∀ pid p rid, m.pls pid = some p → rid ∈ p.procs → ∃ r, m.prs rid = some r ∧ r.ptype = 2 ∧ r.parent = pid
  cnProc  : ∀ cid c rid, m.cns cid = some c → rid ∈ c.procs → ∃ r, m.prs rid = some r ∧ r.ptype = 1 ∧ r.parent = cid
  procPar : ∀ rid r, m.prs rid = some r →
              (r.ptype = 2 ∧ ∃ p, m.pls r.parent = some p ∧ rid ∈ p.procs) ∨
              (r.ptype = 1 ∧ ∃ c, m.cns r.parent = some c ∧ rid ∈ c.procs)
  plNodupC : ∀ pid p, m.pls pid = some p → p.conns.Nodup
  plNodupR : ∀ pid p, m.pls pid = some p → p.procs.Nodup
  cnNodupR : ∀ cid c, m.cns cid = some c → c.procs.Nodup

/-- ids at or above `next` are unused and unreferenced. -/
structure Fresh (s : St) : Prop where
  pls : ∀ id, s.next ≤ id → s.mem.pls id = none
  cns : ∀ id, s.next ≤ id → s.mem.cns id = none
  prs : ∀ id, s.next ≤ id → s.mem.prs id = none
  plC : ∀ pid p cid, s.mem.pls pid = some p → cid ∈ p.conns → cid < s.next
  plR : ∀ pid p rid, s.mem.pls pid = some p → rid ∈ p.procs → rid < s.next
  cnR : ∀ cid c rid, s.mem.cns cid = some c → rid ∈ c.procs → rid < s.next

/-- all-or-nothing for one call: a successful call has exactly the effect of the call without
any store failure; a failed call leaves everything exactly as it was. -/
def Atomic (v : Variant) (s : St) (op : Op) (k : Option Nat) : Prop :=
  ((exec v s op k).1 = .ok () → (exec v s op k).2.view = (exec v s op none).2.view) ∧
  ((exec v s op k).1 ≠ .ok () → (exec v s op k).2.view = s.view)

/-- the pipeline a processor belongs to (`getProcessorsPipeline`). -/
def procOwner (m : Mem) (ptype : Nat) (parent : Id) : Option Pl :=
  if ptype = 2 then m.pls parent
  else if ptype = 1 then (m.cns parent).bind fun c => m.pls c.pipeline else none

def Pl.running (p : Pl) : Bool := p.status = 1
def Pl.locked (p : Pl) : Bool := p.status = 1 || p.prov = 1

/-- the op must be refused: it would modify a resource of a running pipeline, or a
file-provisioned resource (for creations: add to a file-provisioned pipeline). -/
def protectedOp (m : Mem) : Op → Bool
  | .plUpdate i .. | .plUpdateDLQ i .. | .plDelete i => (m.pls i).any Pl.locked
  | .cnCreate _ _ pid .. => (m.pls pid).any Pl.locked
  | .cnUpdate i .. | .cnDelete i => (m.cns i).any fun c => c.prov = 1 || (m.pls c.pipeline).any Pl.running
  | .prCreate _ ptype parent .. => (procOwner m ptype parent).any Pl.locked
  | .prUpdate i .. | .prDelete i => (m.prs i).any fun r => r.prov = 1 || (procOwner m r.ptype r.parent).any Pl.running
  | _ => false

/-- file-provisioned pipelines hold only file-provisioned connectors and processors (so that
"the entity is file-provisioned" covers "its pipeline is"). -/
structure ProvOk (m : Mem) : Prop where
  cn : ∀ id c p, m.cns id = some c → m.pls c.pipeline = some p → p.prov = 1 → c.prov = 1
  pr : ∀ id r p, m.prs id = some r → procOwner m r.ptype r.parent = some p → p.prov = 1 → r.prov = 1

/-- resources of a running or file-provisioned pipeline are never modified. -/
def Guarded (v : Variant) (s : St) (op : Op) (k : Option Nat) : Prop :=
  protectedOp s.mem op = true → (exec v s op k).1 ≠ .ok () ∧ (exec v s op k).2.view = s.view

/-! ## F7 triggers: the (op, failing store-op index, state) combinations at which the code as
found is *not* all-or-nothing. Each disjunct names the defect (DESIGN §9 F7). -/

/-- position of the op's entity in its parent list is the last one (so that the rollback's
`Add…` — an append — restores the order). -/
def lastIn (l : List Id) (id : Id) : Bool := l.getLast? = some id

/-- `ConnectorOrchestrator.Delete`'s rollback (`Create(id, Type, Plugin, PipelineID, Config,
ProvisionedBy)`) reproduces the connector: it has no `State`, and `Create`'s validation accepts
its name and plugin (an `Update` may have stored an empty / over-long name or an empty plugin). -/
def cnRecreatable (c : Cn) : Bool := c.state = 0 && c.name ≠ 0 && c.name ≠ 99 && c.plugin ≠ 0

/-- `ProcessorOrchestrator.Delete`'s rollback (`Create(…)`) reproduces the processor: `Create`
accepts its worker count unchanged (an `Update` may have stored `≤ 0`) and its plugin exists. -/
def prRecreatable (r : Pr) : Bool := decide (0 < r.workers) && prPluginKnown r.plugin

def f7Trigger (v : Variant) (s : St) (op : Op) (k : Option Nat) : Bool :=
  match op, k with
  -- mutate-before-store in the service, no rollback registered for the failed step
  | .plUpdate .., some 1 => !v.plUpdate
  | .plUpdateDLQ .., some 1 => !v.plUpdateDLQ
  | .cnCreate .., some 3 => !v.plAddConn
  | .cnUpdate .., some 2 => !v.cnUpdate
  -- rollback passes the already-updated plugin
  | .cnUpdate .., some 3 => !v.cnOrchOldPlugin
  -- rollback re-creates without State / appends at the end of the list
  | .cnDelete i, some 3 => !v.plRemConn || (s.mem.cns i).any (fun c => !cnRecreatable c)
  | .cnDelete i, some 4 =>
    (s.mem.cns i).any (fun c => !cnRecreatable c || ((s.mem.pls c.pipeline).any fun p => !lastIn p.conns i))
  | .prCreate _ ptype .., some 3 => if ptype = 2 then !v.plAddProc else !v.cnAddProc
  | .prUpdate .., some 2 => !v.prUpdate
  | .prDelete i, some 3 =>
    (s.mem.prs i).any fun r => (if r.ptype = 2 then !v.plRemProc else !v.cnRemProc) || !prRecreatable r
  | .prDelete i, some 4 =>
    (s.mem.prs i).any fun r => !prRecreatable r ||
      (if r.ptype = 2 then (s.mem.pls r.parent).any fun p => !lastIn p.procs i
       else (s.mem.cns r.parent).any fun c => !lastIn c.procs i)
  | _, _ => false

/-- what is left of the triggers once every local repair is applied: the `Delete` rollbacks of
the connector / processor orchestrators, which re-`Create` the entity (losing `State`, failing
on names / plugins / worker counts `Create` rejects) and re-`Add` it at the end of its parent's
list. -/
def f7Residual (s : St) (op : Op) (k : Option Nat) : Bool :=
  match op, k with
  | .cnDelete i, some 3 => (s.mem.cns i).any (fun c => !cnRecreatable c)
  | .cnDelete i, some 4 =>
    (s.mem.cns i).any (fun c => !cnRecreatable c || ((s.mem.pls c.pipeline).any fun p => !lastIn p.conns i))
  | .prDelete i, some 3 => (s.mem.prs i).any fun r => !prRecreatable r
  | .prDelete i, some 4 =>
    (s.mem.prs i).any fun r => !prRecreatable r ||
      (if r.ptype = 2 then (s.mem.pls r.parent).any fun p => !lastIn p.procs i
       else (s.mem.cns r.parent).any fun c => !lastIn c.procs i)
  | _, _ => false

/-- well-formedness the services maintain: connector types are source/destination, processor
plugin names are non-empty. -/
structure WF (m : Mem) : Prop where
  cnTyp : ∀ id c, m.cns id = some c → c.typ = 1 ∨ c.typ = 2
  prPlg : ∀ id r, m.prs id = some r → r.plugin ≠ 0

/-- Reference consistency of a control-plane state (what the harness monitor `refsB` evaluates on
the in-memory view): every connector id in a pipeline's `ConnectorIDs` exists and names that
pipeline as its `PipelineID` and vice versa; every processor id in a pipeline's / connector's
`ProcessorIDs` exists with that parent and vice versa; no id is listed twice; no processor or
connector has a dangling parent. -/
def RefInv (s : St) : Prop := Refs s.mem

/-- the state a restarted server holds: the in-memory maps are the decoded committed store. -/
def storeImage (s : St) : St :=
  { s with mem := { pls := s.kv.pls, cns := s.kv.cns, prs := s.kv.prs, names := s.mem.names } }

/-- the invariant of histories on which no F7 trigger fired. -/
structure Inv (s : St) : Prop where
  tx    : s.tx = none
  eq    : MemEqStore s
  names : NamesOk s.mem
  uniq  : NameUniq s.mem
  refs  : Refs s.mem
  fresh : Fresh s
  wf    : WF s.mem

/-! ## executable observation (shared by the driver's dump and the monitor) -/

def idList (l : List Id) : String := "[" ++ ",".intercalate (l.map toString) ++ "]"

def dumpPl (initStatus : Bool) (id : Id) (p : Pl) : String :=
  let st := if initStatus && p.status = 1 then 2 else p.status
  s!"P{id}:{p.name},{p.desc},{st},{p.prov},{p.dlq.plugin},{p.dlq.settings},{p.dlq.ws},{p.dlq.thr},{idList p.conns},{idList p.procs}"

def dumpCn (id : Id) (c : Cn) : String :=
  s!"C{id}:{c.typ},{c.plugin},{c.name},{c.settings},{c.pipeline},{c.prov},{c.state},{idList c.procs}"

def dumpPr (id : Id) (r : Pr) : String :=
  s!"R{id}:{r.plugin},{r.settings},{r.workers},{r.cond},{r.ptype},{r.parent},{r.prov}"

def insertSorted (n : Nat) : List Nat → List Nat
  | [] => [n]
  | x :: xs => if n < x then n :: x :: xs else if n = x then x :: xs else x :: insertSorted n xs

def sortDedup (l : List Nat) : List Nat := l.foldr insertSorted []

/-- dump of (pls, cns, prs, names) over the id universe `[0, n)`. -/
def dumpMaps (n : Nat) (initStatus : Bool) (pls : Map Pl) (cns : Map Cn) (prs : Map Pr) (names : List Nat) : String :=
  let ids := List.range n
  let ps := ids.filterMap fun i => (pls i).map (dumpPl initStatus i)
  let cs := ids.filterMap fun i => (cns i).map (dumpCn i)
  let rs := ids.filterMap fun i => (prs i).map (dumpPr i)
  ";".intercalate (ps ++ cs ++ rs ++ ["N" ++ idList (sortDedup names)])

def memNames (s : St) : List Nat := s.nameU.filter s.mem.names

/-- names a freshly initialised pipeline service derives from the store. -/
def kvNames (n : Nat) (k : KV) : List Nat := (List.range n).filterMap fun i => (k.pls i).map (·.name)

def dumpMem (s : St) (initStatus : Bool) : String :=
  dumpMaps s.next initStatus s.mem.pls s.mem.cns s.mem.prs (memNames s)

def dumpReload (s : St) : String :=
  dumpMaps s.next true s.kv.pls s.kv.cns s.kv.prs (kvNames s.next s.kv)

def keysOf (n : Nat) (pls : Map Pl) (cns : Map Cn) (prs : Map Pr) : String :=
  let ids := List.range n
  ",".intercalate ((ids.filter fun i => (pls i).isSome).map (s!"P{·}") ++
    (ids.filter fun i => (cns i).isSome).map (s!"C{·}") ++ (ids.filter fun i => (prs i).isSome).map (s!"R{·}"))

/-- `<memory dump>#<reload dump or =>#<raw keys or =>` — the harness prints the same of the real services. -/
def observe (s : St) : String :=
  let mem := dumpMem s false
  let rel := dumpReload s
  let rel := if rel = dumpMem s true then "=" else rel
  let keys := keysOf s.next s.kv.pls s.kv.cns s.kv.prs
  let keys := if keys = keysOf s.next s.mem.pls s.mem.cns s.mem.prs then "=" else keys
  mem ++ "#" ++ rel ++ "#" ++ keys

/-- content of a state as a string over the id universe `[0,n)` (memory and store, raw). -/
def content (n : Nat) (s : St) : String :=
  dumpMaps n false s.mem.pls s.mem.cns s.mem.prs (memNames s) ++ "#" ++
  dumpMaps n false s.kv.pls s.kv.cns s.kv.prs []

def memEqStoreB (s : St) : Bool :=
  let n := s.next
  s.tx.isNone &&
  dumpMaps n false s.mem.pls s.mem.cns s.mem.prs (memNames s) ==
    dumpMaps n false s.kv.pls s.kv.cns s.kv.prs (kvNames n s.kv)

/-- no id occurs twice. -/
def nodupB : List Id → Bool
  | [] => true
  | x :: xs => !xs.contains x && nodupB xs

/-- executable `Refs` over the id universe `[0, next)`. -/
def refsB (s : St) : Bool :=
  let m := s.mem
  let ids := List.range s.next
  ids.all fun i =>
    (match m.pls i with
     | some p => p.conns.all (fun c => (m.cns c).any (·.pipeline = i)) &&
                 p.procs.all (fun r => (m.prs r).any (fun x => x.ptype = 2 && x.parent = i)) &&
                 nodupB p.conns && nodupB p.procs
     | none => true) &&
    (match m.cns i with
     | some c => (m.pls c.pipeline).any (·.conns.contains i) &&
                 c.procs.all (fun r => (m.prs r).any (fun x => x.ptype = 1 && x.parent = i)) &&
                 nodupB c.procs
     | none => true) &&
    (match m.prs i with
     | some r => (r.ptype = 2 && (m.pls r.parent).any (·.procs.contains i)) ||
                 (r.ptype = 1 && (m.cns r.parent).any (·.procs.contains i))
     | none => true)

def okB : Except Err Unit → Bool
  | .ok _ => true
  | .error _ => false

def Op.tag : Op → String
  | .plCreate .. => "pc" | .plUpdate .. => "pu" | .plUpdateDLQ .. => "pq" | .plDelete .. => "pd"
  | .cnCreate .. => "cc" | .cnUpdate .. => "cu" | .cnDelete .. => "cd"
  | .prCreate .. => "rc" | .prUpdate .. => "ru" | .prDelete .. => "rd"
  | .envStatus .. => "st" | .envState .. => "ss" | .envPl .. => "Pc" | .envCn .. => "Cc" | .envPr .. => "Rc"

/-- The C14 monitor for one step from a state in which the property still held: `none` = holds,
`some why` = the first clause that fails. -/
def stepMonitor (v : Variant) (s : St) (op : Op) (k : Option Nat) : Option String :=
  let r := exec v s op k
  let n := s.next + 1
  let pre := content n s
  let post := content n r.2
  let eff := content n (exec v s op none).2
  if op.isApi && okB r.1 && post ≠ eff then some "atomic-ok-not-effect"
  else if op.isApi && !okB r.1 && post ≠ pre then
    some (if f7Residual s op k then "atomic-fail-not-pre-delete-rollback" else "atomic-fail-not-pre")
  else if protectedOp s.mem op && (okB r.1 || post ≠ pre) then some "guard"
  else if !memEqStoreB r.2 then some "memstore"
  else if !refsB r.2 then some "refs"
  else none

end Conduit.Ctl
