/-
Abstract specification of the DLQ nack window, as C07 words it:
"A rejection is tolerated only while the rejections among the most recent window-size
outcomes, counting it, do not exceed the threshold (a window size of zero removes the limit,
a threshold of zero tolerates none)"; once a rejection is refused the window is frozen.
-/
namespace Conduit.Dlq

/-- Spec state: the whole outcome history (oldest first, `true` = nack) of outcomes that were
recorded while not frozen, and the sticky frozen flag. -/
structure Spec where
  hist   : List Bool
  frozen : Bool
deriving Repr, DecidableEq

def Spec.init : Spec := { hist := [], frozen := false }

/-- the last `size` outcomes, padded on the old side with acks. -/
def lastN (size : Nat) (hist : List Bool) : List Bool :=
  (List.replicate size false ++ hist).drop hist.length

/-- number of nacks among the most recent `size` outcomes. -/
def recentNacks (size : Nat) (hist : List Bool) : Nat := (lastN size hist).count true

/-- One outcome. Returns the new state and the verdict (`true` = tolerated / accepted;
an ack is always "accepted"). -/
def Spec.step (size thr : Nat) (s : Spec) (nacked : Bool) : Spec × Bool :=
  if size = 0 then (s, true)
  else if s.frozen then (s, !nacked)
  else
    let h := s.hist ++ [nacked]
    if thr < recentNacks size h then ({ hist := h, frozen := true }, !nacked)
    else ({ hist := h, frozen := false }, true)

/-- run a whole outcome sequence through the spec; verdicts of the nacks only matter to the
engines, acks always "pass". -/
def Spec.run (size thr : Nat) : Spec → List Bool → Spec × List Bool
  | s, [] => (s, [])
  | s, o :: os =>
    let (s', v) := Spec.step size thr s o
    let (s'', vs) := Spec.run size thr s' os
    (s'', v :: vs)

end Conduit.Dlq
