import ConduitModel.Model.Egress

/-!
C18 — the documented refused floor, written independently of the code's tables: plain numeric
intervals for IPv4, prefixes and embedded-IPv4 encodings for IPv6.
-/
namespace Conduit.Egress

/-- IPv4 floor (a < 2^32): loopback 127/8, this-network 0/8, RFC 1918 (10/8, 172.16/12,
192.168/16), link-local 169.254/16 (cloud metadata 169.254.169.254), CGNAT 100.64/10,
multicast + reserved + broadcast ≥ 224.0.0.0. -/
def FloorV4 (a : Nat) : Prop :=
  (2130706432 ≤ a ∧ a < 2147483648) ∨            -- 127.0.0.0 – 127.255.255.255
  a < 16777216 ∨                                 -- 0.0.0.0 – 0.255.255.255
  (167772160 ≤ a ∧ a < 184549376) ∨              -- 10.0.0.0/8
  (2886729728 ≤ a ∧ a < 2887778304) ∨            -- 172.16.0.0 – 172.31.255.255
  (3232235520 ≤ a ∧ a < 3232301056) ∨            -- 192.168.0.0/16
  (2851995648 ≤ a ∧ a < 2852061184) ∨            -- 169.254.0.0/16
  (1681915904 ≤ a ∧ a < 1686110208) ∨            -- 100.64.0.0 – 100.127.255.255
  3758096384 ≤ a                                 -- ≥ 224.0.0.0

instance (a : Nat) : Decidable (FloorV4 a) := by unfold FloorV4; infer_instance

/-- genuinely-IPv6 floor (x < 2^128): ::, ::1, link-local fe80::/10, site-local fec0::/10,
ULA fc00::/7, multicast ff00::/8. -/
def FloorV6Native (x : Nat) : Prop :=
  x = 0 ∨ x = 1 ∨
  (338288524927261089654018896841347694592 ≤ x ∧ x < 338620831926207318622244848606417780736) ∨  -- fe80::/10
  (338620831926207318622244848606417780736 ≤ x ∧ x < 338953138925153547590470800371487866880) ∨  -- fec0::/10
  (334965454937798799971759379190646833152 ≤ x ∧ x < 337623910929368631717566993311207522304) ∨  -- fc00::/7
  338953138925153547590470800371487866880 ≤ x                                                    -- ff00::/8

/-- the IPv6 encodings that embed the IPv4 address `a`. -/
inductive Embeds (a : Nat) : Nat → Prop
  | mapped : Embeds a (281470681743360 + a)                              -- ::ffff:a.b.c.d
  | compatible : Embeds a a                                             -- ::a.b.c.d
  | translated : Embeds a (18446462598732840960 + a)                    -- ::ffff:0:a.b.c.d  (RFC 6052 / SIIT)
  | nat64 : Embeds a (524413980667603649783483181312245760 + a)         -- 64:ff9b::a.b.c.d
  | sixToFour (low : Nat) (h : low < 1208925819614629174706176) :       -- 2002:AABB:CCDD:<80 bits>
      Embeds a ((8194 * 4294967296 + a) * 1208925819614629174706176 + low)
  | teredoServer (flagsPortClient : Nat) (h : flagsPortClient < 18446744073709551616) :  -- 2001:0:SERVER:…
      Embeds a ((536936448 * 4294967296 + a) * 18446744073709551616 + flagsPortClient)
  | teredoClient (mid : Nat) (h : mid < 18446744073709551616) :         -- 2001:0:…:~CLIENT (client address is stored inverted)
      Embeds a (536936448 * 79228162514264337593543950336 + mid * 4294967296 + (4294967295 - a))

/-- the whole documented floor on the 16-byte form. -/
def FloorV6 (x : Nat) : Prop :=
  FloorV6Native x ∨ ∃ a, a < P32 ∧ FloorV4 a ∧ Embeds a x

/-- the floor on a `net.IP` value. -/
def Floor : IP → Prop
  | .b4 a => FloorV4 a
  | .b16 x => FloorV6 x
  | .bad => True

instance (x : Nat) : Decidable (FloorV6Native x) := by unfold FloorV6Native; infer_instance

/-- executable floor test on the 16-byte form (the monitor the driver evaluates on every
`refuse` case): native ranges, or some embedded-IPv4 reading of `x` is a floor IPv4 address. -/
def floorV6B (x : Nat) : Bool :=
  decide (FloorV6Native x) ||
  (x / 4294967296 == 0xffff && decide (FloorV4 (x % 4294967296))) ||                    -- mapped
  (x / 4294967296 == 0 && decide (FloorV4 x)) ||                                          -- compatible
  (x / 4294967296 == 0xffff0000 && decide (FloorV4 (x % 4294967296))) ||                -- translated
  (x / 4294967296 == 0x64ff9b0000000000000000 && decide (FloorV4 (x % 4294967296))) ||  -- NAT64
  (x / 5192296858534827628530496329220096 == 0x2002 &&
    decide (FloorV4 (x / 1208925819614629174706176 % 4294967296))) ||                     -- 6to4
  (x / 79228162514264337593543950336 == 0x20010000 &&
    (decide (FloorV4 (x / 18446744073709551616 % 4294967296)) ||                          -- Teredo server
     decide (FloorV4 (4294967295 - x % 4294967296))))                                     -- Teredo client

def floorB : IP → Bool
  | .b4 a => decide (FloorV4 a)
  | .b16 x => floorV6B x
  | .bad => true

/-- the tables refuse the whole documented floor. -/
def CoversFloor (t : Tables) : Prop := ∀ ip : IP, ip.Valid → Floor ip → refused t ip = true

/-- the secret `s` is within the ceiling's grant: a restricted ceiling (it lists hosts, or it
lists secrets) grants exactly its secret set; an unrestricted one grants everything. -/
def ceilingGrantsSecret (ceiling : Policy) (s : String) : Prop :=
  (ceiling.allow = [] ∧ ceiling.secrets = []) ∨ s ∈ ceiling.secrets

/-- the entry is within the ceiling's host set (an enabled ceiling without entries = any host). -/
def ceilingAllowsEntry (ceiling : Policy) (e : AllowEntry) : Prop :=
  ceiling.allow = [] ∨ ∃ c ∈ ceiling.allow, entryKey c = entryKey e

end Conduit.Egress
