import ConduitModel.Model.Errs

/-!
C20 — specification-side notions for error classification.

* `Layer` / `applyAll`: a chain of *plain wrappers* put around an error on its way up.
* `Class` / `classOf`: the classification the rest of the system reads off an error.
* `goodSite`: when a `cerrors.Errorf` call site keeps every error passed at a `%w` position
  reachable for `errors.As/Is` (what "annotating" must mean for the property to hold).
-/
namespace Conduit.Errs

/-- One wrapping step as the code base performs it (real constructor semantics):
* `errorf fmt pre post` — `cerrors.Errorf(fmt, pre…, e, post…)`
* `std k`    — a transparent std-library / repo wrapper type of kind `k`
* `fatal`    — `cerrors.FatalError(e)`
* `join pre post` — `cerrors.Join(pre…, e, post…)`
* `cwrap c`  — `conduiterr.Wrap(c, msg, e)` -/
inductive Layer where
  | errorf (fmt : List Nat) (pre post : List Val)
  | std (k : String)
  | fatal
  | join (pre post : List E)
  | cwrap (c : Code)

/-- the value a layer builds around a non-nil error (never nil). -/
def Layer.app : Layer → Err → Err
  | .errorf fmt pre post, e => Errs.errorf fmt (pre ++ Val.err e :: post)
  | .std k, e => .wrap k e
  | .fatal, e => if isFatalErr e then e else .fatal e
  | .join pre post, e => .join ((pre ++ some e :: post).filterMap id)
  | .cwrap c, e => Errs.cwrap c (some e)

def applyAll : List Layer → Err → Err
  | [], e => e
  | l :: ls, e => l.app (applyAll ls e)

/-- A *plain wrapper*: keeps its argument as the only thing below the layer's own node and adds
no classification of its own (Errorf with a `%w` that xerrors honours, transparent wrapper types,
the fatal mark, a Join whose other arguments are nil). -/
def Layer.Plain : Layer → Prop
  | .errorf fmt pre post => errorfIdx fmt (pre.length + 1 + post.length) = some pre.length
  | .std k => k ≠ "val"
  | .fatal => True
  | .join pre post => (∀ x ∈ pre, x = none) ∧ (∀ x ∈ post, x = none)
  | .cwrap _ => False

/-- The layer keeps its argument as the FIRST classified thing `errors.As` meets: plain wrappers,
`conduiterr.Wrap` (passes an inner code through), and `Join(e, more…)`. -/
def Layer.KeepsFirst : Layer → Prop
  | .errorf fmt pre post => errorfIdx fmt (pre.length + 1 + post.length) = some pre.length
  | .std k => k ≠ "val"
  | .fatal => True
  | .join pre _ => ∀ x ∈ pre, x = none
  | .cwrap _ => True

/-- The layer keeps its argument reachable at all (possibly after siblings). -/
def Layer.Keeps : Layer → Prop
  | .errorf fmt pre post => errorfIdx fmt (pre.length + 1 + post.length) = some pre.length
  | _ => True

/-- what the engine reads off an error. -/
structure Class where
  fatal : Bool
  code : Option Code
  status : Option Status
  canceled : Bool
  env : Bool
deriving DecidableEq, Repr

def classOf (cfg : ExitCfg) (e : Err) : Class :=
  { fatal := isFatalErr e
    code := getErr e
    status := grpcFromError e
    canceled := isErr (.sentinel cfg.canceled) e
    env := isEnvironmentSentinel cfg e }

/-- the exit code as a function of the classification alone. -/
def exitOfClass (cfg : ExitCfg) (c : Class) : Nat :=
  if c.canceled then cfg.ok
  else match c.code with
    | some k => fromGRPCCode cfg k.grpc
    | none =>
      match c.status with
      | some st => fromGRPCCode cfg st.grpc
      | none => if c.env then cfg.environment else cfg.runtime

/-- A `cerrors.Errorf(fmt, <argc args>)` call site annotates without losing classification:
the argument of every `%w` directive (when the call passes one: directive index < argc) is the
one `Errorf` wraps — so at most one `%w` with an argument, in a position xerrors honours — and no
directive shifts argument indices (`*`, `[n]`) or holds non-ASCII bytes. -/
def goodSiteOf (pw : PW) (idx : Option Nat) (argc : Nat) : Bool :=
  !pw.exotic && pw.ws.all fun i => decide (argc ≤ i) || idx == some i

def goodSite (fmt : List Nat) (argc : Nat) : Bool :=
  match parsePercentW fmt with
  | pw => goodSiteOf pw (errorfIdxOf (hasSuffix fmt sufW) (hasSuffix fmt sufS || hasSuffix fmt sufV) pw argc) argc

/-- little-endian base-256 decoding of a format (how `factgen` ships format strings). -/
def bytesOf : Nat → Nat → List Nat
  | 0, _ => []
  | len + 1, n => n % 256 :: bytesOf len (n / 256)

/-- the format `funnel/worker.go` (Worker.Nack) used at the pinned commit (F10): `funnel/worker.go` (Worker.Nack): "%w (while handling: %w)" -/
def fmtWhileHandling : List Nat :=
  [37, 119, 32, 40, 119, 104, 105, 108, 101, 32, 104, 97, 110, 100, 108, 105, 110, 103, 58, 32, 37, 119, 41]

/-- An error-PROPAGATION site (a call that builds an error from error values) keeps every error
it is given: `kind` 0 = `cerrors.Errorf` (xerrors): the site is a `goodSite` and every
error-valued argument sits on a `%w` directive; 1 = `fmt.Errorf` (wraps every `%w` operand): every
error-valued argument sits on a `%w`; anything else (text made from an error with `New`, a
non-constant format) flattens. -/
def propSiteOk (kind : Nat) (fmt : List Nat) (argc : Nat) (errArgs : List Nat) : Bool :=
  match parsePercentW fmt with
  | pw =>
    if kind = 0 then
      goodSiteOf pw (errorfIdxOf (hasSuffix fmt sufW) (hasSuffix fmt sufS || hasSuffix fmt sufV) pw argc) argc &&
        errArgs.all fun i => pw.ws.contains i
    else if kind = 1 then !pw.exotic && errArgs.all fun i => pw.ws.contains i
    else false

/-- formats of the v1 nack route, clean tree (bytes): the three `…: %w` wrappers between the nack
handler's error and the classifier. -/
def fmtNacking : List Nat :=      -- "error while nacking message: %w"   (DestinationAckerNode.handleAck)
  [101, 114, 114, 111, 114, 32, 119, 104, 105, 108, 101, 32, 110, 97, 99, 107, 105, 110, 103, 32, 109, 101, 115,
   115, 97, 103, 101, 58, 32, 37, 119]
def fmtAcking : List Nat :=       -- "error while acking message: %w"
  [101, 114, 114, 111, 114, 32, 119, 104, 105, 108, 101, 32, 97, 99, 107, 105, 110, 103, 32, 109, 101, 115, 115,
   97, 103, 101, 58, 32, 37, 119]
def fmtNodeStopped : List Nat :=  -- "node %s stopped with error: %w"    (lifecycle.Service.runPipeline)
  [110, 111, 100, 101, 32, 37, 115, 32, 115, 116, 111, 112, 112, 101, 100, 32, 119, 105, 116, 104, 32, 101, 114,
   114, 111, 114, 58, 32, 37, 119]

/-- from the error a nack handler chain returns to what `lifecycle.Service` classifies:
`Join(handlerErr, nil)` (Message.RegisterStatusHandler) → handleAck's wrap → runPipeline's wrap. -/
def nackRouteLayers : List Layer :=
  [.errorf fmtNodeStopped [.other] [], .errorf fmtNacking [] [], .join [] [none]]

/-- the ack route: the ack handler is registered first, so its error is joined twice. -/
def ackRouteLayers : List Layer :=
  [.errorf fmtNodeStopped [.other] [], .errorf fmtAcking [] [], .join [none] [], .join [] [none]]

end Conduit.Errs
