import ConduitModel.Model.Funnel

/-
Property monitors for the arch-v2 engine: predicates over the observable event log of a case
(processor calls, destination writes, DLQ writes, source acks) together with the case's inputs
(source batches, plugin reply scripts, task tree). They are the C01/C04/C05/C07/C08 statements
restricted to what one pipeline run exhibits, and are evaluated on every implementation trace
(and on the model's own trace).

Lineage convention of the harness generators: a record derived from source record `r` (modified
by a processor, or a piece of a split) carries a tag with the same `tag % 1000` — the *root*.
-/
namespace Conduit.Funnel.Mon
open Conduit.Funnel

def root (r : Rec) : Nat := r.tag % 1000

mutual
/-- destinations (task ids) of a tree (structural recursion through `destsL`, so that the kernel can
unfold it: a `partial def` is opaque to proofs) -/
def dests : TaskNode → List Nat
  | .mk id k next => (if k == .dest then [id] else []) ++ destsL next
/-- `(next.map dests).flatten` -/
def destsL : List TaskNode → List Nat
  | [] => []
  | n :: ns => dests n ++ destsL ns
end

def replyOfCall (scripts : List (Nat × List Reply)) (task call : Nat) : Option Reply :=
  ((scripts.find? (·.1 == task)).map (·.2)).bind (·[call]?)

/-- which of the written records (by their `Position` field) the engine accepts as positively
confirmed, following the bounded ack loop of `DestinationTask.Do`: responses are consumed
while they are valid (no error response, not more acks than records left, positions match);
a record is confirmed when its ack carries no error. -/
def confirmedLoop (positions : List PosV) : Nat → Nat → List AckResp → List Bool → List Bool
  | 0, _, _, acc => acc
  | _, _, [], acc => acc
  | fuel+1, ackCount, r :: rest, acc =>
    match r with
    | .err _ => acc
    | .acks l =>
      if !validateAcks l (positions.drop ackCount) then acc else
      let acc := acc ++ l.map (·.2.isNone)
      let ackCount := ackCount + l.length
      if ackCount ≥ positions.length then acc else confirmedLoop positions fuel ackCount rest acc

/-- was the `j`-th record of the `call`-th write of destination `task` positively confirmed? -/
def confirmed (scripts : List (Nat × List Reply)) (task call j : Nat) (positions : List PosV) : Bool :=
  match replyOfCall scripts task call with
  | some (.dest none acks) => ((confirmedLoop positions positions.length 0 acks [])[j]?).getD false
  | _ => false

structure St where
  /-- number of calls seen so far per task id -/
  calls : List (Nat × Nat) := []
  /-- roots filtered by some processor so far -/
  filtered : List Nat := []
  /-- roots for which some processor returned an error record so far -/
  errored : List Nat := []
  /-- per destination: (root, exact tag, confirmed) of every record written so far -/
  written : List (Nat × Nat × Nat × Bool) := []
  /-- roots with a confirmed DLQ write / with any DLQ write -/
  dlqOk : List Nat := []
  dlqAny : List Nat := []
  /-- source records not yet acked, in read order -/
  pending : List Rec := []
  violations : List String := []

def callNo (s : St) (task : Nat) : Nat := ((s.calls.find? (·.1 == task)).map (·.2)).getD 0

def bump (s : St) (task : Nat) : St :=
  if (s.calls.find? (·.1 == task)).isSome then
    { s with calls := s.calls.map fun (t, n) => if t == task then (t, n+1) else (t, n) }
  else { s with calls := s.calls ++ [(task, 1)] }

def viol (s : St) (m : String) : St := { s with violations := s.violations ++ [m] }

/-- one event of the log -/
def step (tree : TaskNode) (scripts : List (Nat × List Reply)) (s : St) : Ev → St
  | .pcall task recs =>
    let call := callNo s task
    let s := bump s task
    match replyOfCall scripts task call with
    | some (.proc out) =>
      let fs := (recs.zip out).filterMap fun (r, o) => match o with
        | .filter => some (root r)
        | .multi [] => some (root r)
        | _ => none
      let es := (recs.zip out).filterMap fun (r, o) => match o with
        | .error _ => some (root r)
        | _ => none
      { s with filtered := s.filtered ++ fs, errored := s.errored ++ es }
    | _ => s
  | .write task recs =>
    let call := callNo s task
    let s := bump s task
    -- C05: order and no duplicate write to the same destination
    -- order is per (destination, source): roots of source k are k*100+1 … k*100+99
    let src := (recs.head?.map fun r => root r / 100).getD 0
    let prev := s.written.filter fun w => w.1 == task && w.2.1 / 100 == src
    let lastRoot := (prev.getLast?.map (·.2.1)).getD 0
    let s := if recs.any (fun r => prev.any (fun w => w.2.2.1 == r.tag)) then viol s s!"C05 duplicate write to t{task}" else s
    let rec mono (last : Nat) : List Rec → Bool
      | [] => true
      | r :: rs => decide (last ≤ root r) && mono (root r) rs
    let s := if mono lastRoot recs then s else viol s s!"C05 out-of-order write to t{task}"
    let entries := (List.range recs.length).filterMap fun j => recs[j]?.map fun r =>
      (task, root r, r.tag, confirmed scripts task call j (recs.map (·.pos)))
    { s with written := s.written ++ entries }
  | .dlqw task recs =>
    let call := callNo s task
    let s := bump s task
    let rs := recs.map (·.1)
    -- C07: at most one confirmed DLQ write per record, DLQ in source order
    let s := if rs.any (fun r => s.dlqOk.contains (root r)) then viol s "C07 record written to the DLQ twice" else s
    let srcq := (rs.head?.map fun r => root r / 100).getD 0
    let lastRoot := ((s.dlqAny.filter (· / 100 == srcq)).getLast?).getD 0
    let s := if (rs.map root).all (fun x => decide (lastRoot ≤ x)) then s else viol s "C07 DLQ writes out of source order"
    -- leading confirmed records of this write
    let oks := ((List.range rs.length).map fun j => match rs[j]? with
      | some _ => confirmed scripts task call j (rs.map (·.pos))
      | none => false).takeWhile id
    { s with dlqAny := s.dlqAny ++ rs.map root, dlqOk := s.dlqOk ++ (rs.take oks.length).map root }
  | .sack ps =>
    ps.foldl (fun s p =>
      match s.pending with
      | [] => viol s "C04 ack beyond the records read"
      | r :: rest =>
        -- C04: acks follow read order exactly
        let s := if keyOf r.pos == keyOf p then s else viol s s!"C04 ack out of order (expected {keyOf r.pos}, got {keyOf p})"
        let s := { s with pending := rest }
        -- C01: justified
        let viaDlq := s.dlqOk.contains (root r)
        let viaDests := (dests tree).all fun d =>
          let ws := s.written.filter fun w => w.1 == d && w.2.1 == root r
          ws.all (·.2.2.2) && (!ws.isEmpty || s.filtered.contains (root r))
        -- C08: a record a processor errored on, or of which a destination rejected a piece, has
        -- exactly one outcome: dead-lettered (never delivered-and-acked as a success)
        let failedPiece := s.written.any fun w => w.2.1 == root r && !w.2.2.2
        let s := if (s.errored.contains (root r) || failedPiece) && !viaDlq then
            viol s s!"C08 record {root r} failed (processor error / rejected piece) but was acked without being dead-lettered" else s
        -- C07: a failed DLQ write never results in an ack
        let s := if s.dlqAny.contains (root r) && !viaDlq then viol s s!"C07 record {root r} acked after an unconfirmed DLQ write" else s
        if viaDlq || viaDests then s else viol s s!"C01 unjustified ack of record {root r}") s

/-- hypothesis of C01/C04/C05/C07/C08: the source connector emits distinct, non-empty positions
(the engine refuses anything else; C09 covers that it does so without crashing). -/
def sourceWellFormed (batches : List (List Rec)) : Bool :=
  let ps := batches.flatten.map (·.pos)
  ps.all (fun p => !posEmpty p) && (ps.map keyOf).eraseDups.length == ps.length

/-- final monitor state after the whole log -/
def runSt (tree : TaskNode) (scripts : List (Nat × List Reply)) (batches : List (List Rec)) (log : List Ev) : St :=
  log.foldl (step tree scripts) { pending := batches.flatten }

/-- C06 (arch-v2): when a graceful stop has completed without error, no record is left half-handled:
every record that reached a destination or the DLQ has been acknowledged to the source. -/
def halfHandled (tree : TaskNode) (scripts : List (Nat × List Reply)) (batches : List (List Rec)) (log : List Ev) : List String :=
  if !sourceWellFormed batches then [] else
  let s := runSt tree scripts batches log
  (s.pending.filter fun r => (s.written.any fun w => w.2.1 == root r) || s.dlqAny.contains (root r)).map fun r =>
    s!"C06 record {root r} reached a destination or the DLQ but was not acknowledged when the stop completed"

def run (tree : TaskNode) (scripts : List (Nat × List Reply)) (batches : List (List Rec)) (log : List Ev) : List String :=
  if !sourceWellFormed batches then [] else
  (log.foldl (step tree scripts) { pending := batches.flatten }).violations

end Conduit.Funnel.Mon
