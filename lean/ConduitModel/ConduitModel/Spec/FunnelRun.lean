import ConduitModel.Model.Funnel

/-
The whole run of one case of the arch-v2 engine: the source batches are handed to `runPass` one
after the other, exactly as `Driver/Funnel.lean` `runCase` does it — the split-run heap and the
fan-out tallies are fresh per pass (`heap := #[]`, `mas := #[]`), everything else (event log, DLQ
window, remaining plugin scripts, remaining fan-out orders) carries over; the run stops at the
first pass that returns an error or panics. Core-only.
-/
namespace Conduit.Funnel

/-- run the passes of `batches` in sequence; stop at the first error -/
def runBatches (fuel : Nat) (tree : TaskNode) : List (List Rec) → M Unit
  | [] => pure ()
  | b :: bs => do
    modify fun s => { s with heap := #[], mas := #[] }
    runPass fuel tree b
    runBatches fuel tree bs

end Conduit.Funnel
