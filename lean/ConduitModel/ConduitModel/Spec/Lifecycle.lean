/-
Trace-level statement of the observable clauses of C10 / C11 / C12 (monitors).

A trace is the list of `(token, millisecond)` pairs recorded by `harness/cmd/h_lifecycle` (token
vocabulary: see `Driver/Lifecycle.lean`). Each monitor is a fold; `monitors` returns the name of
the first clause that fails, `none` when all hold. The model-level theorems (Props/C10–C12) say
that every run of M5 inside their hypotheses satisfies the state-level form of these clauses; the
monitors are evaluated on every implementation trace the model accepted.
Core-only.
-/
namespace Conduit.Lifecycle.Spec

abbrev Tok := String × Nat

structure MSt where
  userStartPending : Bool := false   -- between c:start and r:start
  stopped   : Bool := false          -- a stop request returned ok since the last c:start
  forced    : Bool := false          -- … and it was a force stop
  forcedDeg : Bool := false          -- S:deg seen since that force stop was called
  forcePending : Bool := false       -- between c:stop:f and its return
  userStop  : Bool := false          -- a graceful user stop returned ok; nothing else since
  sysStop   : Bool := false          -- StopAll returned while the pipeline was running; nothing else since
  fatalInj  : Bool := false          -- a fatal failure was injected since the last c:start
  fatalSeenStatus : Bool := false    -- first status write after the fatal injection already checked
  srcOpen   : Bool := false
  xOpen     : List String := []      -- additional sources (k ≥ 2) whose plugin is open
  openedInCall : List String := []   -- plugins opened since the last c:start ("1" = the primary source)
  runWriteFailed : Bool := false     -- an UpdateStatus(Running) failed during the user's Start call
  nestedFlight : Bool := false       -- a nested Start logged "starting pipeline", no StatusRunning write since
  startLogs : Nat := 0               -- "starting pipeline" lines seen during the user's current Start call
  nestedInCall : Bool := false       -- a recovery's nested Start began during the user's Start call
  lastStatus : String := "user"
  lastRecAt : Option Nat := none     -- time of the last S:rec:ok not yet followed by a nested start
  lastBoAt  : Option Nat := none     -- time of the last "restarting with backoff" log line, likewise
  restarts  : List Nat := []         -- times of nested (recovery) starts
  written   : List String := []      -- positions written to the destination
  longest   : Nat := 0               -- largest excess of a back-off over MaxDelay seen (ms)
  stall     : Nat := 0               -- scheduling stall measured by the harness during the case (ms)
  injSince  : Bool := false          -- a failure was injected since the last accepted user Start
  sawStopAll : Bool := false         -- v2: isGracefulShutdown is set for the rest of the process
  bad       : Option String := none

def flag (m : MSt) (why : String) : MSt := if m.bad.isSome then m else { m with bad := some why }

def posOk (written : List String) (q : Nat) : Bool :=
  (List.range q).all fun i => written.contains (toString (i + 1))

def stepM (isV2 : Bool) (minD maxD : Nat) (m : MSt) (t : Tok) : MSt :=
  let (tok, ms) := t
  match tok.splitOn ":" with
  | ["c", "start"] =>
    -- a recovery's nested Start that has logged "starting" and not yet written Running overlaps this call
    { m with userStartPending := true, openedInCall := [], nestedInCall := m.nestedFlight, runWriteFailed := false,
             startLogs := 0 }
  | ["r", "start", "err"] =>
    -- C11 "once a run has ended its connectors … are released": a Start that failed must have torn down
    -- every plugin it opened (v2 runPipeline rollback; in v1 Start returns before the nodes open)
    let leaked := m.openedInCall.any fun k => if k = "1" then m.srcOpen else m.xOpen.contains k
    -- (a Start that fails only because its StatusRunning write failed leaves a live run behind: store
    --  failures are outside this clause)
    let m := if leaked ∧ !m.nestedInCall ∧ !m.runWriteFailed then flag m "failed-start-leaks-open-plugin" else m
    { m with userStartPending := false }
  | ["r", "start", _] => { m with userStartPending := false }
  | ["DOF", _] => { m with injSince := true }
  | ["r", "stop", _, "notrunning"] =>
    let m := { m with forcePending := false }
    if m.srcOpen ∧ m.lastStatus = "run" then flag m "stop-refused-on-running-pipeline" else m
  | ["r", "saw", "notrunning"] =>
    if m.srcOpen ∧ m.lastStatus = "run" then flag m "stop-refused-on-running-pipeline" else m
  | ["c", "stop", "f"] => { m with forcePending := true }

  | ["r", "stop", f, "ok"] =>
    { m with stopped := true, forced := m.forced || f = "f", forcePending := false,
             userStop := f = "g" && !m.forced && !m.injSince, sysStop := false }
  | ["r", "saw", "ok"] => { m with stopped := true, userStop := !m.forced && !m.injSince, sysStop := false }
  | ["c", "stopall", f] => { m with sawStopAll := isV2, forcePending := f = "f" }
  | ["r", "stopall", f] =>
    if m.lastStatus = "run" || (isV2 && m.lastStatus = "rec") then
      { m with stopped := true, sysStop := !m.forced && !m.injSince && f = "g" && !m.userStop, userStop := false,
               forced := m.forced || f = "f" }
    else m
  | ["I", k] =>
    -- a failure injected after a stop request need not be the cause the run ends with
    if k = "F" ∧ !m.stopped then { m with fatalInj := true, fatalSeenStatus := false, userStop := false, sysStop := false, injSince := true }
    else { m with userStop := false, sysStop := false, injSince := true }
  | ["DTF", k] =>
    -- a FATAL teardown error is the only error of that run's end: whatever stop / shutdown is in
    -- progress, the pipeline must end Degraded with it (C10 terminal_status_matches_cause)
    if k = "F" then { m with fatalInj := true, fatalSeenStatus := false, userStop := false, sysStop := false, injSince := true }
    else { m with userStop := false, sysStop := false, injSince := true }
  | ["OF"] => { m with injSince := true }
  | ["L", "starting"] =>
    if m.userStartPending ∧ m.startLogs ≥ 1 then
      -- a second "starting pipeline" inside one user Start call: the user's Start and a recovery's nested
      -- Start overlap (which of the two lines is whose cannot be told)
      { m with nestedInCall := true, startLogs := m.startLogs + 1 }
    else if m.userStartPending then
      -- the user's Start passed its status check: a new epoch
      { m with startLogs := 1, stopped := false, forced := false, forcedDeg := false, forcePending := false,
               userStop := false, sysStop := false, fatalInj := false, fatalSeenStatus := false,
               restarts := [], lastRecAt := none, injSince := false }
    else
      -- a recovery restart
      let m := { m with nestedInCall := true, nestedFlight := true }
      let m := if m.stopped then flag m "restart-after-stop" else m
      let m := if m.fatalInj then flag m "restart-after-fatal" else m
      let m := match m.lastRecAt with
        | some t0 =>
          if ms + 1 < t0 + minD then flag m "backoff-too-short"
          else m
        | none => m
      -- upper bound: measured from the log line emitted right before the sleep
      let m := match m.lastBoAt with
        | some t1 => { m with longest := max m.longest (ms - (t1 + maxD)) }
        | none => m
      { m with restarts := ms :: m.restarts, lastRecAt := none, lastBoAt := none }
  | ["L", "backoff"] => { m with lastBoAt := some ms }
  | ["S", st, res] =>
    let m := if st = "run" ∧ res = "fail" then { m with runWriteFailed := true } else m
    let m := if st = "run" ∨ st = "deg" then { m with nestedFlight := false } else m
    let m := if res = "ok" then { m with lastStatus := st } else m
    let m := if st = "rec" ∧ res = "ok" then { m with lastRecAt := some ms } else m
    let m := if m.fatalInj ∧ !m.fatalSeenStatus ∧ st ≠ "run" then
               (if st = "deg" then { m with fatalSeenStatus := true } else flag m "fatal-not-degraded")
             else m
    let m := if (m.forced ∨ m.forcePending) ∧ st = "deg" then { m with forcedDeg := true } else m
    m
  | ["O", q] =>
    let m := if m.srcOpen then flag m "two-live-runs" else m
    let m := match q.toNat? with
      | some q => if posOk m.written q then m else flag m "restart-skips-unwritten-record"
      | none => m
    { m with srcOpen := true, openedInCall := "1" :: m.openedInCall }
  | ["T"] => { m with srcOpen := false }
  | [t] =>
    -- O<k> / T<k>: the plugin of additional source k opened / was torn down; OF<k>: its Open failed
    let k := (t.drop 1).toString
    if t.length ≥ 2 ∧ k.all Char.isDigit then
      if t.startsWith "O" then
        let m := if m.xOpen.contains k then flag m "plugin-opened-twice" else m
        { m with xOpen := k :: m.xOpen, openedInCall := k :: m.openedInCall }
      else if t.startsWith "T" then
        let m := if m.xOpen.contains k then m else flag m "plugin-torn-down-twice"
        { m with xOpen := m.xOpen.erase k }
      else m
    else if t.startsWith "OF" then { m with injSince := true }
    else m
  | ["W", p] => { m with written := p :: m.written }
  | ["A", p] => if m.written.contains p then m else flag m "ack-without-write"
  | ["STALL", k] => { m with stall := k.toNat?.getD 0 }
  | ["E", st, op] =>
    -- real timers are late by scheduling noise only: tolerance = 150 ms + 3 × the measured stall
    let m := if 150 + 3 * m.stall < m.longest then flag m "backoff-too-long" else m
    let m := if op = "1" ∧ st ≠ "run" then flag m "live-run-but-status-not-running" else m
    let m := if op = "0" ∧ st = "run" then flag m "status-running-but-no-run" else m
    let m := if st ≠ "run" ∧ st ≠ "rec" ∧ !m.xOpen.isEmpty then flag m "plugin-leaked-after-run-ended" else m
    let m := if m.forced ∧ !m.forcedDeg then flag m "force-stop-not-degraded" else m
    let m := if m.userStop ∧ st ≠ "user" ∧ !(m.sawStopAll ∧ st = "sys") then flag m "user-stop-wrong-final-status" else m
    let m := if m.sysStop ∧ st ≠ "sys" then flag m "shutdown-wrong-final-status" else m
    m
  | _ => m

/-- restarts inside any window: at most `maxRetries` (30 ms of timer slack). -/
def retriesOk (maxRetries : Option Nat) (window : Nat) (restarts : List Nat) : Bool :=
  match maxRetries with
  | none => true
  | some mr => restarts.all fun t => (restarts.filter fun u => u ≤ t ∧ t + 30 < u + window).length ≤ mr

def runMonitors (isV2 : Bool) (minD maxD : Nat) (tr : List Tok) : MSt :=
  tr.foldl (stepM isV2 minD maxD) {}

def monitors (isV2 : Bool) (minD maxD window : Nat) (maxRetries : Option Nat) (tr : List Tok) : Option String :=
  let m := runMonitors isV2 minD maxD tr
  match m.bad with
  | some w => some w
  | none => if retriesOk maxRetries window m.restarts then none else some "too-many-restarts-in-window"

end Conduit.Lifecycle.Spec
