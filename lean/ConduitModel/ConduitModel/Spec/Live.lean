import ConduitModel.Model.Live
import ConduitModel.Spec.Prov

/-!
C16 specification: the monitor evaluated on every `ApplyPlanLive` step of a history.
-/
namespace Conduit.Ctl

def evStr : Ev → String
  | .stop => "stop" | .start => "start" | .commit => "commit" | .reconf id => s!"reconf{id}"

def logStr (l : List Ev) : String := if l.isEmpty then "-" else ",".intercalate (l.map evStr)

/-- index of the first occurrence. -/
def evIndex (l : List Ev) (e : Ev) : Option Nat := l.findIdx? (· = e)

/-- the plan view computed now (`Plan(desired)`): `none` when Export fails. -/
def freshView (v : Variant) (m : Mem) (c : PipeCfg) : Option PlanView :=
  match exportPl v m c.id with
  | .error _ => none
  | .ok old => some (planView v old c)

/-- the plan presented by the caller: `sel = 0` the fresh one, `1` a bogus hash, `2` the plan
remembered from an earlier `Plan` call (`kept`; bogus if there is none). -/
def presentedPlan (v : Variant) (m : Mem) (c : PipeCfg) (sel : Nat) (kept : Option PlanView) : PlanView :=
  let bogus : PlanView := ([{ res := 9, id := 0, act := 9, restart := false, paths := ["bogus"], live := false }], c)
  match sel with
  | 0 => (freshView v m c).getD bogus
  | 2 => kept.getD bogus
  | _ => bogus

def changeStr (c : Change) : String :=
  let r := if c.res = 0 then "pipeline" else if c.res = 1 then "connector" else "processor"
  let a := if c.act = 0 then "create" else if c.act = 1 then "update" else "delete"
  s!"{r}:{c.id}:{a}:{if c.restart then "restart" else "in_place"}:{"+".intercalate c.paths}:{if c.live then 1 else 0}"

def viewStr (o : Option PlanView) : String :=
  match o with
  | none => "-"
  | some (chs, _) => if chs.isEmpty then "empty" else ",".intercalate (chs.map changeStr)

/-- The C16 monitor for one `ApplyPlanLive` step; `none` = holds. -/
def liveMonitor (v : Variant) (s : St) (c : PipeCfg) (allow : Bool) (sel : Nat) (kept : Option PlanView) (env : LiveEnv)
    (k : Option Nat) : Option String :=
  let s0 : St := { s with ctr := 0, failAt := k }
  let presented := presentedPlan v s.mem c sel kept
  -- stale = the presented plan is not the plan computed now (changes incl. config paths, desired)
  let stale : Bool := some presented != freshView v s.mem c
  let r := applyPlanLive v c presented allow env s0
  let n := s.next
  let pre := content n s
  let post := content n r.2.1
  let log := r.2.2
  -- the status the authorisation gate must judge: after the window in which an external Start may land
  let running := runningNow (flipState c env s) c.id
  let preFlip := content n (flipState c env s)
  let plan := match exportPl v s.mem c.id with | .ok old => build v 1 old c | .error _ => []
  let stillRunning := ((r.2.1.kv.pls c.id).map (fun p => isRunningStatus p.status)).getD false
  -- "a failed apply leaves configuration and the running pipeline unchanged … with a consistent
  -- stored configuration": memory (what the running pipeline and every reader see) must be as before
  -- (or as the external Start left it); the store must be as before OR equal to that memory. The
  -- second alternative matters only when the pre-state's store already lagged behind memory — what
  -- an EARLIER failed `Commit` leaves (F8, judged at that step): an in-place apply that fails and
  -- rolls back re-imports the old configuration, which brings the store in line with the unchanged
  -- memory. That is a repaired store, not a changed configuration.
  let sf := flipState c env s
  let memD (x : St) : String := dumpMaps n false x.mem.pls x.mem.cns x.mem.prs (memNames x)
  let kvD (x : St) : String := dumpMaps n false x.kv.pls x.kv.cns x.kv.prs []
  let memAsKv (x : St) : String := dumpMaps n false x.mem.pls x.mem.cns x.mem.prs []
  let memChanged : Bool := memD r.2.1 ≠ memD s && memD r.2.1 ≠ memD sf
  let kvChanged : Bool := kvD r.2.1 ≠ kvD s && kvD r.2.1 ≠ kvD sf && kvD r.2.1 ≠ memAsKv r.2.1
  let doubleFault : Bool := match k, r.1 with
    | some n, .error e => e ≠ .st && decide (n ≤ r.2.1.ctr)
    | _, _ => false
  if doubleFault then some "scope-end"
  else if stale && (okB r.1 || post ≠ pre || !log.isEmpty) then some "stale-applied"
  else if running && !allow && !plan.isEmpty && !stale && (okB r.1 || (post ≠ pre && post ≠ preFlip) || !log.isEmpty) then
    some "unauthorised-applied"
  else if running && !liveEligible plan && (evIndex log .commit).isSome &&
          !((evIndex log .stop).any fun i => (evIndex log .commit).any fun j => i < j) then some "mutate-before-drain"
  else if !okB r.1 && (memChanged || kvChanged) && stillRunning then
    (if (evIndex log .commit).isNone then some "failed-apply-commit"
     else if log.getLast? = some .stop then some "inplace-fallback-stop-failed"
     else some "failed-apply-left-running-changed")
  else none

end Conduit.Ctl
