import ConduitModel.Model.ProcNode

/-!
C13 property predicate on a state of the `ProcessorNode` model, in executable (Bool) form: the list of
named checks `C13.checks` and `C13.monitor` (first failing check, `none` = holds). It is evaluated by the
driver on every candidate state of every accepted implementation trace, and proved to hold in every
reachable model state (`Props/C13.lean`, `C13_monitor_holds`). Core-only.
-/
namespace Conduit.Model.ProcNode.C13

def pairwiseB {α : Type} (rel : α → α → Bool) : List α → Bool
  | [] => true
  | x :: xs => xs.all (rel x) && pairwiseB rel xs

def nodupB (l : List Nat) : Bool := pairwiseB (fun a b => a != b) l

/-- the checks: `(holds, name)`. `reqs` are the request ids to look at (the driver passes those of the trace). -/
def checks (reqs : List Nat) (s : State) : List (Bool × String) :=
  [ (nodupB (s.log.map (·.idx)), "record-processed-twice"),
    (pairwiseB (fun (x y : Stamp) => decide (y.ep ≤ x.ep ∧ y.idx < x.idx)) s.log, "generation-not-monotone"),
    (s.log.all (fun st => s.hist[st.ep]? == some st.gen), "stamp-not-in-history"),
    (nodupB s.hist, "generation-reused"),
    ((s.outc.map (·.idx)).reverse == List.range s.outc.length, "records-dropped-duplicated-or-reordered"),
    (s.nextIn == s.outc.length + (if s.pc.inflight.isSome then 1 else 0), "record-unaccounted"),
    (s.outc.all (fun o => (o.fwd != .passthrough) == s.log.any (·.idx == o.idx)), "processed-class-mismatch"),
    (s.hist.getLast? == some s.cur, "current-not-last-of-history"),
    (s.instRunning == (s.pc != .exited), "running-flag"),
    (reqs.all (fun r => match s.cst r with
        | .returned .ok => s.hist.contains r
        | .returned .openErr => !s.hist.contains r && s.claimed.contains r
        | .returned .rejected => !s.claimed.contains r && !s.opened.contains r
        | _ => true), "result-inconsistent"),
    (s.withdrawn.all (fun r => !s.claimed.contains r && !s.opened.contains r), "withdrawn-request-applied"),
    (nodupB (s.torn.map (·.1)), "processor-torn-down-twice"),
    (s.torn.all (fun t => !t.2 || s.pc == .exited), "plain-teardown-before-exit"),
    (s.pc != .exited || s.opened.all (fun g => (s.torn.map (·.1)).contains g), "opened-processor-leaked") ]

/-- first failing check. -/
def monitor (reqs : List Nat) (s : State) : Option String :=
  (checks reqs s).findSome? (fun c => if c.1 then none else some c.2)

end Conduit.Model.ProcNode.C13
