import ConduitModel.Model.Prov
import ConduitModel.Spec.Ctl

/-!
C15 specification over M6 + provisioning: what "converges", "idempotent", "fails atomically"
and "position kept" mean, as `Prop`s for the theorems and as the executable monitor.
-/
namespace Conduit.Ctl

/-- ids of all processors of a config. -/
def PipeCfg.procIds (c : PipeCfg) : List Id := (c.conns.flatMap fun x => x.procs.map (·.id)) ++ c.procs.map (·.id)

def procCfgValid (r : ProcCfg) : Bool := prPluginKnown r.plugin && decide (1 ≤ r.workers)

def connCfgValid (c : ConnCfg) : Bool :=
  (c.typ = 1 || c.typ = 2) && c.plugin ≠ 0 && c.name ≠ 0 && c.name ≠ 99 && c.procs.all procCfgValid

/-- a valid pipeline configuration (what `config.Validate` + the services' own validation
accept), relative to the other pipelines' names. -/
def cfgValid (m : Mem) (c : PipeCfg) : Bool :=
  c.name ≠ 0 && c.name ≠ 99 &&
  (!m.names c.name || (m.pls c.id).any (·.name = c.name)) &&
  dlqValid c.dlq &&
  c.conns.all connCfgValid && c.procs.all procCfgValid &&
  nodupB (c.conns.map (·.id)) && nodupB c.procIds

/-- export of the pipeline equals the configuration, field by field (incl. order, workers, conditions). -/
def Converged (v : Variant) (m : Mem) (c : PipeCfg) : Prop := exportPl v m c.id = .ok (some c)

instance (v : Variant) (m : Mem) (c : PipeCfg) : Decidable (Converged v m c) := by
  unfold Converged; infer_instance

/-- stored position of every connector that persists with the same id and type is kept. -/
def PositionsKept (pre post : Mem) (c : PipeCfg) : Prop :=
  ∀ x ∈ c.conns, ∀ old, pre.cns x.id = some old → old.typ = x.typ →
    ∃ new, post.cns x.id = some new ∧ new.state = old.state

/-! ## printing configs (the harness prints the real `Export` the same way) -/

def showProc (r : ProcCfg) : String := s!"R{r.id}:{r.plugin}:{r.settings}:{r.workers}:{r.cond}"

def showConn (c : ConnCfg) : String :=
  s!"C{c.id}:{c.typ}:{c.plugin}:{c.name}:{c.settings}(" ++ ",".intercalate (c.procs.map showProc) ++ ")"

def showCfg (c : PipeCfg) : String :=
  "/".intercalate ([s!"P{c.id}:{c.name}:{c.desc}:{c.dlq.plugin}:{c.dlq.settings}:{c.dlq.ws}:{c.dlq.thr}"] ++
    c.conns.map showConn ++ c.procs.map showProc)

def showExport (v : Variant) (m : Mem) (pid : Id) : String :=
  match exportPl v m pid with
  | .error _ => "err"
  | .ok none => "none"
  | .ok (some c) => showCfg c

def showPlan (v : Variant) (m : Mem) (c : PipeCfg) : String :=
  match planSize v m c with
  | .error _ => "-"
  | .ok n => toString n

def positionsKeptB (pre post : Mem) (c : PipeCfg) : Bool :=
  c.conns.all fun x =>
    match pre.cns x.id with
    | some old => if old.typ = x.typ then (post.cns x.id).any (·.state = old.state) else true
    | none => true

/-- memory with every connector position erased (to tell "only positions were lost" apart). -/
def Mem.noState (m : Mem) : Mem := { m with cns := fun j => (m.cns j).map fun c => { c with state := 0 } }

/-- the import itself went through and only `Commit` failed. -/
def commitFailed (v : Variant) (s : St) (c : PipeCfg) (k : Option Nat) : Bool :=
  let s0 : St := { s with ctr := 0, failAt := k }
  !s0.failsNow && okB (importPipeline v c 1 { s0 with ctr := 1, tx := some s0.kv }).1 && !okB (applyPlan v c s0).1

/-- The C15 monitor for one `ApplyPlan(c)` step (`k` = failing store-op index): `none` = holds;
`some "scope-end"` = the history left the single-failure scope (nothing after it is judged). -/
def importMonitor (v : Variant) (s : St) (c : PipeCfg) (k : Option Nat) : Option String :=
  let r := applyPlan v c { s with ctr := 0, failAt := k }
  let n := s.next
  let pre := content n s
  let post := content n r.2
  let running := ((s.mem.pls c.id).map (fun p => isRunningStatus p.status)).getD false
  -- two faults (an action refused by validation AND the injected store failure hit while rolling
  -- back) are outside the property's single-failure quantifier
  let doubleFault : Bool := match k, r.1 with
    | some n, .error e => e ≠ .st && decide (n ≤ r.2.ctr)
    | _, _ => false
  if doubleFault then some "scope-end"
  else if k.isNone && cfgValid s.mem c && !running && !okB r.1 then some "converge-refused"
  else if okB r.1 && cfgValid s.mem c && showExport v r.2.mem c.id ≠ showCfg c then some "converge"
  else if okB r.1 && cfgValid s.mem c && showPlan v r.2.mem c ≠ "0" then some "idempotent"
  else if !okB r.1 && post ≠ pre then
    (if commitFailed v s c k then some "failatomic-commit"
     else if content n { r.2 with mem := r.2.mem.noState } = content n { s with mem := s.mem.noState } then some "failatomic-state"
     else some "failatomic")
  else if okB r.1 && !positionsKeptB s.mem r.2.mem c then some "position"
  else if !memEqStoreB { r.2 with next := n } then some "memstore"
  else none

end Conduit.Ctl
