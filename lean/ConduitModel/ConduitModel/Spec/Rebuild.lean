import ConduitModel.Model.Rebuild

/-!
# C11 on build attempts: "once a run has ended its connectors and processors are released so the
pipeline can be started again" — restricted to the processor reservations and to `Start`'s build step.
-/
namespace Conduit.Rebuild
open Conduit.Funnel

/-! ## the property monitor (C11, build attempts) -/

inductive Verdict
  | ok
  /-- a build attempt returned an error and a reservation it made is still held -/
  | failedBuildKeepsReservations (step : Nat) (leaked : List Nat)
  /-- `Start`'s open phase failed and a reservation made for that run is still held -/
  | failedOpenKeepsReservations (step : Nat) (leaked : List Nat)
  /-- every run has ended and a reservation is still held -/
  | heldAfterAllRunsEnded (step : Nat) (heldIds : List Nat)
  /-- with no run live, a build's result differs from the result on the same configuration with nothing reserved -/
  | resultDependsOnHistory (step : Nat)
  deriving DecidableEq, Repr, Inhabited

/-- `noLeakAfterFailedBuild` and its companions, on the transitions of a run, first failure first:
* after an attempt that returned an error no reservation made by that attempt is held; the same after a
  `Start` whose open phase failed;
* once every live run has ended nothing is reserved;
* with no run live, a configuration builds iff it builds from scratch (a repaired configuration builds). -/
def monitorFrom (eng : Eng) (k : Nat) : List (St × Step × St × Obs) → Verdict
  | [] => .ok
  | (s, e, s', o) :: rest =>
    let v : Verdict :=
      match e, o with
      | .build, .built out h =>
        if s.live.isEmpty ∧ out ≠ (attempt eng [] [] s.cfg).1 then .resultDependsOnHistory k
        else if out ≠ .ok ∧ added s.held h ≠ [] then .failedBuildKeepsReservations k (added s.held h)
        else .ok
      | .start, .started out h =>
        let clean := (attempt eng [] [] s.cfg).1
        let dep : Bool := s.live.isEmpty && (match out with
          | .buildErr e => decide (clean ≠ .err e)
          | .plRunning => false
          | _ => decide (clean ≠ .ok))
        if dep then .resultDependsOnHistory k
        else match out with
          | .buildErr _ => if added s.held h ≠ [] then .failedBuildKeepsReservations k (added s.held h) else .ok
          | .openFailed => if added s.held h ≠ [] then .failedOpenKeepsReservations k (added s.held h) else .ok
          | _ => .ok
      | .teardown, .torn h => if h ≠ [] then .heldAfterAllRunsEnded k h else .ok
      | _, _ => if s'.held = s.held then .ok else .heldAfterAllRunsEnded k s'.held
    if v = .ok then monitorFrom eng (k+1) rest else v

def noLeakAfterFailedBuild (eng : Eng) (cfg : PipeCfg) (steps : List Step) : Verdict :=
  monitorFrom eng 0 (run eng { cfg } steps)

end Conduit.Rebuild
