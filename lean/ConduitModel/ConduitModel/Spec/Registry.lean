import ConduitModel.Model.Extract

/-!
Specification vocabulary of C19 (registry): what "inside the staging directory" means for a
file-system key, and the size of an extracted tree.
-/
namespace Conduit.Registry

/-- a normal path element: non-empty, not `.`/`..`, no separator inside. -/
def Normal (s : Seg) : Prop := s ≠ [] ∧ s ≠ dotSeg ∧ s ≠ dotdotSeg ∧ slash ∉ s

instance (s : Seg) : Decidable (Normal s) := by unfold Normal; exact inferInstance

/-- `q` lies strictly below the directory with components `D`, through normal elements only (no
`.`/`..`/empty element, so the key denotes literally that location: `D` is a proper prefix and
nothing climbs back out). -/
def Inside (D q : List Seg) : Prop := ∃ rel, q = D ++ rel ∧ rel ≠ [] ∧ ∀ s ∈ rel, Normal s

/-- total number of content bytes in the tree. -/
def sumSizes (l : List (List Seg × Nat)) : Nat := (l.map (·.2)).sum

/-- a root-level regular-file entry: a candidate for "the binary". -/
def isRootReg (e : Entry) : Bool := e.typ == .reg && !containsSlash (clean e.name)

/-- the string of a clean absolute directory path with elements `D`: `/D₁/…/Dₙ`. -/
def absPath (D : List Seg) : Path := slash :: joinSlash D

end Conduit.Registry
