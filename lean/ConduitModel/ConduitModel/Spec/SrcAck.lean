import ConduitModel.Model.SrcAck

/-!
Observable traces of the source-ack / persister system and the property monitors of
C02 / C03 / C06, defined once: the theorems of `Props/C02.lean`, `C03.lean`, `C06.lean` prove
them of every run of the model (`Proofs/SrcAckMon.lean`: `monitor_sound`), and the driver
evaluates the same function on every trace recorded from the implementation.

Observation points (process boundary): `Source.Ack` call, store transaction outcome, ack message
at the plugin stream, plugin Teardown call, return of `Source.Teardown` / `WaitPersisted`,
process death and the position handed to the plugin's `Open` on restart.
-/
namespace Conduit.SrcAck

inductive Obs
  | ack (ps : List Pos)                 -- engine calls Source.Ack(ps)
  | ackRet                              -- … and the call returned nil
  /-- a store transaction committed; `pos` the source's stored position, `reopen` the position a
  fresh process started on exactly this store content hands to the plugin's Open -/
  | commit (pos : Option Pos) (reopen : Option Pos)
  | flushFail (r : FlushRes)            -- NewTransaction / Set / Commit failed
  | sack (ps : List Pos)                -- ack message received by the source plugin
  | sendFail                            -- a stream.Send of an ack failed
  | tdBegin                             -- Source.Teardown called
  | pluginTd (ok : Bool)                -- plugin.Teardown called
  | tdRet (ok : Bool)                   -- Source.Teardown returned (ok = nil)
  | waited                              -- connectors.WaitPersisted returned
  | waitHang                            -- … did not return
  | crash
  | reopen (pos : Option Pos)           -- new process: plugin.Open(pos)
  | emit (p : Pos)                      -- the plugin handed out the record at position p
  | stopRet (pos : Option Pos)          -- Source.Stop returned pos (the v1 node's stop position)
  | nodeEnded                           -- SourceNode.Run returned after a graceful stop
  | nodeHang                            -- … did not return
deriving Repr, DecidableEq, Inhabited

structure Mon where
  /-- read index of the last successfully committed position (0 = none) -/
  committed : Nat := 0
  /-- largest position ever handed to Source.Ack -/
  handledMax : Nat := 0
  /-- largest position ever delivered to the plugin -/
  sackMax : Nat := 0
  /-- positions acked by the engine / delivered to the plugin in this incarnation -/
  acksI : List Pos := []
  sacksI : List Pos := []
  /-- last acked position of this incarnation (the reopen position before the first ack) -/
  hi : Nat := 0
  /-- 0: running, 1: Teardown called, 2: plugin torn down, 3: Teardown returned, 4: WaitPersisted returned -/
  td : Nat := 0
  ptd : Nat := 0
  /-- position of the last record the plugin handed out in this incarnation (0 = none) -/
  lastEmit : Nat := 0
  bad : Option String := none
deriving Repr, DecidableEq, Inhabited

def optN (p : Option Pos) : Nat := p.getD 0

def flag (m : Mon) (cond : Bool) (why : String) : Mon :=
  if m.bad.isNone && !cond then { m with bad := some why } else m

def maxL (l : List Nat) : Nat := l.foldl max 0

/-- one observation. `strictStop`: the run was made in a healthy environment — the harness injected
no store or send fault and held nothing, and the teardown budget cannot expire — so a nil return of
Teardown promises the C06 post-condition and the stop must complete. (A failed Send or flush that
shows up in such a run is the implementation's own doing, e.g. a stream it cancelled too early, and
excuses nothing.) Without `strictStop` faults were injected and bounded waits may expire: only the
clauses that hold unconditionally are checked. -/
def monStep (strictStop : Bool) (m : Mon) : Obs → Mon
  | .ack ps =>
    { m with handledMax := max m.handledMax (maxL ps), acksI := m.acksI ++ ps, hi := max m.hi (maxL ps) }
  | .commit pos reopen =>
    -- C02: the stored position never goes backwards, never becomes empty, and every record at
    -- or before it has been handled; C03: so it is never past an unhandled record
    let m := flag m (m.committed ≤ optN pos) "C02:store-went-backwards"
    let m := flag m (pos.isSome || m.committed == 0) "C02:store-became-empty"
    let m := flag m (optN pos ≤ m.handledMax) "C03:stored-position-past-unhandled-record"
    let m := flag m (reopen == pos) "C03:snapshot-reopens-at-other-position"
    -- C03/C06: `WaitPersisted` is the durability barrier of a stopped pipeline (its connectors may be
    -- re-created once it returned): no write of the stopped incarnation may land after it
    let m := flag m (m.td != 4) "C03:commit-after-durability-barrier"
    { m with committed := optN pos }
  | .ackRet => m
  | .flushFail _ => m
  | .sack ps =>
    -- C02: told only what is durable (also: a failed flush never acks); C03: upstream never
    -- told to discard beyond the store; C04 tail: strictly increasing
    let m := flag m (maxL ps ≤ m.committed) "C02:ack-delivered-before-durable"
    let m := flag m (ps.all (fun p => m.sackMax < p) || ps.isEmpty) "C02:ack-repeated-or-out-of-order"
    -- C02(iv)/C04 tail: what the plugin has been told is a prefix of what the engine acked
    let m := flag m ((m.sacksI ++ ps).isPrefixOf m.acksI) "C04:ack-sequence-gap"
    let m := flag m (m.td < 2) "C06:ack-after-plugin-teardown"
    { m with sackMax := max m.sackMax (maxL ps), sacksI := m.sacksI ++ ps }
  | .sendFail => m
  | .tdBegin => { m with td := 1 }
  | .pluginTd _ =>
    let m := flag m (m.ptd == 0) "C06:plugin-torn-down-twice"
    { m with td := 2, ptd := m.ptd + 1 }
  | .tdRet ok =>
    let m := flag m (m.ptd == 1) "C06:teardown-returned-without-exactly-one-plugin-teardown"
    if ok && strictStop then
      -- C06: graceful stop of a healthy pipeline completed
      let m := flag m (m.sacksI == m.acksI) "C06:acks-not-all-delivered-at-stop"
      let m := flag m (m.committed == m.hi) "C06:stored-position-not-last-acked-at-stop"
      { m with td := 3 }
    else { m with td := 3 }
  | .waited => { m with td := 4 }
  | .waitHang => flag m (!strictStop) "C06:stop-and-wait-did-not-complete"
  | .crash => m
  | .reopen pos =>
    -- C03: the source is reopened exactly at the durable position
    let m := flag m (optN pos == m.committed) "C03:reopened-at-other-than-stored-position"
    { m with acksI := [], sacksI := [], hi := optN pos, td := 0, ptd := 0, lastEmit := 0 }
  | .emit p => { m with lastEmit := p }
  -- C06: the stop position is the last record handed out in THIS run (empty if none): the v1 SourceNode
  -- ends only after reading exactly that record, so a position of an earlier run would keep it running
  | .stopRet pos => flag m (optN pos == m.lastEmit) "C06:stop-position-not-last-read"
  | .nodeEnded => m
  -- C06: in a healthy environment a graceful stop completes
  | .nodeHang => flag m (!strictStop) "C06:graceful-stop-did-not-complete"

def monRun (strictStop : Bool) (tr : List Obs) : Mon := tr.foldl (monStep strictStop) {}

/-- the property monitor: C02 ∧ C03 ∧ C06 on an observed trace -/
def holds (strictStop : Bool) (tr : List Obs) : Bool := (monRun strictStop tr).bad.isNone

end Conduit.SrcAck
