import ConduitModel.Model.StreamCondMerge

/-
Specification of the condition merge (C09, last sentence): "records that do not match pass
through unchanged in their original place and every result stays aligned with the record it
belongs to".

`spec` is the obvious reference: walk conditions, records and plugin results together; stop in
front of the first kept record for which the plugin returned nothing (a *short* result, which
the caller handles exactly like a short result of a processor without condition).
-/
namespace Conduit.Stream.CondMerge

/-- reference merge. -/
def spec {ρ τ : Type} : List Cond → List ρ → List τ → List (Out ρ τ)
  | [], _, _ => []
  | _ :: _, [], _ => []
  | .pass :: cs, r :: rs, ts => .single r :: spec cs rs ts
  | .keep :: cs, _ :: rs, t :: ts => .res t :: spec cs rs ts
  | .keep :: _, _ :: _, [] => []
  | .err :: _, _ :: _, [] => [.condErr]
  | .err :: _, _ :: _, _ :: _ => []

/-- number of kept records in front of position `j`: the plugin result that belongs to a kept
record at position `j` is `ts[rank cs j]`. -/
def rank : List Cond → Nat → Nat
  | _, 0 => 0
  | [], _ => 0
  | .keep :: cs, j+1 => rank cs j + 1
  | _ :: cs, j+1 => rank cs j

/-- number of records handed to the plugin (`len(keptRecords)`): kept records in front of the
first condition error. -/
def keptCount : List Cond → Nat
  | [] => 0
  | .err :: _ => 0
  | .keep :: cs => keptCount cs + 1
  | .pass :: cs => keptCount cs

/-- a condition evaluation failed. -/
def hasErr : List Cond → Bool
  | [] => false
  | .err :: _ => true
  | _ :: cs => hasErr cs

/-- `Aligned conds recs ts res`: every element of `res` sits at the index of the record it
belongs to. -/
def Aligned {ρ τ : Type} (conds : List Cond) (recs : List ρ) (ts : List τ) (res : List (Out ρ τ)) : Prop :=
  res.length ≤ conds.length ∧
  ∀ j : Nat, ∀ x, res[j]? = some x →
    (conds[j]? = some .pass → ∃ r, recs[j]? = some r ∧ x = .single r) ∧
    (conds[j]? = some .keep → ∃ t, ts[rank conds j]? = some t ∧ x = .res t) ∧
    (conds[j]? = some .err → x = .condErr)

end Conduit.Stream.CondMerge
