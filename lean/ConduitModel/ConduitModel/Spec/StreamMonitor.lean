import ConduitModel.Model.StreamEv

/-
Property monitors of the v1 pipeline clauses of C01 / C04 / C05 / C07: functions of a list of
observable events (DESIGN Appendix B vocabulary), NEWEST FIRST.

They are defined once, here, and used twice:
  * the theorems in Props/C0xStream.lean prove them of the log of every run of the model
    (every interleaving, every topology, every plugin reply script);
  * the driver evaluates them on every trace recorded from the real engine.
Because the log is newest-first, `mon (e :: rest)` judges event `e` against everything that
happened before it (`rest`), and a monitor that holds of a log holds of every earlier prefix.
-/
namespace Conduit.Stream

/-- destination `d` acknowledged `(s,i)` positively: some `Ack()` reply of `d` contains the
position with no error. -/
def dackOkIn (log : List Ev) (d s i : Nat) : Bool :=
  log.any fun e => match e with
    | .dreply d' acks => d' == d && acks.contains (some (s, i), true)
    | _ => false

/-- a processor on the way to destination `d` (in front of the fan-out, or on d's own chain)
filtered `(s,i)` out. -/
def filtIn (log : List Ev) (d s i : Nat) : Bool :=
  log.any fun e => match e with
    | .proc none s' i' .filter => s' == s && i' == i
    | .proc (some d') s' i' .filter => d' == d && s' == s && i' == i
    | _ => false

/-- the DLQ plugin confirmed the DLQ record of `(s,i)`. -/
def dlqaOkIn (log : List Ev) (s i : Nat) : Bool :=
  log.any fun e => match e with
    | .dlqa s' i' true => s' == s && i' == i
    | _ => false

/-- the DLQ plugin was handed `(s,i)`. -/
def dlqwIn (log : List Ev) (s i : Nat) : Bool :=
  log.any fun e => match e with
    | .dlqw s' i' _ => s' == s && i' == i
    | _ => false

/-- a DLQ write (or its acknowledgment) failed — for a record of source `s`. -/
def dlqFailOf (log : List Ev) (s : Nat) : Bool :=
  log.any fun e => match e with
    | .dlqw s' _ false => s' == s
    | .dlqa s' _ false => s' == s
    | _ => false

/-- … for any record. -/
def dlqFailAny (log : List Ev) : Bool :=
  log.any fun e => match e with
    | .dlqw _ _ false => true
    | .dlqa _ _ false => true
    | _ => false

def sackIn (log : List Ev) (s i : Nat) : Bool :=
  log.any fun e => match e with
    | .sack s' i' _ => s' == s && i' == i
    | _ => false

/-- number of `Source.Ack` calls source `s` has seen. -/
def sackCount (log : List Ev) (s : Nat) : Nat :=
  log.countP fun e => match e with
    | .sack s' _ _ => s' == s
    | _ => false

/-- number of records source `s` has produced. -/
def readCount (log : List Ev) (s : Nat) : Nat :=
  log.countP fun e => match e with
    | .read s' => s' == s
    | _ => false

/-- C01: the ack of `(s,i)` is justified by what happened before: every destination confirmed it
or a processor filtered it on the way there, or the DLQ confirmed it. -/
def justified (M : Nat) (log : List Ev) (s i : Nat) : Bool :=
  ((List.range M).all fun d => dackOkIn log d s i || filtIn log d s i) || dlqaOkIn log s i

/-- C01 monitor: every source ack is justified at the moment it happens. -/
def monC01 (M : Nat) : List Ev → Bool
  | [] => true
  | e :: rest => monC01 M rest && (match e with
      | .sack s i _ => justified M rest s i
      | _ => true)

/-- C04 monitor: the k-th ack a source receives is for its k-th record, and that record was
already produced: the acked sequence is at every instant a prefix of the read sequence. -/
def monC04 : List Ev → Bool
  | [] => true
  | e :: rest => monC04 rest && (match e with
      | .sack s i _ => i == sackCount rest s && decide (i < readCount rest s)
      | _ => true)

/-- everything destination `d` was given of source `s` so far has a smaller emit index than `i`. -/
def writesBefore (log : List Ev) (d s i : Nat) : Bool :=
  log.all fun e' => match e' with
    | .write d' s' j _ => !(d' == d && s' == s) || decide (j < i)
    | _ => true

/-- every DLQ record of source `s` so far has a smaller emit index than `i`. -/
def dlqBefore (log : List Ev) (s i : Nat) : Bool :=
  log.all fun e' => match e' with
    | .dlqw s' j _ => !(s' == s) || decide (j < i)
    | _ => true

/-- C05 monitor: what a destination is given is, per source, strictly increasing in the emit
index (read order, nothing twice), was read, and was not filtered out on the way. -/
def monC05 : List Ev → Bool
  | [] => true
  | e :: rest => monC05 rest && (match e with
      | .write d s i _ => writesBefore rest d s i && decide (i < readCount rest s) && !filtIn rest d s i
      | _ => true)

/-- C07 monitor (pipeline clauses):
  * a record reaches the DLQ at most once, DLQ records of one source in source order, never after
    it was acked, and nothing of a source reaches the DLQ after a DLQ write failed for that source
    (the `fail` latch of its SourceAckerNode; the node-wide `broken` state is checked by
    `DLQHandlerNode.Nack` *before* it takes its mutex, so a nack of ANOTHER source that is already
    waiting for the mutex still goes through — observed on the real engine, and not excluded by
    the property);
  * a record that went to the DLQ is acked to its source only after the DLQ confirmed it;
  * after a failed DLQ write of a record of source `s`, `s` is never acked again;
  * a DLQ reply belongs to the DLQ write in front of it. -/
def monC07 : List Ev → Bool
  | [] => true
  | e :: rest => monC07 rest && (match e with
      | .dlqw s i _ =>
        !dlqwIn rest s i && dlqBefore rest s i && !sackIn rest s i && !dlqFailOf rest s
      | .sack s i _ => (!dlqwIn rest s i || dlqaOkIn rest s i) && !dlqFailOf rest s
      | .dlqa s i _ => dlqwIn rest s i && !dlqaOkIn rest s i && !dlqFailOf rest s
      | _ => true)

end Conduit.Stream
