"""Global MANIFEST data (per-property texts live in cfg/Cxx.py)."""
HOOK_COMMITS = ["2cd5fda"]
NOT_APPLICABLE_REASON = {}
