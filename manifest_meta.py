"""Global MANIFEST data (per-property texts live in cfg/Cxx.py)."""
HOOK_COMMITS = ["2cd5fda", "3632d2a", "f47f3bd", "64e6418", "637a9e9", "ab8fa8e", "5420fb6", "e384fe0", "ff74804", "469e16e", "03360ef", "066eb92"]
NOT_APPLICABLE_REASON = {}
