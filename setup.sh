#!/bin/sh
# Offline setup: build factgen, regenerate facts from /repo, build the Lean project and the
# driver, and warm the Go build cache by building the harness once. Nothing is fetched.
set -e
cd "$(dirname "$0")"
export GOFLAGS=-mod=mod GOPROXY=off
unset GOSUMDB GOTOOLCHAIN || true
mkdir -p .work/bin evidence replays
(cd factgen && go build -o ../.work/bin/factgen .)
.work/bin/factgen -repo "${VERIF_REPO:-/repo}" -out lean/ConduitModel/ConduitModel/Generated -json .work/facts.json
(cd lean/ConduitModel && lake build)
rm -rf .work/setup_h && cp -r harness .work/setup_h && cp "${VERIF_REPO:-/repo}/go.sum" .work/setup_h/go.sum && sed -i "s#=> /repo#=> ${VERIF_REPO:-/repo}#" .work/setup_h/go.mod
(cd .work/setup_h && go build -tags verif -o ../bin/ ./cmd/... ) || echo "harness warm-up build failed (checks will report it)"
rm -rf .work/setup_h
echo setup done
