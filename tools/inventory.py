#!/usr/bin/env python3
"""Prints the inventory of property theorems per property (from cfg lean_modules), for DESIGN.md."""
import re, os, sys
sys.path.insert(0, os.path.dirname(os.path.dirname(os.path.abspath(__file__))))
from checkcfg import PROPS
L = os.path.join(os.path.dirname(os.path.dirname(os.path.abspath(__file__))), "lean", "ConduitModel")
def ths(mod):
    p = os.path.join(L, mod.replace(".", "/") + ".lean")
    src = re.sub(r"/-.*?-/", "", open(p).read(), flags=re.S)
    return re.findall(r"^\s*theorem\s+(\S+)", src, flags=re.M)
for pid in sorted(PROPS):
    names = []
    for m in PROPS[pid]["lean_modules"]:
        for t in ths(m):
            mm = re.match(r"(C\d\d)_", t)
            if mm is None or mm.group(1) == pid:
                names.append(t)
    print("* **%s** (%d): %s" % (pid, len(names), ", ".join("`%s`" % n for n in names)))
