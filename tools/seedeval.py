#!/usr/bin/env python3
"""
seedeval.py <property> <agent-out-dir> <name> [--checks C01,C09] [--tests ./pkg/a/... ./pkg/b/...]

Confirms a seeded defect delivered by a mutation sub-agent and measures whether the checks catch it:
 1. scratch worktree of /repo HEAD: patch applies, `go build ./...` ok, the given package tests pass
    WITH the change, the demonstration fails WITH the change and passes WITHOUT it;
 2. applies the patch to /repo itself, runs ./check for the listed properties, reverts it;
 3. writes /verif/seeded/<name>/{patch.diff, demo…, meta.json}.
"""
import sys, os, json, subprocess, shutil, re, argparse, time

ap = argparse.ArgumentParser()
ap.add_argument("prop"); ap.add_argument("src"); ap.add_argument("name")
ap.add_argument("--checks", default="")
ap.add_argument("--tests", nargs="*", default=[])
ap.add_argument("--skip-confirm", action="store_true")
a = ap.parse_args()
# the checks run in VERIF_ROOT (default /verif; a private copy keeps Generated/ and the Lean build of /verif undisturbed)
VROOT = os.environ.get("VERIF_ROOT", "/verif")

env = dict(os.environ, GOFLAGS="-mod=mod", GOPROXY="off")
env.pop("GOSUMDB", None); env.pop("GOTOOLCHAIN", None)

def sh(cmd, cwd=None, timeout=3600):
    p = subprocess.run(cmd, shell=True, cwd=cwd, env=env, stdout=subprocess.PIPE, stderr=subprocess.STDOUT, timeout=timeout)
    return p.returncode, p.stdout.decode("utf-8", "replace")

src = a.src
meta = json.load(open(os.path.join(src, "meta.json")))
patch = os.path.join(src, "patch.diff")
demos = [f for f in os.listdir(src) if f.endswith("_test.go") or (f.endswith(".go") and f not in ("patch.diff",))]
res = {"property": a.prop, "agent_meta": meta, "confirmed": {}, "checks": {}}
wt = "/tmp/sv_%s" % a.name
if not a.skip_confirm:
    sh("git -C /repo worktree remove --force %s" % wt)
    rc, out = sh("git -C /repo worktree add --detach %s HEAD" % wt)
    assert rc == 0, out
    try:
        # place demos
        placed = []
        for d in demos:
            head = open(os.path.join(src, d)).read(600)
            m = re.search(r"(pkg/[\w\-/\.]+|cmd/[\w\-/\.]+|tests/[\w\-/\.]+)", head)
            dest = m.group(1) if m else None
            if dest and dest.endswith(".go"):
                dest_path = os.path.join(wt, dest)
            elif dest:
                dest_path = os.path.join(wt, dest, d)
            else:
                raise SystemExit("cannot find placement of demo %s" % d)
            os.makedirs(os.path.dirname(dest_path), exist_ok=True)
            shutil.copy(os.path.join(src, d), dest_path)
            placed.append(os.path.relpath(dest_path, wt))
        demo_cmd = meta.get("demo_cmd", "")
        demo_cmd = re.sub(r"cd\s+\S+\s*&&\s*", "", demo_cmd)
        demo_cmd = re.sub(r"cp\s+\S+\s+\S+\s*&&\s*", "", demo_cmd)
        m = re.search(r"go test\s+(?:-[\w=.\'|$^*\\-]+\s+|'[^']*'\s+|\"[^\"]*\"\s+|\S+\s+)*?(\./\S+)", demo_cmd)
        if m:
            demo_cmd = demo_cmd[m.start():m.end()]  # drop prose after the package path
        res["confirmed"]["demo_cmd"] = demo_cmd
        res["confirmed"]["demo_placed"] = placed
        rc0, out0 = sh(demo_cmd, cwd=wt)
        res["confirmed"]["demo_passes_without_change"] = (rc0 == 0)
        rc, out = sh("git apply %s" % patch, cwd=wt)
        res["confirmed"]["patch_applies"] = (rc == 0)
        rc1, out1 = sh(demo_cmd, cwd=wt)
        res["confirmed"]["demo_fails_with_change"] = (rc1 != 0)
        res["confirmed"]["demo_output_tail"] = out1[-600:]
        rcb, outb = sh("go build ./... ", cwd=wt)
        res["confirmed"]["builds"] = (rcb == 0)
        # existing tests with the change (demo files removed so they do not count)
        for p in placed:
            os.remove(os.path.join(wt, p))
        if a.tests:
            rct, outt = sh("go test -count=1 -vet=off " + " ".join(a.tests), cwd=wt)
            res["confirmed"]["existing_tests_cmd"] = "go test -count=1 -vet=off " + " ".join(a.tests)
            res["confirmed"]["existing_tests_pass_with_change"] = (rct == 0)
            if rct != 0:
                res["confirmed"]["existing_tests_output_tail"] = outt[-1500:]
    finally:
        sh("git -C /repo worktree remove --force %s" % wt)
# run the checks against the change — in a scratch worktree (VERIF_REPO), /repo itself stays untouched
if a.checks:
    awt = "/tmp/sv_apply_%s" % a.name
    sh("git -C /repo worktree remove --force %s" % awt)
    rc, out = sh("git -C /repo worktree add --detach %s HEAD" % awt)
    assert rc == 0, out
    rc, out = sh("git apply %s" % patch, cwd=awt)
    assert rc == 0, out
    env["VERIF_REPO"] = awt
    try:
        for c in a.checks.split(","):
            t0 = time.time()
            ev = VROOT + "/evidence/%s.json" % c
            keep = open(ev).read() if os.path.exists(ev) else None
            rc, out = sh("./check %s --tier quick" % c, cwd=VROOT)
            if keep is not None:
                # the evidence file committed must come from a run on the unchanged tree
                open(ev, "w").write(keep)
            res["checks"][c] = {"exit": rc, "caught": rc == 1 and "VIOLATION" in out,
                                "lines": ([l for l in out.splitlines() if l.startswith("VIOLATION")][:3] +
                                          [l for l in out.splitlines() if l.startswith(("OK", "KNOWN"))][:3]),
                                "wall_s": round(time.time() - t0, 1)}
    finally:
        env.pop("VERIF_REPO", None)
        sh("git -C /repo worktree remove --force %s" % awt)
        # leave Generated/ in the state of the real repository
        sh(VROOT + "/.work/bin/factgen -repo /repo -out " + VROOT + "/lean/ConduitModel/ConduitModel/Generated -json /tmp/facts_restore_%s.json" % a.name)
dst = "/verif/seeded/%s" % a.name
os.makedirs(dst, exist_ok=True)
shutil.copy(patch, os.path.join(dst, "patch.diff"))
for d in demos:
    shutil.copy(os.path.join(src, d), os.path.join(dst, d))
old = {}
if os.path.exists(os.path.join(dst, "meta.json")):
    old = json.load(open(os.path.join(dst, "meta.json")))
if a.skip_confirm and old.get("what_was_run", {}).get("confirmed"):
    res["confirmed"] = old["what_was_run"]["confirmed"]
# keep earlier check results for properties not re-run now
for k, v in old.get("what_was_run", {}).get("checks", {}).items():
    res["checks"].setdefault(k, v)
out_meta = {"property": a.prop, "summary": meta.get("summary"), "needs_to_manifest": meta.get("needs_to_manifest"),
            "what_was_run": res}
json.dump(out_meta, open(os.path.join(dst, "meta.json"), "w"), indent=1)
print(json.dumps({"confirmed": res["confirmed"], "checks": res["checks"]}, indent=1)[:3000])
