#!/usr/bin/env python3
"""Regenerates seeded/RESULTS.md from seeded/*/meta.json."""
import json, glob, os
root = os.path.dirname(os.path.dirname(os.path.abspath(__file__)))
rows = []
for m in sorted(glob.glob(os.path.join(root, "seeded", "*", "meta.json"))):
    d = json.load(open(m)); name = os.path.basename(os.path.dirname(m))
    w = d.get("what_was_run", {}); c = w.get("confirmed", {})
    conf = "yes" if (c.get("demo_fails_with_change") and c.get("demo_passes_without_change") and c.get("builds", True) and c.get("existing_tests_pass_with_change", True)) else ("partly: " + ",".join(k for k in ("demo_fails_with_change", "demo_passes_without_change", "existing_tests_pass_with_change") if not c.get(k)))
    checks = []
    for k, v in sorted(w.get("checks", {}).items()):
        if v.get("caught"):
            nfi = all("no-failing-input-found" in l for l in v.get("lines", []) if l.startswith("VIOLATION"))
            checks.append("%s: caught%s" % (k, " (obligation/correspondence only)" if nfi else " (failing input)"))
        else:
            checks.append("%s: MISSED" % k)
    rows.append("| %s | %s | %s | %s | %s |" % (name, d.get("property"), (d.get("summary") or "")[:160].replace("|", "/").replace("\n", " "),
                                           conf, "; ".join(checks)))
with open(os.path.join(root, "seeded", "RESULTS.md"), "w") as f:
    f.write("# Seeded changes and detection results\n\nEach change was produced by a sub-agent that saw only the property text and a scratch worktree; "
            "confirmed = it builds, the touched packages' existing tests pass with it, the demonstration fails with it and passes without it "
            "(all re-run by tools/seedeval.py in a scratch worktree). Detection = `./check <prop> --tier quick` with the patch applied to /repo.\n\n"
            "| name | property | change | confirmed | checks |\n|---|---|---|---|---|\n" + "\n".join(rows) + "\n")
print("\n".join(rows))
